#!/usr/bin/env python3
"""X-py, Python side (C20): call the built extension module `ivp` on the cases written by `harness xpy` and print what
Python actually sees, in the line format of the Lean model's `py` driver.

usage: python3-vt py_cosim.py <prefix> <dir containing ivp.so>
writes <prefix>.impl (one line per op of <prefix>.ops) and prints JSON monitor lines (kind "pym") on stdout:
shape / dtype / success invariants of every result, `sol` shapes, and for sparsity cases that a pattern containing the
true structure changes neither t nor y (bit for bit) and that the groups actually used never hold two columns sharing
a row."""
import sys, json, struct

prefix, sodir = sys.argv[1], sys.argv[2]
sys.path.insert(0, sodir)
import numpy as np
from scipy.sparse import csc_matrix, coo_matrix, csr_matrix, lil_matrix
import ivp


def f(h):
    return struct.unpack(">d", bytes.fromhex(h))[0]


def hx(x):
    x = float(x)
    if x != x:
        return "7ff8000000000000"
    return struct.pack(">d", x).hex()


def hxs(xs):
    return ",".join(hx(v) for v in xs)


# ----------------------------------------------------------------------------------------------- problems
# the same operations in the same order as harness/src/problems.rs, so that results are comparable bit for bit
def problem(kind, use_args):
    """returns (fun, jac, const_jac, y0, args); with use_args the literal constants travel through `args`"""
    if kind == "Harmonic":
        cs = (1.0,)
        def fun(t, y, *a):
            return np.array([y[1], -y[0]])
        J = np.array([[0.0, 1.0], [-1.0, 0.0]])
        def jac(t, y, *a):
            return J.copy()
        return fun, jac, J, [1.0, 0.0], cs
    if kind == "Logistic":
        cs = (1.0,)
        def fun(t, y, one=1.0):
            return np.array([y[0] * (one - y[0])])
        def jac(t, y, one=1.0):
            return np.array([[one - 2.0 * y[0]]])
        return fun, jac, None, [0.1], cs
    if kind == "Decay3":
        cs = (-0.5, -2.0, -7.0)
        def fun(t, y, a=-0.5, b=-2.0, c=-7.0):
            return np.array([a * y[0], b * y[1], c * y[2]])
        J = np.diag([-0.5, -2.0, -7.0])
        def jac(t, y, *a):
            return J.copy()
        return fun, jac, J, [1.0, 2.0, 3.0], cs
    if kind == "Riccati":
        cs = (-2.0,)
        def fun(t, y, k=-2.0):
            return np.array([k * t * y[0] * y[0]])
        def jac(t, y, k=-2.0):
            return np.array([[-4.0 * t * y[0]]])
        return fun, jac, None, [1.0], cs
    if kind == "VdP":
        cs = (1.0,)
        def fun(t, y, one=1.0):
            return np.array([y[1], (one - y[0] * y[0]) * y[1] - y[0]])
        def jac(t, y, one=1.0):
            return np.array([[0.0, 1.0], [-2.0 * y[0] * y[1] - 1.0, one - y[0] * y[0]]])
        return fun, jac, None, [2.0, 0.0], cs
    if kind == "Mixed":
        cs = (0.1,)
        def fun(t, y, e=0.1):
            r = 1.0 - y[0] * y[0] - y[1] * y[1]
            return np.array([-y[1] + e * y[0] * r, y[0] + e * y[1] * r])
        def jac(t, y, e=0.1):
            r = 1.0 - y[0] * y[0] - y[1] * y[1]
            return np.array([[0.1 * (r - 2.0 * y[0] * y[0]), -1.0 - 0.2 * y[0] * y[1]],
                             [1.0 - 0.2 * y[0] * y[1], 0.1 * (r - 2.0 * y[1] * y[1])]])
        return fun, jac, None, [0.5, 0.0], cs
    if kind == "Slow":
        cs = (-0.01,)
        def fun(t, y, k=-0.01):
            return np.array([k * y[0], k * y[1]])
        J = np.array([[-0.01, 0.0], [0.0, -0.01]])
        def jac(t, y, *a):
            return J.copy()
        return fun, jac, J, [1.0, 2.0], cs
    if kind == "Robertson":
        cs = (0.04, 1.0e4, 3.0e7)
        def fun(t, y, a=0.04, b=1.0e4, c=3.0e7):
            return np.array([-a * y[0] + b * y[1] * y[2],
                             a * y[0] - b * y[1] * y[2] - c * y[1] * y[1],
                             c * y[1] * y[1]])
        def jac(t, y, a=0.04, b=1.0e4, c=3.0e7):
            return np.array([[-0.04, 1.0e4 * y[2], 1.0e4 * y[1]],
                             [0.04, -1.0e4 * y[2] - 6.0e7 * y[1], -1.0e4 * y[1]],
                             [0.0, 6.0e7 * y[1], 0.0]])
        return fun, jac, None, [1.0, 0.0, 0.0], cs
    raise ValueError(kind)


def make_event(e):
    a, b, c = f(e["a"]), [f(v) for v in e["b"]], f(e["c"])
    def ev(t, y, *args):
        g = a * t - c
        for bi, yi in zip(b, y):
            g += bi * yi
        return float(g)
    # SciPy accepts `terminal` as a bool or as a positive integer count (1.0 counts as 1); the Rust side has terminal_count(k)
    k = int(e["terminal"])
    ev.terminal = False if k == 0 else ([True, 1, np.True_, 1.0][e.get("tform", 0) % 4] if k == 1 else k)
    # SciPy reads only the sign of `direction`; the value handed over is sometimes fractional or larger than 1
    ev.direction = float(e.get("pydir", e["dir"]))
    return ev


def mon(**kw):
    print(json.dumps(dict(kind="pym", **kw)))


def fmt_result(res, case, out, nstate):
    t = np.asarray(res.t)
    y = np.asarray(res.y)
    n, m = (y.shape + (0, 0))[:2] if y.ndim == 2 else (0, 0)
    tev = "None" if res.t_events is None else "|".join("-" if len(v) == 0 else hxs(np.asarray(v)) for v in res.t_events)
    if res.y_events is None:
        yev = "None"
    else:
        parts = []
        for v in res.y_events:
            if isinstance(v, list) and len(v) == 0:
                parts.append("[]")
            elif isinstance(v, np.ndarray) and v.shape == (0,):
                parts.append("e0")
            else:
                a = np.asarray(v)
                parts.append("%dx%d:%s" % (a.shape[0], a.shape[1], hxs(np.ascontiguousarray(a).ravel())))
        yev = "|".join(parts)
    out.append("py t=%s yshape=%dx%d y=%s status=%d success=%d message=%s nfev=%d njev=%d nlu=%d tev=%s yev=%s sol=%d" % (
        "-" if t.size == 0 else hxs(t), n, m, hxs(np.ascontiguousarray(y).ravel()), res.status, 1 if res.success else 0, res.message,
        res.nfev, res.njev, res.nlu, tev, yev, 0 if res.sol is None else 1))
    # invariants every result must satisfy, whatever the Rust side says
    why = ""
    if t.ndim != 1: why = "t is not one-dimensional"
    elif y.ndim != 2 or y.shape != (nstate, t.shape[0]): why = "y has shape %s for %d time points" % (y.shape, t.shape[0])
    elif t.dtype != np.float64 or y.dtype != np.float64: why = "t/y are not float64 arrays"
    elif res.success != (res.status >= 0) or res.status not in (-1, 0, 1): why = "status %r / success %r inconsistent" % (res.status, res.success)
    elif (case["events"] is None) != (res.t_events is None) or (case["events"] is None) != (res.y_events is None): why = "t_events/y_events presence does not follow the events argument"
    elif res.t_events is not None and (len(res.t_events) != len(case["events"]) or len(res.y_events) != len(case["events"])): why = "one entry per event function expected"
    elif case["dense"] != (res.sol is not None): why = "sol presence does not follow dense_output"
    elif res["t"] is not res.t and not np.array_equal(np.asarray(res["t"]), t): why = "res['t'] differs from res.t"
    if not why and res.t_events is not None:
        for te, ye in zip(res.t_events, res.y_events):
            if len(te) != len(ye): why = "t_events / y_events lengths differ"
            # SciPy hands out arrays for every event function, fired or not (np.asarray([]) for one that never fired)
            elif not isinstance(te, np.ndarray) or not isinstance(ye, np.ndarray): why = "t_events / y_events entry of type %s / %s instead of ndarray" % (type(te).__name__, type(ye).__name__)
            elif len(te) and np.asarray(ye).shape != (len(te), nstate): why = "y_events entry has shape %s" % (np.asarray(ye).shape,)
        # row j of y_events[i] is the state at t_events[i][j]: the event function vanishes there (to root-finder accuracy),
        # and with dense output the row is what sol returns for that time
        if not why:
            for e, te, ye in zip(case["events"], res.t_events, res.y_events):
                g = make_event(e)
                for j in range(len(te)):
                    row = np.asarray(ye)[j]
                    scale = 1.0 + abs(f(e["c"])) + float(np.max(np.abs(row)))
                    if abs(g(float(te[j]), row)) > 1e-6 * scale:
                        why = "event function is %.3e at (t_events[i][%d], y_events[i][%d]) = (%r, %r)" % (g(float(te[j]), row), j, j, float(te[j]), row.tolist()); break
                    if res.sol is not None and res.status != 1:
                        v = np.asarray(res.sol(float(te[j]))).ravel()
                        if v.shape == row.shape and float(np.max(np.abs(v - row))) > 1e-7 * scale:
                            why = "y_events[i][%d] = %r differs from sol(t_events[i][%d]) = %r" % (j, row.tolist(), j, v.tolist()); break
                if why: break
    return why


def run_solve(case, out):
    fun, jac, cj, y0, cs = problem(case["kind"], case["args"])
    kw = {}
    if case["method"] is not None: kw["method"] = case["method"]
    if case["rtol"] is not None: kw["rtol"] = f(case["rtol"]); kw["atol"] = f(case["atol"])
    # per-component tolerances in the three sequence forms SciPy users pass
    if case.get("rtol_vec") is not None:
        v = [f(x) for x in case["rtol_vec"]]
        kw["rtol"] = [v, np.array(v, dtype=float), tuple(v)][case["id"] % 3]
    if case.get("atol_vec") is not None:
        v = [f(x) for x in case["atol_vec"]]
        kw["atol"] = [np.array(v, dtype=float), tuple(v), v][case["id"] % 3]
    for k in ("first_step", "max_step"):
        if case[k] is not None: kw[k] = f(case[k])
    if case["max_steps"] is not None: kw["max_steps"] = case["max_steps"]
    if case["t_eval"] is not None: kw["t_eval"] = np.array([f(v) for v in case["t_eval"]], dtype=float)
    if case["dense"]: kw["dense_output"] = True
    if case["events"] is not None:
        evs = [make_event(e) for e in case["events"]]
        kw["events"] = evs if case["events_as_list"] else evs[0]
    # the Jacobian in the memory layouts NumPy users hand over: C order, Fortran order, a transposed view, a strided view
    def layout(J):
        J = np.array(J, dtype=float)
        k = (case["id"] // 2) % 4
        if k == 1: return np.asfortranarray(J)
        if k == 2: return np.ascontiguousarray(J.T).T
        if k == 3:
            big = np.zeros((J.shape[0], 2 * J.shape[1])); big[:, ::2] = J
            return big[:, ::2]
        return J
    if case["jac"] == "callable": kw["jac"] = (lambda t, y, *a, **k: layout(jac(t, y, *a, **k)))
    elif case["jac"] == "const": kw["jac"] = layout(cj)
    if case["args"]: kw["args"] = cs
    y0a = np.array(y0) if case["id"] % 2 == 0 else list(y0)
    span = (f(case["x0"]), f(case["xend"])) if case["id"] % 3 else [f(case["x0"]), f(case["xend"])]
    try:
        res = ivp.solve_ivp(fun, span, y0a, **kw)
    except RuntimeError as e:
        msg = str(e)
        out.append("err " + msg.replace("Solver failed: ", "").replace(" ", "_"))
        mon(case=case["id"], op="solve", method=str(case["method"]), problem=case["kind"], ok=True, why="", status="Err")
        return
    except BaseException as e:   # pyo3 PanicException
        out.append("panic")
        mon(case=case["id"], op="solve", method=str(case["method"]), problem=case["kind"], ok=True, why="", status="panic:" + type(e).__name__)
        return
    why = fmt_result(res, case, out, len(y0))
    if res.sol is not None:
        qs = [f(v) for v in case["queries"]]
        n = len(y0)
        try:
            a = np.asarray(res.sol(np.array(qs)) if case["id"] % 2 else res.sol(qs))
            out.append("arr %dx%d %s" % (a.shape[0], a.shape[1], hxs(np.ascontiguousarray(a).ravel())))
            if a.shape != (n, len(qs)) and not why: why = "sol(array of %d) has shape %s, expected (%d, %d)" % (len(qs), a.shape, n, len(qs))
        except ValueError:
            out.append("evalnone")
        try:
            v = np.asarray(res.sol(f(case["scalar_query"])))
            out.append("arr %d %s" % (v.shape[0], hxs(v)))
            if v.shape != (n,) and not why: why = "sol(scalar) has shape %s, expected (%d,)" % (v.shape, n)
        except ValueError:
            out.append("evalnone")
    mon(case=case["id"], op="solve", method=str(case["method"]), problem=case["kind"], ok=not why, why=why, status=res.message,
        finding_key="c20-shape" if why else "", branch="%s%s%s" % ("E" if case["events"] else "", "T" if case["t_eval"] else "", "D" if case["dense"] else ""))


def run_group(case, out):
    n = case["n"]
    P = np.array(case["P"], dtype=int)
    y0 = np.array([1.0 + 0.25 * i for i in range(n)])
    t0 = 0.0
    seen = []

    def fun(t, y):
        if t == t0:
            seen.append(np.array(y, dtype=float))
        d = np.empty(n)
        for r in range(n):
            s = -(r + 1.0) * y[r] if P[r, r] else 0.0
            for c in range(n):
                if c != r and P[r, c]:
                    s += 0.1 * y[c]
            d[r] = s
        return d

    kw = dict(method=case["method"], rtol=1e-4, atol=1e-7)
    # (pattern cases carry the id of every third solve case and every other one of them is an "unsorted" CSC case: cycle the
    # container of the remaining ones by id // 6)
    fmt = [csr_matrix, coo_matrix, csc_matrix, lil_matrix][(case["id"] // 6) % 4]
    why, key = "", ""
    try:
        if case.get("unsorted"):
            # a CSC matrix whose row indices are stored in the (shuffled) order the harness chose
            sp = csc_matrix((np.ones(len(case["indices"])), np.array(case["indices"], dtype=np.int32), np.array(case["indptr"], dtype=np.int32)), shape=(n, n))
        else:
            sp = fmt(P)
        a = ivp.solve_ivp(fun, (t0, 0.05), y0, jac_sparsity=sp, **kw)
    except BaseException as e:
        out.append("panic")
        mon(case=case["id"], op="group", n=n, ok=False, why="solve_ivp with jac_sparsity raised %s: %s" % (type(e).__name__, str(e)[:100]), finding_key="c20-sparsity-error")
        return
    # read the groups off the perturbed states of the first Jacobian evaluation
    sets, covered = [], set()
    for y in seen:
        S = tuple(int(i) for i in np.nonzero(y != y0)[0])
        if S and len(covered) < n:
            sets.append(S)
            covered.update(S)
    groups = [-1] * n
    for g, S in enumerate(sets):
        for c in S:
            if groups[c] < 0:
                groups[c] = g
    out.append("groups %s k=%d" % (",".join(str(g) for g in groups), len(sets)))
    for S in sets:
        for i in range(len(S)):
            for j in range(i + 1, len(S)):
                if np.any(P[:, S[i]] & P[:, S[j]]) and not why:
                    why, key = "columns %d and %d share a row of the pattern but were perturbed together" % (S[i], S[j]), "c20-grouping"
    seen_a = len(seen)
    b = ivp.solve_ivp(fun, (t0, 0.05), y0, **kw)
    if not why and not (np.array_equal(a.t, b.t) and np.array_equal(a.y, b.y) and a.status == b.status):
        why, key = "jac_sparsity (exact structure) changes the result: %d vs %d points" % (len(a.t), len(b.t)), "c20-sparsity-result"
    if not why and a.njev != b.njev:
        why, key = "jac_sparsity changes njev (%d vs %d)" % (a.njev, b.njev), "c20-sparsity-result"
    mon(case=case["id"], op="group", n=n, method=case["method"], ok=not why, why=why, finding_key=key, groups=len(sets), calls_at_t0=seen_a)


def main():
    out = []
    for line in open(prefix + ".cases"):
        case = json.loads(line)
        if case["type"] == "solve":
            run_solve(case, out)
        else:
            run_group(case, out)
    with open(prefix + ".impl", "w") as fh:
        fh.write("\n".join(out) + "\n")


if __name__ == "__main__":
    main()
