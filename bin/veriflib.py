"""Shared machinery of /verif/bin/check: translator, lake build, axiom audit, harness, evidence, violations."""
import os, sys, re, json, subprocess, time, hashlib, shutil

VERIF = os.path.abspath(os.path.join(os.path.dirname(__file__), ".."))
REPO = os.environ.get("VERIF_REPO", "/repo")
LEAN = os.path.join(VERIF, "lean")
HARNESS = os.path.join(VERIF, "harness")
EVID = os.path.join(VERIF, "evidence")
REPLAYS = os.path.join(VERIF, "replays")
ALLOWED_AXIOMS = {"propext", "Classical.choice", "Quot.sound"}
GUARD_RUSTFLAGS = "--cfg ivp_verif"

TRUSTED_BASE = [
    "Lean 4.33 kernel (thorough tier re-checks the property module with leanchecker)",
    "axioms limited to propext, Classical.choice, Quot.sound (audited by #print axioms on every obligation); "
    "`decide +kernel` = kernel evaluation, no native_decide/bv_decide; no sorry/admit/own axioms (grep + audit)",
    "Mathlib v4.33 (ordered fields, ring/field_simp/linarith/omega)",
    "translator /verif/translator (Rust subset parser, expression-preserving printer); checked by bit-exact co-simulation where a stream exists",
    "hand-written models are tied to the code only by the correspondence streams named in this file",
    "exact arithmetic (ordered field) stands in for binary64 in theorems; binary64 is used only to execute the model",
    "user code (IVP::ode/jac/events/mass, user SolOut) is an arbitrary function/oracle; rustc/LLVM/libm/bon/pyo3/numpy trusted",
]


def sh(cmd, cwd=None, env=None, timeout=None, input=None):
    e = dict(os.environ)
    e.setdefault("CARGO_NET_OFFLINE", "true")
    if env:
        e.update(env)
    t0 = time.time()
    p = subprocess.run(cmd, cwd=cwd, env=e, stdout=subprocess.PIPE, stderr=subprocess.STDOUT, timeout=timeout,
                       input=input, text=True, shell=isinstance(cmd, str))
    return p.returncode, p.stdout, time.time() - t0


class Check:
    def __init__(self, pid, tier, seed):
        self.pid, self.tier, self.seed = pid, tier, seed
        self.t0 = time.time()
        self.obligations = []          # theorem names
        self.discharged = []
        self.failed_obligations = {}   # name -> reason
        self.violations = []           # dicts {kind, what, replay(dict), concrete: bool}
        self.known = []                # known findings reproduced
        self.cov = {"samples": []}
        self.assumptions = []
        self.streams = {}              # name -> stats
        self.monitors = {}
        self.anchors = []
        self.notes = []
        self.partial = []
        self.checker_cmds = []
        self.tie_broken = None

    # ------------------------------------------------------------ translator
    def translate(self):
        meta = os.path.join(LEAN, ".gen_meta.json")
        rc, out, dt = sh([sys.executable, os.path.join(VERIF, "translator", "rs2lean.py"), "--repo", REPO, "--meta", meta])
        self.cov["translator_s"] = round(dt, 2)
        try:
            with open(meta) as f:
                m = json.load(f)
            self.anchors = m.get("anchors", [])
        except Exception:
            m = {}
        if rc != 0:
            self.tie_broken = out.strip().splitlines()[-1] if out.strip() else "translator failed"
            return False
        return True

    # ------------------------------------------------------------ lean
    def lake_build(self, modules):
        cmd = ["lake", "build"] + modules
        self.checker_cmds.append("cd %s && %s" % (LEAN, " ".join(cmd)))
        rc, out, dt = sh(cmd, cwd=LEAN, timeout=3000)
        self.cov["lake_build_s"] = round(self.cov.get("lake_build_s", 0) + dt, 1)
        return rc, out

    def prove(self, modules, theorems, source_files=None):
        """Build `modules`; every name in `theorems` must exist with allowed axioms."""
        self.obligations += [t for t in theorems if t not in self.obligations]
        rc, out = self.lake_build(modules)
        failing_by_line = {}
        if rc != 0:
            # map error lines to theorem names
            for m in re.finditer(r"error: ([^\s:]+\.lean):(\d+):\d+: (.*)", out):
                failing_by_line.setdefault(m.group(1), []).append((int(m.group(2)), m.group(3)))
            bad = set()
            for f, errs in failing_by_line.items():
                path = os.path.join(LEAN, f)
                try:
                    src = open(path).read().split("\n")
                except Exception:
                    continue
                for ln, msg in errs:
                    name = None
                    for i in range(min(ln, len(src)) - 1, -1, -1):
                        mm = re.match(r"\s*(?:private\s+|protected\s+)?(?:theorem|lemma|def|instance|abbrev)\s+([^\s:({\[]+)", src[i])
                        if mm:
                            name = mm.group(1)
                            break
                    bad.add((name or "?", f, ln, msg[:200]))
            self.notes.append({"lake_build_failed": sorted(list(bad))[:20], "tail": out[-1500:]})
            for t in theorems:
                self.failed_obligations[t] = "lake build failed: " + "; ".join(
                    "%s (%s:%d: %s)" % b for b in sorted(bad)[:6]) if bad else "lake build failed"
            # theorems whose own proof did not fail may still be fine, but the module did not build:
            # we count none of them as discharged.
            return False
        # axiom audit
        audit_dir = os.path.join(LEAN, "Audit")
        os.makedirs(audit_dir, exist_ok=True)
        apath = os.path.join(audit_dir, "%s.lean" % self.pid)
        with open(apath, "w") as f:
            for m in modules:
                f.write("import %s\n" % m)
            for t in theorems:
                f.write("#print axioms %s\n" % t)
        rc, out, dt = sh(["lake", "env", "lean", apath], cwd=LEAN, timeout=1200)
        self.checker_cmds.append("cd %s && lake env lean Audit/%s.lean   # #print axioms for every obligation" % (LEAN, self.pid))
        axioms = {}
        for m in re.finditer(r"'([^']+)' depends on axioms: \[([^\]]*)\]", out):
            axioms[m.group(1)] = [a.strip() for a in m.group(2).replace("\n", " ").split(",") if a.strip()]
        for m in re.finditer(r"'([^']+)' does not depend on any axioms", out):
            axioms[m.group(1)] = []
        self.cov.setdefault("axioms", {})
        ok = True
        for t in theorems:
            short = t.split(".")[-1]
            ax = axioms.get(t)
            if ax is None:
                # lean prints the fully qualified name
                cand = [k for k in axioms if k == t or k.endswith("." + t)]
                ax = axioms[cand[0]] if cand else None
            if ax is None:
                self.failed_obligations[t] = "theorem not found by #print axioms: " + out[-300:]
                ok = False
                continue
            extra = [a for a in ax if a not in ALLOWED_AXIOMS]
            self.cov["axioms"][t] = ax
            if extra:
                self.failed_obligations[t] = "disallowed axioms: %s" % extra
                ok = False
            else:
                self.discharged.append(t)
        return ok

    def grep_forbidden(self):
        pat = re.compile(r"\b(sorry|admit|native_decide|bv_decide|implemented_by|unsafe)\b|^\s*axiom\s|maxHeartbeats\s+0\b")
        hits = []
        for root, _, files in os.walk(os.path.join(LEAN, "IvpModel")):
            for fn in files:
                if not fn.endswith(".lean"):
                    continue
                p = os.path.join(root, fn)
                txt = open(p).read()
                # strip comments
                txt2 = re.sub(r"/-.*?-/", lambda m: "\n" * m.group(0).count("\n"), txt, flags=re.S)
                for i, line in enumerate(txt2.split("\n")):
                    line = re.sub(r"--.*", "", line)
                    if pat.search(line):
                        hits.append("%s:%d: %s" % (os.path.relpath(p, LEAN), i + 1, line.strip()[:100]))
        self.cov["forbidden_token_hits"] = hits
        if hits:
            for t in list(self.discharged):
                self.failed_obligations[t] = "forbidden token in sources: %s" % hits[0]
            self.discharged = []
        return not hits

    def leanchecker(self, module):
        rc, out, dt = sh(["lake", "env", "leanchecker", module], cwd=LEAN, timeout=3000)
        self.checker_cmds.append("cd %s && lake env leanchecker %s" % (LEAN, module))
        self.cov["leanchecker"] = {"module": module, "rc": rc, "s": round(dt, 1), "out": out[-300:]}
        if rc != 0:
            for t in list(self.discharged):
                self.failed_obligations[t] = "leanchecker rejected %s" % module
            self.discharged = []
        return rc == 0

    # ------------------------------------------------------------ harness
    def build_harness(self):
        lock = os.path.join(HARNESS, "Cargo.lock")
        if not os.path.exists(lock):
            shutil.copy(os.path.join(REPO, "Cargo.lock"), lock)
        rc, out, dt = sh(["cargo", "build", "--release", "--offline"], cwd=HARNESS,
                         env={"RUSTFLAGS": GUARD_RUSTFLAGS, "CARGO_NET_OFFLINE": "true", "CARGO_TARGET_DIR": os.path.join(HARNESS, "target")}, timeout=3000)
        self.cov["harness_build_s"] = round(dt, 1)
        if rc != 0:
            self.notes.append({"harness_build_failed": out[-2000:]})
            self.violation("harness-build", "the harness does not build against /repo's working tree (with --cfg ivp_verif): the "
                           "correspondence and the monitors of this property could not run", {"cargo_output_tail": out[-1500:]}, False)
            return False
        return True

    def harness(self, args, timeout=1800, input=None):
        exe = os.path.join(HARNESS, "target", "release", "ivp-verif-harness")
        rc, out, dt = sh([exe] + [str(a) for a in args], cwd=HARNESS, timeout=timeout, input=input)
        return rc, out, dt

    def build_driver(self):
        rc, out, dt = sh(["lake", "build", "driver"], cwd=LEAN, timeout=3000)
        self.cov["driver_build_s"] = round(dt, 1)
        self.driver_ok = (rc == 0)
        if rc != 0:
            # the executable models no longer build against the regenerated code: every stream is undecided (a violation
            # without a concrete input); the monitors still run on the implementation and may supply one
            self.notes.append({"driver_build_failed": out[-1500:]})
            self.violation("driver-build", "the Lean model driver does not build against the regenerated model: no correspondence stream can run",
                           {"lake_output_tail": out[-1500:]}, False)
        else:
            # facts about the Float instance that theorems take as hypotheses (inf <= 1 is false, inf - inf is NaN)
            exe = os.path.join(LEAN, ".lake", "build", "bin", "driver")
            try:
                out2 = subprocess.run([exe, "selftest"], input="", capture_output=True, text=True, timeout=60).stdout.strip()
            except Exception as ex:
                out2 = "error: %s" % ex
            self.cov["driver_selftest"] = out2
            if out2 != "inf-le-one=false inf-bits=9218868437227405312 nan-minus=true finite-minus=false":
                self.violation("driver-selftest", "the Float instance of the model does not behave as the theorems assume: " + out2, {"selftest": out2}, False)
        return True

    def stream(self, name, harness_args, driver_mode, prefix_arg_index=None, between=None):
        """model-vs-implementation co-simulation: the harness writes <prefix>.ops / <prefix>.impl, the Lean driver
        answers the same ops, outputs are diffed line by line.  A disagreement is reported with the op sequence
        since the last `reset` (the minimal context in which it replays)."""
        work = os.path.join(VERIF, ".work")
        os.makedirs(work, exist_ok=True)
        if not getattr(self, "driver_ok", True):
            self.streams[name] = {"error": "driver not built", "cases": 0}
            return self.streams[name]
        prefix = os.path.join(work, "%s_%s" % (self.pid, name))
        args = list(harness_args) + [prefix]
        rc, out, dt = self.harness(args)
        info = [r for r in (json.loads(l) for l in out.splitlines() if l.startswith("{")) ]
        st = {"harness_s": round(dt, 2), "generator": info[-1] if info else None}
        if rc != 0 or not os.path.exists(prefix + ".ops"):
            st["error"] = out[-500:]
            self.streams[name] = st
            self.violation("correspondence", "stream %s: harness failed" % name, {"output": out[-800:]}, False)
            return st
        if between is not None:
            # a second producer of <prefix>.impl (e.g. the Python side of X-py) runs on the files the harness wrote
            if not between(prefix, st):
                self.streams[name] = st
                return st
        exe = os.path.join(LEAN, ".lake", "build", "bin", "driver")
        with open(prefix + ".ops") as f:
            ops_txt = f.read()
        rc2, mout, dt2 = sh([exe, driver_mode], input=ops_txt, timeout=3000)
        ops = ops_txt.splitlines()
        impl = open(prefix + ".impl").read().splitlines()
        model = mout.splitlines()
        st.update({"cases": len(ops), "driver_s": round(dt2, 2), "distinct": len(set(ops))})
        dis = []
        last_reset = 0
        for k in range(len(ops)):
            if ops[k].startswith("reset") or ops[k].startswith("case"):
                last_reset = k
            mo = model[k] if k < len(model) else "<missing>"
            if k >= len(impl) or impl[k] != mo:
                dis.append({"line": k + 1, "op": ops[k], "impl": impl[k] if k < len(impl) else "<missing>", "model": mo,
                            "context_ops": ops[last_reset:k + 1][-60:]})
                if len(dis) >= 3:
                    break
        st["disagreements"] = len(dis)
        self.streams[name] = st
        self.cov["samples"].append({"stream": name, "op": ops[min(len(ops) - 1, 5)], "impl": impl[min(len(impl) - 1, 5)]})
        for d in dis[:1]:
            self.violation("correspondence", "stream %s: model and implementation differ at op %r (impl %s, model %s)" % (
                name, d["op"], d["impl"][:60], d["model"][:60]),
                {"stream": name, "seed": self.seed, **d, "rerun": "harness %s ; driver %s" % (" ".join(str(a) for a in args), driver_mode)}, False)
        return st

    # ------------------------------------------------------------ results
    def violation(self, kind, what, replay, concrete):
        self.violations.append({"kind": kind, "what": what, "replay": replay, "concrete": concrete})

    def finish(self, level="proof"):
        os.makedirs(EVID, exist_ok=True)
        os.makedirs(REPLAYS, exist_ok=True)
        # undischarged obligations are violations without a concrete input unless a monitor found one
        undis = [t for t in self.obligations if t not in self.discharged]
        if self.tie_broken:
            self.violations.append({"kind": "tie-broken", "what": self.tie_broken,
                                    "replay": {"translator": self.tie_broken}, "concrete": False})
        if undis:
            self.violations.append({"kind": "proof-obligation", "what": "obligations not discharged: %s" % ", ".join(undis[:8]),
                                    "replay": {"undischarged": {t: self.failed_obligations.get(t, "?") for t in undis}},
                                    "concrete": False})
        # a broken proof/correspondence for which the search found a concrete failing input is reported through that
        # input; the broken obligation/stream is named inside the same replay file
        known = load_known()

        def is_known(v):
            key = v.get("replay", {}).get("finding_key")
            return any(k.get("property") == self.pid and k.get("status") == "open" and key and k.get("key") == key for k in known)
        # (a listed open finding never absorbs anything: a broken obligation next to it is still a violation)
        conc = [v for v in self.violations if v["concrete"] and not is_known(v)]
        if conc:
            rest = [v for v in self.violations if not v["concrete"]]
            for v in conc:
                v["replay"]["broken_obligations_or_streams"] = [{"kind": r["kind"], "what": r["what"]} for r in rest]
            self.violations = conc + [v for v in self.violations if v["concrete"] and is_known(v)]
        lines = []
        n_viol = 0
        for v in self.violations:
            key = v.get("replay", {}).get("finding_key")
            kf = [k for k in known if k.get("property") == self.pid and k.get("status") == "open" and key and k.get("key") == key]
            if kf:
                lines.append("KNOWN-FINDING: property=%s %s" % (self.pid, kf[0]["what"]))
                self.known.append(kf[0]["key"])
                continue
            n_viol += 1
            body = json.dumps({"property": self.pid, **v, "seed": self.seed, "tier": self.tier}, indent=1, sort_keys=True, default=str)
            h = hashlib.sha1(body.encode()).hexdigest()[:10]
            path = os.path.join(REPLAYS, "%s-%s.json" % (self.pid, h))
            with open(path, "w") as f:
                f.write(body)
            suffix = "" if v["concrete"] else " no-failing-input-found"
            lines.append("VIOLATION property=%s replay=%s%s" % (self.pid, path, suffix))
        cov = dict(self.cov)
        if self.discharged:
            cov["obligations"] = len(self.obligations)
            cov["discharged"] = len(self.discharged)
        else:
            # schema: a proof-level file must have discharged >= 1; a run that discharged nothing reports the counts
            # under other names and falls back to the generic keys
            cov["obligations_total"] = len(self.obligations)
            cov["discharged_total"] = 0
        cov["obligation_names"] = self.obligations
        cov["undischarged"] = {t: self.failed_obligations.get(t, "?") for t in self.obligations if t not in self.discharged}
        cov["checker_cmd"] = " ; ".join(self.checker_cmds) or "(none)"
        cov["trusted_base"] = TRUSTED_BASE
        cov["streams"] = self.streams
        cov["monitors"] = self.monitors
        cov["anchors"] = self.anchors
        cov["partial_not_shown"] = self.partial
        cov["known_findings_reproduced"] = self.known
        cov["traces_validated_against_impl"] = sum(s.get("cases", 0) for s in self.streams.values())
        ev = sum(s.get("cases", 0) for s in self.streams.values()) + sum(m.get("cases", 0) for m in self.monitors.values())
        cov["evaluations"] = max(ev, len(self.obligations), 1)
        cov["distinct_nontrivial"] = max(2, sum(s.get("distinct", 0) for s in self.streams.values())
                                         + sum(m.get("distinct", 0) for m in self.monitors.values()) + len(self.discharged))
        cov["rule"] = ("obligations = named Lean theorems (each counted once when its axiom audit passes); streams = model-vs-implementation "
                       "co-simulation cases (distinct = distinct generated inputs that exercised a non-default branch); monitors = property "
                       "checked directly on the implementation (the search side)")
        cov["notes"] = self.notes
        evd = {"property_id": self.pid, "tier": self.tier, "seed": self.seed, "level": level, "coverage": cov,
               "assumptions": self.assumptions + TRUSTED_BASE, "wall_s": round(time.time() - self.t0, 2),
               "violations": n_viol}
        with open(os.path.join(EVID, "%s.json" % self.pid), "w") as f:
            json.dump(evd, f, indent=1, default=str)
        for l in lines:
            print(l)
        print("%s: obligations %d/%d discharged, streams %s, monitors %s, violations %d, known %d, %.1fs" % (
            self.pid, len(self.discharged), len(self.obligations),
            {k: v.get("cases") for k, v in self.streams.items()}, {k: v.get("cases") for k, v in self.monitors.items()},
            n_viol, len(self.known), time.time() - self.t0))
        return 1 if n_viol else 0


def load_known():
    p = os.path.join(VERIF, "known_findings.json")
    if not os.path.exists(p):
        return []
    with open(p) as f:
        return json.load(f).get("findings", [])
