"""Per-property check bodies.  Each function receives a veriflib.Check and fills it in."""
import json, os
from veriflib import *


MALFORMED = []   # monitor lines that look like records but do not parse: a case that would otherwise vanish silently


def jlines(out):
    res = []
    for l in out.splitlines():
        l = l.strip()
        if l.startswith("{"):
            try:
                res.append(json.loads(l))
            except Exception:
                MALFORMED.append(l[:300])
    return res


def common_proof(c, module, theorems):
    ok = c.translate()
    if ok:
        c.prove([module], theorems)
    else:
        c.obligations += theorems
        for t in theorems:
            c.failed_obligations[t] = "translator: " + str(c.tie_broken)
    c.grep_forbidden()
    if c.tier == "thorough" and ok and not c.failed_obligations:
        c.leanchecker(module)
    return ok


# ---------------------------------------------------------------------------------------------- C02
C02_THEOREMS = [
    "rk4_order4", "rk23_order3", "dopri5_order5", "dop853_order8",
    "rk4_order4_f64", "rk23_order3_f64", "dopri5_order5_f64", "dop853_order8_f64",
    "rk4_not_order5", "rk23_not_order4", "dopri5_not_order6",
    "rowsum_rk4", "rowsum_rk23", "rowsum_dopri5", "rowsum_dop853",
    "rk23_est_order2", "dopri5_est_order4", "dop853_est5_order5", "dop853_est3_order3",
    "rk4_stage_eqs", "rk4_update_eq", "rk23_stage_eqs", "rk23_new_state", "rk23_err_eq",
    "dopri5_stage_eqs", "dopri5_new_state", "dopri5_stage_buffers", "dopri5_err_eq",
    "dop853_stage_eqs", "dop853_stage_buffers", "dop853_new_state",
    "BTree.mem_treesUpTo", "BTree.forall_of_all",
    "radau_constants", "radau_order5", "radau_not_order6",
]


def order_monitor(c, want_dense):
    """observed local order of the real steppers (search side of C02/C07)"""
    rc, out, dt = c.harness(["order-probe"])
    rows = [r for r in jlines(out) if r.get("kind") == "order"]
    name = "dense_order_probe" if want_dense else "order_probe"
    mon = {"cases": len(rows), "distinct": len({(r["method"], r["x0"], r["h"]) for r in rows}), "s": round(dt, 2), "results": []}
    by = {}
    for r in rows:
        by.setdefault(r["method"], []).append(r)
    for m, rs in by.items():
        rs = [r for r in rs if not r.get("skipped")]
        if not rs:
            mon["results"].append({"method": m, "skipped": True})
            continue
        if want_dense:
            vals = [q for r in rs for q in r["q_obs"] if isinstance(q, (int, float))]
            target = rs[0]["q"]
        else:
            vals = [r["p_obs"] for r in rs if isinstance(r["p_obs"], (int, float))]
            target = rs[0]["p"]
        best = max(vals) if vals else None
        mon["results"].append({"method": m, "advertised": target, "observed_max": best, "observed_all": [round(v, 2) for v in vals]})
        if best is None or best < target - 0.6:
            worst = min(rs, key=lambda r: (min(r["q_obs"]) if want_dense else r["p_obs"]))
            c.violation("implementation-vs-oracle",
                        "%s: observed %s order %.2f < advertised %s" % (m, "interpolant" if want_dense else "step", best if best is not None else float("nan"), target),
                        {"finding_key": "%s-%s-order" % (m.lower(), "dense" if want_dense else "step"), "method": m,
                         "problem": "manufactured system of harness/src/order.rs (closed-form solution), one step from exact data",
                         "x0": worst["x0"], "h": worst["h"], "err_h": worst["dense_err_h"] if want_dense else worst["err_h"],
                         "err_h_over_2": worst["dense_err_h2"] if want_dense else worst["err_h2"],
                         "observed_order": worst["q_obs"] if want_dense else worst["p_obs"], "advertised": target,
                         "rerun": "harness/target/release/ivp-verif-harness order-probe"}, True)
    # three equal steps from exact data: a later step of a run has the advertised order too (C02)
    if not want_dense:
        r3 = [r for r in jlines(out) if r.get("kind") == "order3"]
        mon["cases"] += len(r3)
        mon["distinct"] += len({(r["method"], r["x0"], r["h"]) for r in r3})
        by3 = {}
        for r in r3:
            if not r.get("skipped") and isinstance(r.get("p_obs"), (int, float)): by3.setdefault(r["method"], []).append(r)
        for m, rs in by3.items():
            best = max(r["p_obs"] for r in rs)
            mon["results"].append({"method": m, "advertised": rs[0]["p"], "three_steps_observed_max": best, "three_steps_observed_all": [round(r["p_obs"], 2) for r in rs]})
            # at least half of the probes must show the advertised order (single probes are noisy for the high-order methods)
            if 2 * sum(1 for r in rs if r["p_obs"] >= rs[0]["p"] - 0.6) < len(rs):
                worst = min(rs, key=lambda r: r["p_obs"])
                c.violation("implementation-vs-oracle",
                            "%s: observed order %.2f over three equal steps < advertised %s (a step that is not the first of a run loses the order)" % (m, best, rs[0]["p"]),
                            {"finding_key": "%s-later-step-order" % m.lower(), "method": m,
                             "problem": "manufactured system of harness/src/order.rs (closed-form solution), three equal steps from exact data",
                             "x0": worst["x0"], "h": worst["h"], "err_h": worst["err_h"], "err_h_over_2": worst["err_h2"],
                             "observed_order": worst["p_obs"], "advertised": rs[0]["p"],
                             "rerun": "harness/target/release/ivp-verif-harness order-probe"}, True)
    # polynomial exactness (crisp): step exact for k ≤ p (C02), interpolant exact for k ≤ q (C07)
    prow = [r for r in jlines(out) if r.get("kind") == "poly" and not r.get("skipped")]
    mon["poly_cases"] = len(prow)
    mon["cases"] += len(prow)
    mon["distinct"] += len({(r["method"], r["k"], r["h"]) for r in prow})
    seen = set()
    for r in prow:
        bad = (r["dense_err"] > 1e-11) if want_dense else (r["step_err"] > 1e-11)
        if bad and r["method"] not in seen:
            seen.add(r["method"])
            c.violation("implementation-vs-oracle",
                        "%s: %s does not reproduce the polynomial solution t^%d of y'=%d t^%d (error %.3g)" % (
                            r["method"], "interpolant" if want_dense else "step", r["k"], r["k"], r["k"] - 1,
                            r["dense_err"] if want_dense else r["step_err"]),
                        {"finding_key": "%s-%s-poly" % (r["method"].lower(), "dense" if want_dense else "step"), **r,
                         "problem": "y' = k t^(k-1), y(x0) = x0^k, one step of size h from exact data",
                         "rerun": "harness/target/release/ivp-verif-harness order-probe"}, True)
    c.monitors[name] = mon
    c.cov["samples"] += rows[:3]


def c02(c):
    ok = common_proof(c, "IvpModel.Props.C02", C02_THEOREMS)
    if c.build_harness():
        order_monitor(c, want_dense=False)
        if c.build_driver():
            radaunum_stream(c)
    c.cov["samples"] += [
        {"theorem": "dopri5_order5", "statement": "∀ t : BTree, t.order ≤ 5 → condExact dopri5Tab.N dopri5Tab.M dopri5Tab.S t = true"},
        {"theorem": "dop853_order8", "statement": "∀ t : BTree, t.order ≤ 8 → condApprox dop853Tab.N dop853Tab.M dop853Tab.S (10^25) t = true  (626 trees)"},
        {"theorem": "dopri5_stage_eqs", "statement": "(Gen.Dopri5.stages (openF Kc) y h k1 x).calls = #[rkArg dopri5Tab x h y (kOf k1 Kc) 1, …, 6]  for every ordered field, n, Kc, y, k1, x, h"},
    ]
    c.partial = ["Butcher's theorem (tree conditions ⇔ local error O(h^{p+1}) for every smooth f) is cited, not formalised",
                 "Radau: the theorems are about the tableau the code's constants encode (eigen-decomposition, nodes, Padé polynomials, tree conditions to 1e-14); that the simplified Newton iteration converges to the stage equations is run-time behaviour (order-probe, X-radau)",
                 "accepted-step count ~ tol^(-1/q): the controller exponent is checked in C01; the asymptotic count is not a theorem"]


# ---------------------------------------------------------------------------------------------- C06
C06_THEOREMS = [
    "rk4_interp_left", "rk4_interp_right", "rk4_dense_ends", "rk23_interp_left", "rk23_interp_right",
    "dopri5_interp_left", "dopri5_interp_right", "dop853_interp_left", "dop853_interp_right", "C06_dopri5_endpoints",
    "ContM.c06_not_enabled", "ContM.c06_cover", "ContM.c06_first_hit", "ContM.c06_many_no_panic", "ContM.c06_from_segments",
    "ContM.c06_constant", "SolOutM.c06_collect",
    "BdfNum.c06_bdf_interp_ends", "BdfNum.c06_bdf_change_d", "BdfNum.interp_nodes", "BdfNum.changeD_poly", "BdfNum.changeD_keeps_d0",
    "BdfNum.denseCont_get", "RadauNum.c06_radau_interp_ends", "RadauNum.interp_collocation", "RadauNum.node_identities",
]


def generic_monitor(c, name, args, kind, timeout=1800, describe=None):
    """run a harness monitor that prints one JSON line per case with `ok` and `why`"""
    rc, out, dt = c.harness(args, timeout=timeout)
    rows = [r for r in jlines(out) if r.get("kind") == kind]
    bad = [r for r in rows if r.get("ok") is False]
    mon = {"cases": len(rows), "distinct": len({json.dumps({k: v for k, v in r.items() if k not in ("ok", "why")}, sort_keys=True) for r in rows}),
           "s": round(dt, 2), "failures": len(bad), "args": [str(a) for a in args]}
    hist = {}
    for r in rows:
        for key in ("method", "problem", "status", "branch", "op"):
            if key in r:
                hist.setdefault(key, {}).setdefault(str(r[key]), 0)
                hist[key][str(r[key])] += 1
    mon["distribution"] = hist
    if MALFORMED:
        # a record the harness printed but that is not valid JSON is a case nobody looked at: the machinery's fault, loud
        mon["malformed_records"] = MALFORMED[:3]
        c.violation("harness-error", "%s: %d output record(s) of the monitor are not valid JSON" % (name, len(MALFORMED)), {"records": MALFORMED[:3]}, False)
        del MALFORMED[:]
    if rc != 0 and not rows:
        mon["error"] = out[-500:]
        c.violation("harness-error", "%s: harness exited %d" % (name, rc), {"output": out[-800:]}, False)
    c.monitors[name] = mon
    c.cov["samples"] += rows[:2]
    seen = set()
    for r in bad:
        key = r.get("finding_key") or "%s-%s" % (name, r.get("method", ""))
        if key in seen:
            continue
        seen.add(key)
        rep = dict(r)
        rep["finding_key"] = key
        rep["rerun"] = "harness/target/release/ivp-verif-harness " + " ".join(str(a) for a in args)
        c.violation("implementation-vs-oracle", "%s: %s" % (name, r.get("why", "")), rep, True)
    return rows


def c06(c):
    common_proof(c, "IvpModel.Props.C06", C06_THEOREMS)
    if c.build_harness() and c.build_driver():
        c.stream("xcont", ["xcont", c.seed, 1500 if c.tier == "quick" else 30000], "cont")
        handler_stream(c)
        bdfnum_stream(c)
        radaunum_stream(c)
        n = 120 if c.tier == "quick" else 1500
        generic_monitor(c, "dense_check", ["dense-check", c.seed, n], "dense")
    c.cov["samples"] += [
        {"theorem": "dopri5_interp_right", "statement": "interpolate (xold+h) xold h (dense y1 y h k1 k2).cont0..3 c4 = y1 ∧ (dense …).cont0 = y, for all n, vectors, xold, h ≠ 0"},
        {"theorem": "rk23_interp_right", "statement": "interpolate (xold+h) … (dense y Ka Kb Kc Kd) = stages_loop3 y h Ka Kb Kc  (the accepted state the stage code computed)"},
        {"theorem": "ContM.c06_cover", "statement": "Chain fwd x (s :: r) → sol_span = (x, end) ∧ x ≠ end ∧ (min x end − tol(min) ≤ t ≤ max x end + tol(max) → ∃ s' ∈ segs, sol t = ok s'.id ∧ t within segSlack s' of s') ∧ (t beyond the span widened by spanSlack → sol t = OutOfRange)   (both directions, any number of steps)"},
        {"theorem": "SolOutM.c06_collect", "statement": "step … = some (s', f) → s'.denseSegs = if collectDense ∧ x ≠ xold ∧ ip.h ≠ 0 then s.denseSegs.push (ip.xold, ip.h) else s.denseSegs"},
    ]
    c.partial = ["Radau's and BDF's interpolants (and BDF's change_d, orders 1..5) are theorems about the full numeric models RadauNum / BdfNum, which X-radaunum / X-bdfnum tie to the solvers bit for bit (every callback carries five interpolant samples)",
                 "the segment lookup theorems take the chain property of the collected segments (each starts where the previous one ended) as hypothesis: it follows from the callback protocol (C19) and c06_collect in exact arithmetic; in binary64 `xold + h` is recomputed by the lookup from the stored pair, which X-cont and dense_check exercise",
                 "binary64 rounding at the ends ('to rounding'): theorems are exact-arithmetic"]


# ---------------------------------------------------------------------------------------------- C07
C07_THEOREMS = [
    "rk4_dense_order3", "rk23_dense_order3", "dopri5_dense_order4", "dop853_dense_order7", "c07_dop853_dense_nodes", "c07_dop853_dense_nodes_sharp",
    "rk4_dense_not_order4", "rk23_dense_not_order4", "dopri5_dense_not_order5", "dop853_dense_not_order8",
    "rk4_dense_weights", "rk23_dense_weights", "dopri5_dense_weights", "dop853_dense_weights", "dop853_extra_stage_eqs",
    "BTree.forall_of_all",
    "BdfNum.c07_bdf_interp_is_step_polynomial", "BdfNum.c07_bdf_update_keeps_differences", "BdfNum.interp_nodes", "BdfNum.update_bdiff",
    "RadauNum.c07_radau_collocation", "RadauNum.interp_collocation",
]


def c07(c):
    common_proof(c, "IvpModel.Props.C07", C07_THEOREMS)
    if c.build_harness():
        order_monitor(c, want_dense=True)
        generic_monitor(c, "bdf_dense_check", ["bdf-dense-check", c.seed], "bd")
        if c.build_driver():
            bdfnum_stream(c)
            radaunum_stream(c)
    c.cov["samples"] += [
        {"theorem": "dopri5_dense_order4", "statement": "∀ t : BTree, t.order ≤ 4 → dopri5Dense.condTree t = true   (Σ_i w_i(θ)Φ_i(t) = θ^|t|/γ(t) coefficientwise)"},
        {"theorem": "dop853_dense_weights", "statement": "interpolate (xold+θh) xold h (dense1/dense2 blocks) = denseVal dop853Dense 16 h θ y (K1,K6..K16), all n, h ≠ 0, θ"},
    ]
    c.partial = ["continuous Butcher theorem (conditions ⇒ uniform O(h^{q+1}) error) is cited, not formalised",
                 "Radau: the interpolant is proved to be the collocation polynomial (through the old state and the three stage values); that the collocation polynomial is O(h^4)-accurate is classical and cited; the observed order is the monitor's",
                 "BDF: the interpolant is proved to be the polynomial through the last k+1 accepted values (k = 1..5) on an equidistant grid; after a step-size change the history is the rescaled one (change_d preserves the polynomial, C06); 'as accurate as the step' itself is measured by bdf_dense_check"]


# ---------------------------------------------------------------------------------------------- C17
C17_THEOREMS = [
    "Mat.get_of_wf", "Mat.get_out_of_range", "Mat.identity_wf", "Mat.zeros_wf", "Mat.full_wf", "Mat.fromStorage_wf",
    "Mat.banded_wf", "Mat.lower_upper_wf", "Mat.diagonal_wf", "Mat.fromVec_wf", "Mat.square_wf", "Mat.square_buffer_allocated",
    "Mat.constructors_readable", "Mat.band_index_inj", "Mat.full_index_inj", "Mat.set_panics", "Mat.set_spec",
    "Mat.addSub_dense", "Mat.add_dense", "Mat.sub_dense", "Mat.addSub_mismatch", "Mat.componentAddSub_dense",
    "Mat.componentMul_dense", "Mat.isIdentity_of_identity", "Mat.isIdentity_iff_dense", "Mat.fill_dense",
]


def c17(c):
    common_proof(c, "IvpModel.Props.C17", C17_THEOREMS)
    if c.build_harness() and c.build_driver():
        if c.tier == "quick":
            c.stream("xmatrix", ["xmatrix", c.seed, 300, 6, 3], "matrix")
        else:
            c.stream("xmatrix", ["xmatrix", c.seed, 6000, 8, 4], "matrix")
        generic_monitor(c, "matrix_oracle", ["matrix-oracle", c.seed, 4000 if c.tier == "quick" else 80000, 6 if c.tier == "quick" else 8], "moracle")
    c.cov["samples"] += [
        {"theorem": "Mat.addSub_dense", "statement": "WF A → WF B → A.n = B.n → ∃ C, addSub isAdd A B = some C ∧ WF C ∧ ∀ i j < n, entry C i j = entry A i j ± entry B i j  (all 9 storage pairs, all bandwidths, all n)"},
        {"theorem": "Mat.set_spec", "statement": "in-band/Full write: ∃ A', set A i j v = some A' ∧ WF A' ∧ ∀ i' j', entry A' i' j' = if (i',j')=(i,j) then v else entry A i' j'"},
    ]
    c.partial = ["is_identity for Full/Banded storage and component_mul_mut are tied by the exhaustive/random X-matrix co-simulation only",
                 "matrix! / banded_matrix! macros are not modelled (the bracket form of matrix! does not compile as documented: observation O2)",
                 "entries are exact (ordered field); binary64 only through co-simulation on small dyadic entries"]


# ---------------------------------------------------------------------------------------------- handler: C05 C08 C09 C10
def handler_stream(c):
    n = 3000 if c.tier == "quick" else 60000
    return c.stream("xsolout", ["xsolout", c.seed, n], "solout")


C05_THEOREMS = ["SolOutM.sampleStep_spec", "SolOutM.sampleStep_lengths", "SolOutM.runTimes_forward", "SolOutM.runRest_nil_of_last",
                "SolOutM.teval_exact_times_forward", "SolOutM.teval_exact_times_backward", "SolOutM.runTimes_mirror", "SolOutM.teval_early_stop_forward", "SolOutM.dueBeforeEvent_tEvents",
                "SolOutM.outputPhase_prevEvent", "SolOutM.popBeyond_last", "SolOutM.popBeyond_prefix"]


def c05(c):
    common_proof(c, "IvpModel.Props.C05", C05_THEOREMS)
    if c.build_harness() and c.build_driver():
        handler_stream(c)
        generic_monitor(c, "teval_check", ["teval-check", c.seed, 300 if c.tier == "quick" else 6000], "te")
    c.cov["samples"] += [{"theorem": "SolOutM.teval_exact_times_forward",
                          "statement": "0 ≤ tol → rem sorted → (∀ t ∈ rem, x0 + tol < t) → x0 < x1 < … chain → last = xlast → (∀ t ∈ rem, t ≤ xlast + tol) → runTimes true tol rem x0 xs = rem"}]
    c.partial = [
                 "accuracy of the interpolated values is C07; independence from dense_output is C12 + monitor (runs compared bitwise)",
                 "requests within the 1e-12 comparison tolerance beyond an early stop may still be reported (handler tolerance window)"]


C08_THEOREMS = ["SolOutM.crossed_all", "SolOutM.crossed_positive", "SolOutM.crossed_negative", "SolOutM.crossed_of_strict",
                "SolOutM.locate_left", "SolOutM.locate_right", "SolOutM.locate_state_is_interp", "SolOutM.processEvs_prefix"]


def c08(c):
    common_proof(c, "IvpModel.Props.C08", C08_THEOREMS)
    if c.build_harness() and c.build_driver():
        handler_stream(c)
        rows = generic_monitor(c, "event_check", ["event-check", c.seed, 300 if c.tier == "quick" else 6000], "ev")
    c.violations = [v for v in c.violations if not str(v["replay"].get("finding_key", "")).startswith(("c09", "c10"))]
    c.partial = ["Brent iteration: root accuracy and staying inside the step are not theorems (the code's acceptance test normalises q, not p: rejected secant steps fall back to bisection — slow but convergent; tied bit-exactly by co-simulation, monitored on the implementation)",
                 "y_e = continuous solution: theorem for the model's interpolant argument; C06 gives the endpoint identities"]


C09_THEOREMS = ["SolOutM.step_prevEvent", "SolOutM.eventPhase_prevEvent", "SolOutM.outputPhase_prevEvent", "SolOutM.outputMode2_prevEvent",
                "SolOutM.crossed_of_strict", "SolOutM.locateAll_step_adds_at_most_one"]


def c09(c):
    common_proof(c, "IvpModel.Props.C09", C09_THEOREMS)
    if c.build_harness() and c.build_driver():
        handler_stream(c)
        generic_monitor(c, "event_check", ["event-check", c.seed, 300 if c.tier == "quick" else 6000], "ev")
        # the events of a run do not depend on the other output options (t_eval that starts after x0, dense output)
        generic_monitor(c, "options_check", ["options-check", c.seed, 60 if c.tier == "quick" else 1500], "op")
    c.violations = [v for v in c.violations if not str(v["replay"].get("finding_key", "")).startswith(("c08", "c10", "c11", "c12"))]
    c.partial = ["'exactly one event in that step' as a statement about whole runs is checked by the monitor (sign pattern of g at the accepted points vs t_events); the theorem gives the per-callback comparison base and the detection of strict changes",
                 "location accuracy of the single root (|t_e − c| ≤ tolerance) is monitored, not proved"]


C10_THEOREMS = ["SolOutM.step_flag", "SolOutM.eventPhase_fired_last_sample", "SolOutM.processEvs_fired", "SolOutM.processEvs_prefix", "SolOutM.processEvs_stops_at_first",
                "SolOutM.terminalSamples_tEvents", "SolOutM.dueBeforeEvent_tEvents"]


def c10(c):
    common_proof(c, "IvpModel.Props.C10", C10_THEOREMS)
    if c.build_harness() and c.build_driver():
        handler_stream(c)
        generic_monitor(c, "event_check", ["event-check", c.seed, 300 if c.tier == "quick" else 6000], "ev")
        generic_monitor(c, "teval_check", ["teval-check", c.seed, 200 if c.tier == "quick" else 4000], "te")
    c.violations = [v for v in c.violations if not str(v["replay"].get("finding_key", "")).startswith(("c08", "c09", "c05-exact", "c05-value", "c05-dense", "c05-early-stop-budget"))]
    c.partial = ["solver side (Interrupt ⇒ UserInterrupt, no further step) is C19; 'identical to the run without the terminal flag' is monitored on whole runs (prefix comparison), the handler part is processEvs_prefix"]


# ---------------------------------------------------------------------------------------------- control loops
def solve_stream(c):
    n = 250 if c.tier == "quick" else 6000
    return c.stream("xsolve", ["xsolve", c.seed, n], "solve")


def radau_stream(c):
    """X-radau / X-bdf: the control models of Radau and BDF replayed on the control trace of real runs (hook verif_hooks::trace)"""
    c.stream("xbdf", ["xbdf", c.seed, 150 if c.tier == "quick" else 3000], "bdf")
    return c.stream("xradau", ["xradau", c.seed, 150 if c.tier == "quick" else 3000], "radau")


def bdfnum_stream(c):
    """X-bdfnum: the full numeric model of BDF::solve re-run on the logged right-hand side / Jacobian of real runs"""
    return c.stream("xbdfnum", ["xbdfnum", c.seed, 120 if c.tier == "quick" else 3000], "bdfnum")


def radaunum_stream(c):
    """X-radaunum: the full numeric model of RADAU::solve re-run on the logged right-hand side / Jacobian / mass of real runs"""
    return c.stream("xradaunum", ["xradaunum", c.seed, 150 if c.tier == "quick" else 4000], "radaunum")


def fdjac_stream(c):
    """X-fdjac: the trait's default finite-difference Jacobian next to Model/FdJac.lean (translated increment and quotient)"""
    return c.stream("xfdjac", ["xfdjac", c.seed, 400 if c.tier == "quick" else 20000], "fdjac")


def only_keys(c, prefixes):
    """keep monitor violations whose finding key starts with one of `prefixes` (other properties own the rest)"""
    c.violations = [v for v in c.violations if v["kind"] != "implementation-vs-oracle"
                    or str(v["replay"].get("finding_key", "")).startswith(prefixes)]


C03_THEOREMS = ["Ctl.hAdjust_lands", "Ctl.hIter_success_at_xend", "Ctl.hLoop_success_at_xend", "Ctl.dopri5Params_guard",
                "Ctl.dop853Params_guard", "Ctl.hIter_cases", "Ctl.hSolve_protocol", "Ctl.rk23Adjust_lands", "Ctl.rk23Loop_success_at_xend", "Ctl.rk4Loop_success_at_xend", "RadauCtl.pass_land", "RadauCtl.run_success_at_xend", "RadauCtl.start_land", "BdfCtl.limits_spec", "BdfCtl.pass_land", "BdfCtl.run_success_at_xend", "BdfCtl.start_inv", "rowsum_rk4", "rowsum_rk23", "rowsum_dopri5", "rowsum_dop853",
                "Ctl.c03_success_is_xend_hairer", "Ctl.rk23Loop_success_exact", "Ctl.rk4Loop_success_exact", "RadauCtl.run_success_exact",
                "SolOutM.runMode2_forward", "SolOutM.outputMode2_forward", "SolOutM.outputMode2_initial",
                "SolOutM.runMode2_backward", "SolOutM.outputMode2_backward", "RadauCtl.pass_rinv", "RadauCtl.run_rinv", "RadauCtl.start_rinv",
                "Ctl.rk23_landing_stage_at_xend", "Ctl.rk4_landing_stage_at_xend"]


def c03(c):
    common_proof(c, "IvpModel.Props.C03", C03_THEOREMS)
    if c.build_harness() and c.build_driver():
        solve_stream(c)
        radau_stream(c)
        radaunum_stream(c)
        bdfnum_stream(c)
        generic_monitor(c, "interval_check", ["interval-check", c.seed, 250 if c.tier == "quick" else 5000], "iv")
        generic_monitor(c, "protocol_check", ["protocol-check", c.seed, 120 if c.tier == "quick" else 3000], "pr")
    only_keys(c, ("c03",))
    c.partial = ["RK23/RK4 landing and the 'to rounding' statements in binary64 are covered by the bit-exact co-simulation and the interval monitor, not by a theorem",
                 "Radau and BDF: the theorems are about the control models (RadauCtl / BdfCtl, tied to the code by the X-radau / X-bdf trace co-simulation), with the numeric kernel as an arbitrary oracle",
                 "event-function evaluation times: monitor (Prob.times) only"]


C04_THEOREMS = ["Ctl.hIter_reject_of_not_le", "Ctl.rk23Iter_reject_of_not_le", "Ctl.rk23_reject_factor_nan", "Ctl.hIter_cases",
                "Ctl.hSolve_protocol", "Ctl.dopri5_guard_progress", "Ctl.dop853_guard_progress", "Ctl.rk23_guard_progress",
                "Ctl.hGuard_none_progress", "Ctl.dopri5Params_underflow", "Ctl.dop853Params_underflow", "c04_radau_nan_estimate",
                "Ctl.c04_finiteGuard_accept", "Ctl.c04_accept_finite_dopri5", "Ctl.c04_accept_finite_dop853", "Ctl.c04_accept_finite_rk23",
                "Ctl.hSolve_terminates", "Ctl.hLoop_terminates", "Ctl.rk4Loop_terminates"]


def c04(c):
    common_proof(c, "IvpModel.Props.C04", C04_THEOREMS)
    if c.build_harness() and c.build_driver():
        solve_stream(c)
        radau_stream(c)
        radaunum_stream(c)
        bdfnum_stream(c)
        generic_monitor(c, "hostile_check", ["hostile-check", c.seed, 60 if c.tier == "quick" else 1500], "hs", timeout=3000)
        generic_monitor(c, "interval_check", ["interval-check", c.seed, 120 if c.tier == "quick" else 2000], "iv")
    only_keys(c, ("c04",))
    c.partial = ["termination (bounded work) is not a theorem: the monitor runs hostile problems on all six methods under a budget of 2e7 right-hand-side calls",
                 "overflow to ±inf and panics inside user code are outside the model",
                 "Radau/BDF Newton-failure counters are not modelled"]


C11_THEOREMS = ["Ctl.hSolve_protocol", "Ctl.rk23Solve_inv", "Ctl.rk4Solve_inv", "Ctl.hNextStep_le_hmax",
                "Ctl.hIter_budget_irrelevant", "Ctl.startMeter_first_step", "BdfCtl.limits_le_hmax",
                "HinitBound.hinit_le_hmax", "Ctl.startMeter_auto_le_hmax", "Ctl.startMeter_given_le_hmax", "RadauCtl.c11_radau_steps", "RadauCtl.pass_rinv", "RadauCtl.params_ok"]


def c11(c):
    common_proof(c, "IvpModel.Props.C11", C11_THEOREMS)
    if c.build_harness() and c.build_driver():
        solve_stream(c)
        radau_stream(c)
        radaunum_stream(c)
        bdfnum_stream(c)
        generic_monitor(c, "protocol_check", ["protocol-check", c.seed, 200 if c.tier == "quick" else 4000], "pr")
        generic_monitor(c, "options_check", ["options-check", c.seed, 60 if c.tier == "quick" else 1500], "op")
        generic_monitor(c, "interval_check", ["interval-check", c.seed, 60 if c.tier == "quick" else 1500], "iv")
    only_keys(c, ("c11",))
    c.partial = ["hinit_le_hmax and c11_radau_steps assume of powf only its sign (≥ 0 at base ≥ 0) and monotonicity at base ≥ 1 (PowOK); they are exact-arithmetic statements about the translated hinit and the Radau control model (tied by X-solve / X-radau)",
                 "c11_radau_steps assumes 1.01·safety ≤ 1 and 1.01·scale_min ≤ 1 (true of the defaults 0.9 / 0.2, which solve_ivp always uses): with safety > 1/1.01 a rejected landing step could be repeated with 0.99·h > h_max (low-level API only)"]


C12_THEOREMS = ["Ctl.afterCb_passive", "Ctl.hFinish_passive", "Ctl.hAccepted_passive", "Ctl.hIter_passive", "Ctl.hLoop_passive",
                "SolOutM.step_flag", "c12_dense_flag_passive", "c12_dense_flag_passive_dopri5", "c12_dense_flag_passive_rk23", "c12_dense_flag_passive_rk4", "Ctl.hIter_erase", "Ctl.dopri5_densePassive"]


def c12(c):
    common_proof(c, "IvpModel.Props.C12", C12_THEOREMS)
    # static fact: solve_ivp's builders receive neither t_eval nor dense_output nor anything event-related
    src = open(os.path.join(REPO, "src/solve/solve_ivp.rs")).read()
    disp = src[src.index("let result = match options.method"):src.index("match result {")]
    leaks = [w for w in ("t_eval", "dense_output", "event") if w in disp]
    c.cov["static_dispatch_blind"] = {"leaks": leaks, "chars": len(disp)}
    if leaks:
        c.violation("static-fact", "solve_ivp's solver dispatch mentions %s: output options may reach the steppers" % leaks,
                    {"file": "src/solve/solve_ivp.rs", "words": leaks}, False)
    # static fact: the default output handler never writes through the solver's abscissa / state it receives by `&mut`
    import re
    hsrc = open(os.path.join(REPO, "src/solve/solout.rs")).read()
    m = re.search(r"fn solout\s*\(", hsrc)
    writes = []
    if m:
        body = hsrc[m.start():]
        for k, line in enumerate(body.split("\n")):
            code = line.split("//")[0]
            if re.search(r"\*x\s*(=[^=]|\+=|-=|\*=)|\by\s*\[[^\]]*\]\s*(=[^=]|\+=|-=|\*=)|\by\.(copy_from_slice|fill|iter_mut|swap|clone_from_slice)\b", code):
                writes.append({"line": hsrc[:m.start()].count("\n") + k + 1, "text": line.strip()[:120]})
    c.cov["static_handler_writes"] = writes
    if not m or writes:
        c.violation("static-fact", "DefaultSolOut::solout writes through the solver's x / y (or was not found): %s" % (writes[:3],),
                    {"finding_key": "c12-handler-writes", "file": "src/solve/solout.rs", "writes": writes,
                     "theorem": "the handler model has no output for x and y (SolOutM.step returns the handler state and a flag only)"}, False)
    if c.build_harness() and c.build_driver():
        solve_stream(c)
        handler_stream(c)
        generic_monitor(c, "options_check", ["options-check", c.seed, 120 if c.tier == "quick" else 3000], "op")
    only_keys(c, ("c12", "c09-events-option"))
    c.partial = ["RK23/RK4 skeletons: observer independence not restated (same `afterCb`; co-simulated); Radau/BDF: monitor only"]


C18_THEOREMS = ["RadauCtl.newtonLoop_ode", "RadauCtl.pass_ode", "BdfCtl.newtonLoop_ode", "Ctl.Meter.counted_bump", "Ctl.Meter.counted_cb", "Ctl.Meter.counted_refresh", "Ctl.afterCb_counted",
                "Ctl.dopri5Kernel_ok", "Ctl.dop853Kernel_ok", "Ctl.hinit_calls", "Ctl.rk23_stages_calls", "Ctl.rk4_stages_calls",
                "Ctl.rk4_update_calls", "Ctl.hSolve_counted", "Ctl.C18_dopri5", "Ctl.C18_dop853", "Ctl.rk23Solve_inv", "Ctl.rk4Solve_inv",
                "Ctl.hSolve_naccpt"]


def c18(c):
    common_proof(c, "IvpModel.Props.C18", C18_THEOREMS)
    if c.build_harness() and c.build_driver():
        solve_stream(c)
        radau_stream(c)
        radaunum_stream(c)
        bdfnum_stream(c)
        generic_monitor(c, "interval_check", ["interval-check", c.seed, 250 if c.tier == "quick" else 5000], "iv")
        generic_monitor(c, "protocol_check", ["protocol-check", c.seed, 100 if c.tier == "quick" else 2000], "pr")
    only_keys(c, ("c18",))
    c.partial = ["naccpt = number of reported intervals: theorem gives callbacks = chain of accepted steps; a ProbablyStiff exit counts one accepted step that is never delivered",
                 "njev, and nfev for Radau/BDF: monitor only"]


C19_THEOREMS = ["Ctl.hSolve_protocol", "Ctl.rk23Solve_inv", "Ctl.rk4Solve_inv", "Ctl.afterCb_interrupt", "Ctl.afterCb_modified",
                "Ctl.afterCb_cont", "Ctl.hFinish_interrupt", "Ctl.afterCb_go_meter", "c19_scaled_continuation_dopri5", "c19_scaled_continuation_dop853",
                "c19_scaled_continuation_rk23", "c19_scaled_continuation_rk4", "Ctl.afterCb_scale", "c19_noop_modified", "Ctl.hIter_meq", "Ctl.hLoop_meq"]


def c19(c):
    common_proof(c, "IvpModel.Props.C19", C19_THEOREMS)
    if c.build_harness() and c.build_driver():
        solve_stream(c)
        radau_stream(c)
        radaunum_stream(c)
        bdfnum_stream(c)
        generic_monitor(c, "protocol_check", ["protocol-check", c.seed, 250 if c.tier == "quick" else 5000], "pr")
        # "passing an interpolant valid on that interval": the XOut family of dense-check (a callback that asks for an output
        # point with dense_output off must get an interpolant of the step that contains it)
        generic_monitor(c, "dense_check", ["dense-check", c.seed, 10 if c.tier == "quick" else 200], "dense")
    only_keys(c, ("c19", "c06-xout-interpolant"))
    c.partial = ["'unchanged state is a no-op' and 'doubling doubles everything' are monitored (protocol-check), not proved; open findings: BDF restart, Radau Newton start",
                 "Radau and BDF protocol: monitor only"]


# ---------------------------------------------------------------------------------------------- C16 (LU)
C16_THEOREMS = ["LU.c16_shape_errors", "LU.c16_shape_errors_complex", "LU.c16_n1", "LU.c16_n1_complex",
                "LU.c16_n2_exact_partial", "LU.c16_n2_singular_iff", "LU.lu2_noswap", "LU.lu2_swap", "LU.lu2_singular",
                "LUF.c16_general_exact", "LUF.c16_general_exact_n1", "LUF.c16_zero_first_column",
                "LUF.decomp_solve_spec", "LUF.decompGo_spec", "LUF.step_sys_iff", "LUF.backGo_spec",
                "LUF.c16_accept_iff_nonsingular", "LUF.c16_refused_singular", "LUF.decomp_singular_spec", "LUF.decomp_accept_injective", "LUF.decomp_total"]


def c16(c):
    import re, subprocess
    common_proof(c, "IvpModel.Props.C16", C16_THEOREMS)
    # "the right-hand side is the only thing modified by a solve": the matrix arguments are shared references
    src = open(os.path.join(REPO, "src", "matrix", "linear.rs")).read()
    sigs = re.findall(r"pub fn (lin_solve(?:_complex)?)\s*(?:<[^>]*>)?\s*\(([^)]*)\)", src, re.S)
    st = {"signatures": {}}
    for name, args in sigs:
        args1 = " ".join(args.split())
        st["signatures"][name] = args1
        mats = re.findall(r"(\w+)\s*:\s*&\s*(mut\s+)?Matrix", args1)
        if not mats or any(m[1] for m in mats):
            c.violation("static", "%s takes a matrix by mutable reference (or none at all): %s" % (name, args1),
                        {"finding_key": "c16-mutates-matrix", "signature": args1, "theorem": "LU.solve is a function of (a, ip, b) only"}, False)
    if len(sigs) != 2:
        c.violation("static", "lin_solve / lin_solve_complex signatures not found in src/matrix/linear.rs", {"found": [s[0] for s in sigs]}, False)
    c.monitors["solve_signatures"] = st
    if c.build_harness() and c.build_driver():
        cases = 300 if c.tier == "quick" else 6000
        stt = c.stream("xlu", ["xlu", c.seed, cases, 1], "lu")
        prefix = os.path.join(VERIF, ".work", "%s_%s" % (c.pid, "xlu"))
        if os.path.exists(prefix + ".impl"):
            t0 = time.time()
            p = subprocess.run(["python3", os.path.join(VERIF, "bin", "lu_oracle.py"), prefix], capture_output=True, text=True, timeout=3000)
            rows = [r for r in jlines(p.stdout) if r.get("kind") == "lu"]
            bad = [r for r in rows if r.get("ok") is False]
            hist = {}
            for r in rows:
                hist.setdefault("%s n=%s" % (r.get("op"), r.get("n")), 0)
                hist["%s n=%s" % (r.get("op"), r.get("n"))] += 1
            c.monitors["lu_oracle"] = {"cases": len(rows), "failures": len(bad), "s": round(time.time() - t0, 2),
                                       "max_residual_over_bound": max([r.get("ratio", 0.0) for r in rows] or [0.0]),
                                       "distribution": hist, "arithmetic": "exact rationals (python fractions)"}
            if p.returncode != 0:
                c.violation("harness-error", "lu_oracle.py failed", {"stderr": p.stderr[-800:]}, False)
            seen = set()
            for r in bad:
                key = r.get("finding_key") or "c16"
                if key in seen:
                    continue
                seen.add(key)
                rep = dict(r)
                rep["rerun"] = "harness xlu %s %s 1 <prefix> ; bin/lu_oracle.py <prefix>" % (c.seed, cases)
                c.violation("implementation-vs-oracle", "lu_oracle: %s" % r.get("why", ""), rep, True)
    c.cov["samples"] += [
        {"theorem": "LU.c16_n2_exact_partial", "statement": "a·d − b·c ≠ 0 → decomp 2 2 2 #[a,b,c,d] = ok (F, ip) ∧ A·(solve 2 F ip #[b1,b2]) = (b1,b2) ∧ |F[2]| ≤ 1   (any ordered field)"},
        {"theorem": "LU.c16_n2_singular_iff", "statement": "decomp 2 2 2 #[a,b,c,d] = error singular ↔ a·d − b·c = 0"},
    ]
    c.partial = ["exact-arithmetic correctness is a theorem for n ≤ 2 (real) and n = 1 (complex) only; n = 3..12 and complex n ≥ 2 are covered by executing the same model bit for bit beside the Rust routines (X-lu) plus the exact-rational oracle on those outputs",
                 "the rounding-error bound c·n·eps·|A|·|x| is a statement about IEEE arithmetic: decided per input by the exact-rational oracle (normwise form, c = 64), not a theorem",
                 "exactly singular matrices whose last pivot is a rounding residue are not required to be rejected (the property says 'exactly zero pivot column')"]


# ---------------------------------------------------------------------------------------------- C20 (Python binding)
C20_THEOREMS = ["Py.c20_layout", "Py.c20_status", "Py.c20_sol_layout", "Py.c20_grouping_sound", "Py.c20_sparsity_same_jacobian",
                "Py.groupColumns_none_iff", "Py.inv_step", "Py.transposeY_spec", "Py.ofName_name", "Py.colToRows_getD"]


def build_pymodule(c):
    """build /repo with --features python into /verif/.work/pytarget and expose it as .work/pymod/ivp.so"""
    import shutil
    tgt = os.path.join(VERIF, ".work", "pytarget")
    env = dict(os.environ, CARGO_TARGET_DIR=tgt, CARGO_NET_OFFLINE="true")
    rc, out, dt = sh(["cargo", "build", "--release", "--offline", "--features", "python", "--manifest-path", os.path.join(REPO, "Cargo.toml")], env=env, timeout=3000)
    c.monitors["python_extension_build"] = {"s": round(dt, 2), "rc": rc}
    so = os.path.join(tgt, "release", "libivp.so")
    if rc != 0 or not os.path.exists(so):
        c.violation("harness-build", "the Python extension (cargo build --features python) does not build", {"output_tail": out[-1500:]}, False)
        return None
    mod = os.path.join(VERIF, ".work", "pymod")
    os.makedirs(mod, exist_ok=True)
    shutil.copy(so, os.path.join(mod, "ivp.so"))
    return mod


def py_direct_compare(prefix):
    """Python's t / y against the Rust run's t / y for every solve case of the X-py stream (files <prefix>.ops / .impl / .cases)"""
    out = {"cases": 0, "bad": []}
    try:
        ops = open(prefix + ".ops").read().split("\n")
        impl = open(prefix + ".impl").read().split("\n")
        cases = [json.loads(l) for l in open(prefix + ".cases") if l.strip()]
    except OSError:
        return out
    solve_cases = [k for k in cases if k.get("type") == "solve"]
    k = -1
    for i, op in enumerate(ops):
        head = op.split(" ", 1)[0]
        if head in ("res", "err", "panic"):
            k += 1
        if head != "res" or i >= len(impl) or not impl[i].startswith("py "):
            continue
        out["cases"] += 1
        fr = dict(w.split("=", 1) for w in op.split(" ")[1:] if "=" in w)
        fp = dict(w.split("=", 1) for w in impl[i].split(" ")[1:] if "=" in w)
        if "t" not in fr or "t" not in fp:
            continue
        why = ""
        if fr["t"] != fp["t"]:
            why = "Python returns %d sample times, the Rust run %d; first difference at index %d" % (
                len(fp["t"].split(",")), len(fr["t"].split(",")),
                next((j for j, (a, b) in enumerate(zip(fr["t"].split(","), fp["t"].split(","))) if a != b), min(len(fr["t"].split(",")), len(fp["t"].split(",")))))
        elif "y" in fr and "y" in fp and fr["t"] != "-":
            rows_r = [r.split(",") for r in fr["y"].split(";")]
            m = len(rows_r)
            n = len(rows_r[0]) if m else 0
            flat = fp["y"].split(",")
            if len(flat) != n * m or any(flat[c * m + j] != rows_r[j][c] for j in range(m) for c in range(n)):
                why = "Python's y is not the transposed y of the Rust run"
        if why:
            case = solve_cases[k] if 0 <= k < len(solve_cases) else {}
            out["bad"].append({"finding_key": "c20-python-vs-rust", "why": why, "line": i + 1, "case": case,
                               "rerun": "harness xpy <seed> <cases> <prefix>; python3-vt bin/py_cosim.py <prefix> .work/pymod"})
    return out


def c20(c):
    common_proof(c, "IvpModel.Props.C20", C20_THEOREMS)
    if c.build_harness() and c.build_driver():
        mod = build_pymodule(c)
        if mod:
            rows = []

            def python_side(prefix, st):
                rc, out, dt = sh(["python3-vt", os.path.join(VERIF, "bin", "py_cosim.py"), prefix, mod], timeout=3000)
                st["python_s"] = round(dt, 2)
                rows.extend(r for r in jlines(out) if r.get("kind") == "pym")
                if rc != 0 or not os.path.exists(prefix + ".impl"):
                    st["error"] = out[-800:]
                    c.violation("correspondence", "stream xpy: the Python side failed", {"output": out[-1200:]}, False)
                    return False
                return True

            if os.path.exists(os.path.join(VERIF, ".work", "C20_xpy.impl")):
                os.remove(os.path.join(VERIF, ".work", "C20_xpy.impl"))
            c.stream("xpy", ["xpy", c.seed, 400 if c.tier == "quick" else 8000], "py", between=python_side)
            # search for a failing input: the numbers Python returned against the numbers of the Rust run, case by case
            # (the property itself — no model involved)
            direct = py_direct_compare(os.path.join(VERIF, ".work", "C20_xpy"))
            c.monitors["python_vs_rust_direct"] = {"cases": direct["cases"], "differences": len(direct["bad"]),
                                                   "checks": "t and y (transposed) returned by ivp.solve_ivp equal, bit for bit, the t and y of the Rust solve_ivp on the same case"}
            for b in direct["bad"][:1]:
                c.violation("implementation-vs-oracle", "python_vs_rust_direct: %s" % b["why"], b, True)
            bad = [r for r in rows if r.get("ok") is False]
            hist = {}
            for r in rows:
                for key in ("op", "method", "problem", "status", "branch"):
                    if key in r:
                        hist.setdefault(key, {}).setdefault(str(r[key]), 0)
                        hist[key][str(r[key])] += 1
            c.monitors["python_monitor"] = {"cases": len(rows), "failures": len(bad), "distribution": hist,
                                            "checks": "shape/dtype/success invariants; sol(t) shapes; sparsity: groups read off the perturbed states never share a row, exact-structure pattern leaves t, y, njev unchanged (csc/coo/csr inputs)"}
            seen = set()
            for r in bad:
                key = r.get("finding_key") or "c20"
                if key in seen:
                    continue
                seen.add(key)
                rep = dict(r)
                rep["rerun"] = "harness xpy %s %s <prefix>; python3-vt bin/py_cosim.py <prefix> .work/pymod" % (c.seed, 400 if c.tier == "quick" else 8000)
                c.violation("implementation-vs-oracle", "python_monitor: %s" % r.get("why", ""), rep, True)
    c.cov["samples"] += [
        {"theorem": "Py.c20_grouping_sound", "statement": "groupColumns cols n = some (groups, k) → |groups| = |cols| ∧ ∀ c, groups[c] < k ∧ ∀ c1 ≠ c2, groups[c1] = groups[c2] → rows(c1) ∩ rows(c2) = ∅   (every pattern)"},
        {"theorem": "Py.c20_sparsity_same_jacobian", "statement": "Respects f cols → row ∈ rows(col) → sparseEntry f y h groups row col = denseEntry f y h row col   (any number system)"},
        {"theorem": "Py.c20_layout", "statement": "buildResult: yshape = (n, m), y[j·m+i] = sol.y[i][j], njev = if constJac then 0 else sol.njev, …"},
    ]
    c.partial = ["argument marshalling through the CPython API (parse_options, parse_events, extract_float_array, PythonIVP callbacks) is not modelled: it is exercised by the X-py co-simulation only (list/ndarray/tuple inputs, bare or listed events, args, constant/callable Jacobian, omitted tolerances, method aliases)",
                 "the layout model is specification-shaped (Array.ofFn), the grouping model is a list transcription of group_columns; both are tied to the extension module by X-py, not by the translator",
                 "'exactly the numbers the Rust solve_ivp produces' is decided per case by X-py (bit-for-bit, problems with identical operation order on both sides), not by a theorem"]


# ---------------------------------------------------------------------------------------------- C15 (mass / storages)
C15_THEOREMS = ["Mat.c15_default_mass_identity", "Mat.c15_default_mass_spec", "Mat.c15_storage_independence", "Mat.defaultMassLoop_spec",
                "c15_radau_mass_products"]


def c15(c):
    import re
    common_proof(c, "IvpModel.Props.C15", C15_THEOREMS)
    # the solvers read and write `jac` / `mass` only through (row, col) indexing
    touched = {}
    for fn in ("radau.rs", "bdf.rs"):
        src = open(os.path.join(REPO, "src", "methods", fn)).read()
        uses = sorted(set(re.findall(r"\b(?:jac|mass)\s*\.\s*([A-Za-z_]+)", src)))
        touched[fn] = uses
        bad = [u for u in uses if u not in ("clone",)]
        if bad:
            c.violation("static-fact", "%s touches jac/mass other than through [(r, c)]: .%s" % (fn, ", .".join(bad)),
                        {"finding_key": "c15-direct-access", "file": fn, "members": bad, "theorem": "Mat.c15_storage_independence assumes reads go through get"}, False)
    c.monitors["matrix_access"] = {"members_used": touched}
    if c.build_harness() and c.build_driver():
        if c.tier == "quick":
            c.stream("xmatrix", ["xmatrix", c.seed, 300, 6, 2], "matrix")
        else:
            c.stream("xmatrix", ["xmatrix", c.seed, 6000, 8, 3], "matrix")
        radaunum_stream(c)
        generic_monitor(c, "mass_check", ["mass-check", c.seed, 40 if c.tier == "quick" else 800], "ms")
    c.cov["samples"] += [{"theorem": "Mat.c15_default_mass_identity",
                          "statement": "∀ n s, ∃ B, defaultMass (fromStorage n n s) = some B ∧ WF B ∧ ∀ i j < n, B.get i j = some (if i = j then 1 else 0)"}]
    c.partial = ["Radau's Newton iteration with a mass matrix (E1/E2 assembly, M-products) is not modelled: 'M y' = f agrees with y' = M^-1 f', the DAE residual and analytic-vs-FD agreement are decided per input by mass-check on the real solvers (tridiagonal linear systems n = 1..8 with tridiagonal mass, one index-1 DAE family)",
                 "bit-identity across storages is a theorem about reads (Mat.get) plus the source-text fact that the solvers only index; the runs themselves are compared bitwise by mass-check",
                 "index-2/3 scaling and the nind partition are not covered"]


# ---------------------------------------------------------------------------------------------- C13 (symmetries)
C13_THEOREMS = ["c13_reflect_hinit", "c13_tolerance_scalar_vector", "c13_radau_tolAdjust", "c13_reflect_rk4", "c13_reflect_rk23", "c13_reflect_dopri5",
                "c13_reflect_dop853", "c13_reflect_guards", "c13_reflect_stiff", "c13_reflect_norm", "c13_scale_dopri5", "c13_scale_rk23", "c13_copies_norm", "c13_copies_radau_norms", "c13_scale_bdf_norm", "c13_reflect_rk4_whole_run", "Ctl.rk4Iter_reflect", "Ctl.rk4Loop_reflect", "c13_reflect_rk23_whole_run", "Ctl.rk23Iter_reflect", "Ctl.rk23Loop_reflect", "c13_reflect_hairer_whole_run", "c13_reflect_dopri5_whole_run", "c13_reflect_dop853_whole_run", "Ctl.dop853KRefl", "c13_scale_hairer_whole_run", "c13_scale_dopri5_whole_run", "c13_scale_dop853_whole_run", "Ctl.dop853KScale", "c13_scale_rk23_whole_run", "c13_scale_rk4_whole_run", "c13_copies_hairer_whole_run", "c13_copies_dopri5_whole_run", "c13_copies_rk23_whole_run", "c13_copies_rk4_whole_run", "c13_copies_dop853_whole_run", "c13_reflect_radau_control", "c13_reflect_bdf_control", "BdfCtl.pass_mir", "BdfCtl.run_mir", "BdfCtl.start_mir", "RadauCtl.pass_mir", "RadauCtl.run_mir", "RadauCtl.start_mir", "sqrtDiv_real", "Ctl.dop853KDup", "Ctl.dop853_norm_copies", "Ctl.rk23Iter_dup", "Ctl.rk4Iter_dup", "Ctl.hIter_dup", "Ctl.dopri5KDup", "Ctl.blockRhs_dup", "Ctl.firstCopyObs_dup", "Ctl.rk23Iter_scale", "Ctl.rk4Iter_scale", "Ctl.hIter_scale", "Ctl.dopri5KScale", "Ctl.hinitCall_scale", "Ctl.sRhs_of_homogeneous", "Ctl.hIter_reflect", "Ctl.hLoop_reflect", "Ctl.dopri5KRefl", "Ctl.dopri5Params_refl", "Ctl.dop853Params_refl", "Ctl.hinitCall_refl",
                "rkArg_reflect", "rkNew_reflect", "rkArg_scale", "rkNew_scale", "sum_copies", "foldl_add_eq_sum"]


def c13(c):
    common_proof(c, "IvpModel.Props.C13", C13_THEOREMS)
    if c.build_harness() and c.build_driver():
        solve_stream(c)
        radaunum_stream(c)
        bdfnum_stream(c)
        generic_monitor(c, "sym_check", ["sym-check", c.seed, 200 if c.tier == "quick" else 4000], "sy")
    only_keys(c, ("c13",))
    c.cov["samples"] += [
        {"theorem": "c13_reflect_dopri5", "statement": "stages (openF (−Kc)) y (−h) (−k1) (−x): calls = mirrored calls of stages (openF Kc) y h k1 x, and the same y1   (every n, any ordered field)"},
        {"theorem": "c13_copies_norm", "statement": "(Σ_{i<m·n} (e_{i mod n}/sk_{i mod n})²)/(m·n) = (Σ_{i<n} (e_i/sk_i)²)/n"},
    ]
    c.partial = ["'bit-identical' is not expressible over ordered fields: the theorems are exact-arithmetic symmetries of the translated stage code, norms and guards; bitwise identity of whole runs is decided per input by sym-check (paired real runs: reflection with and without events, 2^k scaling, scalar/vector tolerances, 2..16 copies)",
                 "whole-run reflection is a theorem for all four explicit methods incl. the automatic first step (c13_reflect_rk4_whole_run, c13_reflect_rk23_whole_run, c13_reflect_dopri5_whole_run, c13_reflect_dop853_whole_run: induction over the loop, mirrored right-hand side and observer; the last two instantiate c13_reflect_hairer_whole_run, which holds for any kernel obeying the mirror laws), in exact arithmetic over the modelled loop (tied to the code by X-solve); whole-run scaling of state and atol by c > 0 is a theorem for all four explicit methods (c13_scale_rk4_whole_run, c13_scale_rk23_whole_run, c13_scale_dopri5_whole_run, c13_scale_dop853_whole_run; the last two are instances of c13_scale_hairer_whole_run for kernels related by the scaling laws), for every right-hand side that is homogeneous of degree one in the state (every linear system y' = A(t) y), in exact arithmetic — where any c > 0 works; that powers of two make the binary64 run bit-identical is decided per input by sym-check; duplication into m independent copies is a whole-run theorem for the DOPRI5 / DOP853 skeleton with a given first step and for DOPRI5's own kernel (c13_copies_hairer_whole_run, c13_copies_dopri5_whole_run: the block-diagonal system, stacked tolerances), and for RK23 and RK4 (c13_copies_rk23_whole_run, c13_copies_rk4_whole_run), and for DOP853 under the hypothesis sqrt(a / b^2) = sqrt(a) / b (c13_copies_dop853_whole_run; sqrtDiv_real shows the real square root has it; in binary64 it holds up to rounding, which is the property's 'up to rounding in the error norm'); it is false for the automatic first step (open finding c13-copies-autostep); the control logic of Radau and of BDF under reflection is a theorem over their control models for every answer of the numeric kernel (c13_reflect_radau_control, c13_reflect_bdf_control; that the kernel's answers — Newton increments, error norms — are themselves reflection invariant is not proved: X-radaunum / X-bdfnum and sym-check); both implicit methods under scaling and duplication are not theorems",
                 "implicit methods: step-for-step comparison of copies is not robust (quantised step-size changes); sym-check compares them stepwise anyway and has not alarmed; open finding c13-copies-autostep (hinit's unnormalised sums)"]


# ---------------------------------------------------------------------------------------------- C01 (accuracy)
C01_THEOREMS = ["c01_errnorm_spec_dopri5", "c01_errnorm_spec_rk23", "c01_errnorm_spec_radau", "c01_radau_tolerances", "c01_accept_iff",
                "c01_tol_monotone_dopri5", "c01_tol_monotone_rk23", "c01_controller_bounds", "sqrtLaws_real", "errSum_anti", "accepted_componentwise",
                "c01_errnorm_spec_bdf", "c01_errnorm_spec_radau_refined", "c01_errnorm_spec_bdf_translated", "c01_bdf_model_eq_translated"]


def c01(c):
    common_proof(c, "IvpModel.Props.C01", C01_THEOREMS)
    if c.build_harness() and c.build_driver():
        solve_stream(c)
        radau_stream(c)
        radaunum_stream(c)
        bdfnum_stream(c)
        generic_monitor(c, "accuracy_check", ["accuracy-check", c.seed, 300 if c.tier == "quick" else 6000], "ac")
    only_keys(c, ("c01",))
    c.cov["samples"] += [
        {"theorem": "c01_accept_iff", "statement": "SqrtLaws K → 0 < n → (sqrt(errSum e sk / n) ≤ 1 ↔ errSum e sk ≤ n) ∧ (accepted → ∀ i, (e_i/sk_i)² ≤ n)"},
        {"theorem": "c01_tol_monotone_dopri5", "statement": "atol ≤ atol' → rtol ≤ rtol' → sk > 0 → errnorm atol rtol … ≤ 1 → errnorm atol' rtol' … ≤ 1"},
    ]
    c.partial = ["global accuracy (error ≤ C·N·(atol + rtol|y|)), proportionality to the tolerance and RK4's global order are decided per input by accuracy-check against closed-form solutions (C = 10), not by theorems; BDF and DOP853's two-estimator norm have no theorem",
                 "the per-step theorems are about the translated regions (error norms of RK23/DOPRI5/Radau, Radau's tolerance transformation and initial scale, the DOPRI5/DOP853 controller); X-solve replays every accept/reject decision bit for bit for the explicit methods",
                 "open finding c01-radau-pure-absolute (rtol = 0 with Radau)"]


# ---------------------------------------------------------------------------------------------- C14 (stiff)
C14_THEOREMS = ["RadauCtl.pass_singular", "RadauCtl.failure_cases", "Radau14.c14_radau_constants", "c14_pade23_E", "c14_pade23_negative_real_axis", "c14_pade23_damps",
                "FdJac.fdPerturbation_ge", "FdJac.fdPerturbation_pos", "FdJac.entry_affine"]


def c14(c):
    common_proof(c, "IvpModel.Props.C14", C14_THEOREMS)
    if c.build_harness() and c.build_driver():
        radau_stream(c)
        radaunum_stream(c)
        bdfnum_stream(c)
        fdjac_stream(c)
        generic_monitor(c, "stiff_check", ["stiff-check", c.seed, 30 if c.tier == "quick" else 600], "st", timeout=3000)
        generic_monitor(c, "interval_check", ["interval-check", c.seed, 120 if c.tier == "quick" else 2000], "iv")
    only_keys(c, ("c14", "c04-hang"))
    c.cov["samples"] += [
        {"theorem": "Radau14.c14_radau_constants", "statement": "constantsCheck = true  (‖A(s)·T·Λ·TI − I‖ ≤ 1e-13, ‖TI·T − I‖ ≤ 1e-14, nodes, DD, characteristic polynomials = Padé(2,3) to 1e-15; exact rationals of the binary64 literals of radau.rs)"},
        {"theorem": "c14_pade23_damps", "statement": "0 ≤ x → P(−x)²·(1 + x/10) ≤ Q(−x)²"},
    ]
    c.partial = ["the Newton iteration, Jacobian/LU reuse logic and step-size controllers of Radau and BDF are not modelled: Success, accuracy and stiffness-independent step counts are decided per input by stiff-check on the real solvers",
                 "A-stability is proved up to the classical steps not formalised (Hurwitz denominator, maximum principle): the E-polynomial identity and the bound on the negative real axis are theorems",
                 "BDF: no theorem (coefficients are computed at run time, not constants)"]
