#!/usr/bin/env python3
"""Exact-rational oracle for C16 on the X-lu files: every binary64 value is a rational, so residuals, the backward
error bound, the multiplier bound and (on the exhaustive small-integer sets) singularity are decided without rounding.
Prints one JSON line per checked system.  usage: lu_oracle.py <prefix>"""
import sys, json, struct
from fractions import Fraction as F

def f(h):
    return struct.unpack(">d", bytes.fromhex(h))[0]
def fr(h):
    return F(f(h))
def vec(s):
    return [] if s in ("-", "") else [fr(x) for x in s.split(",")]
def finite(s):
    return all(abs(f(x)) < float("inf") for x in s.split(",")) if s not in ("-", "") else True

EPS = F(1, 2 ** 52)
C = 64   # |A x - b| <= C * n * eps * |A| |x|  (componentwise, with the usual LU growth allowance folded into C)

def det(a, n):
    a = [row[:] for row in a]
    d = F(1)
    for k in range(n):
        p = next((i for i in range(k, n) if a[i][k] != 0), None)
        if p is None:
            return F(0)
        if p != k:
            a[k], a[p] = a[p], a[k]; d = -d
        d *= a[k][k]
        for i in range(k + 1, n):
            m = a[i][k] / a[k][k]
            for j in range(k, n):
                a[i][j] -= m * a[k][j]
    return d

def main():
    prefix = sys.argv[1]
    ops = open(prefix + ".ops").read().splitlines()
    out = open(prefix + ".impl").read().splitlines()
    cur = None
    nchk = 0
    for o, r in zip(ops, out):
        w = o.split(" ")
        rw = r.split(" ")
        if w[0] == "dec":
            rows, cols, iplen = int(w[1]), int(w[2]), int(w[3])
            a = vec(w[4])
            cur = None
            why = ""
            key = ""
            if rows != cols:
                if rw[:2] != ["err", "NonSquareMatrix"]: why, key = "non-square input not rejected with NonSquareMatrix: %s" % r[:40], "c16-shape"
            elif iplen != rows:
                if rw[:2] != ["err", "PivotSizeMismatch"]: why, key = "wrong pivot length not rejected with PivotSizeMismatch: %s" % r[:40], "c16-shape"
            else:
                n = rows
                A = [[a[i * n + j] for j in range(n)] for i in range(n)]
                small_int = n <= 3 and all(x.denominator == 1 and abs(x) <= 2 for x in a)
                zero_col = any(all(A[i][j] == 0 for i in range(n)) for j in range(n))
                if rw[0] == "err":
                    if small_int and det(A, n) != 0: why, key = "nonsingular small-integer matrix rejected: %s" % o[:80], "c16-singular"
                else:
                    if zero_col: why, key = "matrix with a zero column accepted", "c16-singular"
                    elif small_int and det(A, n) == 0: why, key = "singular small-integer matrix accepted", "c16-singular"
                    fac = vec(rw[1]) if finite(rw[1]) else None
                    if fac is None:
                        why, key = "lu_decomp accepts the matrix but its factors are not finite", "c16-nonfinite-solution"
                        fac = [F(0)] * (n * n)
                    # multipliers (strict lower triangle) at most 1 in magnitude
                    for i in range(n):
                        for j in range(i):
                            if abs(fac[i * n + j]) > 1 + 4 * EPS and not why:
                                why, key = "multiplier l[%d][%d] = %s exceeds 1" % (i, j, float(fac[i * n + j])), "c16-multiplier"
                    # the residual bound is claimed for nonsingular matrices only (an exactly singular matrix whose
                    # last pivot is a rounding residue is not required to be detected)
                    cur = (n, A) if det(A, n) != 0 else None
            if why or rows != cols or iplen != rows:
                print(json.dumps({"kind": "lu", "op": "dec", "n": rows, "ok": not why, "why": why, "finding_key": key, "input": o[:300]}))
                nchk += 1
        elif w[0] == "sol" and cur is not None and not finite(rw[1]):
            print(json.dumps({"kind": "lu", "op": "sol", "n": cur[0], "ok": False, "finding_key": "c16-nonfinite-solution",
                              "why": "nonsingular matrix accepted by lu_decomp, but lin_solve returns a non-finite solution", "input": o[:300]}))
            nchk += 1
        elif w[0] == "sol" and cur is not None:
            n, A = cur
            b = vec(w[4])
            x = vec(rw[1])
            why, key = "", ""
            worst = F(0)
            # Gaussian elimination with partial pivoting is backward stable in the normwise sense:
            # |A x - b|_i <= C n eps ||A||_inf ||x||_inf   (the componentwise form can fail for badly scaled rows)
            normA = max(sum(abs(v) for v in row) for row in A)
            normx = max(abs(v) for v in x)
            for i in range(n):
                res = abs(sum(A[i][j] * x[j] for j in range(n)) - b[i])
                bound = C * n * EPS * normA * normx
                if bound > 0:
                    worst = max(worst, res / bound)
                if res > bound and not why:
                    why, key = "row %d: |A x - b| = %.3e exceeds %d*n*eps*|A||x| = %.3e" % (i, float(res), C, float(bound)), "c16-residual"
            print(json.dumps({"kind": "lu", "op": "sol", "n": n, "ok": not why, "why": why, "finding_key": key,
                              "ratio": float(worst), "input": (o[:200] if why else "")}))
            nchk += 1
        elif w[0] == "decc":
            n = int(w[1]); iplen = int(w[2])
            cur = None
            if iplen == n and rw[0] == "ok":
                ar, ai = vec(w[3]), vec(w[4])
                # exact singularity of the complex matrix = singularity of the real 2n x 2n matrix [[R,-I],[I,R]]
                big = [[F(0)] * (2 * n) for _ in range(2 * n)]
                for i in range(2 * n):
                    for j in range(2 * n):
                        ii, jj = i % n, j % n
                        if i < n and j < n or i >= n and j >= n: big[i][j] = ar[ii * n + jj]
                        elif i < n: big[i][j] = -ai[ii * n + jj]
                        else: big[i][j] = ai[ii * n + jj]
                cur = ("c", n, ar, ai) if det(big, 2 * n) != 0 else None
                # stored multipliers of the complex factorisation: the pivot is chosen by |re| + |im| (Hairer's DECC), which
                # bounds the modulus of a multiplier by sqrt 2, not by 1 (open finding c16-complex-multiplier); anything beyond
                # sqrt 2 is a different matter
                if not (finite(rw[1]) and finite(rw[2])):
                    print(json.dumps({"kind": "lu", "op": "decc", "n": n, "ok": False, "finding_key": "c16-nonfinite-solution", "why": "lu_decomp_complex accepts the matrix but its factors are not finite", "input": o[:300]}))
                    continue
                fr, fi = vec(rw[1]), vec(rw[2])
                worst2 = F(0)
                for i in range(n):
                    for j in range(i):
                        worst2 = max(worst2, fr[i * n + j] ** 2 + fi[i * n + j] ** 2)
                if worst2 > 2 * (1 + 8 * EPS):
                    print(json.dumps({"kind": "lu", "op": "decc", "n": n, "ok": False, "finding_key": "c16-complex-multiplier-bound", "why": "complex multiplier of modulus %.6f exceeds sqrt 2" % float(worst2) ** 0.5, "input": o[:300]}))
                elif worst2 > 1 + 8 * EPS:
                    print(json.dumps({"kind": "lu", "op": "decc", "n": n, "ok": False, "finding_key": "c16-complex-multiplier", "why": "complex multiplier of modulus %.6f exceeds 1 (pivoting by |re| + |im|)" % float(worst2) ** 0.5, "input": o[:300]}))
                nchk += 1
            elif iplen == n and rw[0] == "err":
                # a rejected complex matrix with small Gaussian-integer entries: no rounding can produce an exactly zero pivot
                # of a nonsingular matrix of this kind, so exact nonsingularity makes the rejection wrong
                ar, ai = vec(w[3]), vec(w[4])
                if n <= 6 and all(x.denominator == 1 and abs(x) <= 2 for x in ar + ai):
                    big = [[F(0)] * (2 * n) for _ in range(2 * n)]
                    for i in range(2 * n):
                        for j in range(2 * n):
                            ii, jj = i % n, j % n
                            if i < n and j < n or i >= n and j >= n: big[i][j] = ar[ii * n + jj]
                            elif i < n: big[i][j] = -ai[ii * n + jj]
                            else: big[i][j] = ai[ii * n + jj]
                    bad = det(big, 2 * n) != 0
                    print(json.dumps({"kind": "lu", "op": "decc", "n": n, "ok": not bad, "finding_key": "c16-singular" if bad else "",
                                      "why": ("nonsingular complex matrix with small integer parts rejected: %s" % r[:40]) if bad else "", "input": o[:300] if bad else ""}))
                    nchk += 1
            elif iplen != n and rw[:2] != ["err", "PivotSizeMismatch"]:
                print(json.dumps({"kind": "lu", "op": "decc", "n": n, "ok": False, "why": "wrong pivot length not rejected", "finding_key": "c16-shape"}))
        elif w[0] == "solc" and cur is not None and cur[0] == "c" and not (finite(rw[1]) and finite(rw[2])):
            print(json.dumps({"kind": "lu", "op": "solc", "n": cur[1], "ok": False, "finding_key": "c16-nonfinite-solution",
                              "why": "nonsingular complex matrix accepted by lu_decomp_complex, but lin_solve_complex returns a non-finite solution", "input": o[:300]}))
            nchk += 1
        elif w[0] == "solc" and cur is not None and cur[0] == "c":
            _, n, ar, ai = cur
            br, bi = vec(w[5]), vec(w[6])
            xr, xi = vec(rw[1]), vec(rw[2])
            why, key = "", ""
            worst = F(0)
            normA = max(sum(abs(ar[i * n + j]) + abs(ai[i * n + j]) for j in range(n)) for i in range(n))
            normx = max(abs(xr[j]) + abs(xi[j]) for j in range(n))
            for i in range(n):
                rr = sum(ar[i * n + j] * xr[j] - ai[i * n + j] * xi[j] for j in range(n)) - br[i]
                ri = sum(ar[i * n + j] * xi[j] + ai[i * n + j] * xr[j] for j in range(n)) - bi[i]
                res = abs(rr) + abs(ri)
                bound = 4 * C * n * EPS * normA * normx
                if bound > 0:
                    worst = max(worst, res / bound)
                if res > bound and not why:
                    why, key = "complex row %d: residual %.3e exceeds bound %.3e" % (i, float(res), float(bound)), "c16-residual-complex"
            print(json.dumps({"kind": "lu", "op": "solc", "n": n, "ok": not why, "why": why, "finding_key": key, "ratio": float(worst),
                              "input": (o[:300] if why else "")}))
            nchk += 1
    print(json.dumps({"kind": "lu-summary", "checked": nchk}))

if __name__ == "__main__":
    main()
