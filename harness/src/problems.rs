//! Test problems shared by the monitors (closed-form solutions where available).
#![allow(dead_code)]
use ivp::prelude::*;

#[derive(Clone, Copy, Debug, PartialEq)]
pub enum Kind {
    Huge,       // y1' = 1e308, y2' = 1e300 t: finite right-hand side, the solution overflows
    Harmonic,   // y1' = y2, y2' = -y1
    Logistic,   // y' = y (1 - y)
    Decay3,     // y_i' = -r_i y_i, r = (0.5, 2, 7)
    Riccati,    // y' = -2 t y^2, y = 1/(1+t^2) for y(0)=1
    VdP,        // van der Pol mu = 1
    Mixed,      // y1' = -y2 + 0.1 y1 (1 - y1^2 - y2^2), y2' = y1 + 0.1 y2 (1 - y1^2 - y2^2)  (limit cycle r=1)
    Stiff,      // y1' = -1000 (y1 - cos t) - sin t ; y2' = -y2   (Prothero–Robinson)
    Blowup,     // y' = y^2
    Const,      // y' = (1, -2)
    VdPStiff,   // van der Pol mu = 1000
    Robertson,  // chemical kinetics, rates 0.04 / 1e4 / 3e7
    Slow,       // y' = -0.01 y  (two components): the automatic first step is long
}
pub const SMOOTH: [Kind; 6] = [Kind::Harmonic, Kind::Logistic, Kind::Decay3, Kind::Riccati, Kind::VdP, Kind::Mixed];

#[derive(Clone, Debug)]
pub struct EventSpec {
    /// g(t,y) = a*t + b·y - c
    pub a: f64,
    pub b: Vec<f64>,
    pub c: f64,
    pub dir: i32,
    pub terminal: Option<usize>,
}

pub struct Prob {
    pub kind: Kind,
    pub events: Vec<EventSpec>,
    pub count: std::cell::Cell<usize>,
    pub jcount: std::cell::Cell<usize>,
    pub user_jac: bool,
    pub times: std::cell::RefCell<Vec<f64>>,
    pub record_times: bool,
    /// time reflection: the problem z'(s) = -f(-s, z), whose solution is z(s) = y(-s)
    pub reflect: bool,
    /// independent identical copies of the system stacked into one state vector
    pub copies: usize,
}
impl Prob {
    pub fn new(kind: Kind) -> Self {
        Prob { kind, events: vec![], count: 0.into(), jcount: 0.into(), user_jac: false, times: vec![].into(), record_times: false, reflect: false, copies: 1 }
    }
    pub fn n(&self) -> usize { self.n0() * self.copies }
    pub fn n0(&self) -> usize {
        match self.kind {
            Kind::Harmonic | Kind::VdP | Kind::Mixed | Kind::Stiff | Kind::Const | Kind::VdPStiff | Kind::Slow | Kind::Huge => 2,
            Kind::Decay3 | Kind::Robertson => 3,
            _ => 1,
        }
    }
    pub fn y0(&self) -> Vec<f64> {
        let b = self.y00();
        (0..self.copies).flat_map(|_| b.clone()).collect()
    }
    pub fn y00(&self) -> Vec<f64> {
        match self.kind {
            Kind::Harmonic => vec![1.0, 0.0],
            Kind::Logistic => vec![0.1],
            Kind::Decay3 => vec![1.0, 2.0, 3.0],
            Kind::Riccati => vec![1.0],
            Kind::VdP => vec![2.0, 0.0],
            Kind::Mixed => vec![0.5, 0.0],
            Kind::Stiff => vec![1.0, 1.0],
            Kind::Blowup => vec![1.0],
            Kind::Const => vec![0.0, 1.0],
            Kind::Huge => vec![0.0, 1.0],
            Kind::VdPStiff => vec![2.0, 0.0],
            Kind::Robertson => vec![1.0, 0.0, 0.0],
            Kind::Slow => vec![1.0, 2.0],
        }
    }
    pub fn rhs(&self, t: f64, y: &[f64], d: &mut [f64]) {
        let n0 = self.n0();
        let tt = if self.reflect { -t } else { t };
        for c in 0..self.copies {
            self.rhs0(tt, &y[c * n0..(c + 1) * n0], &mut d[c * n0..(c + 1) * n0]);
        }
        if self.reflect {
            for v in d.iter_mut() { *v = -*v; }
        }
    }
    pub fn rhs0(&self, t: f64, y: &[f64], d: &mut [f64]) {
        match self.kind {
            Kind::Harmonic => { d[0] = y[1]; d[1] = -y[0]; }
            Kind::Logistic => { d[0] = y[0] * (1.0 - y[0]); }
            Kind::Decay3 => { d[0] = -0.5 * y[0]; d[1] = -2.0 * y[1]; d[2] = -7.0 * y[2]; }
            Kind::Riccati => { d[0] = -2.0 * t * y[0] * y[0]; }
            Kind::VdP => { d[0] = y[1]; d[1] = (1.0 - y[0] * y[0]) * y[1] - y[0]; }
            Kind::Mixed => {
                let r = 1.0 - y[0] * y[0] - y[1] * y[1];
                d[0] = -y[1] + 0.1 * y[0] * r;
                d[1] = y[0] + 0.1 * y[1] * r;
            }
            Kind::Stiff => { d[0] = -1000.0 * (y[0] - t.cos()) - t.sin(); d[1] = -y[1]; }
            Kind::Blowup => { d[0] = y[0] * y[0]; }
            Kind::Const => { d[0] = 1.0; d[1] = -2.0; }
            Kind::Huge => { d[0] = 1e308; d[1] = 1e300 * t; }
            Kind::VdPStiff => { d[0] = y[1]; d[1] = 1000.0 * (1.0 - y[0] * y[0]) * y[1] - y[0]; }
            Kind::Slow => { d[0] = -0.01 * y[0]; d[1] = -0.01 * y[1]; }
            Kind::Robertson => {
                d[0] = -0.04 * y[0] + 1.0e4 * y[1] * y[2];
                d[1] = 0.04 * y[0] - 1.0e4 * y[1] * y[2] - 3.0e7 * y[1] * y[1];
                d[2] = 3.0e7 * y[1] * y[1];
            }
        }
    }
    /// exact solution from the default y0 at t0 = 0 (None if not closed-form)
    pub fn exact(&self, t: f64) -> Option<Vec<f64>> {
        let tt = if self.reflect { -t } else { t };
        self.exact0(tt).map(|b| (0..self.copies).flat_map(|_| b.clone()).collect())
    }
    pub fn exact0(&self, t: f64) -> Option<Vec<f64>> {
        match self.kind {
            Kind::Harmonic => Some(vec![t.cos(), -t.sin()]),
            Kind::Logistic => Some(vec![0.1 * t.exp() / (1.0 + 0.1 * (t.exp() - 1.0))]),
            Kind::Decay3 => Some(vec![(-0.5 * t).exp(), 2.0 * (-2.0 * t).exp(), 3.0 * (-7.0 * t).exp()]),
            Kind::Riccati => Some(vec![1.0 / (1.0 + t * t)]),
            Kind::Stiff => Some(vec![t.cos(), (-t).exp()]),
            Kind::Const => Some(vec![t, 1.0 - 2.0 * t]),
            Kind::Slow => Some(vec![(-0.01 * t).exp(), 2.0 * (-0.01 * t).exp()]),
            _ => None,
        }
    }
}
impl Prob {
    /// analytic Jacobian of one copy of the unreflected problem
    pub fn jac0(&self, t: f64, y: &[f64], j: &mut Matrix) {
        match self.kind {
            Kind::Harmonic => { j[(0, 0)] = 0.0; j[(0, 1)] = 1.0; j[(1, 0)] = -1.0; j[(1, 1)] = 0.0; }
            Kind::Logistic => { j[(0, 0)] = 1.0 - 2.0 * y[0]; }
            Kind::Decay3 => {
                for r in 0..3 { for c in 0..3 { j[(r, c)] = 0.0; } }
                j[(0, 0)] = -0.5; j[(1, 1)] = -2.0; j[(2, 2)] = -7.0;
            }
            Kind::Riccati => { j[(0, 0)] = -4.0 * t * y[0]; }
            Kind::VdP => { j[(0, 0)] = 0.0; j[(0, 1)] = 1.0; j[(1, 0)] = -2.0 * y[0] * y[1] - 1.0; j[(1, 1)] = 1.0 - y[0] * y[0]; }
            Kind::Mixed => {
                let r = 1.0 - y[0] * y[0] - y[1] * y[1];
                j[(0, 0)] = 0.1 * (r - 2.0 * y[0] * y[0]); j[(0, 1)] = -1.0 - 0.2 * y[0] * y[1];
                j[(1, 0)] = 1.0 - 0.2 * y[0] * y[1]; j[(1, 1)] = 0.1 * (r - 2.0 * y[1] * y[1]);
            }
            Kind::Stiff => { j[(0, 0)] = -1000.0; j[(0, 1)] = 0.0; j[(1, 0)] = 0.0; j[(1, 1)] = -1.0; }
            Kind::Blowup => { j[(0, 0)] = 2.0 * y[0]; }
            Kind::Const => { j[(0, 0)] = 0.0; j[(0, 1)] = 0.0; j[(1, 0)] = 0.0; j[(1, 1)] = 0.0; }
            Kind::Huge => { j[(0, 0)] = 0.0; j[(0, 1)] = 0.0; j[(1, 0)] = 0.0; j[(1, 1)] = 0.0; }
            Kind::VdPStiff => { j[(0, 0)] = 0.0; j[(0, 1)] = 1.0; j[(1, 0)] = -2000.0 * y[0] * y[1] - 1.0; j[(1, 1)] = 1000.0 * (1.0 - y[0] * y[0]); }
            Kind::Slow => { j[(0, 0)] = -0.01; j[(0, 1)] = 0.0; j[(1, 0)] = 0.0; j[(1, 1)] = -0.01; }
            Kind::Robertson => {
                j[(0, 0)] = -0.04; j[(0, 1)] = 1.0e4 * y[2]; j[(0, 2)] = 1.0e4 * y[1];
                j[(1, 0)] = 0.04; j[(1, 1)] = -1.0e4 * y[2] - 6.0e7 * y[1]; j[(1, 2)] = -1.0e4 * y[1];
                j[(2, 0)] = 0.0; j[(2, 1)] = 6.0e7 * y[1]; j[(2, 2)] = 0.0;
            }
        }
    }
}
impl IVP for Prob {
    fn ode(&self, t: f64, y: &[f64], d: &mut [f64]) {
        self.count.set(self.count.get() + 1);
        if self.record_times {
            self.times.borrow_mut().push(t);
        }
        self.rhs(t, y, d)
    }
    fn n_events(&self) -> usize {
        self.events.len()
    }
    fn events(&self, t: f64, y: &[f64], out: &mut [f64]) {
        if self.record_times {
            self.times.borrow_mut().push(t);
        }
        let t = if self.reflect { -t } else { t };
        for (k, e) in self.events.iter().enumerate() {
            let mut g = e.a * t - e.c;
            for (bi, yi) in e.b.iter().zip(y.iter()) {
                g += bi * yi;
            }
            out[k] = g;
        }
    }
    fn event_config(&self, i: usize) -> EventConfig {
        let mut c = EventConfig::new();
        c.direction(Direction::from(self.events[i].dir));
        if let Some(k) = self.events[i].terminal {
            c.terminal_count(k);
        }
        c
    }
    fn jac(&self, t: f64, y: &[f64], j: &mut Matrix) {
        self.jcount.set(self.jcount.get() + 1);
        if self.record_times {
            self.times.borrow_mut().push(t);
        }
        if !self.user_jac {
            // the trait's own default body (src/ivp.rs), run on a view of this problem whose `ode` is the uncounted `rhs`,
            // so that `count` keeps counting only the stepper's own evaluations
            struct Uncounted<'a>(&'a Prob);
            impl<'a> IVP for Uncounted<'a> { fn ode(&self, t: f64, y: &[f64], d: &mut [f64]) { self.0.rhs(t, y, d) } }
            Uncounted(self).jac(t, y, j);
            return;
        }
        let n0 = self.n0();
        let tt = if self.reflect { -t } else { t };
        let mut b = Matrix::zeros(n0, n0);
        for c in 0..self.copies {
            self.jac0(tt, &y[c * n0..(c + 1) * n0], &mut b);
            for r in 0..n0 { for q in 0..n0 {
                let v = b[(r, q)];
                j[(c * n0 + r, c * n0 + q)] = if self.reflect { -v } else { v };
            } }
        }
    }
}
