//! Search side of C05, C08, C09, C10: the property statements checked directly on `solve_ivp` runs.
use crate::common::*;
use crate::problems::*;
use ivp::prelude::*;

fn close(a: &[f64], b: &[f64], tol: f64) -> bool {
    a.len() == b.len() && a.iter().zip(b).all(|(x, y)| (x - y).abs() <= tol * (1.0 + x.abs().max(y.abs())))
}
fn gval(e: &EventSpec, t: f64, y: &[f64]) -> f64 {
    let mut g = e.a * t - e.c;
    for (bi, yi) in e.b.iter().zip(y.iter()) {
        g += bi * yi;
    }
    g
}
fn crossed(l: f64, r: f64, dir: i32) -> bool {
    match dir {
        0 => (l <= 0.0 && r >= 0.0) || (l >= 0.0 && r <= 0.0),
        d if d > 0 => l < 0.0 && r >= 0.0,
        _ => l > 0.0 && r <= 0.0,
    }
}
fn strict_cross(l: f64, r: f64, dir: i32) -> bool {
    match dir {
        0 => (l < 0.0 && r > 0.0) || (l > 0.0 && r < 0.0),
        d if d > 0 => l < 0.0 && r > 0.0,
        _ => l > 0.0 && r < 0.0,
    }
}

struct Setup {
    kind: Kind,
    method: Method,
    x0: f64,
    xend: f64,
    rtol: f64,
    atol: f64,
}
fn setup(rng: &mut Rng) -> Setup {
    let kind = *rng.pick(&SMOOTH);
    let method = *rng.pick(&ALL_METHODS);
    let span = rng.range(0.5, 4.0);
    let xend = if rng.chance(0.35) { -span } else { span };
    let rtol = 10f64.powf(-rng.range(3.0, 8.0));
    Setup { kind, method, x0: 0.0, xend, rtol, atol: rtol * 1e-2 }
}
fn opts(s: &Setup) -> ivp::solve::Options {
    Options::builder().method(s.method).rtol(s.rtol).atol(s.atol).build()
}
fn desc(s: &Setup) -> String {
    format!("\"problem\":\"{:?}\",\"method\":\"{}\",\"x0\":{},\"xend\":{},\"rtol\":{},\"atol\":{}", s.kind, method_name(s.method), s.x0, jnum(s.xend), jnum(s.rtol), jnum(s.atol))
}

/// random linear event functions placed so that crossings are likely
fn gen_events(rng: &mut Rng, p: &Prob, grid_t: &[f64], grid_y: &[Vec<f64>], allow_terminal: bool) -> Vec<EventSpec> {
    let n = p.n();
    let nev = 1 + rng.below(3);
    let mut evs = vec![];
    let same_step = rng.chance(0.4);
    let k_shared = rng.below(grid_t.len());
    for _ in 0..nev {
        let (a, b): (f64, Vec<f64>) = if rng.chance(0.4) {
            (1.0, vec![0.0; n])
        } else {
            let mut b: Vec<f64> = (0..n).map(|_| if rng.chance(0.4) { 0.0 } else { rng.range(-1.0, 1.0) }).collect();
            if b.iter().all(|v| *v == 0.0) { b[0] = 1.0; }
            (if rng.chance(0.5) { 0.0 } else { rng.range(-1.0, 1.0) }, b)
        };
        // with probability 0.4 all event functions of the case cross inside one and the same accepted step
        let k = if same_step { k_shared } else { rng.below(grid_t.len()) };
        let k2 = (k + 1).min(grid_t.len() - 1);
        // level between two consecutive accepted points (mid-step root) or within 1e-9 of a grid point
        let mut e = EventSpec { a, b, c: 0.0, dir: [-1, 0, 1][rng.below(3)], terminal: None };
        let g1 = gval(&e, grid_t[k], &grid_y[k]);
        let g2 = gval(&e, grid_t[k2], &grid_y[k2]);
        e.c = match rng.below(4) {
            0 => g1 + 1e-9 * (g2 - g1).signum(),
            1 => g2 - 1e-9 * (g2 - g1).signum(),
            _ => g1 + (g2 - g1) * rng.range(0.1, 0.9),
        };
        if allow_terminal && rng.chance(0.4) {
            e.terminal = Some(1 + rng.below(2));
        }
        evs.push(e);
    }
    evs
}

pub fn events(args: &[String]) {
    let seed: u64 = args.get(0).and_then(|s| s.parse().ok()).unwrap_or(1);
    let cases: usize = args.get(1).and_then(|s| s.parse().ok()).unwrap_or(100);
    let mut rng = Rng(seed ^ 0xE7E7);
    for case in 0..cases {
        let s = setup(&mut rng);
        let mut p = Prob::new(s.kind);
        let y0 = p.y0();
        let dirn = (s.xend - s.x0).signum();
        // plain run: the accepted-step grid
        let plain = match solve_ivp(&p, s.x0, s.xend, &y0, opts(&s)) {
            Ok(r) => r,
            Err(_) => continue,
        };
        if plain.t.len() < 2 { continue; }
        let terminal_case = rng.chance(0.5);
        p.events = gen_events(&mut rng, &p, &plain.t, &plain.y, terminal_case);
        let evdesc: Vec<String> = p.events.iter().map(|e| format!("{{\"a\":{},\"b\":{},\"c\":{},\"dir\":{},\"terminal\":{}}}", jnum(e.a), jarr(&e.b), jnum(e.c), e.dir, e.terminal.map(|k| k.to_string()).unwrap_or("null".into()))).collect();
        let mut o = opts(&s);
        o.dense_output = true;
        let sol = match solve_ivp(&p, s.x0, s.xend, &y0, o) {
            Ok(r) => r,
            Err(e) => { println!("{{\"kind\":\"ev\",\"case\":{},{},\"ok\":false,\"why\":\"solve_ivp error {:?}\"}}", case, desc(&s), e); continue; }
        };
        let mut why = String::new();
        let mut key = "";
        let nev = p.events.len();
        let mut fail = |k: &'static str, w: String, why: &mut String, key: &mut &str| { if why.is_empty() { *why = w; *key = k; } };
        // ---- shapes / ordering (C08)
        if sol.t_events.len() != nev || sol.y_events.len() != nev { fail("c08-shapes", "t_events/y_events have the wrong number of lists".into(), &mut why, &mut key); }
        for i in 0..nev.min(sol.t_events.len()) {
            if sol.t_events[i].len() != sol.y_events[i].len() { fail("c08-shapes", format!("event {}: {} times but {} states", i, sol.t_events[i].len(), sol.y_events[i].len()), &mut why, &mut key); }
            for w in sol.t_events[i].windows(2) {
                if (w[1] - w[0]) * dirn < 0.0 { fail("c08-order", format!("event {}: times {} then {} are not in the order of integration", i, w[0], w[1]), &mut why, &mut key); }
            }
            for (te, ye) in sol.t_events[i].iter().zip(sol.y_events[i].iter()) {
                if ye.len() != p.n() { fail("c08-shapes", "event state has the wrong dimension".into(), &mut why, &mut key); continue; }
                // inside the span and inside a bracketing accepted step
                let steps: Vec<f64> = sol.t.clone();
                let inside = (te - s.x0) * dirn >= -1e-12 && (s.xend - te) * dirn >= -1e-12;
                if !inside { fail("c08-span", format!("event {} at t={} lies outside the integration span", i, te), &mut why, &mut key); }
                // y_e equals the continuous solution
                match sol.sol(*te) {
                    // the handler evaluates the step's interpolant at the located time; `sol` evaluates the stored copy of the same
                    // coefficients with the same routine: away from step ends (where `sol` may pick the neighbouring segment) the
                    // two agree bit for bit — a state taken from another trial point of the root search does not
                    Ok(v) => {
                        let near_end = sol.t.iter().any(|t| (t - te).abs() <= 1e-9 * (1.0 + te.abs()));
                        let same = if near_end { close(&v, ye, 1e-7) } else { v.len() == ye.len() && v.iter().zip(ye.iter()).all(|(a, b)| a.to_bits() == b.to_bits()) };
                        if !same { fail("c08-state", format!("event {} at t={}: y_e={:?} but sol(t_e)={:?}", i, te, ye, v), &mut why, &mut key); }
                    }
                    Err(_) => fail("c08-state", format!("event {} at t={}: sol(t_e) is not available", i, te), &mut why, &mut key),
                }
                // g(t_e, y_e) = 0 to root-finder accuracy
                let g = gval(&p.events[i], *te, ye);
                let scale = 1.0 + p.events[i].c.abs() + (p.events[i].a * te).abs() + p.events[i].b.iter().zip(ye.iter()).map(|(b, y)| (b * y).abs()).sum::<f64>();
                if g.abs() > 1e-7 * scale { fail("c08-root", format!("event {}: g(t_e,y_e) = {} at t_e={}", i, g, te), &mut why, &mut key); }
                let _ = steps;
            }
        }
        let stopped = sol.status == Status::UserInterrupt;
        // ---- C09: sign changes between consecutive accepted endpoints (plain grid is valid when nothing terminal fired)
        if !stopped && sol.t.len() == plain.t.len() {
            for i in 0..nev {
                for k in 0..sol.t.len() - 1 {
                    let g1 = gval(&p.events[i], sol.t[k], &sol.y[k]);
                    let g2 = gval(&p.events[i], sol.t[k + 1], &sol.y[k + 1]);
                    let (lo, hi) = (sol.t[k].min(sol.t[k + 1]), sol.t[k].max(sol.t[k + 1]));
                    let cnt = sol.t_events[i].iter().filter(|te| **te >= lo && **te <= hi).count();
                    let cnt_strict_inside = sol.t_events[i].iter().filter(|te| **te > lo + 1e-9 && **te < hi - 1e-9).count();
                    if g1.abs() > 1e-9 && g2.abs() > 1e-9 {
                        if strict_cross(g1, g2, p.events[i].dir) && cnt != 1 {
                            fail("c09-missed", format!("event {}: g changes sign {} -> {} over the accepted step [{}, {}] but {} events are reported there", i, g1, g2, sol.t[k], sol.t[k + 1], cnt), &mut why, &mut key);
                        }
                        if g1 * g2 > 0.0 && cnt_strict_inside != 0 {
                            fail("c09-spurious", format!("event {}: g keeps its sign ({}, {}) over the accepted step [{}, {}] but {} events are reported inside", i, g1, g2, sol.t[k], sol.t[k + 1], cnt_strict_inside), &mut why, &mut key);
                        }
                        if cnt == 1 && !crossed(g1, g2, p.events[i].dir) && cnt_strict_inside == 1 {
                            fail("c08-direction", format!("event {} (direction {}) reported in a step where g goes {} -> {}", i, p.events[i].dir, g1, g2), &mut why, &mut key);
                        }
                    }
                }
            }
        }
        // ---- C10: terminal
        if stopped {
            // which event stopped it: the one whose hit count reached its limit
            let mut stop_t: Option<f64> = None;
            for i in 0..nev {
                if let Some(lim) = p.events[i].terminal {
                    if sol.t_events[i].len() >= lim { let t = sol.t_events[i][lim - 1]; stop_t = Some(match stop_t { Some(s0) => if (t - s0) * dirn < 0.0 { t } else { s0 }, None => t }); }
                }
            }
            match stop_t {
                None => fail("c10-status", "UserInterrupt without a terminal event at its occurrence count".into(), &mut why, &mut key),
                Some(ts) => {
                    let last = *sol.t.last().unwrap();
                    if last != ts { fail("c10-final", format!("final sample t={} is not the terminal event time {}", last, ts), &mut why, &mut key); }
                    let slack = 1e-12 * (1.0 + ts.abs()); // BDF hands the callback xold = x - h: equal to the previous x only to rounding
                    for t in &sol.t { if (t - ts) * dirn > slack { fail("c10-later-sample", format!("sample at t={} is later than the terminal event at {}", t, ts), &mut why, &mut key); } }
                    for i in 0..nev { for t in &sol.t_events[i] { if (t - ts) * dirn > slack { fail("c10-later-event", format!("event {} at t={} is later than the terminal event at {}", i, t, ts), &mut why, &mut key); } } }
                    // prefix of the run without terminal flags
                    let mut p2 = Prob::new(s.kind);
                    p2.events = p.events.iter().map(|e| EventSpec { terminal: None, ..e.clone() }).collect();
                    let mut o2 = opts(&s);
                    o2.dense_output = true;
                    if let Ok(free) = solve_ivp(&p2, s.x0, s.xend, &y0, o2) {
                        for i in 0..nev {
                            // events strictly before the stop must coincide (events at exactly the stopping time are ties:
                            // the terminal one ends the processing of that instant)
                            let want: Vec<f64> = free.t_events[i].iter().cloned().filter(|t| (t - ts) * dirn < 0.0).collect();
                            let got: Vec<f64> = sol.t_events[i].iter().cloned().filter(|t| (t - ts) * dirn < 0.0).collect();
                            if want != got { fail("c10-prefix", format!("event {}: terminal run reports {:?}, the same run without the terminal flag reports {:?} up to the stop", i, sol.t_events[i], want), &mut why, &mut key); }
                        }
                        let m = sol.t.len() - 1;
                        if free.t.len() < m || free.t[..m] != sol.t[..m] || free.y[..m] != sol.y[..m] { fail("c10-prefix", "samples before the stop differ from the run without the terminal flag".into(), &mut why, &mut key); }
                    }
                }
            }
        } else if sol.status == Status::Success {
            for i in 0..nev { if let Some(lim) = p.events[i].terminal { if sol.t_events[i].len() >= lim { fail("c10-status", format!("terminal event {} reached its count {} but status is Success", i, lim), &mut why, &mut key); } } }
        }
        println!(
            "{{\"kind\":\"ev\",\"case\":{},{},\"events\":[{}],\"status\":\"{:?}\",\"n_events\":{},\"branch\":\"{}\",\"finding_key\":\"{}\",\"ok\":{},\"why\":{:?}}}",
            case, desc(&s), evdesc.join(","), sol.status, sol.t_events.iter().map(|v| v.len()).sum::<usize>(), if stopped { "terminal" } else { "free" }, key, why.is_empty(), why
        );
    }
    // single known root g = t - c (C09)
    for (k, m) in ALL_METHODS.iter().enumerate() {
        for back in [false, true] {
            let mut p = Prob::new(Kind::Harmonic);
            let c = if back { -1.2345 - 0.1 * k as f64 } else { 1.2345 + 0.1 * k as f64 };
            p.events = vec![EventSpec { a: 1.0, b: vec![0.0, 0.0], c, dir: 0, terminal: None }];
            let xend = if back { -3.0 } else { 3.0 };
            let o = Options::builder().method(*m).rtol(1e-6).atol(1e-8).build();
            let sol = solve_ivp(&p, 0.0, xend, &p.y0(), o).unwrap();
            let ok = sol.t_events[0].len() == 1 && (sol.t_events[0][0] - c).abs() <= 1e-10;
            println!("{{\"kind\":\"ev\",\"case\":\"single-root\",\"method\":\"{}\",\"xend\":{},\"root\":{},\"reported\":{},\"branch\":\"single\",\"finding_key\":\"c09-single-root\",\"ok\":{},\"why\":\"g = t - c must give exactly one event at c\"}}", method_name(*m), xend, c, jarr(&sol.t_events[0]), ok);
            // the same with first_step set and the root inside / just after the first step (first-step enforcement path)
            for (h0, frac) in [(0.1, 0.5), (0.1, 1.5), (0.25, 0.3)] {
                let c2 = if back { -h0 * frac } else { h0 * frac };
                p.events = vec![EventSpec { a: 1.0, b: vec![0.0, 0.0], c: c2, dir: 0, terminal: None }];
                let o = Options::builder().method(*m).rtol(1e-6).atol(1e-8).first_step(if back { -h0 } else { h0 }).build();
                if back { continue; } // a negative first_step is a separate (C03) question; forward only here
                let sol = match solve_ivp(&p, 0.0, xend, &p.y0(), o) { Ok(s) => s, Err(_) => continue };
                let ok = sol.t_events[0].len() == 1 && (sol.t_events[0][0] - c2).abs() <= 1e-10;
                println!("{{\"kind\":\"ev\",\"case\":\"single-root-first-step\",\"method\":\"{}\",\"xend\":{},\"first_step\":{},\"root\":{},\"reported\":{},\"branch\":\"single-first-step\",\"finding_key\":\"c09-single-root\",\"ok\":{},\"why\":\"g = t - c with first_step set must give exactly one event at c\"}}", method_name(*m), xend, h0, c2, jarr(&sol.t_events[0]), ok);
            }
        }
    }
    // an event function that is exactly zero at the start (the run begins on the event surface): whatever is reported, the
    // recorded state must be the continuous solution at the recorded time
    {
        let mut n = 0;
        for method in ALL_METHODS {
            for xend in [2.0, -2.0] {
                let mut p = Prob::new(Kind::Harmonic);
                p.events = vec![EventSpec { a: 0.0, b: vec![0.0, 1.0], c: 0.0, dir: 0, terminal: None }];
                let mut o = Options::builder().method(method).rtol(1e-6).atol(1e-9).dense_output(true).build();
                if method == Method::RK4 { o.first_step = Some(xend / 100.0); }
                let mut why = String::new();
                match solve_ivp(&p, 0.0, xend, &p.y0(), o) {
                    Ok(sol) => {
                        for (te, ye) in sol.t_events[0].iter().zip(sol.y_events[0].iter()) {
                            match sol.sol(*te) {
                                Ok(v) => if !close(&v, ye, 1e-7) && why.is_empty() { why = format!("event at t = {}: recorded state {:?} but the continuous solution there is {:?}", te, ye, v); },
                                Err(_) => {}
                            }
                        }
                    }
                    Err(e) => why = format!("solve_ivp error {:?}", e),
                }
                println!("{{\"kind\":\"ev\",\"case\":{},\"problem\":\"Harmonic\",\"method\":\"{}\",\"x0\":0,\"xend\":{},\"branch\":\"start-on-surface\",\"finding_key\":\"{}\",\"ok\":{},\"why\":{:?}}}",
                    610000 + n, method_name(method), xend, if why.is_empty() { "" } else { "c08-state" }, why.is_empty(), why);
                n += 1;
            }
        }
    }
    // first_step (no t_eval): g = t - c with c exactly at the end of the first accepted step(s), i.e. an exact zero at a step end
    // while output is withheld or just delivered: whatever is reported (from either adjacent step), the recorded state is the
    // continuous solution at the recorded time
    {
        let mut n = 0;
        for method in ALL_METHODS {
            for (xend, h0, mult) in [(2.0, 0.25, 1.0), (-2.0, 0.25, 1.0), (2.0, 0.5, 0.25), (-2.0, 0.5, 0.25), (3.0, 0.125, 1.0)] {
                let d = if xend > 0.0 { 1.0 } else { -1.0 };
                let mut p = Prob::new(Kind::Harmonic);
                // steps of length h0 * mult are forced through max_step; the first output is due at x0 + d h0
                let steps = (1.0 / mult) as usize;
                let mut why = String::new();
                for k in 1..=steps {
                    let c = d * h0 * mult * k as f64;
                    p.events = vec![EventSpec { a: 1.0, b: vec![0.0; p.n()], c, dir: 0, terminal: None }];
                    let mut o = Options::builder().method(method).rtol(1e-3).atol(1e-6).dense_output(true).build();
                    o.first_step = Some(h0);
                    o.max_step = Some(h0 * mult);
                    match solve_ivp(&p, 0.0, xend, &p.y0(), o) {
                        Ok(sol) => {
                            for (te, ye) in sol.t_events[0].iter().zip(sol.y_events[0].iter()) {
                                if let Ok(v) = sol.sol(*te) {
                                    if !close(&v, ye, 1e-7) && why.is_empty() { why = format!("first_step = {}, max_step = {}, g = t - {}: event at t = {}: recorded state {:?} but the continuous solution there is {:?}", h0, h0 * mult, c, te, ye, v); }
                                }
                            }
                        }
                        Err(e) => why = format!("solve_ivp error {:?}", e),
                    }
                }
                println!("{{\"kind\":\"ev\",\"case\":{},\"problem\":\"Harmonic\",\"method\":\"{}\",\"x0\":0,\"xend\":{},\"first_step\":{},\"max_step\":{},\"branch\":\"zero-at-withheld-step-end\",\"finding_key\":\"{}\",\"ok\":{},\"why\":{:?}}}",
                    670000 + n, method_name(method), xend, h0, h0 * mult, if why.is_empty() { "" } else { "c08-state" }, why.is_empty(), why);
                n += 1;
            }
        }
    }
    // the location of an event must not depend on the scale of the event function: g = s (t - c) for tiny and large s
    {
        let mut n = 0;
        for method in ALL_METHODS {
            for sc in [1e-300, 1e-170, 1e-13, 1e-12, 1e-9, 1.0, 1e6, 1e200] {
                for xend in [3.0, -3.0] {
                    let mut p = Prob::new(Kind::Harmonic);
                    let c0 = 0.5137 * xend;
                    p.events = vec![EventSpec { a: sc, b: vec![0.0; p.n()], c: sc * c0, dir: 0, terminal: None }];
                    let o = Options::builder().method(method).rtol(1e-5).atol(1e-8).build();
                    let mut why = String::new();
                    match solve_ivp(&p, 0.0, xend, &p.y0(), o) {
                        Ok(sol) => {
                            let te = &sol.t_events[0];
                            if te.len() != 1 { why = format!("g = {:e} (t - {}): {} events reported, expected exactly one", sc, c0, te.len()); }
                            else if (te[0] - c0).abs() > 1e-9 * (1.0 + c0.abs()) { why = format!("g = {:e} (t - {}): event located at t = {}, {:.3e} away from the root", sc, c0, te[0], (te[0] - c0).abs()); }
                        }
                        Err(e) => why = format!("solve_ivp error {:?}", e),
                    }
                    println!("{{\"kind\":\"ev\",\"case\":{},\"problem\":\"Harmonic\",\"method\":\"{}\",\"x0\":0,\"xend\":{},\"scale\":{:e},\"branch\":\"scaled-event\",\"finding_key\":\"{}\",\"ok\":{},\"why\":{:?}}}",
                        600000 + n, method_name(method), xend, sc, if why.is_empty() { "" } else { "c09-event-scale" }, why.is_empty(), why);
                    n += 1;
                }
            }
        }
    }
    // event functions whose values at the two ends of a step differ by many orders of magnitude (one-sided saturating:
    // g = exp(k (u - c)) - 1 with u = t or a ramp state): the interpolation steps of the root finder become tiny while the
    // bracket is still wide, so a stop test on the size of the last correction would end the search far from the zero.
    // The zero is simple and known (u = c), so the reported time is compared with it.
    {
        let mut n = 0;
        for method in ALL_METHODS {
            if method == Method::RK4 { continue; }
            for k in [20.0, 60.0, 250.0, -40.0, -150.0] {
                for (xend, frac) in [(4.0, 0.37), (4.0, 0.81), (-3.0, 0.52)] {
                    for use_state in [false, true] {
                        let c0 = frac * xend;
                        let p = HardEv { k, c: c0, use_state };
                        let o = Options::builder().method(method).rtol(1e-3).atol(1e-6).build();
                        let mut why = String::new();
                        match std::panic::catch_unwind(std::panic::AssertUnwindSafe(|| solve_ivp(&p, 0.0, xend, &[0.0, 1.0], o))) {
                            Ok(Ok(sol)) => {
                                let te = &sol.t_events[0];
                                // the ramp state is integrated exactly up to rounding by every method (y0' = 1)
                                let tol = if use_state { 1e-8 } else { 1e-9 } * (1.0 + c0.abs());
                                if te.len() != 1 { why = format!("g = exp({} (u - {})) - 1: {} events reported, expected exactly one", k, c0, te.len()); }
                                else if (te[0] - c0).abs() > tol { why = format!("g = exp({} (u - {})) - 1: event located at t = {}, {:.3e} away from the zero (g there = {:e})", k, c0, te[0], (te[0] - c0).abs(), (k * (te[0] - c0)).exp() - 1.0); }
                            }
                            Ok(Err(e)) => why = format!("solve_ivp error {:?}", e),
                            Err(_) => why = "solve_ivp panicked".into(),
                        }
                        println!("{{\"kind\":\"ev\",\"case\":{},\"problem\":\"Ramp\",\"method\":\"{}\",\"x0\":0,\"xend\":{},\"k\":{},\"use_state\":{},\"branch\":\"saturating-event\",\"finding_key\":\"{}\",\"ok\":{},\"why\":{:?}}}",
                            620000 + n, method_name(method), xend, k, use_state, if why.is_empty() { "" } else { "c08-hard-root" }, why.is_empty(), why);
                        n += 1;
                    }
                }
            }
        }
    }
    // a terminal event with an occurrence count of two or three that fires — not for the last time — in the same step as, and
    // before, another event: the other event must still be reported (and must still stop the run if it is terminal itself);
    // everything before the stop is what the run without the terminal flags reports
    {
        let mut n = 0;
        for method in ALL_METHODS {
            for back in [false, true] {
                for (cnt, b_terminal) in [(2usize, false), (3, false), (2, true)] {
                    let d = if back { -1.0 } else { 1.0 };
                    let xend = 9.0 * d;
                    // y0 = cos t crosses 0.3 at +-1.2661, +-5.0171, +-7.5493, ...; the time event sits 0.1 after the first crossing
                    let mut p = Prob::new(Kind::Harmonic);
                    let mk = |p: &Prob| { let mut o = Options::builder().method(method).rtol(1e-3).atol(1e-6).build(); o.max_step = Some(0.5); if method == Method::RK4 { o.first_step = Some(0.5); } let _ = p; o };
                    let ev_a = EventSpec { a: 0.0, b: { let mut b = vec![0.0; p.n()]; b[0] = 1.0; b }, c: 0.3, dir: 0, terminal: None };
                    let ev_b = EventSpec { a: 1.0, b: vec![0.0; p.n()], c: 1.3661 * d, dir: 0, terminal: None };
                    p.events = vec![ev_a.clone(), ev_b.clone()];
                    let free = match solve_ivp(&p, 0.0, xend, &p.y0(), mk(&p)) { Ok(r) => r, Err(_) => continue };
                    p.events = vec![EventSpec { terminal: Some(cnt), ..ev_a.clone() }, EventSpec { terminal: if b_terminal { Some(1) } else { None }, ..ev_b.clone() }];
                    let mut why = String::new();
                    match solve_ivp(&p, 0.0, xend, &p.y0(), mk(&p)) {
                        Ok(sol) => {
                            // where the run has to stop: at B if B is terminal (A has fired once before it), else at A's cnt-th crossing
                            let stop = if b_terminal { free.t_events[1].first().copied() } else { free.t_events[0].get(cnt - 1).copied() };
                            match stop {
                                None => why = "the free run does not contain the stopping event".into(),
                                Some(ts) => {
                                    if sol.status != Status::UserInterrupt { why = format!("status {:?}, expected UserInterrupt at {}", sol.status, ts); }
                                    else if (sol.t.last().copied().unwrap_or(f64::NAN) - ts).abs() > 1e-9 { why = format!("the run stops at {:?}, the stopping event of the run without terminal flags is at {}", sol.t.last(), ts); }
                                    else {
                                        for i in 0..2 {
                                            let want: Vec<f64> = free.t_events[i].iter().cloned().filter(|t| (t - ts) * d <= 1e-9).collect();
                                            if sol.t_events[i].len() != want.len() || sol.t_events[i].iter().zip(want.iter()).any(|(a, b)| (a - b).abs() > 1e-9) {
                                                why = format!("event {}: the terminal run reports {:?}, the run without terminal flags reports {:?} up to the stop at {}", i, sol.t_events[i], want, ts); break;
                                            }
                                        }
                                    }
                                }
                            }
                        }
                        Err(e) => why = format!("solve_ivp error {:?}", e),
                    }
                    println!("{{\"kind\":\"ev\",\"case\":{},\"problem\":\"Harmonic\",\"method\":\"{}\",\"x0\":0,\"xend\":{},\"count\":{},\"other_terminal\":{},\"branch\":\"counted-terminal-then-other-event\",\"finding_key\":\"{}\",\"ok\":{},\"why\":{:?}}}",
                        630000 + n, method_name(method), xend, cnt, b_terminal, if why.is_empty() { "" } else { "c10-prefix" }, why.is_empty(), why);
                    n += 1;
                }
            }
        }
    }
    first_output_before_terminal();
    empty_state_events();
}

/// y0' = 1 (a ramp), y1' = -y1; one event function g = exp(k (u - c)) - 1 with u = t or u = y0
struct HardEv { k: f64, c: f64, use_state: bool }
impl IVP for HardEv {
    fn ode(&self, _x: f64, y: &[f64], d: &mut [f64]) { d[0] = 1.0; d[1] = -y[1]; }
    fn n_events(&self) -> usize { 1 }
    fn events(&self, x: f64, y: &[f64], out: &mut [f64]) {
        let u = if self.use_state { y[0] } else { x };
        out[0] = (self.k * (u - self.c)).exp() - 1.0;
    }
}

/// no state at all: the only thing an event function can depend on is t
struct NoStateEv { c: f64 }
impl IVP for NoStateEv {
    fn ode(&self, _x: f64, _y: &[f64], _d: &mut [f64]) {}
    fn n_events(&self) -> usize { 1 }
    fn events(&self, x: f64, _y: &[f64], out: &mut [f64]) { out[0] = x - self.c; }
}

/// C09 on an empty state vector: `solve_ivp` answers at once with t = [x0, xend] (or t_eval) and Success; g = t - c has strictly
/// opposite signs at the two reported points, so exactly one event near c has to be among the results.
fn empty_state_events() {
    let mut k = 0;
    for method in ALL_METHODS {
        for (x0, xend, c) in [(0.0, 1.0, 0.5), (1.0, 0.0, 0.25), (-3.0, 5.0, 4.9)] {
            let f = NoStateEv { c };
            let o = Options::builder().method(method).build();
            let mut why = String::new();
            match solve_ivp(&f, x0, xend, &[], o) {
                Ok(sol) => {
                    let signs_differ = sol.t.len() >= 2 && (sol.t[0] - c) * (sol.t[sol.t.len() - 1] - c) < 0.0;
                    let n = sol.t_events.get(0).map(|v| v.len()).unwrap_or(0);
                    if signs_differ && n != 1 { why = format!("empty state: reported times {:?} ({:?}), g = t - {} changes sign between them, {} events reported", sol.t, sol.status, c, n); }
                    else if n == 1 && (sol.t_events[0][0] - c).abs() > 1e-9 { why = format!("empty state: event reported at {:?}, root at {}", sol.t_events[0][0], c); }
                }
                Err(e) => why = format!("solve_ivp error {:?}", e),
            }
            println!("{{\"kind\":\"ev\",\"case\":{},\"problem\":\"NoState\",\"method\":\"{}\",\"x0\":{},\"xend\":{},\"root\":{},\"branch\":\"empty-state\",\"finding_key\":\"{}\",\"ok\":{},\"why\":{:?}}}",
                660000 + k, method_name(method), x0, xend, c, if why.is_empty() { "" } else { "c09-empty-state" }, why.is_empty(), why);
            k += 1;
        }
    }
}

/// C10 with `first_step`: when the first trial step is rejected, the first output x0 + first_step is an interpolated point
/// inside a later step.  A terminal event later in that same step must not swallow it: everything before the stop is what
/// the run without the terminal flag reports.
fn first_output_before_terminal() {
    let mut k = 0;
    for method in [Method::RK23, Method::DOPRI5, Method::DOP853, Method::RADAU, Method::BDF] {
        for (kind, xend, first, rtol) in [(Kind::Harmonic, 4.0, 1.0, 1e-6), (Kind::Harmonic, -4.0, 1.0, 1e-6), (Kind::VdP, 3.0, 0.5, 1e-7), (Kind::Mixed, 5.0, 2.0, 1e-8)] {
            let mut p = Prob::new(kind);
            let y0 = p.y0();
            let mk = || { let mut o = Options::builder().method(method).rtol(rtol).atol(rtol * 1e-2).build(); o.first_step = Some(first); o };
            let plain = match solve_ivp(&p, 0.0, xend, &y0, mk()) { Ok(r) => r, Err(_) => continue };
            let dirn = xend.signum();
            let mut why = String::new();
            let mut extra = String::new();
            // the first output is at x0 + first_step; the sample after it ends the step that contains it
            if plain.t.len() >= 3 && (plain.t[1] - dirn * first).abs() < 1e-12 {
                let c = 0.5 * (plain.t[1] + plain.t[2]);
                p.events = vec![EventSpec { a: 1.0, b: vec![0.0; p.n()], c, dir: 0, terminal: Some(1) }];
                if let Ok(term) = solve_ivp(&p, 0.0, xend, &y0, mk()) {
                    extra = format!("\"plain_first\":{:?},\"terminal_t\":{:?},", &plain.t[..3], term.t);
                    let want = [plain.t[0], plain.t[1]];
                    if term.status != Status::UserInterrupt { why = format!("terminal event at {} inside the span: status {:?}", c, term.status); }
                    else if term.t.len() < 3 || term.t[..2] != want { why = format!("first_step = {}: the run with a terminal event at t = {} reports t = {:?}; without the flag the samples before the stop are {:?}", first, c, term.t, want); }
                }
            }
            println!("{{\"kind\":\"ev\",\"case\":{},\"problem\":\"{:?}\",\"method\":\"{}\",\"x0\":0,\"xend\":{},\"first_step\":{},\"branch\":\"first-output-before-terminal\",\"finding_key\":\"{}\",{}\"ok\":{},\"why\":{:?}}}",
                650000 + k, kind, method_name(method), xend, first, if why.is_empty() { "" } else { "c10-first-output-dropped" }, extra, why.is_empty(), why);
            k += 1;
        }
    }
}

pub fn teval(args: &[String]) {
    let seed: u64 = args.get(0).and_then(|s| s.parse().ok()).unwrap_or(1);
    let cases: usize = args.get(1).and_then(|s| s.parse().ok()).unwrap_or(100);
    let mut rng = Rng(seed ^ 0x7E7A);
    for case in 0..cases {
        let s = setup(&mut rng);
        let mut p = Prob::new(s.kind);
        let y0 = p.y0();
        let dirn = (s.xend - s.x0).signum();
        let plain = match solve_ivp(&p, s.x0, s.xend, &y0, opts(&s)) { Ok(r) => r, Err(_) => continue };
        if plain.status != Status::Success || plain.t.len() < 2 { continue; }
        // requested times relative to the accepted grid
        let g = &plain.t;
        let mut pts: Vec<f64> = vec![];
        for k in 0..g.len() {
            if rng.chance(0.3) { pts.push(g[k]); }
            if rng.chance(0.1) { pts.push(g[k] + dirn * 5e-13); }
            if rng.chance(0.1) { pts.push(g[k] - dirn * 5e-13); }
            if k + 1 < g.len() { for _ in 0..rng.below(3) { pts.push(g[k] + (g[k + 1] - g[k]) * rng.unit()); } }
        }
        if rng.chance(0.5) { pts.push(s.x0); }
        if rng.chance(0.5) { pts.push(s.xend); }
        if rng.chance(0.25) && !pts.is_empty() { let d = pts[rng.below(pts.len())]; pts.push(d); }
        pts.retain(|t| (t - s.x0) * dirn >= 0.0 && (s.xend - t) * dirn >= 0.0);
        pts.sort_by(|a, b| if dirn > 0.0 { a.partial_cmp(b).unwrap() } else { b.partial_cmp(a).unwrap() });
        let mode = rng.below(3); // 0 plain, 1 step budget, 2 terminal event
        let mut o = opts(&s);
        o.t_eval = Some(pts.clone());
        let mut stop_at: Option<f64> = None;
        let mut branch = "full";
        if mode == 1 && g.len() > 3 {
            let budget = 1 + rng.below(g.len() - 2);
            o.max_steps = Some(budget);
            let mut ob = opts(&s);
            ob.max_steps = Some(budget);
            if let Ok(pb) = solve_ivp(&p, s.x0, s.xend, &y0, ob) { if pb.status != Status::Success { stop_at = pb.t.last().cloned(); branch = "budget"; } }
        } else if mode == 2 {
            let c = s.x0 + (s.xend - s.x0) * rng.range(0.05, 0.95);
            p.events = vec![EventSpec { a: 1.0, b: vec![0.0; p.n()], c, dir: 0, terminal: Some(1) }];
            branch = "terminal";
            // every other terminal case: only the last one or two requested times before the event are asked for (possibly
            // repeated), so that the step that contains the event has a single pending entry
            if case % 2 == 1 {
                let mut before: Vec<f64> = pts.iter().cloned().filter(|t| (t - c) * dirn < 0.0).collect();
                let keep = 1 + rng.below(2);
                if before.len() > keep { before = before[before.len() - keep..].to_vec(); }
                if rng.chance(0.4) { if let Some(l) = before.last().cloned() { before.push(l); } }
                if !before.is_empty() { pts = before; o.t_eval = Some(pts.clone()); branch = "terminal-tail"; }
            }
        }
        let mut od = Options::builder().method(s.method).rtol(s.rtol).atol(s.atol).dense_output(true).build();
        od.t_eval = o.t_eval.clone();
        od.max_steps = o.max_steps;
        let sol = match solve_ivp(&p, s.x0, s.xend, &y0, o) { Ok(r) => r, Err(e) => { println!("{{\"kind\":\"te\",\"case\":{},{},\"ok\":false,\"why\":\"error {:?}\"}}", case, desc(&s), e); continue; } };
        let sold = solve_ivp(&p, s.x0, s.xend, &y0, od).unwrap();
        let mut why = String::new();
        let mut key = "";
        if sol.t != sold.t || sol.y != sold.y { why = "reported values depend on dense_output".into(); key = "c05-dense-dependence"; }
        if sol.t.len() != sol.y.len() { why = "t and y have different lengths".into(); key = "c05-shape"; }
        if branch.starts_with("terminal") { stop_at = sol.t_events[0].first().cloned(); }
        if why.is_empty() {
            match (sol.status, stop_at) {
                (Status::Success, _) => {
                    if sol.t != pts { why = format!("Success but reported times {:?} differ from the requested {:?}", sol.t, pts); key = "c05-exact-times"; }
                }
                (_, Some(xs)) => {
                    // requested times not beyond the stop must be reported; those within the handler's 1e-12 comparison
                    // tolerance beyond it may be (they are indistinguishable from the stop at that tolerance)
                    let want: Vec<f64> = pts.iter().cloned().filter(|t| (t - xs) * dirn <= 0.0).collect();
                    let want_max: Vec<f64> = pts.iter().cloned().filter(|t| (t - xs) * dirn <= 1e-12).collect();
                    let mut got = sol.t.clone();
                    // the terminal event point itself is the only permitted extra sample, as the final entry
                    if branch.starts_with("terminal") && got.last() == Some(&xs) { got.pop(); if want.last() == Some(&xs) && got.len() + 1 == want.len() { got.push(xs); } }
                    let lenient_ok = got.len() >= want.len() && got.len() <= want_max.len() && got[..] == want_max[..got.len()];
                    if !lenient_ok { why = format!("stopped at {} ({}): reported {:?}, requested times not beyond the stop {:?}", xs, branch, sol.t, want); key = if branch.starts_with("terminal") { "c05-early-stop-terminal" } else { "c05-early-stop-budget" }; }
                }
                _ => {}
            }
        }
        // values = the step interpolant (dense solution) at the requested time
        if why.is_empty() {
            for (t, y) in sold.iter() {
                if let Ok(v) = sold.sol(t) { if !close(&v, y, 1e-7) { why = format!("value at requested t={} is {:?}, continuous solution gives {:?}", t, y, v); key = "c05-value"; break; } }
            }
        }
        println!("{{\"kind\":\"te\",\"case\":{},{},\"n_requested\":{},\"status\":\"{:?}\",\"branch\":\"{}\",\"finding_key\":\"{}\",\"ok\":{},\"why\":{:?}}}", case, desc(&s), pts.len(), sol.status, branch, key, why.is_empty(), why);
    }
    far_from_origin(seed, cases);
    fast_tiny_steps();
    teval_just_after_step_end(seed);
    near_start_values();
}

/// C10 / C05: a requested time a little beyond a step end (within the handler's 1e-12) and a terminal event between that
/// step end and the requested time: no sample later than the event may be reported, and the times stay monotone.
fn teval_just_after_step_end(seed: u64) {
    let mut rng = Rng(seed ^ 0x7A11);
    let mut k = 0;
    for method in ALL_METHODS {
        for back in [false, true] {
            let kind = *rng.pick(&[Kind::Harmonic, Kind::VdP, Kind::Mixed]);
            let mut p = Prob::new(kind);
            let y0 = p.y0();
            let xend = if back { -2.0 } else { 2.0 };
            let d = if back { -1.0 } else { 1.0 };
            let mk = || { let mut o = Options::builder().method(method).rtol(1e-6).atol(1e-8).build(); if method == Method::RK4 { o.first_step = Some(0.125); } o };
            let plain = match solve_ivp(&p, 0.0, xend, &y0, mk()) { Ok(r) => r, Err(_) => continue };
            if plain.t.len() < 4 { continue; }
            let g = plain.t[1 + rng.below(plain.t.len() - 2)];
            let c = g + d * 2e-13;
            let req = g + d * 8e-13;
            p.events = vec![EventSpec { a: 1.0, b: vec![0.0; p.n()], c, dir: 0, terminal: Some(1) }];
            // one requested time just after the step end, two of them, the same one twice, or three with one before the step end
            for reqs in [vec![req], vec![g + d * 5e-13, req], vec![req, req], vec![g - d * 0.01, g + d * 4e-13, g + d * 6e-13, req]] {
            let mut o = mk();
            o.t_eval = Some(reqs.clone());
            let mut why = String::new();
            let mut extra = String::new();
            if let Ok(sol) = solve_ivp(&p, 0.0, xend, &y0, o) {
                extra = format!("\"status\":\"{:?}\",\"t\":{:?},\"step_end\":{:?},\"event\":{:?},\"requested\":{:?},", sol.status, sol.t, g, c, req);
                if let Some(te) = sol.t_events[0].first() {
                    if let Some(t) = sol.t.iter().find(|t| (**t - te) * d > 0.0) { why = format!("sample t = {:?} lies beyond the terminal event at {:?} (requested time {:?} just after the step end {:?})", t, te, req, g); }
                }
                if why.is_empty() { if let Some(w) = sol.t.windows(2).find(|w| (w[1] - w[0]) * d < 0.0) { why = format!("sample times {:?} then {:?} go backwards", w[0], w[1]); } }
            }
            println!("{{\"kind\":\"te\",\"case\":{},\"problem\":\"{:?}\",\"method\":\"{}\",\"x0\":0,\"xend\":{},\"n_requested\":{},\"branch\":\"teval-just-after-step-end\",\"finding_key\":\"{}\",{}\"ok\":{},\"why\":{:?}}}",
                720000 + k, kind, method_name(method), xend, reqs.len(), if why.is_empty() { "" } else { "c10-sample-after-terminal" }, extra, why.is_empty(), why);
            k += 1;
            }
        }
    }
}

/// C05 with steps shorter than the handler's time tolerance (1e-12): fast dynamics y' = lam y on [0, 3 / lam] with
/// max_step = 7e-13.  Every requested time carries the value of the step interpolant there (= exp(lam t) to the accuracy
/// of the run), not the value at a nearby step end.
fn fast_tiny_steps() {
    struct Fast(f64);
    impl IVP for Fast { fn ode(&self, _x: f64, y: &[f64], d: &mut [f64]) { d[0] = self.0 * y[0]; } }
    let mut k = 0;
    for method in [Method::RK23, Method::DOPRI5, Method::DOP853, Method::RADAU, Method::BDF] {
        for (lam, dirn) in [(1e9, 1.0), (1e9, -1.0), (-1e9, 1.0)] {
            let xend = dirn * 3e-9;
            let pts: Vec<f64> = (0..=20).map(|j| xend * (j as f64) / 20.0).collect();
            let mut o = Options::builder().method(method).rtol(1e-8).atol(1e-11).build();
            o.max_step = Some(7e-13);
            o.t_eval = Some(pts.clone());
            let mut why = String::new();
            let mut status = String::new();
            if let Ok(sol) = solve_ivp(&Fast(lam), 0.0, xend, &[1.0], o) {
                status = format!("{:?}", sol.status);
                if sol.status == Status::Success && sol.t != pts { why = format!("Success but {} of {} requested times reported", sol.t.len(), pts.len()); }
                for (t, y) in sol.t.iter().zip(sol.y.iter()) {
                    let ex = (lam * t).exp();
                    if why.is_empty() && (y[0] - ex).abs() > 1e-5 * ex { why = format!("value at requested t = {:e} is {:e}, the solution there is {:e} (relative error {:.2e}; steps are shorter than the handler's tolerance)", t, y[0], ex, (y[0] - ex).abs() / ex); }
                }
            }
            println!("{{\"kind\":\"te\",\"case\":{},\"problem\":\"y'={:e}y\",\"method\":\"{}\",\"x0\":0,\"xend\":{:e},\"n_requested\":21,\"status\":\"{}\",\"branch\":\"fast-tiny-steps\",\"finding_key\":\"{}\",\"ok\":{},\"why\":{:?}}}",
                710000 + k, lam, method_name(method), xend, status, if why.is_empty() { "" } else { "c05-tiny-step-value" }, why.is_empty(), why);
            k += 1;
        }
    }
}

/// C05: a requested time a hair after x0 (within the handler's 1e-12) carries the value of the step interpolant there, not the
/// initial state: with a fast right-hand side the two differ by far more than the tolerance
fn near_start_values() {
    struct Fast(f64);
    impl IVP for Fast { fn ode(&self, _x: f64, y: &[f64], d: &mut [f64]) { d[0] = self.0 * y[0]; } }
    let mut k = 0;
    for method in [Method::RK23, Method::DOPRI5, Method::DOP853, Method::RADAU, Method::BDF] {
        for (lam, xend, pts) in [(-1e6, 1.0, vec![9e-13, 1.5e-12, 0.5]), (-1e9, 1e-9, vec![4e-13, 2e-12, 5e-10]), (-1e6, -1e-6, vec![-9e-13, -5e-12])] {
            let mut o = Options::builder().method(method).rtol(1e-10).atol(1e-14).build();
            o.t_eval = Some(pts.clone());
            let (mut why, mut status) = (String::new(), String::new());
            if let Ok(sol) = solve_ivp(&Fast(lam), 0.0, xend, &[1.0], o) {
                status = format!("{:?}", sol.status);
                for (t, y) in sol.t.iter().zip(sol.y.iter()) {
                    let ex = (lam * t).exp();
                    let bound = 1e3 * (sol.naccpt.max(1) as f64) * (1e-14 + 1e-10 * ex);
                    if why.is_empty() && (y[0] - ex).abs() > bound { why = format!("requested t = {:e} (within 1e-12 of x0): reported {:?}, the solution there is {:?} (error {:.2e}, 1000 * naccpt * (atol + rtol |y|) = {:.2e}): the initial state was reported instead of the interpolant's value", t, y[0], ex, (y[0] - ex).abs(), bound); }
                }
            }
            println!("{{\"kind\":\"te\",\"case\":{},\"problem\":\"y'={:e}y\",\"method\":\"{}\",\"x0\":0,\"xend\":{:e},\"n_requested\":{},\"status\":\"{}\",\"branch\":\"near-start-values\",\"finding_key\":\"{}\",\"ok\":{},\"why\":{:?}}}",
                720000 + k, lam, method_name(method), xend, pts.len(), status, if why.is_empty() { "" } else { "c05-near-start-initial-state" }, why.is_empty(), why);
            k += 1;
        }
    }
}

/// slowly varying right-hand side: the step size grows until single steps are as long as the distance to the origin
struct Drift;
impl IVP for Drift {
    fn ode(&self, x: f64, y: &[f64], d: &mut [f64]) { d[0] = 1e-9 * (1.0 + (1e-7 * x).sin()) - 1e-12 * y[0]; }
}

/// C05 far from the origin: spans whose end points are 1e2..1e6 away from zero (one ulp there exceeds the handler's
/// absolute 1e-12), requested times `x0`, a few interior points and `xend`.  A successful run reports exactly those.
fn far_from_origin(seed: u64, cases: usize) {
    let mut rng = Rng(seed ^ 0xFA20);
    for case in 0..(cases * 3) {
        let method = *rng.pick(&ALL_METHODS);
        let sc = 10f64.powf(rng.range(2.0, 6.0));
        let x0 = (rng.unit() - 0.5) * sc;
        let xend = (rng.unit() - 0.5) * sc * 3.0;
        if x0 == xend { continue; }
        let dirn = (xend - x0).signum();
        let mut pts = vec![x0];
        let mut inner: Vec<f64> = (0..rng.below(4)).map(|_| x0 + (xend - x0) * rng.unit()).collect();
        inner.sort_by(|a, b| if dirn > 0.0 { a.partial_cmp(b).unwrap() } else { b.partial_cmp(a).unwrap() });
        pts.extend(inner);
        pts.push(xend);
        pts.dedup();
        let mut o = Options::builder().method(method).rtol(1e-4).atol(1e-6).build();
        if method == Method::RK4 { o.first_step = Some((xend - x0).abs() / (1 + rng.below(40)) as f64); }
        o.t_eval = Some(pts.clone());
        let sol = match solve_ivp(&Drift, x0, xend, &[1.0], o) { Ok(r) => r, Err(_) => continue };
        let mut why = String::new();
        if sol.status == Status::Success && sol.t != pts {
            why = format!("Success on [{:?}, {:?}] but reported times {:?} differ from the requested {:?}", x0, xend, sol.t, pts);
        }
        println!("{{\"kind\":\"te\",\"case\":{},\"problem\":\"Drift\",\"method\":\"{}\",\"x0\":{:?},\"xend\":{:?},\"n_requested\":{},\"status\":\"{:?}\",\"branch\":\"far-from-origin\",\"finding_key\":\"{}\",\"ok\":{},\"why\":{:?}}}",
            700000 + case, method_name(method), x0, xend, pts.len(), sol.status, if why.is_empty() { "" } else { "c05-far-from-origin" }, why.is_empty(), why);
    }
}
