//! C02/C07 search side: observed local order of one step (and of its interpolant) taken by the real
//! steppers from exact data, on a nonlinear non-autonomous system with a closed-form solution.
use crate::common::*;
use ivp::methods::{DOP853, DOPRI5, RADAU, RK23, RK4};
use ivp::prelude::*;

/// y_ex(t) = [2 + sin t, cos 2t, exp(-t)];  f(t,y) = y_ex'(t) + A (y - y_ex) + B∘(y - y_ex)²
struct Manufactured;
fn yex(t: f64) -> [f64; 3] {
    [2.0 + t.sin(), (2.0 * t).cos(), (-t).exp()]
}
fn dyex(t: f64) -> [f64; 3] {
    [t.cos(), -2.0 * (2.0 * t).sin(), -(-t).exp()]
}
impl IVP for Manufactured {
    fn ode(&self, t: f64, y: &[f64], d: &mut [f64]) {
        let e = yex(t);
        let de = dyex(t);
        let r = [y[0] - e[0], y[1] - e[1], y[2] - e[2]];
        let a = [[-0.5, 1.0, 0.3], [0.7, -0.2, -1.1], [0.4, 0.9, -0.6]];
        let b = [0.8, -1.3, 0.5];
        for i in 0..3 {
            d[i] = de[i] + a[i][0] * r[0] + a[i][1] * r[1] + a[i][2] * r[2] + b[i] * r[(i + 1) % 3] * r[i]
                + 0.25 * (y[0] * y[1] - e[0] * e[1]) * (1.0 + t);
        }
    }
}

fn one_step(method: &str, x0: f64, h: f64) -> Option<(f64, Vec<f64>)> {
    let f = Manufactured;
    let y0 = yex(x0).to_vec();
    let xend = x0 + h;
    let mut rec = Recorder::new();
    let big = 1e30;
    let res = match method {
        "RK4" => RK4::builder().build().solve(&f, x0, &y0, xend, h, Some(&mut rec)),
        "RK23" => RK23::builder().first_step(h).build().solve(&f, x0, &y0, xend, big.into(), big.into(), Some(&mut rec)),
        "DOPRI5" => DOPRI5::builder().first_step(h).build().solve(&f, x0, &y0, xend, big.into(), big.into(), Some(&mut rec)),
        "DOP853" => DOP853::builder().first_step(h).build().solve(&f, x0, &y0, xend, big.into(), big.into(), Some(&mut rec)),
        "RADAU" => RADAU::builder().first_step(h).newton_tol(1e-13).newton_maxiter(60).mass_storage(MatrixStorage::Identity).build().solve(
            &f, x0, &y0, xend, 1e-2.into(), 1e-2.into(), Some(&mut rec)),
        _ => return None,
    };
    res.ok()?;
    // exactly one accepted step of size h expected
    if rec.cbs.len() != 2 {
        return None;
    }
    let cb = &rec.cbs[1];
    if (cb.x - xend).abs() > 1e-14 || (cb.xold - x0).abs() > 1e-14 {
        return None;
    }
    let ex = yex(cb.x);
    let err = (0..3).map(|i| (cb.y[i] - ex[i]).abs()).fold(0.0, f64::max);
    // dense error at theta = 1/4, 1/2, 3/4
    let mut derr = vec![];
    if cb.has_interp {
        for (k, th) in [0.25, 0.5, 0.75].iter().enumerate() {
            let t = cb.xold + th * (cb.x - cb.xold);
            let e = yex(t);
            let s = &cb.samples[k + 1];
            derr.push((0..3).map(|i| (s[i] - e[i]).abs()).fold(0.0, f64::max));
        }
    }
    Some((err, derr))
}

/// y' = k t^(k-1), y(t0) = t0^k : a method of order p integrates it exactly for k ≤ p, an interpolant of order q
/// reproduces t^k for k ≤ q (consequence of the bushy-tree order conditions; crisp, rounding-level oracle).
struct Monomial(i32);
impl IVP for Monomial {
    fn ode(&self, t: f64, _y: &[f64], d: &mut [f64]) {
        d[0] = self.0 as f64 * t.powi(self.0 - 1);
    }
}

fn poly_probe() {
    let table: [(&str, i32, i32); 5] = [("RK4", 4, 3), ("RK23", 3, 3), ("DOPRI5", 5, 4), ("DOP853", 8, 7), ("RADAU", 5, 3)];
    let thetas = [0.1, 0.2, 0.3, 0.4, 0.5, 0.6, 0.7, 0.8, 0.9];
    for (m, p, q) in table {
        for k in 1..=p {
            for (x0, h) in [(0.5, 0.4), (1.0, -0.3)] {
                let f = Monomial(k);
                let y0 = [f64::powi(x0, k)];
                let xend = x0 + h;
                let mut rec = Recorder::new();
                rec.thetas = thetas.to_vec();
                let big = 1e30;
                let res = match m {
                    "RK4" => RK4::builder().build().solve(&f, x0, &y0, xend, h, Some(&mut rec)),
                    "RK23" => RK23::builder().first_step(h).build().solve(&f, x0, &y0, xend, big.into(), big.into(), Some(&mut rec)),
                    "DOPRI5" => DOPRI5::builder().first_step(h).build().solve(&f, x0, &y0, xend, big.into(), big.into(), Some(&mut rec)),
                    "DOP853" => DOP853::builder().first_step(h).build().solve(&f, x0, &y0, xend, big.into(), big.into(), Some(&mut rec)),
                    _ => RADAU::builder().first_step(h).newton_tol(1e-13).newton_maxiter(60).mass_storage(MatrixStorage::Identity).build().solve(
                        &f, x0, &y0, xend, 1e2.into(), 1e2.into(), Some(&mut rec)),
                };
                if res.is_err() || rec.cbs.len() != 2 {
                    println!("{{\"kind\":\"poly\",\"method\":\"{}\",\"k\":{},\"x0\":{},\"h\":{},\"skipped\":true}}", m, k, x0, h);
                    continue;
                }
                let cb = &rec.cbs[1];
                let scale = f64::powi(x0.abs().max(xend.abs()), k).max(1.0);
                let step_err = (cb.y[0] - f64::powi(cb.x, k)).abs() / scale;
                let mut dense_err: f64 = 0.0;
                let mut worst_theta = 0.0;
                if k <= q {
                    for (j, th) in thetas.iter().enumerate() {
                        let t = cb.xold + th * (cb.x - cb.xold);
                        let e = (cb.samples[j][0] - f64::powi(t, k)).abs() / scale;
                        if e > dense_err { dense_err = e; worst_theta = *th; }
                    }
                }
                let ok = step_err <= 1e-11 && dense_err <= 1e-11;
                println!(
                    "{{\"kind\":\"poly\",\"method\":\"{}\",\"k\":{},\"x0\":{},\"h\":{},\"step_err\":{},\"dense_checked\":{},\"dense_err\":{},\"worst_theta\":{},\"ok\":{}}}",
                    m, k, x0, h, jnum(step_err), k <= q, jnum(dense_err), worst_theta, ok
                );
            }
        }
    }
}

/// three equal steps from exact data at x0 (first_step = max_step = h, tolerances that accept everything): the error at x0 + 3h
/// is O(h^(p+1)) only if every step — not just the first of a run — has the advertised order
fn three_steps(method: &str, x0: f64, h: f64) -> Option<f64> {
    let f = Manufactured;
    let y0 = yex(x0).to_vec();
    let xend = x0 + 3.0 * h;
    let mut rec = Recorder::new();
    rec.thetas = vec![];
    let big = 1e30;
    let res = match method {
        "RK4" => RK4::builder().build().solve(&f, x0, &y0, xend, h, Some(&mut rec)),
        "RK23" => RK23::builder().first_step(h).max_step(h.abs()).build().solve(&f, x0, &y0, xend, big.into(), big.into(), Some(&mut rec)),
        "DOPRI5" => DOPRI5::builder().first_step(h).max_step(h.abs()).build().solve(&f, x0, &y0, xend, big.into(), big.into(), Some(&mut rec)),
        "DOP853" => DOP853::builder().first_step(h).max_step(h.abs()).build().solve(&f, x0, &y0, xend, big.into(), big.into(), Some(&mut rec)),
        _ => return None,
    };
    res.ok()?;
    if rec.cbs.len() != 4 { return None; }
    for (k, cb) in rec.cbs.iter().enumerate().skip(1) {
        if (cb.x - (x0 + k as f64 * h)).abs() > 1e-12 { return None; }
    }
    let cb = &rec.cbs[3];
    let ex = yex(cb.x);
    Some((0..3).map(|i| (cb.y[i] - ex[i]).abs()).fold(0.0, f64::max))
}

pub fn run(_args: &[String]) {
    poly_probe();
    for (m, p, h0) in [("RK4", 4.0, 0.1), ("RK23", 3.0, 0.1), ("DOPRI5", 5.0, 0.2), ("DOP853", 8.0, 0.3)] {
        for sign in [1.0, -1.0] {
            for x0 in [0.3, 1.7] {
                match (three_steps(m, x0, sign * h0), three_steps(m, x0, sign * h0 / 2.0)) {
                    (Some(e1), Some(e2)) => println!("{{\"kind\":\"order3\",\"method\":\"{}\",\"p\":{},\"x0\":{},\"h\":{},\"err_h\":{},\"err_h2\":{},\"p_obs\":{}}}",
                        m, p, x0, sign * h0, jnum(e1), jnum(e2), jnum((e1 / e2).log2() - 1.0)),
                    _ => println!("{{\"kind\":\"order3\",\"method\":\"{}\",\"x0\":{},\"h\":{},\"skipped\":true}}", m, x0, sign * h0),
                }
            }
        }
    }
    // (method, advertised step order p, interpolant order q, base step)
    let table: [(&str, f64, f64, f64); 5] =
        [("RK4", 4.0, 3.0, 0.1), ("RK23", 3.0, 3.0, 0.1), ("DOPRI5", 5.0, 4.0, 0.2), ("DOP853", 8.0, 7.0, 0.4), ("RADAU", 5.0, 3.0, 0.1)];
    for (m, p, q, h0) in table {
        for sign in [1.0, -1.0] {
            for x0 in [0.3, 1.7] {
                let a = one_step(m, x0, sign * h0);
                let b = one_step(m, x0, sign * h0 / 2.0);
                match (a, b) {
                    (Some((e1, d1)), Some((e2, d2))) => {
                        let pobs = (e1 / e2).log2() - 1.0;
                        let dens: Vec<f64> = d1.iter().zip(d2.iter()).map(|(a, b)| (a / b).log2() - 1.0).collect();
                        println!(
                            "{{\"kind\":\"order\",\"method\":\"{}\",\"p\":{},\"q\":{},\"x0\":{},\"h\":{},\"err_h\":{},\"err_h2\":{},\"p_obs\":{},\"dense_err_h\":{},\"dense_err_h2\":{},\"q_obs\":{}}}",
                            m, p, q, x0, sign * h0, jnum(e1), jnum(e2), jnum(pobs), jarr(&d1), jarr(&d2), jarr(&dens)
                        );
                    }
                    _ => println!("{{\"kind\":\"order\",\"method\":\"{}\",\"x0\":{},\"h\":{},\"skipped\":true}}", m, x0, sign * h0),
                }
            }
        }
    }
}
