//! X-cont: the segment lookup of `ContinuousOutput` and the range test / error mapping of `Solution::sol`, `sol_many`,
//! `sol_span`, fed with arbitrary segment lists through `verif_hooks::continuous_from_segments` (cfg ivp_verif).
//! Each segment's interpolant is made to return the segment's position in the list, so the reply tells which segment
//! evaluated the query.  One op per line; the Lean model (`ContM`) answers the same lines.
use crate::common::*;
use ivp::error::{Error, InterpolationError};
use ivp::prelude::*;
use ivp::solve::cont::ContinuousOutput;
use std::fmt::Write as _;
use std::panic::{catch_unwind, AssertUnwindSafe};

fn solution(cs: Option<ContinuousOutput>) -> Solution {
    Solution { t: vec![], y: vec![], t_events: vec![], y_events: vec![], nfev: 0, njev: 0, nlu: 0, nstep: 0, naccpt: 0, nrejct: 0, status: Status::Success, continuous_sol: cs }
}
fn span_str(s: &Solution) -> String {
    match s.sol_span() { None => "span none".into(), Some((a, b)) => format!("span {} {}", hx(a), hx(b)) }
}
fn id_of(v: &[f64]) -> String {
    if v.len() == 1 && v[0].is_finite() && v[0].fract() == 0.0 && v[0] >= 0.0 { format!("{}", v[0] as usize) } else { format!("?{:?}", v) }
}

struct W { ops: String, out: String, n: usize, sol: Solution, hist: std::collections::BTreeMap<&'static str, usize> }
impl W {
    fn emit(&mut self, op: String, res: String) { writeln!(self.ops, "{}", op).unwrap(); writeln!(self.out, "{}", res).unwrap(); self.n += 1; }
    fn hit(&mut self, k: &'static str) { *self.hist.entry(k).or_insert(0) += 1; }
    fn new_segs(&mut self, segs: &[(f64, f64)]) {
        // DOPRI5 layout with n = 1: cont = [id, 0, 0, 0, 0] interpolates to `id` for every finite theta
        let raw: Vec<(Vec<f64>, f64, f64)> = segs.iter().enumerate().map(|(k, (x, h))| (vec![k as f64, 0.0, 0.0, 0.0, 0.0], *x, *h)).collect();
        let c = ivp::verif_hooks::continuous_from_segments(Method::DOPRI5, 1, raw);
        self.sol = solution(Some(c));
        let flat: Vec<f64> = segs.iter().flat_map(|(x, h)| [*x, *h]).collect();
        let n_kept = self.count_segments(segs);
        let s = span_str(&self.sol);
        self.emit(format!("new {}", if flat.is_empty() { "-".into() } else { hxs(&flat) }), format!("{} {}", n_kept, s));
    }
    /// number of segments the implementation kept (read off its Debug rendering)
    fn count_segments(&self, segs: &[(f64, f64)]) -> usize {
        let _ = segs;
        format!("{:?}", self.sol.continuous_sol.as_ref().unwrap()).matches("DenseSegment").count()
    }
    fn sol_q(&mut self, t: f64) {
        let r = match self.sol.sol(t) {
            Ok(v) => { self.hit("sol:ok"); format!("ok {}", id_of(&v)) }
            Err(Error::Interpolation(InterpolationError::OutOfRange { .. })) => { self.hit("sol:oor"); "oor".into() }
            Err(Error::Interpolation(InterpolationError::NotEnabled)) => { self.hit("sol:notenabled"); "notenabled".into() }
            Err(e) => format!("err {:?}", e),
        };
        self.emit(format!("sol {}", hx(t)), r);
    }
    fn many_q(&mut self, ts: &[f64]) {
        let sol = &self.sol;
        let r = match catch_unwind(AssertUnwindSafe(|| sol.sol_many(ts))) {
            Err(_) => { "panic".to_string() }
            Ok(Ok(vs)) => format!("ok {}", vs.iter().map(|v| id_of(v)).collect::<Vec<_>>().join(",")),
            Ok(Err(Error::Interpolation(InterpolationError::OutOfRange { .. }))) => "oor".into(),
            Ok(Err(Error::Interpolation(InterpolationError::NotEnabled))) => "notenabled".into(),
            Ok(Err(e)) => format!("err {:?}", e),
        };
        let key = match &r[..2] { "pa" => "many:panic", "ok" => "many:ok", "oo" => "many:oor", _ => "many:notenabled" };
        self.hit(key);
        self.emit(format!("many {}", hxs(ts)), r);
    }
    fn ext_q(&mut self, t: f64) {
        let r = match self.sol.continuous_sol.as_ref() {
            None => "none".to_string(),
            Some(c) => match c.evaluate_extrapolate(t) { Some(v) => { self.hit("ext:some"); format!("ok {}", id_of(&v)) } None => { self.hit("ext:none"); "none".into() } },
        };
        self.emit(format!("ext {}", hx(t)), r);
    }
}

fn ulp_up(x: f64) -> f64 { if x == 0.0 { f64::from_bits(1) } else if x > 0.0 { f64::from_bits(x.to_bits() + 1) } else { f64::from_bits(x.to_bits() - 1) } }
fn ulp_dn(x: f64) -> f64 { -ulp_up(-x) }

pub fn run(args: &[String]) {
    std::panic::set_hook(Box::new(|_| {}));
    let seed: u64 = args.get(0).and_then(|s| s.parse().ok()).unwrap_or(1);
    let cases: usize = args.get(1).and_then(|s| s.parse().ok()).unwrap_or(300);
    let prefix = args.get(2).cloned().unwrap_or_else(|| "/tmp/xcont".into());
    let mut rng = Rng(seed ^ 0xC0_17);
    let mut w = W { ops: String::new(), out: String::new(), n: 0, sol: solution(None), hist: Default::default() };
    let mut kinds: std::collections::BTreeMap<&'static str, usize> = Default::default();
    for case in 0..cases {
        w.emit("reset".into(), "ok".into());
        let kind = match case % 10 { 0 => "none", 1 => "empty", 2 => "const", 3 | 4 => "broken", _ => "chain" };
        *kinds.entry(kind).or_insert(0) += 1;
        let mut segs: Vec<(f64, f64)> = vec![];
        match kind {
            "none" => { w.sol = solution(None); let s = span_str(&w.sol); w.emit("none".into(), s); }
            "empty" => { w.new_segs(&[]); }
            "const" => {
                let x0 = *rng.pick(&[0.0, 1.5, -2.0, 1e6, -3.25e-7]);
                let c = ivp::verif_hooks::continuous_constant(Method::DOPRI5, x0, &[0.0]);
                w.sol = solution(Some(c));
                let n = format!("{:?}", w.sol.continuous_sol.as_ref().unwrap()).matches("DenseSegment").count();
                let s = span_str(&w.sol);
                w.emit(format!("const {}", hx(x0)), format!("{} {}", n, s));
                segs.push((x0, 1e-15));
            }
            _ => {
                let back = rng.chance(0.4);
                let k = 1 + rng.below(8);
                let mut x = *rng.pick(&[0.0, 0.0, 1.0, -3.7, 1e6, -1e9, 0.1, 1e-9]);
                for _ in 0..k {
                    let mag = if rng.chance(0.2) { 10f64.powf(rng.range(-16.0, -11.0)) } else { 10f64.powf(rng.range(-6.0, 1.0)) };
                    let mut h = if back { -mag } else { mag };
                    if rng.chance(0.12) { h = if rng.chance(0.5) { 0.0 } else { -0.0 }; }
                    if kind == "broken" {
                        match rng.below(4) {
                            0 => { x += h * rng.range(0.5, 3.0); }        // gap
                            1 => { x -= h * rng.range(0.1, 0.9); }        // overlap
                            2 => { h = -h; }                              // direction flip
                            _ => {}
                        }
                    }
                    segs.push((x, h));
                    x = x + h;
                }
                if kind == "broken" && rng.chance(0.3) { segs.reverse(); }
                w.new_segs(&segs);
            }
        }
        // queries
        let mut ts: Vec<f64> = vec![];
        for (x, h) in &segs {
            let e = *x + *h;
            for b in [*x, e] {
                ts.extend_from_slice(&[b, ulp_up(b), ulp_dn(b), b + 1e-12, b - 1e-12, b + 0.5e-12, b - 0.5e-12, b + 2e-12, b - 2e-12, b + 1.0000001e-12, b - 1.0000001e-12]);
            }
            // around the relative slack of the lookups (4 eps |b|)
            for b in [*x, e] { for f in [3.0, 4.0, 5.0, 9.0] { ts.push(b + f * f64::EPSILON * b.abs()); ts.push(b - f * f64::EPSILON * b.abs()); } }
            ts.push(*x + 0.5 * *h);
            ts.push(*x + rng.unit() * *h);
        }
        for k in 1..segs.len() {
            // between the end of one segment and the start of the next (a gap if the list is not contiguous)
            let e = segs[k - 1].0 + segs[k - 1].1;
            ts.push(0.5 * (e + segs[k].0));
            ts.push(e + 0.25 * (segs[k].0 - e));
        }
        if segs.is_empty() { ts.extend_from_slice(&[0.0, 1.0]); }
        ts.extend_from_slice(&[1e4, -1e4, 0.0]);
        if rng.chance(0.1) { ts.push(f64::NAN); }
        if rng.chance(0.1) { ts.push(f64::INFINITY); }
        // keep theta finite for the id read-back
        let nq = ts.len().min(14 + rng.below(12));
        for _ in 0..nq {
            let t = ts[rng.below(ts.len())];
            match rng.below(10) {
                0 | 1 if t.is_finite() => w.ext_q(t),
                2 => { let m = 1 + rng.below(5); let v: Vec<f64> = (0..m).map(|_| ts[rng.below(ts.len())]).collect(); w.many_q(&v); }
                _ => w.sol_q(t),
            }
        }
        // sol_many over the grid of segment ends (what a user does with the reported sample times)
        if !segs.is_empty() && rng.chance(0.5) {
            let mut v: Vec<f64> = segs.iter().map(|(x, _)| *x).collect();
            let l = segs.last().unwrap();
            v.push(l.0 + l.1);
            w.many_q(&v);
        }
    }
    std::fs::write(format!("{}.ops", prefix), &w.ops).unwrap();
    std::fs::write(format!("{}.impl", prefix), &w.out).unwrap();
    let hist = w.hist.iter().map(|(k, v)| format!("\"{}\":{}", k, v)).collect::<Vec<_>>().join(",");
    let kh = kinds.iter().map(|(k, v)| format!("\"{}\":{}", k, v)).collect::<Vec<_>>().join(",");
    println!("{{\"kind\":\"xcont\",\"ops\":{},\"cases\":{},\"case_kinds\":{{{}}},\"hist\":{{{}}}}}", w.n, cases, kh, hist);
}
