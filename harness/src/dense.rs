//! C06 search side: on real runs of all six methods, the per-step interpolant handed to the callback must
//! equal the stored states at both ends, `sol(t_i)` must reproduce every sample, `sol` must succeed on the
//! covered span, fail clearly outside, and report NotEnabled without dense output.
use crate::common::*;
use crate::problems::*;
use ivp::error::{Error, InterpolationError};
use ivp::methods::{BDF, DOP853, DOPRI5, RADAU, RK23, RK4};
use ivp::prelude::*;

fn close(a: &[f64], b: &[f64], tol: f64) -> bool {
    a.len() == b.len() && a.iter().zip(b).all(|(x, y)| (x - y).abs() <= tol * (1.0 + x.abs().max(y.abs())))
}

/// what C06 says about a `Solution` with dense output: every stored sample is reproduced, `sol` succeeds on a grid over
/// the reported range and at both of its ends, the covered span contains the reported range, clearly-outside is an error
fn dense_invariants(sol: &Solution) -> Option<String> {
    let mut bad: Option<String> = None;
    for (t, y) in sol.iter() {
        match sol.sol(t) {
            Ok(v) => {
                if !close(&v, y, 1e-9) {
                    return Some(format!("sol({}) = {:?} but stored sample {:?}", t, v, y));
                }
            }
            Err(e) => return Some(format!("sol({}) at a stored sample failed: {:?}", t, e)),
        }
    }
    if sol.t.len() >= 2 {
        let (a, b) = (sol.t[0], *sol.t.last().unwrap());
        for j in 0..=40 {
            let t = if j == 40 { b } else { a + (b - a) * (j as f64) / 40.0 };
            if sol.sol(t).is_err() {
                return Some(format!("sol({}) failed inside the covered span [{}, {}]", t, a, b));
            }
        }
        // "clearly outside" is relative to the covered span, which must contain x0 and the last reported time
        let (s0, s1) = sol.sol_span().unwrap_or((f64::NAN, f64::NAN));
        let (lo, hi) = (s0.min(s1), s0.max(s1));
        if !(lo <= a.min(b) + 1e-12 && a.max(b) <= hi + 1e-12) {
            bad = Some(format!("covered span [{}, {}] does not contain the reported range [{}, {}]", s0, s1, a, b));
        }
        let far = (hi - lo).abs() + 1.0;
        for t in [lo - far, hi + far] {
            match sol.sol(t) {
                Err(Error::Interpolation(InterpolationError::OutOfRange { .. })) => {}
                other => {
                    bad = Some(format!("sol({}) clearly outside [{}, {}] returned {:?}", t, a, b, other.map(|v| v.len())));
                }
            }
        }
        match std::panic::catch_unwind(std::panic::AssertUnwindSafe(|| sol.sol_many(&[a, 0.5 * (a + b), b]))) {
            Ok(Ok(v)) => {
                if !close(&v[1], &sol.sol(0.5 * (a + b)).unwrap(), 0.0) {
                    bad = Some("sol_many differs from sol".into());
                }
            }
            Ok(Err(_)) => bad = Some("sol_many failed on covered points".into()),
            Err(_) => bad = Some("sol_many panicked on covered points".into()),
        }
    }
    bad
}

pub fn run(args: &[String]) {
    let seed: u64 = args.get(0).and_then(|s| s.parse().ok()).unwrap_or(1);
    let cases: usize = args.get(1).and_then(|s| s.parse().ok()).unwrap_or(60);
    let mut rng = Rng(seed);
    let mut n_cb = 0usize;
    let mut n_fail = 0usize;
    for case in 0..cases {
        let kind = *rng.pick(&SMOOTH);
        let method = *rng.pick(&ALL_METHODS);
        let back = rng.chance(0.35);
        let span = rng.range(0.5, 4.0);
        let (x0, xend) = if back { (0.0, -span) } else { (0.0, span) };
        let mut rtol = 10f64.powf(-rng.range(3.0, 9.0));
        // every sixth case: a stiff problem on an implicit method, so that steps with rejected or slowly converging
        // Newton iterations are among those whose interpolant is examined
        let (kind, method, x0, xend) = if case % 6 == 5 {
            rtol = 10f64.powf(-rng.range(2.5, 5.0));
            let k = *rng.pick(&[Kind::VdPStiff, Kind::Robertson, Kind::Stiff, Kind::VdPStiff]);
            let te = match k { Kind::VdPStiff => rng.range(5.0, 900.0), Kind::Robertson => 10f64.powf(rng.range(0.0, 3.0)), _ => rng.range(0.5, 3.0) };
            (k, if rng.chance(0.7) { Method::RADAU } else { Method::BDF }, 0.0, te)
        } else { (kind, method, x0, xend) };
        let atol = rtol * 1e-2;
        let mut p = Prob::new(kind);
        let y0 = p.y0();
        // a third of the cases carry a terminal event g = t - c (c inside the span) for the solve_ivp part
        let with_terminal = rng.chance(0.35);
        let tc = x0 + (xend - x0) * rng.range(0.05, 0.95);
        // ---- low-level callback interpolant
        let mut rec = Recorder::new();
        let res = match method {
            Method::RK4 => RK4::builder().build().solve(&p, x0, &y0, xend, (xend - x0) / 64.0, Some(&mut rec)),
            Method::RK23 => RK23::builder().build().solve(&p, x0, &y0, xend, rtol.into(), atol.into(), Some(&mut rec)),
            Method::DOPRI5 => DOPRI5::builder().build().solve(&p, x0, &y0, xend, rtol.into(), atol.into(), Some(&mut rec)),
            Method::DOP853 => DOP853::builder().build().solve(&p, x0, &y0, xend, rtol.into(), atol.into(), Some(&mut rec)),
            Method::RADAU => RADAU::builder().mass_storage(MatrixStorage::Identity).build().solve(&p, x0, &y0, xend, rtol.into(), atol.into(), Some(&mut rec)),
            Method::BDF => BDF::builder().build().solve(&p, x0, &y0, xend, rtol.into(), atol.into(), Some(&mut rec)),
        };
        let status = res.as_ref().map(|r| format!("{:?}", r.status)).unwrap_or_else(|e| format!("Err({:?})", e));
        let mut bad: Option<String> = None;
        for k in 1..rec.cbs.len() {
            let cb = &rec.cbs[k];
            let prev = &rec.cbs[k - 1];
            n_cb += 1;
            if !cb.has_interp {
                bad = Some(format!("callback {} has no interpolant", k));
                break;
            }
            if !close(&cb.samples[0], &prev.y, 1e-9) {
                bad = Some(format!("step {}: interpolant at xold={} gives {:?}, stored state {:?}", k, cb.xold, cb.samples[0], prev.y));
                break;
            }
            if !close(&cb.samples[4], &cb.y, 1e-9) {
                bad = Some(format!("step {}: interpolant at x={} gives {:?}, stored state {:?}", k, cb.x, cb.samples[4], cb.y));
                break;
            }
        }
        // ---- solve_ivp level
        if with_terminal {
            p.events = vec![EventSpec { a: 1.0, b: vec![0.0; p.n()], c: tc, dir: 0, terminal: Some(1) }];
        }
        if bad.is_none() {
            let opts = Options::builder().method(method).rtol(rtol).atol(atol).dense_output(true).build();
            match solve_ivp(&p, x0, xend, &y0, opts) {
                Ok(sol) => { bad = dense_invariants(&sol); }
                Err(e) => bad = Some(format!("solve_ivp error {:?}", e)),
            }
            let opts = Options::builder().method(method).rtol(rtol).atol(atol).build();
            if let Ok(sol) = solve_ivp(&p, x0, xend, &y0, opts) {
                match sol.sol(x0) {
                    Err(Error::Interpolation(InterpolationError::NotEnabled)) => {}
                    other => bad = Some(format!("dense disabled but sol(x0) = {:?}", other.map(|v| v.len()))),
                }
            }
        }
        if bad.is_some() {
            n_fail += 1;
        }
        println!(
            "{{\"kind\":\"dense\",\"case\":{},\"problem\":\"{}\",\"method\":\"{}\",\"x0\":{},\"xend\":{},\"rtol\":{},\"atol\":{},\"status\":\"{}\",\"steps\":{},\"ok\":{},\"why\":{:?}}}",
            case, if with_terminal { format!("{:?}+terminal@{}", kind, tc) } else { format!("{:?}", kind) }, method_name(method), x0, jnum(xend), jnum(rtol), jnum(atol), status, rec.cbs.len().saturating_sub(1), bad.is_none(), bad.unwrap_or_default()
        );
    }
    // directed: fast dynamics on an interval of a few 1e-12, i.e. steps far below the absolute slack of the segment lookup:
    // sol(t_i) must still be answered by the segment that contains t_i, not by an earlier one within the slack
    {
        std::panic::set_hook(Box::new(|_| {}));
        struct Fast(f64);
        impl IVP for Fast { fn ode(&self, _x: f64, y: &[f64], d: &mut [f64]) { d[0] = self.0 * y[0]; } }
        let mut k = 0;
        for method in ALL_METHODS {
            for (lam, span) in [(1e11f64, 3e-11f64), (1e12, 3e-12), (-1e11, 3e-11), (1e11, -3e-11)] {
                let mut o = Options::builder().method(method).rtol(1e-6).atol(1e-9).dense_output(true).build();
                if method == Method::RK4 { o.first_step = Some(span.abs() / 37.0); }
                let (status, bad) = match std::panic::catch_unwind(std::panic::AssertUnwindSafe(|| solve_ivp(&Fast(lam), 0.0, span, &[1.0], o))) {
                    Ok(Ok(sol)) => {
                        let mut bad = dense_invariants(&sol);
                        if bad.is_none() {
                            // between the samples: the exact solution exp(lam t) to the accuracy of the run
                            for w in sol.t.windows(2) {
                                let tm = 0.5 * (w[0] + w[1]);
                                if let Ok(v) = sol.sol(tm) { let ex = (lam * tm).exp(); if (v[0] - ex).abs() > 1e-4 * ex.abs() { bad = Some(format!("sol({:e}) = {:e}, exact {:e}", tm, v[0], ex)); break; } }
                            }
                        }
                        (format!("{:?}", sol.status), bad)
                    }
                    Ok(Err(e)) => (format!("Err({:?})", e), None),
                    Err(_) => ("panic".to_string(), Some("solve_ivp panicked".to_string())),
                };
                if bad.is_some() { n_fail += 1; }
                println!("{{\"kind\":\"dense\",\"case\":\"tiny-interval-fast-{}\",\"problem\":\"y'={:e}y\",\"method\":\"{}\",\"x0\":0,\"xend\":{:e},\"status\":\"{}\",\"finding_key\":\"c06-lookup-slack\",\"ok\":{},\"why\":{:?}}}",
                    k, lam, method_name(method), span, status, bad.is_none(), bad.unwrap_or_default());
                k += 1;
            }
        }
    }
    // directed: a whole backward run shorter than the lookup slack whose landing segment ends one ulp short of xend: sol(xend)
    // must be the last sample (the lookup then has several segments within the slack of t and must not take the first one)
    {
        struct Sho(f64);
        impl IVP for Sho { fn ode(&self, _x: f64, y: &[f64], d: &mut [f64]) { d[0] = y[1] / self.0; d[1] = -y[0] / self.0; } }
        let mut k = 0;
        for (method, tau) in [(Method::DOPRI5, 1.27778e-13f64), (Method::RADAU, 1.05848e-13), (Method::DOP853, 1.2192e-13), (Method::BDF, 1.27778e-13), (Method::RK23, 1.27778e-13)] {
            let (x0, xend) = (3.1 * tau, 0.1 * tau);
            let y0 = [(x0 / tau).cos(), -(x0 / tau).sin()];
            let o = Options::builder().method(method).rtol(1e-6).atol(1e-9).dense_output(true).build();
            let (status, bad) = match std::panic::catch_unwind(std::panic::AssertUnwindSafe(|| solve_ivp(&Sho(tau), x0, xend, &y0, o))) {
                Ok(Ok(sol)) => {
                    let mut bad = None;
                    if sol.status == Status::Success {
                        let (tl, yl) = (*sol.t.last().unwrap(), sol.y.last().unwrap().clone());
                        match sol.sol(tl) {
                            Ok(v) => if !close(&v, &yl, 1e-6) { bad = Some(format!("backward run over [{:e}, {:e}]: sol(t_last) = {:?} but the last sample is {:?} (sol_span {:?})", x0, xend, v, yl, sol.sol_span())); },
                            Err(e) => bad = Some(format!("sol(t_last) fails: {:?}", e)),
                        }
                    }
                    (format!("{:?}", sol.status), bad)
                }
                Ok(Err(e)) => (format!("Err({:?})", e), None),
                Err(_) => ("panic".to_string(), Some("solve_ivp panicked".to_string())),
            };
            if bad.is_some() { n_fail += 1; }
            println!("{{\"kind\":\"dense\",\"case\":\"tiny-backward-landing-{}\",\"problem\":\"scaled oscillator tau={:e}\",\"method\":\"{}\",\"status\":\"{}\",\"finding_key\":\"c06-tiny-span-landing-segment\",\"ok\":{},\"why\":{:?}}}",
                k, tau, method_name(method), status, bad.is_none(), bad.unwrap_or_default());
            k += 1;
        }
    }
    // directed: a final step that is huge compared with |xend| (1e6 -> 1e-3): the landing segment's end xold + h carries the
    // rounding error of xold (1e-10), far above the 1e-12 slack of a point of size 1e-3; sol(xend) still has to answer
    {
        struct Slow;
        impl IVP for Slow { fn ode(&self, _x: f64, y: &[f64], d: &mut [f64]) { d[0] = -1e-7 * y[0]; } }
        let mut k = 0;
        for method in ALL_METHODS {
            for (x0, xend) in [(1e6, 1e-3), (-1e6, 1e-3), (1e6, -1e-3), (3.3e7, 0.7), (123456.789, 1e-5), (-1e9, 1.0 / 3.0)] {
                let o = Options::builder().method(method).rtol(1e-6).atol(1e-9).dense_output(true).build();
                let (status, bad) = match std::panic::catch_unwind(std::panic::AssertUnwindSafe(|| solve_ivp(&Slow, x0, xend, &[1.0], o))) {
                    Ok(Ok(sol)) => {
                        let mut bad = None;
                        if sol.status == Status::Success {
                            let (tl, yl) = (*sol.t.last().unwrap(), sol.y.last().unwrap().clone());
                            match sol.sol(tl) {
                                Ok(v) => if !close(&v, &yl, 1e-6) { bad = Some(format!("run over [{:e}, {:e}]: sol(t_last) = {:?} but the last sample is {:?}", x0, xend, v, yl)); },
                                Err(e) => bad = Some(format!("run over [{:e}, {:e}] ends Success at t = {:e}, but sol(t_last) fails: {:?} (sol_span {:?})", x0, xend, tl, e, sol.sol_span())),
                            }
                        }
                        (format!("{:?}", sol.status), bad)
                    }
                    Ok(Err(e)) => (format!("Err({:?})", e), None),
                    Err(_) => ("panic".to_string(), Some("solve_ivp panicked".to_string())),
                };
                if bad.is_some() { n_fail += 1; }
                println!("{{\"kind\":\"dense\",\"case\":\"far-origin-landing-{}\",\"problem\":\"y' = -1e-7 y\",\"method\":\"{}\",\"x0\":{:e},\"xend\":{:e},\"status\":\"{}\",\"finding_key\":\"c06-far-origin-landing-segment\",\"ok\":{},\"why\":{:?}}}",
                    k, method_name(method), x0, xend, status, bad.is_none(), bad.unwrap_or_default());
                k += 1;
            }
        }
    }
    // directed: the last sample is xend itself while the last dense segment ends at xold + h, which may differ from xend by
    // a rounding error: the continuous solution must still answer at every reported time (and at xend)
    {
        std::panic::set_hook(Box::new(|_| {}));
        let mut pairs: Vec<(f64, f64)> = vec![(0.5, 0.1), (-139.6702216726654, -4.433293975224184), (0.38770000000000004, 1.7344900000000003), (12345.678, 12399.9)];
        for _ in 0..26 { let a = rng.range(-200.0, 200.0); let b = a + rng.range(-150.0, 150.0); pairs.push((a, b)); }
        let mut k = 0;
        for method in ALL_METHODS {
            for &(x0, xend) in &pairs {
                let p = Prob::new(Kind::Harmonic);
                let y0 = p.y0();
                let mut o = Options::builder().method(method).rtol(1e-6).atol(1e-9).dense_output(true).build();
                if method == Method::RK4 { o.first_step = Some((xend - x0) / 37.0); }
                let (status, bad) = match std::panic::catch_unwind(std::panic::AssertUnwindSafe(|| solve_ivp(&p, x0, xend, &y0, o))) {
                    Ok(Ok(sol)) => {
                        let mut bad = dense_invariants(&sol);
                        if bad.is_none() && sol.status == Status::Success { if let Err(e) = sol.sol(xend) { bad = Some(format!("Success but sol(xend = {:?}) fails: {:?}", xend, e)); } }
                        (format!("{:?}", sol.status), bad)
                    }
                    Ok(Err(e)) => (format!("Err({:?})", e), None),
                    Err(_) => ("panic".to_string(), Some("solve_ivp panicked".to_string())),
                };
                if bad.is_some() { n_fail += 1; }
                println!("{{\"kind\":\"dense\",\"case\":\"landing-ulp-{}\",\"problem\":\"Harmonic\",\"method\":\"{}\",\"x0\":{:?},\"xend\":{:?},\"status\":\"{}\",\"finding_key\":\"c06-last-sample-out-of-range\",\"ok\":{},\"why\":{:?}}}",
                    k, method_name(method), x0, xend, status, bad.is_none(), bad.unwrap_or_default());
                k += 1;
            }
        }
    }
    // directed: Radau at coarse tolerances on stiff nonlinear problems, where the Newton iteration is predicted to converge
    // too slowly and the step size is reduced in mid-iteration: every delivered interval [xold, x] must be the one its
    // interpolant covers, and the dense output must reach the last reported time
    {
        std::panic::set_hook(Box::new(|_| {}));
        struct Cubic { a: f64, which: usize }
        impl IVP for Cubic {
            fn ode(&self, x: f64, y: &[f64], d: &mut [f64]) { d[0] = if self.which == 0 { self.a * (x.cos() - y[0] * y[0] * y[0]) } else { -self.a * (y[0].exp() - 1.0) }; }
        }
        let mut k = 0;
        for (which, y0) in [(0usize, 2.0f64), (1, 1.5)] {
            for a in [10.0, 30.0, 100.0] {
                for (rtol, first) in [(1e-2, None), (1e-1, None), (1e-3, None), (1e-2, Some(0.3)), (1e-2, Some(2.0))] {
                    let f = Cubic { a, which };
                    let mut rec = Recorder::new();
                    let res = RADAU::builder().mass_storage(MatrixStorage::Identity).maybe_first_step(first).build().solve(&f, 0.0, &[y0], 1.5, rtol.into(), (rtol * 1e-3).into(), Some(&mut rec));
                    let status = res.as_ref().map(|r| format!("{:?}", r.status)).unwrap_or_else(|e| format!("Err({:?})", e));
                    let mut bad: Option<String> = None;
                    for j in 1..rec.cbs.len() {
                        let (cb, prev) = (&rec.cbs[j], &rec.cbs[j - 1]);
                        n_cb += 1;
                        if !cb.has_interp { bad = Some(format!("callback {} has no interpolant", j)); break; }
                        if !close(&cb.samples[0], &prev.y, 1e-9) { bad = Some(format!("step {}: interpolant at xold = {} gives {:?}, stored state {:?}", j, cb.xold, cb.samples[0], prev.y)); break; }
                        if !close(&cb.samples[4], &cb.y, 1e-9) { bad = Some(format!("step {} delivered as [{}, {}]: its interpolant at x gives {:?}, the delivered state is {:?}", j, cb.xold, cb.x, cb.samples[4], cb.y)); break; }
                    }
                    if bad.is_none() {
                        let mut o = Options::builder().method(Method::RADAU).rtol(rtol).atol(rtol * 1e-3).dense_output(true).build();
                        o.first_step = first;
                        if let Ok(sol) = solve_ivp(&f, 0.0, 1.5, &[y0], o) {
                            bad = dense_invariants(&sol);
                            if bad.is_none() && sol.status != Status::Success && (sol.t.last().unwrap() - 1.5).abs() < 1e-14 { bad = Some(format!("status {:?} although the last sample is xend", sol.status)); }
                        }
                    }
                    if bad.is_some() { n_fail += 1; }
                    println!("{{\"kind\":\"dense\",\"case\":\"radau-coarse-{}\",\"problem\":\"{} a={}\",\"method\":\"RADAU\",\"x0\":0,\"xend\":1.5,\"rtol\":{},\"first_step\":{},\"status\":\"{}\",\"finding_key\":\"c06-radau-slow-convergence\",\"ok\":{},\"why\":{:?}}}",
                        k, ["a(cos x - y^3)", "-a(e^y - 1)"][which], a, jnum(rtol), first.map(jnum).unwrap_or("null".into()), status, bad.is_none(), bad.unwrap_or_default());
                    k += 1;
                }
            }
        }
    }
    // directed: runs whose step grid contains a step of rounding size (a landing step of one ulp after max_step-limited
    // steps; a tiny first_step): the dense output must still cover [x0, last reported time]
    {
        std::panic::set_hook(Box::new(|_| {}));
        let mut k = 0;
        for method in ALL_METHODS {
            for (x0, xend) in [(0.0f64, 1.0f64), (1.0, 0.0), (0.0, 0.7), (-0.3, 0.0)] {
                for (ms, fs) in [(Some(0.1f64), None::<f64>), (Some(0.1 * (xend - x0).abs()), None), (Some(0.1), Some(0.1)), (Some(0.1 * (xend - x0).abs()), Some(0.1 * (xend - x0).abs())), (None, Some(1e-13)), (None, Some(3e-13))] {
                    if method == Method::RK4 { continue; } // fixed step: neither option applies
                    let p = Prob::new(Kind::Slow);
                    let y0 = p.y0();
                    let opts = match (ms, fs) {
                        (Some(m), Some(f)) => Options::builder().method(method).rtol(1e-3).atol(1e-6).max_step(m).first_step(f).dense_output(true).build(),
                        (Some(m), _) => Options::builder().method(method).rtol(1e-3).atol(1e-6).max_step(m).dense_output(true).build(),
                        (_, Some(f)) => Options::builder().method(method).rtol(1e-3).atol(1e-6).first_step(f).dense_output(true).build(),
                        _ => unreachable!(),
                    };
                    let r = std::panic::catch_unwind(std::panic::AssertUnwindSafe(|| solve_ivp(&p, x0, xend, &y0, opts)));
                    let (status, bad) = match r {
                        Ok(Ok(sol)) => {
                            let mut bad = dense_invariants(&sol);
                            if bad.is_none() && sol.sol(x0).is_err() { bad = Some(format!("sol(x0 = {}) failed: covered span {:?}", x0, sol.sol_span())); }
                            (format!("{:?}", sol.status), bad)
                        }
                        Ok(Err(e)) => (format!("Err({:?})", e), None),
                        Err(_) => ("panic".to_string(), Some("solve_ivp panicked".to_string())),
                    };
                    if bad.is_some() { n_fail += 1; }
                    println!(
                        "{{\"kind\":\"dense\",\"case\":\"tiny-step-{}\",\"problem\":\"Slow\",\"method\":\"{}\",\"x0\":{},\"xend\":{},\"max_step\":{},\"first_step\":{},\"status\":\"{}\",\"finding_key\":\"c06-cover\",\"ok\":{},\"why\":{:?}}}",
                        k, method_name(method), x0, xend, ms.map(jnum).unwrap_or("null".into()), fs.map(jnum).unwrap_or("null".into()), status, bad.is_none(), bad.unwrap_or_default()
                    );
                    k += 1;
                }
            }
        }
    }
    // callbacks that ask for output points (ControlFlag::XOut) from solvers built with dense_output(false): whenever an
    // interpolant is handed over it must be valid on its step (equal to the stored states at both ends)
    {
        struct XoutRec { grid: f64, dir: f64, next: f64, prev_y: Vec<f64>, bad: Option<String>, with_interp: usize }
        impl ivp::solout::SolOut for XoutRec {
            fn solout(&mut self, xold: f64, x: &mut f64, y: &mut [f64], ip: Option<&ivp::dense::StepInterpolant<'_>>) -> ControlFlag {
                if let Some(ip) = ip {
                    self.with_interp += 1;
                    let mut a = vec![0.0; y.len()];
                    let mut b = vec![0.0; y.len()];
                    ip.interpolate(xold, &mut a);
                    ip.interpolate(*x, &mut b);
                    if self.bad.is_none() && !close(&a, &self.prev_y, 1e-9) { self.bad = Some(format!("interpolant of step [{}, {}] gives {:?} at its left end, the state there was {:?}", xold, *x, a, self.prev_y)); }
                    if self.bad.is_none() && !close(&b, y, 1e-9) { self.bad = Some(format!("interpolant of step [{}, {}] gives {:?} at its right end, the accepted state is {:?}", xold, *x, b, y)); }
                }
                self.prev_y = y.to_vec();
                while (self.next - *x) * self.dir <= 0.0 { self.next += self.dir * self.grid; }
                ControlFlag::XOut(self.next)
            }
        }
        let mut k = 0;
        for method in ALL_METHODS {
            for (xend, grid) in [(2.0, 0.5), (2.0, 0.37), (-2.0, 0.5)] {
                let p = Prob::new(Kind::Harmonic);
                let y0 = p.y0();
                let mut rec = XoutRec { grid, dir: if xend > 0.0 { 1.0 } else { -1.0 }, next: 0.0, prev_y: y0.clone(), bad: None, with_interp: 0 };
                let (rt, at): (ivp::methods::Tolerance, ivp::methods::Tolerance) = (1e-5.into(), 1e-8.into());
                let res = match method {
                    Method::RK4 => RK4::builder().dense_output(false).build().solve(&p, 0.0, &y0, xend, xend / 20.0, Some(&mut rec)),
                    Method::RK23 => RK23::builder().dense_output(false).build().solve(&p, 0.0, &y0, xend, rt, at, Some(&mut rec)),
                    Method::DOPRI5 => DOPRI5::builder().dense_output(false).build().solve(&p, 0.0, &y0, xend, rt, at, Some(&mut rec)),
                    Method::DOP853 => DOP853::builder().dense_output(false).build().solve(&p, 0.0, &y0, xend, rt, at, Some(&mut rec)),
                    Method::RADAU => RADAU::builder().dense_output(false).mass_storage(MatrixStorage::Identity).build().solve(&p, 0.0, &y0, xend, rt, at, Some(&mut rec)),
                    Method::BDF => BDF::builder().build().solve(&p, 0.0, &y0, xend, rt, at, Some(&mut rec)),
                };
                let why = match (&res, &rec.bad) { (Err(e), _) => format!("error {:?}", e), (_, Some(b)) => b.clone(), _ => String::new() };
                if !why.is_empty() { n_fail += 1; }
                println!("{{\"kind\":\"dense\",\"case\":\"xout-{}\",\"method\":\"{}\",\"problem\":\"Harmonic\",\"xend\":{},\"grid\":{},\"interpolants\":{},\"finding_key\":\"c06-xout-interpolant\",\"ok\":{},\"why\":{:?}}}",
                    k, method_name(method), xend, grid, rec.with_interp, why.is_empty(), why);
                k += 1;
            }
        }
    }
    // zero-length run: the constant continuous solution returns y0 over its whole (tiny) covered span, for every method
    for method in ALL_METHODS {
        let p = Prob::new(Kind::Harmonic);
        let opts = Options::builder().method(method).dense_output(true).build();
        let mut why = String::new();
        match solve_ivp(&p, 1.5, 1.5, &[1.0, 2.0], opts) {
            Ok(sol) => {
                let (a, b) = sol.sol_span().unwrap_or((f64::NAN, f64::NAN));
                for t in [1.5, a, b, 0.5 * (a + b)] {
                    match sol.sol(t) {
                        Ok(v) => if v != vec![1.0, 2.0] && why.is_empty() { why = format!("zero-length run: sol({:e}) = {:?} inside its covered span [{:e}, {:e}], expected y0 = [1, 2]", t, v, a, b); },
                        Err(e) => if why.is_empty() { why = format!("zero-length run: sol({:e}) failed: {:?}", t, e); },
                    }
                }
            }
            Err(e) => why = format!("solve_ivp error {:?}", e),
        }
        println!("{{\"kind\":\"dense\",\"case\":\"zero-length\",\"method\":\"{}\",\"finding_key\":\"c06-zero-length\",\"ok\":{},\"why\":{:?}}}", method_name(method), why.is_empty(), why);
        if !why.is_empty() { n_fail += 1; }
    }
    println!("{{\"kind\":\"dense-summary\",\"callbacks\":{},\"failures\":{}}}", n_cb, n_fail);
}

/// C07 search side for the multistep method: BDF's interpolant "matches the accuracy of the step itself".  On the
/// harmonic oscillator (exact flow = a rotation) the local error of the interpolant at interior points of a step, measured
/// against the exact flow started from the step's left end, is compared with the local error of the step.
pub fn bdf_dense(args: &[String]) {
    let seed: u64 = args.get(0).and_then(|s| s.parse().ok()).unwrap_or(1);
    let mut rng = Rng(seed ^ 0xBDFD);
    let flow = |dt: f64, y: &[f64]| -> [f64; 2] { let (c, s) = (dt.cos(), dt.sin()); [c * y[0] + s * y[1], -s * y[0] + c * y[1]] };
    let dist = |a: &[f64], b: &[f64]| -> f64 { ((a[0] - b[0]).powi(2) + (a[1] - b[1]).powi(2)).sqrt() };
    let mut configs: Vec<(f64, f64, f64)> = vec![(0.0, 10.0, 1e-10), (10.0, 0.0, 1e-10), (0.0, 10.0, 1e-8), (0.0, 6.0, 1e-6)];
    for _ in 0..4 { let back = rng.chance(0.4); let len = rng.range(6.0, 14.0); configs.push(if back { (len, 0.0, 10f64.powf(-rng.range(7.0, 10.5))) } else { (0.0, len, 10f64.powf(-rng.range(7.0, 10.5))) }); }
    for (case, (t0, t1, rtol)) in configs.iter().enumerate() {
        let p = Prob::new(Kind::Harmonic);
        let o = Options::builder().method(Method::BDF).rtol(*rtol).atol(rtol * 1e-2).dense_output(true).build();
        let (mut why, mut worst, mut checked, mut where_) = (String::new(), 0.0f64, 0usize, 0.0);
        match solve_ivp(&p, *t0, *t1, &[1.0, 0.0], o) {
            Ok(sol) => {
                for w in 0..sol.t.len().saturating_sub(1) {
                    let (a, b) = (sol.t[w], sol.t[w + 1]);
                    if (a - t0).abs() < 3.0 { continue; } // start-up at low order and small steps
                    let l = dist(&sol.y[w + 1], &flow(b - a, &sol.y[w]));
                    if l < 1e-13 { continue; }
                    for th in [0.15, 0.35, 0.5, 0.65, 0.85] {
                        let t = a + th * (b - a);
                        if let Ok(v) = sol.sol(t) {
                            let i = dist(&v, &flow(t - a, &sol.y[w]));
                            if i / l > worst { worst = i / l; where_ = t; }
                        } else { why = format!("sol({}) failed inside a step", t); }
                    }
                    checked += 1;
                }
                if why.is_empty() && checked > 20 && worst > 3.0 { why = format!("BDF interpolant is {:.2} times less accurate than the step that contains t = {} ({} steps examined, rtol {:e})", worst, where_, checked, rtol); }
            }
            Err(e) => why = format!("solve_ivp error {:?}", e),
        }
        println!("{{\"kind\":\"bd\",\"case\":{},\"method\":\"BDF\",\"problem\":\"Harmonic\",\"x0\":{},\"xend\":{},\"rtol\":{},\"steps_checked\":{},\"worst_ratio\":{},\"finding_key\":\"c07-bdf-dense\",\"ok\":{},\"why\":{:?}}}",
            case, t0, t1, jnum(*rtol), checked, jnum(worst), why.is_empty(), why);
    }
}
