//! X-radau: control-trace co-simulation of `RADAU::solve`.  The solver (compiled with --cfg ivp_verif) reports the
//! scalars its control logic branches on; this module turns one run into a `case` line (the set-up) and one `pass`
//! line per pass of the main loop (what the numeric kernel told the control logic: factorisation outcome, the dyno
//! of every Newton iteration, the error estimates, the callback's flag) and records what the real control logic did
//! (state at the head of the next pass, or the final result).  The Lean model `RadauCtl.pass` must reproduce it.
use crate::common::*;
use crate::problems::*;
use ivp::methods::RADAU;
use ivp::prelude::*;
use std::fmt::Write as _;

fn st(s: Status) -> &'static str {
    match s { Status::Success => "Success", Status::UserInterrupt => "UserInterrupt", Status::NeedLargerNMax => "NeedLargerNMax",
              Status::StepSizeTooSmall => "StepSizeTooSmall", Status::SingularMatrix => "SingularMatrix", _ => "Other" }
}
fn o(x: Option<f64>) -> String { x.map(hx).unwrap_or("-".into()) }

/// linear problems whose iteration matrices are exactly singular at the first step size h0:
/// `real`: J = (U1/h0) I  makes E1 = (U1/h0) I - J = 0;  otherwise J = [[a, -b], [b, a]] with a + ib = (ALPH + i BETA)/h0 makes E2 singular
struct Sing { real: bool, h0: f64, nf: std::cell::Cell<usize>, nj: std::cell::Cell<usize> }
impl Sing {
    fn coef(&self) -> (f64, f64) {
        if self.real { (3.637_834_252_744_496 / self.h0, 0.0) } else { (2.681_082_873_627_752_3 / self.h0, 3.050_430_199_247_410_5 / self.h0) }
    }
}
impl IVP for Sing {
    fn ode(&self, _t: f64, y: &[f64], d: &mut [f64]) { self.nf.set(self.nf.get() + 1); let (a, b) = self.coef(); d[0] = a * y[0] - b * y[1]; d[1] = b * y[0] + a * y[1]; }
    fn jac(&self, _t: f64, _y: &[f64], j: &mut Matrix) { self.nj.set(self.nj.get() + 1); let (a, b) = self.coef(); j[(0, 0)] = a; j[(0, 1)] = -b; j[(1, 0)] = b; j[(1, 1)] = a; }
}

pub fn run(args: &[String]) {
    std::panic::set_hook(Box::new(|_| {}));
    let seed: u64 = args.get(0).and_then(|s| s.parse().ok()).unwrap_or(1);
    let cases: usize = args.get(1).and_then(|s| s.parse().ok()).unwrap_or(100);
    let prefix = args.get(2).cloned().unwrap_or_else(|| "/dev/null".into());
    let mut rng = Rng(seed ^ 0x7ADA);
    let (mut ops, mut out) = (String::new(), String::new());
    let mut hist: std::collections::BTreeMap<String, usize> = Default::default();
    let mut npass = 0usize;
    let kinds = [Kind::Harmonic, Kind::Logistic, Kind::Decay3, Kind::Riccati, Kind::VdP, Kind::Mixed, Kind::Stiff, Kind::VdPStiff, Kind::Robertson, Kind::Blowup, Kind::Slow];
    for id in 0..cases {
        let kind = *rng.pick(&kinds);
        let mut p = Prob::new(kind);
        p.user_jac = rng.chance(0.5);
        let y0 = if rng.chance(0.1) { vec![0.0; p.n()] } else { p.y0() };
        let span = match kind { Kind::VdPStiff => rng.range(1.0, 2500.0), Kind::Robertson => 10f64.powf(rng.range(-1.0, 4.0)), Kind::Blowup => rng.range(0.5, 2.0), _ => match rng.below(8) { 0 => 1e-9, 1 => 30.0, _ => rng.range(0.2, 3.0) } };
        let back = rng.chance(0.25) && !matches!(kind, Kind::VdPStiff | Kind::Robertson | Kind::Stiff);
        let x0 = if rng.chance(0.3) { rng.range(-2.0, 2.0) } else { 0.0 };
        let xend = if back { x0 - span } else { x0 + span };
        let rtol = 10f64.powf(-rng.range(2.0, 8.0));
        let atol = rtol * 10f64.powf(-rng.range(0.0, 3.0));
        let first = match rng.below(7) { 0 => Some(span * 0.02), 1 => Some(span * 3.0), 2 => Some(-span * 0.1), 3 => Some(1.0), _ => None };
        let maxstep = match rng.below(6) { 0 => Some(span / 7.0), 1 => Some(f64::INFINITY), _ => None };
        let minstep = if rng.chance(0.1) { Some(span * 1e-6) } else { None };
        let nmax = if rng.chance(0.2) { 1 + rng.below(60) } else { 100_000 };
        let maxnewton = if rng.chance(0.25) { 2 + rng.below(5) } else { 7 };
        let predictive = rng.chance(0.8);
        let ntol = if rng.chance(0.1) { Some(10f64.powf(-rng.range(1.0, 4.0))) } else { None };
        // every 20th case: a tiny time scale with max_step below the built-in first step of 1e-6
        let (kind, span, xend, first, maxstep, minstep) = if id % 20 == 7 {
            let sp = if rng.chance(0.5) { 1.03e-5 } else { 4.1e-6 };
            (Kind::Slow, sp, if back { x0 - sp } else { x0 + sp }, if rng.chance(0.3) { Some(3e-7) } else { None }, Some(if rng.chance(0.5) { 2e-7 } else { 5e-7 }), None)
        } else { (kind, span, xend, first, maxstep, minstep) };
        let (p, y0) = if id % 20 == 7 { let p = Prob::new(Kind::Slow); let y0 = p.y0(); (p, y0) } else { (p, y0) };
        let smin = if rng.chance(0.2) { 0.5 } else { 0.2 };
        let smax = if rng.chance(0.2) { 4.0 } else { 8.0 };
        let mut rec = Recorder::new();
        rec.thetas = vec![];
        match rng.below(6) { 0 => rec.script.push((rng.below(8), Reply::Interrupt)), 1 => rec.script.push((rng.below(12), Reply::Modify(if rng.chance(0.5) { 1.0 } else { 1.5 }))), 2 => { rec.script.push((0, Reply::Modify(1.0))); rec.script.push((1 + rng.below(6), Reply::Modify(0.5))); } _ => {} }
        let solver = RADAU::builder().max_steps(nmax).scale_min(smin).scale_max(smax).newton_maxiter(maxnewton).predictive(predictive)
            .maybe_newton_tol(ntol).maybe_first_step(first).maybe_max_step(maxstep).maybe_min_step(minstep).mass_storage(MatrixStorage::Identity).build();
        // every 25th case: an iteration matrix that is exactly singular at the first step size
        let sing = if id % 25 == 24 { let h0 = first.unwrap_or(1.0e-6).abs().min(maxstep.unwrap_or(f64::INFINITY)).min(span) * (xend - x0).signum(); Some(Sing { real: id % 50 == 24, h0, nf: 0.into(), nj: 0.into() }) } else { None };
        ivp::verif_hooks::trace_start();
        let res = std::panic::catch_unwind(std::panic::AssertUnwindSafe(|| match &sing {
            Some(sp) => solver.solve(sp, x0, &[1.0, 0.5], xend, rtol.into(), atol.into(), Some(&mut rec)),
            None => solver.solve(&p, x0, &y0, xend, rtol.into(), atol.into(), Some(&mut rec)),
        }));
        let tr = ivp::verif_hooks::trace_take();
        let res = match res { Ok(Ok(r)) => r, _ => { *hist.entry("error-or-panic".into()).or_default() += 1; continue; } };
        *hist.entry(format!("{}/{}", if sing.is_some() { "Singular".to_string() } else { format!("{:?}", kind) }, st(res.status))).or_default() += 1;
        let (fcalls, jcalls) = match &sing { Some(sp) => (sp.nf.get(), sp.nj.get()), None => (p.count.get(), p.jcount.get()) };
        let endline = format!("end {} h={} total={} acc={} rej={} ode={} jac={} lu={} fcalls={} jcalls={}", st(res.status), hx(res.h), res.steps.total, res.steps.accepted, res.steps.rejected, res.evals.ode, res.evals.jac, res.evals.lu, fcalls, jcalls);
        // the transformed rtol[0] (the model takes it as input; the transformation itself is a translated region)
        let tolst = 0.1 * rtol.powf(2.0 / 3.0);
        let cb0 = tr.iter().find(|e| e.0 == "cb").map(|e| e.1[0]).unwrap_or(0.0);
        writeln!(ops, "case x0={} xend={} first={} maxstep={} minstep={} nmax={} maxnewton={} uround={} safety={} smin={} smax={} pred={} tolst={} ntol={} cb0={}",
            hx(x0), hx(xend), o(first), o(maxstep), o(minstep), nmax, maxnewton, hx(2.3e-16), hx(0.9), hx(smin), hx(smax), predictive as u8, hx(tolst), o(ntol), cb0 as u8).unwrap();
        match tr.iter().find(|e| e.0 == "init") {
            None => { writeln!(out, "{endline}").unwrap(); continue; }
            Some(e) => { let v = &e.1; writeln!(out, "init h={} hmax={} hmin={} ntol={} facl={} facr={} cfac={} posneg={} last={} ode={}", hx(v[0]), hx(v[1]), hx(v[2]), hx(v[3]), hx(v[4]), hx(v[5]), hx(v[6]), hx(v[7]), v[8] as u8, v[9] as u64).unwrap(); }
        }
        // group the events of each pass
        let passes: Vec<usize> = tr.iter().enumerate().filter(|(_, e)| e.0 == "pass").map(|(i, _)| i).collect();
        let state_line = |v: &Vec<f64>| format!("state x={} h={} hhfac={} cj={} cd={} first={} reject={} last={} sing={} faccon={} dynold={} thqold={} hacc={} erracc={} total={} acc={} rej={} ode={} jac={} lu={}",
            hx(v[0]), hx(v[1]), hx(v[2]), v[3] as u8, v[4] as u8, v[5] as u8, v[6] as u8, v[7] as u8, v[8] as u64, hx(v[9]), hx(v[10]), hx(v[11]), hx(v[12]), hx(v[13]),
            v[14] as u64, v[15] as u64, v[16] as u64, v[17] as u64, v[18] as u64, v[19] as u64);
        // the state at the head of the first pass is an output of `start`
        writeln!(ops, "first").unwrap();
        writeln!(out, "{}", state_line(&tr[passes[0]].1)).unwrap();
        for (k, &i) in passes.iter().enumerate() {
            let j = if k + 1 < passes.len() { passes[k + 1] } else { tr.len() };
            let (mut dec, mut dynos, mut err, mut err2, mut cb) = (0u8, vec![], None, None, None);
            for e in &tr[i + 1..j] {
                match e.0 { "dec" => dec = e.1[0] as u8, "newt" => dynos.push(e.1[1]), "err" => err = Some(e.1[0]), "err2" => err2 = Some(e.1[0]), "cb" => cb = Some(e.1[0] as u8), _ => {} }
            }
            writeln!(ops, "pass dec={} dynos={} err={} err2={} cb={}", dec, if dynos.is_empty() { "-".into() } else { hxs(&dynos) }, o(err), o(err2), cb.map(|c| c.to_string()).unwrap_or("-".into())).unwrap();
            if k + 1 < passes.len() { writeln!(out, "{}", state_line(&tr[passes[k + 1]].1)).unwrap(); } else { writeln!(out, "{endline}").unwrap(); }
            npass += 1;
        }
    }
    std::fs::write(format!("{prefix}.ops"), &ops).unwrap();
    std::fs::write(format!("{prefix}.impl"), &out).unwrap();
    println!("{{\"kind\":\"xradau-gen\",\"cases\":{},\"passes\":{},\"distribution\":{:?}}}", cases, npass, hist);
}
