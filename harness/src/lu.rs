//! X-lu: LU factorisations and solves on the real routines (`lu_decomp`, `lin_solve`, complex variants), written as
//! op lines for the Lean model; the exact-rational residual oracle lives in /verif/bin (Python fractions).
use crate::common::*;
use ivp::matrix::{lin_solve, lin_solve_complex, lu_decomp, lu_decomp_complex};
use ivp::prelude::*;
use std::fmt::Write as _;

fn err_name(e: &ivp::error::Error) -> String {
    let s = format!("{:?}", e);
    for k in ["NonSquareMatrix", "PivotSizeMismatch", "SingularMatrix"] {
        if s.contains(k) { return k.to_string(); }
    }
    s
}
fn ips(ip: &[usize]) -> String {
    if ip.is_empty() { "-".into() } else { ip.iter().map(|v| v.to_string()).collect::<Vec<_>>().join(",") }
}

struct W { ops: String, out: String, n: usize, hist: std::collections::HashMap<String, usize> }
impl W {
    fn real(&mut self, rows: usize, cols: usize, iplen: usize, a: &[f64], bs: &[Vec<f64>], tag: &str) {
        let mut m = Matrix::from_vec(rows, cols, a.to_vec());
        let mut ip = vec![0usize; iplen];
        writeln!(self.ops, "dec {} {} {} {}", rows, cols, iplen, hxs(a)).unwrap();
        self.n += 1;
        match lu_decomp(&mut m, &mut ip) {
            Ok(()) => {
                writeln!(self.out, "ok {} {}", hxs(&m.data), ips(&ip)).unwrap();
                *self.hist.entry(format!("{}:ok", tag)).or_insert(0) += 1;
                for b in bs {
                    let mut x = b.clone();
                    lin_solve(&m, &mut x, &ip);
                    writeln!(self.ops, "sol {} {} {} {}", rows, hxs(&m.data), ips(&ip), hxs(b)).unwrap();
                    writeln!(self.out, "x {}", hxs(&x)).unwrap();
                    self.n += 1;
                }
            }
            Err(e) => {
                writeln!(self.out, "err {}", err_name(&e)).unwrap();
                *self.hist.entry(format!("{}:{}", tag, err_name(&e))).or_insert(0) += 1;
            }
        }
    }
    fn complex(&mut self, n: usize, iplen: usize, ar: &[f64], ai: &[f64], br: &[f64], bi: &[f64], tag: &str) {
        let mut mr = Matrix::from_vec(n, n, ar.to_vec());
        let mut mi = Matrix::from_vec(n, n, ai.to_vec());
        let mut ip = vec![0usize; iplen];
        writeln!(self.ops, "decc {} {} {} {}", n, iplen, hxs(ar), hxs(ai)).unwrap();
        self.n += 1;
        match lu_decomp_complex(&mut mr, &mut mi, &mut ip) {
            Ok(()) => {
                writeln!(self.out, "ok {} {} {}", hxs(&mr.data), hxs(&mi.data), ips(&ip)).unwrap();
                *self.hist.entry(format!("{}:ok", tag)).or_insert(0) += 1;
                let (mut xr, mut xi) = (br.to_vec(), bi.to_vec());
                lin_solve_complex(&mr, &mi, &mut xr, &mut xi, &ip);
                writeln!(self.ops, "solc {} {} {} {} {} {}", n, hxs(&mr.data), hxs(&mi.data), ips(&ip), hxs(br), hxs(bi)).unwrap();
                writeln!(self.out, "x {} {}", hxs(&xr), hxs(&xi)).unwrap();
                self.n += 1;
            }
            Err(e) => {
                writeln!(self.out, "err {}", err_name(&e)).unwrap();
                *self.hist.entry(format!("{}:{}", tag, err_name(&e))).or_insert(0) += 1;
            }
        }
    }
}

fn rand_entry(rng: &mut Rng, style: usize) -> f64 {
    match style {
        0 => (rng.below(9) as f64) - 4.0,
        1 => if rng.chance(0.6) { 0.0 } else { rng.range(-3.0, 3.0) },
        2 => rng.range(-1.0, 1.0) * 10f64.powf(rng.range(-6.0, 6.0)),
        _ => rng.range(-5.0, 5.0),
    }
}

pub fn run(args: &[String]) {
    let seed: u64 = args.get(0).and_then(|s| s.parse().ok()).unwrap_or(1);
    let cases: usize = args.get(1).and_then(|s| s.parse().ok()).unwrap_or(300);
    let exh: usize = args.get(2).and_then(|s| s.parse().ok()).unwrap_or(1);
    let prefix = args.get(3).cloned().unwrap_or_else(|| "/tmp/xlu".into());
    let mut rng = Rng(seed ^ 0x1F);
    let mut w = W { ops: String::new(), out: String::new(), n: 0, hist: Default::default() };
    // exhaustive small-integer matrices: 1x1, 2x2 with entries -2..2, 3x3 with entries -1..1
    if exh > 0 {
        for a in -2..=2 { w.real(1, 1, 1, &[a as f64], &[vec![3.0]], "exh1"); }
        for code in 0..625usize {
            let e: Vec<f64> = (0..4).map(|k| ((code / 5usize.pow(k)) % 5) as f64 - 2.0).collect();
            w.real(2, 2, 2, &e, &[vec![1.0, -2.0]], "exh2");
        }
        for code in 0..19683usize {
            let e: Vec<f64> = (0..9).map(|k| ((code / 3usize.pow(k)) % 3) as f64 - 1.0).collect();
            w.real(3, 3, 3, &e, &[vec![1.0, 2.0, -3.0]], "exh3");
        }
        // complex: 2x2 with real/imag parts in -1..1
        for code in 0..6561usize {
            let e: Vec<f64> = (0..8).map(|k| ((code / 3usize.pow(k)) % 3) as f64 - 1.0).collect();
            w.complex(2, 2, &e[..4], &e[4..], &[1.0, -1.0], &[0.5, 2.0], "exhc2");
        }
    }
    for _ in 0..cases {
        let n = 1 + rng.below(12);
        let style = rng.below(4);
        let mut a: Vec<f64> = (0..n * n).map(|_| rand_entry(&mut rng, style)).collect();
        if rng.chance(0.15) {
            // permuted triangular
            for i in 0..n { for j in 0..n { if j > i { a[i * n + j] = 0.0; } } }
            for _ in 0..n { let (r1, r2) = (rng.below(n), rng.below(n)); for j in 0..n { a.swap(r1 * n + j, r2 * n + j); } }
        }
        if rng.chance(0.08) { let c = rng.below(n); for i in 0..n { a[i * n + c] = 0.0; } } // zero column
        // right-hand sides: dense ones, and sparse ones (unit vectors, zero blocks) whose exact zeros meet the row exchanges
        let mut bs: Vec<Vec<f64>> = (0..2).map(|_| (0..n).map(|_| rng.range(-4.0, 4.0)).collect()).collect();
        { let mut e = vec![0.0; n]; e[rng.below(n)] = 1.0; bs.push(e); }
        bs.push((0..n).map(|_| if rng.chance(0.6) { 0.0 } else { rng.range(-4.0, 4.0) }).collect());
        match rng.below(12) {
            0 => w.real(n, n + 1, n, &{ let mut v = a.clone(); v.extend(vec![0.0; n]); v }, &bs, "shape"),
            1 => w.real(n, n, n + 1, &a, &bs, "shape"),
            _ => w.real(n, n, n, &a, &bs, "rand"),
        }
        // complex
        let nc = 1 + rng.below(8);
        let ar: Vec<f64> = (0..nc * nc).map(|_| rand_entry(&mut rng, style)).collect();
        let ai: Vec<f64> = (0..nc * nc).map(|_| if rng.chance(0.3) { 0.0 } else { rand_entry(&mut rng, style) }).collect();
        let br: Vec<f64> = (0..nc).map(|_| rng.range(-4.0, 4.0)).collect();
        let bi: Vec<f64> = (0..nc).map(|_| rng.range(-4.0, 4.0)).collect();
        if rng.chance(0.08) { w.complex(nc, nc + 1, &ar, &ai, &br, &bi, "shapec"); } else { w.complex(nc, nc, &ar, &ai, &br, &bi, "randc"); }
        // sparse complex systems: permuted-triangular / permutation-like matrices with unit or sparse right-hand sides
        {
            let mut pr = vec![0.0; nc * nc]; let mut pi = vec![0.0; nc * nc];
            let mut perm: Vec<usize> = (0..nc).collect();
            for i in (1..nc).rev() { let j = rng.below(i + 1); perm.swap(i, j); }
            for i in 0..nc {
                let j = perm[i];
                if rng.chance(0.5) { pr[i * nc + j] = rng.range(0.5, 2.0); } else { pi[i * nc + j] = rng.range(0.5, 2.0); }
                if rng.chance(0.4) { let j2 = rng.below(nc); if perm.iter().position(|&q| q == j2).unwrap() > i { pr[i * nc + j2] += rng.range(-1.0, 1.0); } }
            }
            let mut er = vec![0.0; nc]; let mut ei = vec![0.0; nc];
            if rng.chance(0.5) { er[rng.below(nc)] = 1.0; } else { ei[rng.below(nc)] = -2.0; }
            w.complex(nc, nc, &pr, &pi, &er, &ei, "sparsec");
        }
    }
    // complex matrices with small Gaussian-integer entries, many of them zero (pivots with a vanishing real or imaginary part):
    // i * I_n, diag(1, .., 1, i), and random sparse ones; the exact oracle decides singularity
    for n in 1..=6usize {
        let mut zr = vec![0.0; n * n]; let mut zi = vec![0.0; n * n];
        for i in 0..n { zi[i * n + i] = 1.0; }
        let (br, bi): (Vec<f64>, Vec<f64>) = ((0..n).map(|i| i as f64 - 1.0).collect(), (0..n).map(|i| 2.0 - i as f64).collect());
        w.complex(n, n, &zr, &zi, &br, &bi, "gaussint");
        for i in 0..n { zi[i * n + i] = if i + 1 == n { -2.0 } else { 0.0 }; zr[i * n + i] = if i + 1 == n { 0.0 } else { 1.0 }; }
        w.complex(n, n, &zr, &zi, &br, &bi, "gaussint");
    }
    for _ in 0..cases {
        let n = 2 + rng.below(4);
        let ent = |rng: &mut Rng| if rng.chance(0.55) { 0.0 } else { rng.below(5) as f64 - 2.0 };
        let ar: Vec<f64> = (0..n * n).map(|_| ent(&mut rng)).collect();
        let ai: Vec<f64> = (0..n * n).map(|_| ent(&mut rng)).collect();
        let br: Vec<f64> = (0..n).map(|_| rng.range(-4.0, 4.0)).collect();
        let bi: Vec<f64> = (0..n).map(|_| rng.range(-4.0, 4.0)).collect();
        w.complex(n, n, &ar, &ai, &br, &bi, "gaussint");
    }
    // well-conditioned matrices at the edges of the f64 range: the factorisation and the solve must not break down
    for (k, sc) in [1e-170, 1e170, 1e-300, 1e300, 1e-310].iter().enumerate() {
        let n = 3;
        let a: Vec<f64> = [4.0, 1.0, -2.0, 1.0, 3.0, 0.5, -1.0, 2.0, 5.0].iter().map(|v| v * sc).collect();
        let b: Vec<f64> = [1.0, -2.0, 0.5].iter().map(|v| v * sc).collect();
        w.real(n, n, n, &a, &[b.clone()], "scaled");
        if k < 4 {
            let ai: Vec<f64> = [0.5, -1.0, 0.25, 2.0, 0.0, 1.0, -0.5, 1.5, 1.0].iter().map(|v| v * sc).collect();
            w.complex(n, n, &a, &ai, &b, &b, "scaledc");
        }
    }
    std::fs::write(format!("{}.ops", prefix), &w.ops).unwrap();
    std::fs::write(format!("{}.impl", prefix), &w.out).unwrap();
    let mut h: Vec<_> = w.hist.iter().collect();
    h.sort();
    let hs = h.iter().map(|(k, v)| format!("\"{}\":{}", k, v)).collect::<Vec<_>>().join(",");
    println!("{{\"kind\":\"xlu\",\"ops\":{},\"random_cases\":{},\"hist\":{{{}}}}}", w.n, cases, hs);
}
