//! Search side of C13 (symmetries), C15 (mass / storage), C01 (accuracy), C14 (stiff): paired or referenced runs of the
//! real `solve_ivp` / solver builders on problem families.
use crate::common::*;
use crate::problems::*;
use ivp::methods::{Tolerance, DOP853, DOPRI5};
use ivp::prelude::*;
use std::panic::{catch_unwind, AssertUnwindSafe};

fn row(kind: &str, case: usize, branch: &str, p: Kind, m: Method, key: &str, why: &str, extra: &str) {
    println!("{{\"kind\":\"{}\",\"case\":{},\"branch\":\"{}\",\"problem\":\"{:?}\",\"method\":\"{}\",\"finding_key\":\"{}\",{}\"ok\":{},\"why\":{:?}}}",
        kind, case, branch, p, method_name(m), if why.is_empty() { "" } else { key }, extra, why.is_empty(), why);
}

struct Setup { kind: Kind, method: Method, x0: f64, xend: f64, rtol: f64, atol: f64, first: Option<f64>, maxstep: Option<f64>, user_jac: bool }

fn gen(rng: &mut Rng, kinds: &[Kind]) -> Setup {
    let kind = *rng.pick(kinds);
    let method = *rng.pick(&ALL_METHODS);
    let span = rng.range(0.3, 3.0);
    let back = rng.chance(0.35);
    let x0 = if rng.chance(0.4) { rng.range(-1.0, 1.0) } else { 0.0 };
    let xend = if back { x0 - span } else { x0 + span };
    let rtol = 10f64.powf(-rng.range(3.0, 8.0));
    let sgn = if back { -1.0 } else { 1.0 };
    let first = if method == Method::RK4 || rng.chance(0.25) { Some(sgn * span * rng.range(0.004, 0.04)) } else { None };
    let maxstep = if rng.chance(0.2) { Some(span * rng.range(0.05, 0.3)) } else { None };
    Setup { kind, method, x0, xend, rtol, atol: rtol * 1e-2, first, maxstep, user_jac: rng.chance(0.6) }
}

fn opts(s: &Setup, rtol: Tolerance, atol: Tolerance) -> Options {
    let mut o = Options::builder().method(s.method).rtol(rtol).atol(atol).build();
    o.first_step = s.first;
    o.max_step = s.maxstep;
    o
}

fn bits_eq(a: &[f64], b: &[f64]) -> bool { a.len() == b.len() && a.iter().zip(b).all(|(u, v)| u.to_bits() == v.to_bits() || (u.is_nan() && v.is_nan())) }

/// C13: reflection, power-of-two scaling, scalar-vs-vector tolerance, duplication
pub fn sym(args: &[String]) {
    std::panic::set_hook(Box::new(|_| {}));
    let seed: u64 = args.get(0).and_then(|s| s.parse().ok()).unwrap_or(1);
    let cases: usize = args.get(1).and_then(|s| s.parse().ok()).unwrap_or(100);
    let mut rng = Rng(seed ^ 0xC13);
    const KINDS: [Kind; 7] = [Kind::Harmonic, Kind::Logistic, Kind::Decay3, Kind::Riccati, Kind::VdP, Kind::Mixed, Kind::Slow];
    for case in 0..cases {
        let mut s = gen(&mut rng, &KINDS);
        // the first four cases: a stiff problem on the explicit methods with stiffness detection, long enough for the
        // detector to run (it looks at every 1000th accepted step), forward and backward
        if case < 4 {
            let back = case % 2 == 1;
            s = Setup { kind: Kind::Stiff, method: if case < 2 { Method::DOP853 } else { Method::DOPRI5 }, x0: 0.0, xend: if back { -6.0 } else { 8.0 }, rtol: 1e-4, atol: 1e-6, first: None, maxstep: None, user_jac: false };
        }
        let implicit = matches!(s.method, Method::RADAU | Method::BDF);
        let mut base = Prob::new(s.kind);
        base.user_jac = s.user_jac;
        let with_event = case >= 4 && rng.chance(0.3);
        if with_event {
            let tc = s.x0 + (s.xend - s.x0) * rng.range(0.2, 0.9);
            base.events = vec![EventSpec { a: 1.0, b: vec![0.0; base.n()], c: tc, dir: 0, terminal: None },
                               EventSpec { a: 0.0, b: { let mut b = vec![0.0; base.n()]; b[0] = 1.0; b }, c: base.y0()[0] * 0.8, dir: [-1, 0, 1][rng.below(3)], terminal: None }];
        }
        let y0 = base.y0();
        let r0 = catch_unwind(AssertUnwindSafe(|| solve_ivp(&base, s.x0, s.xend, &y0, opts(&s, s.rtol.into(), s.atol.into()))));
        let r0 = match r0 { Ok(Ok(r)) => r, _ => { row("sy", case, "skip", s.kind, s.method, "", "", "\"status\":\"Err\","); continue; } };
        let extra = format!("\"status\":\"{:?}\",\"n\":{},\"user_jac\":{},", r0.status, r0.t.len(), s.user_jac);
        // ---- (R) time reflection: z'(s) = -f(-s, z) from -x0 to -xend
        {
            let mut p = Prob::new(s.kind);
            p.user_jac = s.user_jac;
            p.reflect = true;
            // `direction` refers to the order of integration, which reflection preserves
            p.events = base.events.clone();
            let mut s2 = Setup { x0: -s.x0, xend: -s.xend, first: s.first.map(|h| -h), ..Setup { kind: s.kind, method: s.method, x0: 0.0, xend: 0.0, rtol: s.rtol, atol: s.atol, first: None, maxstep: s.maxstep, user_jac: s.user_jac } };
            s2.maxstep = s.maxstep;
            let r = catch_unwind(AssertUnwindSafe(|| solve_ivp(&p, s2.x0, s2.xend, &y0, opts(&s2, s.rtol.into(), s.atol.into()))));
            let mut why = String::new();
            match r {
                Ok(Ok(r)) => {
                    let tm: Vec<f64> = r.t.iter().map(|t| -t).collect();
                    if r.status != r0.status { why = format!("reflected run ends {:?}, original {:?}", r.status, r0.status); }
                    else if !bits_eq(&tm, &r0.t) { why = format!("reflected run has different step points ({} vs {} samples)", r.t.len(), r0.t.len()); }
                    else if r.y.iter().zip(r0.y.iter()).any(|(a, b)| !bits_eq(a, b)) { why = "reflected run has different states at the mirrored times".into(); }
                    else if (r.nfev, r.naccpt, r.nrejct) != (r0.nfev, r0.naccpt, r0.nrejct) { why = "reflected run has different counters".into(); }
                    else if with_event {
                        for (a, b) in r.t_events.iter().zip(r0.t_events.iter()) {
                            if a.len() != b.len() { why = format!("reflected run reports {} events, original {}", a.len(), b.len()); break; }
                            if a.iter().zip(b).any(|(u, v)| (u + v).abs() > 1e-8 * (1.0 + v.abs())) { why = "event times do not mirror".into(); break; }
                        }
                    }
                }
                _ => why = "reflected run fails".into(),
            }
            row("sy", case, if with_event { "reflect+events" } else { "reflect" }, s.kind, s.method, "c13-reflect", &why, &extra);
        }
        // ---- (T) scalar tolerance vs constant vector
        {
            let n = base.n();
            let which = rng.below(3);
            let (rt, at): (Tolerance, Tolerance) = match which { 0 => (Tolerance::Vector(vec![s.rtol; n]), Tolerance::Vector(vec![s.atol; n])), 1 => (Tolerance::Vector(vec![s.rtol; n]), s.atol.into()), _ => (s.rtol.into(), Tolerance::Vector(vec![s.atol; n])) };
            let p = Prob { user_jac: s.user_jac, events: base.events.clone(), ..Prob::new(s.kind) };
            let r = catch_unwind(AssertUnwindSafe(|| solve_ivp(&p, s.x0, s.xend, &y0, opts(&s, rt, at))));
            let mut why = String::new();
            match r {
                Ok(Ok(r)) => {
                    if r.status != r0.status || !bits_eq(&r.t, &r0.t) { why = format!("vector tolerance (variant {}) gives different step points ({} vs {} samples)", which, r.t.len(), r0.t.len()); }
                    else if r.y.iter().zip(r0.y.iter()).any(|(a, b)| !bits_eq(a, b)) { why = format!("vector tolerance (variant {}) gives different states", which); }
                }
                _ => why = "run with vector tolerances fails".into(),
            }
            row("sy", case, "tolvec", s.kind, s.method, if s.method == Method::RADAU { "c13-tolvec-radau" } else { "c13-tolvec" }, &why, &format!("{}\"dim\":{},", extra, n));
        }
        // ---- (S) power-of-two scaling of a linear homogeneous system
        if matches!(s.kind, Kind::Harmonic | Kind::Decay3 | Kind::Slow) && !with_event {
            // one case in four far from unit scale (2^±60 .. 2^±160: absolute thresholds such as `scale.max(EPSILON)` show there)
            let k = if rng.below(4) == 0 { (60 + rng.below(101) as i32) * if rng.below(2) == 0 { 1 } else { -1 } } else { rng.below(41) as i32 - 20 };
            let sc = 2f64.powi(k);
            let p = Prob { user_jac: s.user_jac, ..Prob::new(s.kind) };
            let y0s: Vec<f64> = y0.iter().map(|v| v * sc).collect();
            let r = catch_unwind(AssertUnwindSafe(|| solve_ivp(&p, s.x0, s.xend, &y0s, opts(&s, s.rtol.into(), (s.atol * sc).into()))));
            let exact = !implicit || s.user_jac;
            let mut why = String::new();
            match r {
                Ok(Ok(r)) => {
                    if exact {
                        if r.status != r0.status || !bits_eq(&r.t, &r0.t) { why = format!("scaling by 2^{} changes the step points ({} vs {} samples)", k, r.t.len(), r0.t.len()); }
                        else if r.y.iter().zip(r0.y.iter()).any(|(a, b)| !bits_eq(a, &b.iter().map(|v| v * sc).collect::<Vec<_>>())) { why = format!("scaling by 2^{}: states are not the scaled states", k); }
                    } else if r.status != r0.status || r.t.len().abs_diff(r0.t.len()) > 2 + r0.t.len() / 10 { why = format!("scaling by 2^{} (finite-difference Jacobian) changes the run materially ({} vs {} samples)", k, r.t.len(), r0.t.len()); }
                }
                _ => why = "scaled run fails".into(),
            }
            row("sy", case, if exact { "scale" } else { "scale-fd" }, s.kind, s.method, "c13-scale", &why, &format!("{}\"k\":{},", extra, k));
        }
        // ---- (D) duplication into m independent copies: once with the automatic first step, once with a given one
        if !with_event {
            let m = 2 + rng.below(15);
            let sgn = (s.xend - s.x0).signum();
            for auto in [true, false] {
                if auto && s.first.is_some() { continue; }
                let sf = Setup { first: if auto { None } else { Some(s.first.unwrap_or(sgn * (s.xend - s.x0).abs() * 0.003)) }, kind: s.kind, method: s.method, x0: s.x0, xend: s.xend, rtol: s.rtol, atol: s.atol, maxstep: s.maxstep, user_jac: s.user_jac };
                let p1 = Prob { user_jac: s.user_jac, ..Prob::new(s.kind) };
                let r1 = catch_unwind(AssertUnwindSafe(|| solve_ivp(&p1, s.x0, s.xend, &y0, opts(&sf, s.rtol.into(), s.atol.into()))));
                let r1 = match r1 { Ok(Ok(r)) => r, _ => continue };
                let p = Prob { user_jac: s.user_jac, copies: m, ..Prob::new(s.kind) };
                let y0m = p.y0();
                let r = catch_unwind(AssertUnwindSafe(|| solve_ivp(&p, s.x0, s.xend, &y0m, opts(&sf, s.rtol.into(), s.atol.into()))));
                let n0 = base.n();
                let mut why = String::new();
                match r {
                    Ok(Ok(r)) => {
                        if implicit {
                            // Radau and BDF change the step size in quantised jumps (the step is kept while the proposal stays
                            // within a dead band), so a rounding-level difference in the error norm may flip one decision and
                            // shift later step points by a percent: compare status, amount of work and the final state
                            let (a, b) = (r.y.last().unwrap(), r1.y.last().unwrap());
                            if r.status != r1.status || r.t.len().abs_diff(r1.t.len()) > 2 + r1.t.len() / 10 { why = format!("{} copies: {} samples ({:?}) instead of {} ({:?})", m, r.t.len(), r.status, r1.t.len(), r1.status); }
                            else if (0..m * n0).any(|q| (a[q] - b[q % n0]).abs() > 100.0 * (s.atol + s.rtol * b[q % n0].abs())) { why = format!("{} copies: final state differs beyond the tolerance scale", m); }
                        }
                        else if r.status != r1.status || r.t.len() != r1.t.len() { why = format!("{} copies: {} samples ({:?}) instead of {} ({:?})", m, r.t.len(), r.status, r1.t.len(), r1.status); }
                        else {
                            'o: for (i, (ta, tb)) in r.t.iter().zip(r1.t.iter()).enumerate() {
                                if (ta - tb).abs() > 1e-7 * (1.0 + tb.abs()) { why = format!("{} copies: step point {} is {} instead of {}", m, i, ta, tb); break; }
                                for c in 0..m { for q in 0..n0 {
                                    let (a, b) = (r.y[i][c * n0 + q], r1.y[i][q]);
                                    if (a - b).abs() > 1e-6 * (s.atol / s.rtol + b.abs()) { why = format!("{} copies: copy {} component {} at sample {} is {} instead of {}", m, c, q, i, a, b); break 'o; }
                                } }
                            }
                        }
                    }
                    _ => why = "duplicated run fails".into(),
                }
                row("sy", case, if auto { "copies-auto" } else { "copies" }, s.kind, s.method, if auto { "c13-copies-autostep" } else { "c13-copies" }, &why, &format!("{}\"m\":{},", extra, m));
            }
        }
    }
    // ---- Radau's first retries under duplication: an oversized first step is rejected a few times, so the refined error
    // estimate of a first / retried step decides the first accepted step; its end point must not depend on the number of
    // copies (compared to 1e-9: nothing quantised has happened yet, only the RMS norms enter)
    for case in 0..(cases / 4).max(8) {
        // nonlinear problems only: on a linear problem with the exact Jacobian the first Newton iteration is exact, the
        // later increments are rounding noise and the iteration count (which enters the step-size factor) flips with it
        let kind = *rng.pick(&[Kind::Logistic, Kind::Riccati, Kind::VdP, Kind::Mixed]);
        let span = rng.range(1.0, 3.0);
        let xend = if rng.chance(0.3) { -span } else { span };
        let rtol = 10f64.powf(-rng.range(2.0, 6.0));
        let first = xend * rng.range(0.3, 1.0);
        let s = Setup { kind, method: Method::RADAU, x0: 0.0, xend, rtol, atol: rtol * 1e-2, first: Some(first), maxstep: None, user_jac: true };
        let m = [2usize, 3, 4, 7, 16][rng.below(5)];
        let p1 = Prob { user_jac: true, ..Prob::new(kind) };
        let pm = Prob { user_jac: true, copies: m, ..Prob::new(kind) };
        let r1 = catch_unwind(AssertUnwindSafe(|| solve_ivp(&p1, s.x0, s.xend, &p1.y0(), opts(&s, s.rtol.into(), s.atol.into()))));
        let rm = catch_unwind(AssertUnwindSafe(|| solve_ivp(&pm, s.x0, s.xend, &pm.y0(), opts(&s, s.rtol.into(), s.atol.into()))));
        let mut why = String::new();
        let mut extra = format!("\"m\":{},", m);
        if let (Ok(Ok(r1)), Ok(Ok(rm))) = (r1, rm) {
            extra += &format!("\"status\":\"{:?}\",\"nrejct\":{},", r1.status, r1.nrejct);
            if r1.t.len() > 1 && rm.t.len() > 1 {
                for q in 1..r1.t.len().min(rm.t.len()).min(4) { let (a, b) = (rm.t[q], r1.t[q]); if (a - b).abs() > 1e-9 * b.abs() { why = format!("{} copies, first_step {}: accepted step {} ends at {} instead of {}", m, first, q, a, b); break; } }
            } else if r1.t.len() != rm.t.len() { why = format!("{} copies: {} samples instead of {}", m, rm.t.len(), r1.t.len()); }
        }
        row("sy", 800000 + case, "copies-first-retry", kind, Method::RADAU, "c13-copies-first-retry", &why, &extra);
    }
    // ---- slow start: 0.01 |y0| / |f0| exceeds the span, so hinit's clamp of its first guess decides where the probe of the
    // second-derivative estimate is taken; the right-hand side depends on time, so the probe point matters
    {
        let mut k = 0;
        for method in [Method::RK23, Method::DOPRI5, Method::DOP853, Method::BDF] {
            for (x0, xend) in [(0.0, 1.0), (1.0, 0.0), (0.3, 1.1), (0.0, -0.8)] {
                let run = |reflect: bool| {
                    let p = SlowT { reflect };
                    let (a, b) = if reflect { (-x0, -xend) } else { (x0, xend) };
                    catch_unwind(AssertUnwindSafe(|| solve_ivp(&p, a, b, &[1.0, 1.0], Options::builder().method(method).rtol(1e-6).atol(1e-9).build())))
                };
                let mut why = String::new();
                match (run(false), run(true)) {
                    (Ok(Ok(r0)), Ok(Ok(r))) => {
                        let tm: Vec<f64> = r.t.iter().map(|t| -t).collect();
                        if r.status != r0.status { why = format!("reflected run ends {:?}, original {:?}", r.status, r0.status); }
                        // (times are compared with IEEE equality: mirroring turns a final time 0.0 into -0.0)
                        else if tm.len() != r0.t.len() || tm.iter().zip(r0.t.iter()).any(|(u, v)| u != v) { why = format!("reflected run has different step points ({} vs {} samples; second point {:?} vs {:?})", r.t.len(), r0.t.len(), tm.get(1), r0.t.get(1)); }
                        else if r.y.iter().zip(r0.y.iter()).any(|(a, b)| !bits_eq(a, b)) { why = "reflected run has different states at the mirrored times".into(); }
                        else if (r.nfev, r.naccpt, r.nrejct) != (r0.nfev, r0.naccpt, r0.nrejct) { why = "reflected run has different counters".into(); }
                    }
                    _ => why = "run fails".into(),
                }
                row("sy", 500000 + k, "reflect-slow-start", Kind::Slow, method, "c13-reflect", &why, &format!("\"x0\":{},\"xend\":{},", x0, xend));
                k += 1;
            }
        }
    }
    // ---- spans of a few ulps next to x0 = 1 and x0 = 1000 (the spacing of doubles differs above and below a power of two): the
    // step-size guards of the reflected run must decide as those of the run (user Jacobian for the implicit methods)
    {
        let mut k = 0;
        for method in ALL_METHODS {
            for (x0, ulps) in [(1.0f64, 4.0f64), (1.0, -4.0), (1.0, 40.0), (1024.0, 6.0), (1024.0, -6.0), (-1.0, 4.0)] {
                let xend = x0 + ulps * f64::EPSILON * x0.abs();
                let run = |reflect: bool| {
                    let p = SlowT { reflect };
                    let (a, b) = if reflect { (-x0, -xend) } else { (x0, xend) };
                    catch_unwind(AssertUnwindSafe(|| solve_ivp(&p, a, b, &[1.0, 1.0], Options::builder().method(method).rtol(1e-6).atol(1e-9).build())))
                };
                let mut why = String::new();
                match (run(false), run(true)) {
                    (Ok(Ok(r0)), Ok(Ok(r))) => {
                        let tm: Vec<f64> = r.t.iter().map(|t| -t).collect();
                        if r.status != r0.status { why = format!("span of {} ulps at x0 = {}: reflected run ends {:?}, original {:?}", ulps, x0, r.status, r0.status); }
                        else if tm.len() != r0.t.len() || tm.iter().zip(r0.t.iter()).any(|(u, v)| u != v) { why = format!("reflected run has different step points ({} vs {} samples)", r.t.len(), r0.t.len()); }
                        else if r.y.iter().zip(r0.y.iter()).any(|(a, b)| !bits_eq(a, b)) { why = "reflected run has different states at the mirrored times".into(); }
                    }
                    (Ok(Err(_)), Ok(Err(_))) => {}
                    _ => why = "one of the two runs fails".into(),
                }
                row("sy", 510000 + k, "reflect-ulp-span", Kind::Slow, method, "c13-reflect", &why, &format!("\"x0\":{},\"ulps\":{},", x0, ulps));
                k += 1;
            }
        }
    }
    // ---- a linear homogeneous stiff system on DOPRI5 / DOP853 with the stiffness detector at every accepted step, (a) state and
    // atol scaled by 2^k, tiny and huge, (b) stacked into m copies with a given first step: the detector's quotient is a ratio of
    // sums of squares over the components and has to come out the same, so the run stops at the same step with the same status
    {
        let mut r3 = Rng(seed ^ 0x5CA1);
        for k in 0..cases * 4 {
            let method = if k % 2 == 0 { Method::DOP853 } else { Method::DOPRI5 };
            let lam = 10f64.powf(r3.range(1.0, 3.0));
            let rtol = 10f64.powf(r3.range(-9.0, -3.0));
            let atol0 = rtol * 10f64.powf(r3.range(-3.0, 0.0));
            // forward only: backward the solution grows until it overflows, which no scaling symmetry survives
            let span = r3.range(200.0, 1500.0) * 3.3 / lam;
            let y0 = [r3.range(0.5, 2.0), r3.range(-1.0, 1.0)];
            let h0 = 0.5 / lam;
            let mode = k % 4 / 2;   // 0: scaling, 1: copies
            let (sc, m): (f64, usize) = if mode == 0 { (2f64.powi([-60, -40, -30, 25, 70, -100][r3.below(6)]), 1) } else { (1.0, 2 + r3.below(15)) };
            let run = |sc: f64, m: usize| {
                let p = LinStiff { lam, m };
                let yy: Vec<f64> = (0..2 * m).map(|i| sc * y0[i % 2]).collect();
                let mut rec = Recorder::new();
                rec.thetas = vec![];
                let r = catch_unwind(AssertUnwindSafe(|| match method {
                    Method::DOPRI5 => DOPRI5::builder().stiff_test(1).first_step(h0).max_steps(20000).build().solve(&p, 0.0, &yy, span, rtol.into(), (sc * atol0).into(), Some(&mut rec)).map(|s| s.status),
                    _ => DOP853::builder().stiff_test(1).first_step(h0).max_steps(20000).build().solve(&p, 0.0, &yy, span, rtol.into(), (sc * atol0).into(), Some(&mut rec)).map(|s| s.status),
                }));
                (format!("{:?}", r), rec.cbs)
            };
            let (s0, c0) = run(1.0, 1);
            let (s1, c1) = run(sc, m);
            let mut why = String::new();
            let what = if mode == 0 { format!("scaled by {:e}", sc) } else { format!("{} copies", m) };
            if s0 != s1 { why = format!("{}: run ends {}, original {} ({} vs {} step points)", what, s1, s0, c1.len(), c0.len()); }
            // (copies: the step sequences may drift apart through rounding in the norm; status and the first steps are compared)
            else if mode == 0 && c0.len() != c1.len() { why = format!("{}: {} step points, original {} (both end {})", what, c1.len(), c0.len(), s0); }
            else if mode == 0 && c0.iter().zip(c1.iter()).any(|(u, v)| u.x != v.x || (0..2).any(|i| (sc * u.y[i]).to_bits() != v.y[i].to_bits())) { why = format!("{}: step points or scaled states differ", what); }
            else if mode == 1 && c0.iter().zip(c1.iter()).take(4).any(|(u, v)| (u.x - v.x).abs() > 1e-9 * u.x.abs()) { why = format!("{}: the first steps differ beyond rounding", what); }
            row("sy", 530000 + k, if mode == 0 { "scale-stiffness-detector" } else { "copies-stiffness-detector" }, Kind::Stiff, method, "c13-stiffness-symmetry", &why,
                &format!("\"lam\":{:e},\"rtol\":{:e},\"atol\":{:e},\"span\":{:e},\"scale\":{:e},\"copies\":{},\"y0\":[{:e},{:e}],\"status\":{:?},", lam, rtol, atol0, span, sc, m, y0[0], y0[1], s0));
        }
    }
    // ---- stiff problems on DOPRI5 / DOP853 called directly with the stiffness detector looking at every accepted step
    // (`stiff_test(1)`) or every few: the detector's quotient decides where the run stops with ProbablyStiff, so it has to be
    // the same for the reflected problem.  The case count follows `cases` (40 per requested case).
    {
        let mut r2 = Rng(seed ^ 0x57FF);
        for k in 0..cases * 40 {
            let kind = k % 4;
            let method = if k % 8 < 6 { Method::DOPRI5 } else { Method::DOP853 };
            let lam = 10f64.powf(r2.range(1.0, 4.0));
            let rtol = 10f64.powf(r2.range(-4.5, -0.5));
            let atol = rtol * 10f64.powf(r2.range(-2.0, 0.0));
            let span = r2.range(200.0, 3200.0) * 3.3 / lam * if r2.chance(0.5) { -1.0 } else { 1.0 };
            let nst = if r2.chance(0.6) { 1 } else { 1 + r2.below(20) };
            let y0 = [r2.range(1.0, 2.0), r2.range(0.0, 1.0)];
            let run = |reflect: bool| {
                let p = StiffFam { kind, lam, reflect };
                let (a, b) = if reflect { (0.0, -span) } else { (0.0, span) };
                let mut rec = Recorder::new();
                rec.thetas = vec![];
                let r = catch_unwind(AssertUnwindSafe(|| match method {
                    Method::DOPRI5 => DOPRI5::builder().stiff_test(nst).max_steps(20000).build().solve(&p, a, &y0, b, rtol.into(), atol.into(), Some(&mut rec)).map(|s| s.status),
                    _ => DOP853::builder().stiff_test(nst).max_steps(20000).build().solve(&p, a, &y0, b, rtol.into(), atol.into(), Some(&mut rec)).map(|s| s.status),
                }));
                (format!("{:?}", r), rec.cbs)
            };
            let (s0, c0) = run(false);
            let (s1, c1) = run(true);
            let mut why = String::new();
            if s0 != s1 { why = format!("reflected run ends {}, original {}", s1, s0); }
            else if c0.len() != c1.len() { why = format!("reflected run has {} step points, original {} (both end {})", c1.len(), c0.len(), s0); }
            else if c0.iter().zip(c1.iter()).any(|(u, v)| u.x != -v.x || !bits_eq(&u.y, &v.y)) { why = "reflected run has different step points or states".into(); }
            row("sy", 520000 + k, "reflect-stiffness-detector", Kind::Stiff, method, "c13-reflect", &why,
                &format!("\"fam\":{},\"lam\":{:e},\"rtol\":{:e},\"atol\":{:e},\"span\":{:e},\"stiff_test\":{},\"y0\":[{:e},{:e}],\"status\":{:?},", kind, lam, rtol, atol, span, nst, y0[0], y0[1], s0));
        }
    }
}

// ------------------------------------------------------------------------------------------------------------ C15
/// tridiagonal linear system  M y' = M (A y)  (so that the solution does not depend on M), optional DAE variant
struct Band {
    n: usize,
    lo: Vec<f64>, di: Vec<f64>, up: Vec<f64>,
    /// mass matrix (dense rows); None = the trait default
    mass: Option<Vec<Vec<f64>>>,
    user_jac: bool,
    count: std::cell::Cell<usize>,
}
impl Band {
    fn ay(&self, y: &[f64], i: usize) -> f64 {
        let mut s = self.di[i] * y[i];
        if i > 0 { s += self.lo[i] * y[i - 1]; }
        if i + 1 < self.n { s += self.up[i] * y[i + 1]; }
        s
    }
    fn a(&self, i: usize, j: usize) -> f64 { if i == j { self.di[i] } else if j + 1 == i { self.lo[i] } else if i + 1 == j { self.up[i] } else { 0.0 } }
}
impl IVP for Band {
    fn ode(&self, _t: f64, y: &[f64], d: &mut [f64]) {
        self.count.set(self.count.get() + 1);
        match &self.mass {
            None => for i in 0..self.n { d[i] = self.ay(y, i); },
            Some(m) => {
                let ay: Vec<f64> = (0..self.n).map(|i| self.ay(y, i)).collect();
                for i in 0..self.n { d[i] = (0..self.n).map(|j| m[i][j] * ay[j]).sum(); }
            }
        }
    }
    fn jac(&self, t: f64, y: &[f64], j: &mut Matrix) {
        if !self.user_jac {
            // the trait's default body, spelled out (forward differences)
            let n = y.len();
            let mut yp = y.to_vec();
            let mut f0 = vec![0.0; n];
            let mut f1 = vec![0.0; n];
            self.ode(t, y, &mut f0);
            let eps = f64::EPSILON.sqrt();
            for c in 0..n {
                let yo = y[c];
                let p = eps * yo.abs().max(1.0);
                yp[c] = yo + p;
                self.ode(t, &yp, &mut f1);
                yp[c] = yo;
                for r in 0..n { j[(r, c)] = (f1[r] - f0[r]) / p; }
            }
            return;
        }
        // analytic J = M A, written only where it can be non-zero (so that a banded matrix accepts it)
        let bw = if self.mass.is_some() { 2 } else { 1 };
        for r in 0..self.n { for c in 0..self.n {
            if r.abs_diff(c) > bw { continue; }
            let v = match &self.mass { None => self.a(r, c), Some(m) => (0..self.n).map(|k| m[r][k] * self.a(k, c)).sum() };
            j[(r, c)] = v;
        } }
    }
    fn mass(&self, m: &mut Matrix) {
        match &self.mass {
            None => { struct D; impl IVP for D { fn ode(&self, _: f64, _: &[f64], _: &mut [f64]) {} } D.mass(m) } // the trait default
            Some(mm) => for r in 0..self.n { for c in 0..self.n { if r == c || (r.abs_diff(c) <= 1 && mm[r][c] != 0.0) { m[(r, c)] = mm[r][c]; } } },
        }
    }
}

/// index-1 DAE  y1' = -y1 + y2,  0 = y2 - y1^2   (M = diag(1, 0));  y1 = 1 / (1 + C e^t)
struct Dae;
impl IVP for Dae {
    fn ode(&self, _t: f64, y: &[f64], d: &mut [f64]) { d[0] = -y[0] + y[1]; d[1] = y[1] - y[0] * y[0]; }
    fn mass(&self, m: &mut Matrix) { m[(0, 0)] = 1.0; m[(1, 1)] = 0.0; }
}

fn radau_run(f: &impl IVP, x0: f64, xend: f64, y0: &[f64], rtol: f64, atol: f64, mass: MatrixStorage, jac: MatrixStorage, method: Method) -> Option<Solution> {
    let mut o = Options::builder().method(method).rtol(rtol).atol(atol).build();
    o.mass_storage = mass;
    o.jac_storage = jac;
    match catch_unwind(AssertUnwindSafe(|| solve_ivp(f, x0, xend, y0, o))) { Ok(Ok(s)) => Some(s), _ => None }
}

fn same_traj(a: &Solution, b: &Solution) -> bool {
    a.status == b.status && bits_eq(&a.t, &b.t) && a.y.len() == b.y.len() && a.y.iter().zip(b.y.iter()).all(|(u, v)| bits_eq(u, v))
}

/// C15: default mass, explicit mass vs M^-1 f, storages, DAE residual, Jacobian sources
pub fn mass(args: &[String]) {
    std::panic::set_hook(Box::new(|_| {}));
    let seed: u64 = args.get(0).and_then(|s| s.parse().ok()).unwrap_or(1);
    let cases: usize = args.get(1).and_then(|s| s.parse().ok()).unwrap_or(60);
    let mut rng = Rng(seed ^ 0xC15);
    let r15 = |case: usize, branch: &str, m: Method, key: &str, why: &str, extra: &str| {
        println!("{{\"kind\":\"ms\",\"case\":{},\"branch\":\"{}\",\"method\":\"{}\",\"finding_key\":\"{}\",{}\"ok\":{},\"why\":{:?}}}", case, branch, method_name(m), if why.is_empty() { "" } else { key }, extra, why.is_empty(), why);
    };
    for case in 0..cases {
        let n = 1 + rng.below(8);
        let di: Vec<f64> = (0..n).map(|_| -rng.range(0.5, 3.0)).collect();
        let lo: Vec<f64> = (0..n).map(|_| rng.range(-0.5, 0.5)).collect();
        let up: Vec<f64> = (0..n).map(|_| rng.range(-0.5, 0.5)).collect();
        let y0: Vec<f64> = (0..n).map(|_| rng.range(0.5, 2.0)).collect();
        let xend = rng.range(0.5, 2.0) * if rng.chance(0.25) { -0.3 } else { 1.0 };
        let rtol = 10f64.powf(-rng.range(3.0, 7.0));
        let atol = rtol * 1e-2;
        let user_jac = rng.chance(0.5);
        let plain = Band { n, lo: lo.clone(), di: di.clone(), up: up.clone(), mass: None, user_jac, count: 0.into() };
        let extra = format!("\"n\":{},\"user_jac\":{},\"rtol\":{},", n, user_jac, jnum(rtol));
        // reference: y' = A y, explicit method, tight tolerances
        let refsol = { let mut o = Options::builder().method(Method::DOP853).rtol(1e-12).atol(1e-14).build(); o.dense_output = true; solve_ivp(&plain, 0.0, xend, &y0, o).ok() };
        let err_ok = |s: &Solution| -> Option<String> {
            let r = refsol.as_ref()?;
            for (t, y) in s.t.iter().zip(s.y.iter()) {
                let e = r.sol(*t).ok()?;
                for i in 0..n {
                    let bound = 5.0 * (s.naccpt.max(1) as f64) * (atol + rtol * e[i].abs());
                    if (y[i] - e[i]).abs() > bound { return Some(format!("component {} at t = {}: error {:.3e} exceeds 5 * naccpt * (atol + rtol |y|) = {:.3e}", i, t, (y[i] - e[i]).abs(), bound)); }
                }
            }
            None
        };
        // (a) no mass supplied: y' = f whatever mass storage is selected
        let id = radau_run(&plain, 0.0, xend, &y0, rtol, atol, MatrixStorage::Identity, MatrixStorage::Full, Method::RADAU);
        if let Some(id) = &id {
            let ml = rng.below(n); let mu = rng.below(n);
            for (name, st) in [("Full", MatrixStorage::Full), ("Banded", MatrixStorage::Banded { ml, mu })] {
                let r = radau_run(&plain, 0.0, xend, &y0, rtol, atol, st, MatrixStorage::Full, Method::RADAU);
                let why = match &r { None => format!("mass storage {}: the run fails or panics", name), Some(r) if !same_traj(r, id) => format!("mass storage {} with no mass supplied: trajectory differs from Identity storage ({} vs {} samples, {:?})", name, r.t.len(), id.t.len(), r.status), _ => String::new() };
                r15(case, "default-mass", Method::RADAU, "c15-default-mass", &why, &format!("{}\"storage\":\"{}\",", extra, name));
            }
            // the low-level builder with its documented defaults
            let mut rec = Recorder::new();
            let r = catch_unwind(AssertUnwindSafe(|| ivp::methods::RADAU::builder().build().solve(&plain, 0.0, &y0, xend, rtol.into(), atol.into(), Some(&mut rec))));
            let mut rec2 = Recorder::new();
            let r2 = catch_unwind(AssertUnwindSafe(|| ivp::methods::RADAU::builder().mass_storage(MatrixStorage::Identity).build().solve(&plain, 0.0, &y0, xend, rtol.into(), atol.into(), Some(&mut rec2))));
            let why = match (r, r2) {
                (Ok(Ok(_)), Ok(Ok(_))) => if rec.cbs.len() != rec2.cbs.len() || rec.cbs.iter().zip(rec2.cbs.iter()).any(|(a, b)| a.x != b.x || a.y != b.y) { format!("RADAU::builder().build() (mass storage Full, no mass supplied) does not integrate y' = f: {} callbacks vs {} with Identity storage; last state {:?} vs {:?}", rec.cbs.len(), rec2.cbs.len(), rec.cbs.last().map(|c| c.y.clone()), rec2.cbs.last().map(|c| c.y.clone())) } else { String::new() },
                _ => "low-level RADAU run fails".into(),
            };
            r15(case, "default-mass-builder", Method::RADAU, "c15-default-mass", &why, &extra);
            if let Some(w) = err_ok(id) { r15(case, "accuracy", Method::RADAU, "c15-accuracy", &w, &extra); }
        }
        // (b)+(c) explicit nonsingular tridiagonal mass: agrees with y' = M^-1 f; Full / Banded storages bit-identical
        {
            let mut mm = vec![vec![0.0; n]; n];
            for i in 0..n { mm[i][i] = 1.0 + rng.range(-0.2, 0.2); if i > 0 { mm[i][i - 1] = rng.range(-0.3, 0.3); } if i + 1 < n { mm[i][i + 1] = rng.range(-0.3, 0.3); } }
            let withm = Band { n, lo: lo.clone(), di: di.clone(), up: up.clone(), mass: Some(mm), user_jac, count: 0.into() };
            let full = radau_run(&withm, 0.0, xend, &y0, rtol, atol, MatrixStorage::Full, MatrixStorage::Full, Method::RADAU);
            let why = match &full { None => "run with an explicit mass matrix fails".to_string(), Some(s) if s.status != Status::Success => format!("status {:?}", s.status), Some(s) => err_ok(s).unwrap_or_default() };
            r15(case, "mass-nonsingular", Method::RADAU, "c15-mass-accuracy", &why, &extra);
            // one-sided bands: a lower (upper) bidiagonal mass matrix in Banded{1,0} (Banded{0,1}) storage
            for lower in [true, false] {
                let mut m1 = vec![vec![0.0; n]; n];
                for i in 0..n { m1[i][i] = 1.0 + 0.1 * (i as f64); if lower && i > 0 { m1[i][i - 1] = 0.4; } if !lower && i + 1 < n { m1[i][i + 1] = -0.3; } }
                let w1 = Band { n, lo: lo.clone(), di: di.clone(), up: up.clone(), mass: Some(m1), user_jac, count: 0.into() };
                let f1 = radau_run(&w1, 0.0, xend, &y0, rtol, atol, MatrixStorage::Full, MatrixStorage::Full, Method::RADAU);
                let st = if lower { MatrixStorage::Banded { ml: 1.min(n - 1), mu: 0 } } else { MatrixStorage::Banded { ml: 0, mu: 1.min(n - 1) } };
                let b1 = radau_run(&w1, 0.0, xend, &y0, rtol, atol, st, MatrixStorage::Full, Method::RADAU);
                let why = match (&f1, &b1) {
                    (Some(f), Some(b)) => if !same_traj(f, b) { format!("{} bidiagonal mass: one-sided Banded storage gives a different trajectory than Full storage", if lower { "lower" } else { "upper" }) } else { err_ok(f).unwrap_or_default() },
                    _ => "run fails".into() };
                r15(case, if lower { "storage-mass-lower" } else { "storage-mass-upper" }, Method::RADAU, "c15-storage", &why, &extra);
            }
            if let Some(full) = &full {
                let b1 = radau_run(&withm, 0.0, xend, &y0, rtol, atol, MatrixStorage::Banded { ml: 1, mu: 1 }, MatrixStorage::Full, Method::RADAU);
                let why = match &b1 { None => "banded mass storage: run fails".to_string(), Some(r) if !same_traj(r, full) => "the same mass matrix in Banded{1,1} storage gives a different trajectory than in Full storage".into(), _ => String::new() };
                r15(case, "storage-mass", Method::RADAU, "c15-storage", &why, &extra);
                if user_jac {
                    let b2 = radau_run(&withm, 0.0, xend, &y0, rtol, atol, MatrixStorage::Full, MatrixStorage::Banded { ml: 2.min(n - 1), mu: 2.min(n - 1) }, Method::RADAU);
                    let why = match &b2 { None => "banded Jacobian storage: run fails".to_string(), Some(r) if !same_traj(r, full) => "the same Jacobian in Banded storage gives a different trajectory than in Full storage".into(), _ => String::new() };
                    r15(case, "storage-jac", Method::RADAU, "c15-storage", &why, &extra);
                }
            }
        }
        // (d) Jacobian storage and source for BDF and Radau without mass
        for m in [Method::RADAU, Method::BDF] {
            let a = Band { user_jac: true, count: 0.into(), mass: None, n, lo: lo.clone(), di: di.clone(), up: up.clone() };
            let fullj = radau_run(&a, 0.0, xend, &y0, rtol, atol, MatrixStorage::Identity, MatrixStorage::Full, m);
            let bandj = radau_run(&a, 0.0, xend, &y0, rtol, atol, MatrixStorage::Identity, MatrixStorage::Banded { ml: 1.min(n - 1), mu: 1.min(n - 1) }, m);
            let why = match (&fullj, &bandj) { (Some(f), Some(b)) => if same_traj(f, b) { String::new() } else { "analytic Jacobian in Banded{1,1} storage gives a different trajectory than in Full storage".into() }, _ => "run fails".into() };
            r15(case, "storage-jac-nomass", m, "c15-storage", &why, &extra);
            let b = Band { user_jac: false, count: 0.into(), mass: None, n, lo: lo.clone(), di: di.clone(), up: up.clone() };
            let fd = radau_run(&b, 0.0, xend, &y0, rtol, atol, MatrixStorage::Identity, MatrixStorage::Full, m);
            let why = match (&fullj, &fd) { (Some(f), Some(d)) => err_ok(f).or(err_ok(d)).unwrap_or_default(), _ => "run fails".into() };
            r15(case, "jac-source", m, "c15-jac-source", &why, &extra);
        }
        // (e) index-1 DAE: the algebraic equation holds at every sample, the differential part follows the exact solution
        {
            let y10 = rng.range(0.2, 0.8);
            let c = 1.0 / y10 - 1.0;
            let te = rng.range(0.5, 3.0);
            let st = if rng.chance(0.5) { MatrixStorage::Full } else { MatrixStorage::Banded { ml: 0, mu: 0 } };
            let r = radau_run(&Dae, 0.0, te, &[y10, y10 * y10], rtol, atol, st, MatrixStorage::Full, Method::RADAU);
            let mut why = String::new();
            match &r {
                None => why = "DAE run fails".into(),
                Some(s) => {
                    if s.status != Status::Success { why = format!("DAE run ends {:?}", s.status); }
                    for (t, y) in s.t.iter().zip(s.y.iter()) {
                        let res = (y[1] - y[0] * y[0]).abs();
                        let ex = 1.0 / (1.0 + c * t.exp());
                        let tol = 5.0 * (s.naccpt.max(1) as f64) * (atol + rtol);
                        if res > tol && why.is_empty() { why = format!("algebraic residual {:.3e} at t = {} exceeds {:.3e}", res, t, tol); }
                        if (y[0] - ex).abs() > tol && why.is_empty() { why = format!("differential component error {:.3e} at t = {} exceeds {:.3e}", (y[0] - ex).abs(), t, tol); }
                    }
                }
            }
            r15(case, "dae-index1", Method::RADAU, "c15-dae", &why, &extra);
        }
        // (f) the documented default of the DAE partition: `nind1` omitted is inferred as n - nind2 - nind3, so the run is
        // the one with `nind1` given, bit for bit (low-level builder and Options path)
        if n >= 3 {
            let nind3 = 1 + rng.below(n - 2);
            let nind2 = rng.below(n - nind3);
            let nind1 = n - nind2 - nind3;
            let a = Band { user_jac, count: 0.into(), mass: None, n, lo: lo.clone(), di: di.clone(), up: up.clone() };
            let run = |given: bool| {
                let mut rec = Recorder::new();
                let b = ivp::methods::RADAU::builder().mass_storage(MatrixStorage::Identity).maybe_nind1(if given { Some(nind1) } else { None })
                    .maybe_nind2(if nind2 > 0 { Some(nind2) } else { None }).nind3(nind3).build();
                let r = catch_unwind(AssertUnwindSafe(|| b.solve(&a, 0.0, &y0, xend, rtol.into(), atol.into(), Some(&mut rec))));
                match r { Ok(Ok(res)) => Some((res.status, rec.cbs.iter().map(|c| (c.x, c.y.clone())).collect::<Vec<_>>())), _ => None }
            };
            let why = match (run(true), run(false)) {
                (Some(g), Some(i)) => if g.0 != i.0 || g.1.len() != i.1.len() || g.1.iter().zip(i.1.iter()).any(|(p, q)| p.0 != q.0 || !bits_eq(&p.1, &q.1)) { format!("nind2 = {}, nind3 = {}: with nind1 omitted the run ends {:?} after {} steps (last t {:?}); with nind1 = {} given it ends {:?} after {} steps", nind2, nind3, i.0, i.1.len(), i.1.last().map(|c| c.0), nind1, g.0, g.1.len()) } else { String::new() },
                _ => "run fails".into(),
            };
            r15(case, "partition-default", Method::RADAU, "c15-partition-default", &why, &format!("{}\"nind2\":{},\"nind3\":{},", extra, nind2, nind3));
            let opt = |given: bool| { let mut o = Options::builder().method(Method::RADAU).rtol(rtol).atol(atol).build(); o.nind1 = if given { Some(nind1) } else { None }; o.nind2 = if nind2 > 0 { Some(nind2) } else { None }; o.nind3 = Some(nind3); catch_unwind(AssertUnwindSafe(|| solve_ivp(&a, 0.0, xend, &y0, o))).ok().and_then(|r| r.ok()) };
            let why = match (opt(true), opt(false)) { (Some(g), Some(i)) => if g.status != i.status || !same_traj(&g, &i) { format!("Options path, nind2 = {}, nind3 = {}: nind1 omitted gives {:?} with {} samples, nind1 = {} gives {:?} with {}", nind2, nind3, i.status, i.t.len(), nind1, g.status, g.t.len()) } else { String::new() }, _ => "run fails".into() };
            r15(case, "partition-default-options", Method::RADAU, "c15-partition-default", &why, &format!("{}\"nind2\":{},\"nind3\":{},", extra, nind2, nind3));
        }
    }
    // (g) a lower-bidiagonal Jacobian whose sub-diagonal dominates the diagonal: factorising I − cJ exchanges rows, which
    // fills in above the band; Full and Banded storage (exact band, wider band) must still give the same trajectory
    let mut k = 0;
    for m in [Method::BDF, Method::RADAU] {
        for n in 2..=6usize {
            let run = |st: MatrixStorage| { let mut y0 = vec![0.0; n]; y0[0] = 1.0; radau_run(&Cascade { n }, 0.0, 30.0, &y0, 1e-6, 1e-9, MatrixStorage::Identity, st, m) };
            let full = run(MatrixStorage::Full);
            for (name, st) in [("Banded{1,0}", MatrixStorage::Banded { ml: 1, mu: 0 }), ("Banded{2,1}", MatrixStorage::Banded { ml: 2.min(n - 1), mu: 1 })] {
                let why = match (&full, &run(st)) {
                    (Some(f), Some(b)) => if same_traj(f, b) { String::new() } else { format!("cascade (sub-diagonal 200), n = {}: Jacobian in {} storage ends {:?} with {} samples, in Full storage {:?} with {}", n, name, b.status, b.t.len(), f.status, f.t.len()) },
                    _ => "run fails".into() };
                r15(900000 + k, "storage-jac-cascade", m, "c15-storage", &why, &format!("\"n\":{},\"storage\":\"{}\",", n, name));
                k += 1;
            }
        }
    }
}

/// y0' = −y0, yi' = 200 y(i−1) − yi − 0.1 yi³: lower-bidiagonal Jacobian (written inside the band only)
struct Cascade { n: usize }
impl IVP for Cascade {
    fn ode(&self, _x: f64, y: &[f64], d: &mut [f64]) { d[0] = -y[0]; for i in 1..self.n { d[i] = 200.0 * y[i - 1] - y[i] - 0.1 * y[i] * y[i] * y[i]; } }
    fn jac(&self, _x: f64, y: &[f64], j: &mut Matrix) { j[(0, 0)] = -1.0; for i in 1..self.n { j[(i, i - 1)] = 200.0; j[(i, i)] = -1.0 - 0.3 * y[i] * y[i]; } }
}

// ------------------------------------------------------------------------------------------------------------ C01
fn tol_of(mode: usize, rtol0: f64, atol0: f64, scale: f64, n: usize) -> (Tolerance, Tolerance, Vec<f64>, Vec<f64>) {
    let (rtol, atol) = (rtol0 * scale, atol0 * scale);
    match mode {
        // per-component atol: a loose first component next to tight ones (each component is held to its own scale);
        // the cap applies to the unscaled value so that `scale` tightens every component alike
        1 => { let av: Vec<f64> = (0..n).map(|i| if i == 0 { (atol0 * 1e4).min(1e-2) * scale } else { atol }).collect(); (rtol.into(), Tolerance::Vector(av.clone()), vec![rtol; n], av) }
        2 => (0.0.into(), (rtol * 0.1).into(), vec![0.0; n], vec![rtol * 0.1; n]),           // pure absolute
        3 => (rtol.into(), 0.0.into(), vec![rtol; n], vec![0.0; n]),                           // pure relative
        _ => (rtol.into(), atol.into(), vec![rtol; n], vec![atol; n]),
    }
}

/// C01: every returned sample against the closed-form solution; tolerance proportionality; RK4 order
pub fn accuracy(args: &[String]) {
    std::panic::set_hook(Box::new(|_| {}));
    let seed: u64 = args.get(0).and_then(|s| s.parse().ok()).unwrap_or(1);
    let cases: usize = args.get(1).and_then(|s| s.parse().ok()).unwrap_or(100);
    let mut rng = Rng(seed ^ 0xC01);
    const KINDS: [Kind; 5] = [Kind::Harmonic, Kind::Logistic, Kind::Decay3, Kind::Riccati, Kind::Slow];
    const METHODS: [Method; 5] = [Method::RK23, Method::DOPRI5, Method::DOP853, Method::RADAU, Method::BDF];
    for case in 0..cases {
        let kind = *rng.pick(&KINDS);
        let method = *rng.pick(&METHODS);
        let span = rng.range(0.5, 4.0);
        let back = rng.chance(0.35);
        // backward only as far as the problem stays well-conditioned (Decay3 grows like e^{7|t|} backward)
        let xend = if back { if kind == Kind::Decay3 { -span.min(0.3) } else { -span.min(1.5) } } else { span };
        let lo = if matches!(method, Method::RK23) { 7.0 } else if matches!(method, Method::BDF) { 9.0 } else { 11.0 };
        let rtol = 10f64.powf(-rng.range(3.0, lo));
        let atol = rtol * 10f64.powf(-rng.range(0.0, 3.0));
        // pure relative control only where the solution stays away from zero
        let mode = { let m = rng.below(5); if m == 3 && !matches!(kind, Kind::Logistic | Kind::Riccati | Kind::Slow | Kind::Decay3) { 0 } else { m } };
        let p = Prob { user_jac: rng.chance(0.5), ..Prob::new(kind) };
        let n = p.n();
        let y0 = p.y0();
        let use_teval = rng.chance(0.3);
        let run = |scale: f64| -> Option<(Solution, Vec<f64>, Vec<f64>)> {
            let (rt, at, rv, av) = tol_of(mode, rtol, atol, scale, n);
            let mut o = Options::builder().method(method).rtol(rt).atol(at).build();
            if use_teval { o.t_eval = Some((1..=7).map(|k| xend * k as f64 / 7.0).collect()); }
            let q = Prob { user_jac: p.user_jac, ..Prob::new(kind) };
            match catch_unwind(AssertUnwindSafe(|| solve_ivp(&q, 0.0, xend, &y0, o))) { Ok(Ok(s)) => Some((s, rv, av)), _ => None }
        };
        let errs = |s: &Solution, rv: &[f64], av: &[f64]| -> (f64, f64, String) {
            // (max error, max ratio error/bound, description of the worst sample)
            let mut emax: f64 = 0.0; let mut rmax: f64 = 0.0; let mut worst = String::new();
            let nacc = s.naccpt.max(1) as f64;
            for (t, y) in s.t.iter().zip(s.y.iter()) {
                let ex = p.exact(*t).unwrap();
                // coupled components inherit each other's errors: their scale is the loosest one; uncoupled systems
                // (diagonal Jacobian) are held to their own per-component scale
                let coupled = matches!(kind, Kind::Harmonic);
                let loosest = (0..n).map(|i| av[i] + rv[i] * ex[i].abs()).fold(0.0, f64::max);
                for i in 0..n {
                    let e = (y[i] - ex[i]).abs();
                    let sc = if coupled { loosest } else { av[i] + rv[i] * ex[i].abs() };
                    let bound = 10.0 * nacc * sc + 200.0 * f64::EPSILON * nacc * (1.0 + ex[i].abs());
                    emax = emax.max(e);
                    if e / bound > rmax { rmax = e / bound; worst = format!("component {} at t = {}: error {:.3e}, 10 * naccpt({}) * (atol + rtol |y|) = {:.3e}", i, t, e, s.naccpt, bound); }
                }
            }
            (emax, rmax, worst)
        };
        let extra = format!("\"rtol\":{},\"atol\":{},\"mode\":{},\"xend\":{},\"t_eval\":{},", jnum(rtol), jnum(atol), mode, jnum(xend), use_teval);
        let mut why = String::new();
        let mut key = "c01-accuracy";
        match run(1.0) {
            None => { why = "run fails".into(); }
            Some((s, rv, av)) => {
                if s.status != Status::Success { why = format!("status {:?} on a smooth non-stiff problem", s.status); key = if mode == 2 && method == Method::RADAU { "c01-radau-pure-absolute" } else { "c01-status" }; }
                else {
                    let (e1, r1, w1) = errs(&s, &rv, &av);
                    if r1 > 1.0 { why = w1; }
                    else if let Some((s2, rv2, av2)) = run(0.01) {
                        // tightening the tolerances 100-fold must not increase the error (down to the rounding floor)
                        // (errors far below the tolerance scale are rounding and cancellation, not control: ignored)
                        let (e2, r2, _) = errs(&s2, &rv2, &av2);
                        let floor = 1e-12 * (s2.naccpt.max(1) as f64).sqrt();
                        if s2.status == Status::Success && rtol * 0.01 >= 1e-12 && e2 > 1.05 * e1.max(floor) && r2 > 0.01 { why = format!("tolerances / 100: max error grows from {:.3e} to {:.3e}", e1, e2); key = "c01-proportional"; }
                    }
                }
            }
        }
        row("ac", case, ["scalar", "atol-vector", "pure-abs", "pure-rel", "scalar"][mode], kind, method, key, &why, &extra);
    }
    // RK4: fourth-order convergence of the global error under step refinement
    for (k, kind) in KINDS.iter().enumerate() {
        let p = Prob::new(*kind);
        let y0 = p.y0();
        let xend = if k % 2 == 0 { 2.0 } else { -1.0 };
        let e = |steps: usize| -> f64 {
            let mut o = Options::builder().method(Method::RK4).build();
            o.first_step = Some(xend / steps as f64);
            let s = solve_ivp(&Prob::new(*kind), 0.0, xend, &y0, o).unwrap();
            let ex = p.exact(*s.t.last().unwrap()).unwrap();
            s.y.last().unwrap().iter().zip(ex.iter()).map(|(a, b)| (a - b).abs()).fold(0.0, f64::max)
        };
        let (e1, e2) = (e(40), e(80));
        let why = if e1 > 1e-11 && e1 / e2 < 10.0 { format!("halving the step reduces the error only by {:.2} ({:.3e} -> {:.3e}); expected about 16", e1 / e2, e1, e2) } else { String::new() };
        row("ac", 100000 + k, "rk4-order", *kind, Method::RK4, "c01-rk4-order", &why, &format!("\"e40\":{},\"e80\":{},", jnum(e1), jnum(e2)));
    }
    // fast rotations (|y'| = w |y| with w up to 300): the error scale must follow |y|, not the size of the derivative;
    // a neutrally stable flow, so accepted local errors are not damped away
    {
        let mut k = 0;
        for method in ADAPTIVE {
            for w in [30.0f64, 300.0] { for rtol in [1e-4, 1e-6, 1e-8] { for back in [false, true] {
                if matches!(method, Method::BDF | Method::RK23) && (w > 100.0 || rtol < 1e-7) { continue; } // tens of thousands of steps
                let p = Rot { w };
                let xend = if back { -2.0 } else { 2.0 };
                let atol = rtol * 1e-3;
                let o = Options::builder().method(method).rtol(rtol).atol(atol).build();
                let mut why = String::new();
                let mut extra = String::new();
                match catch_unwind(AssertUnwindSafe(|| solve_ivp(&p, 0.0, xend, &[1.0, 0.0], o))) {
                    Ok(Ok(s)) => {
                        let nacc = s.naccpt.max(1) as f64;
                        let mut rmax = 0.0f64;
                        for (t, y) in s.t.iter().zip(s.y.iter()) {
                            let ex = [(w * t).cos(), -(w * t).sin()];
                            for i in 0..2 { let b = 10.0 * nacc * (atol + rtol * ex[i].abs().max(0.1)); rmax = rmax.max((y[i] - ex[i]).abs() / b); }
                        }
                        extra = format!("\"w\":{},\"rtol\":{},\"naccpt\":{},\"ratio\":{},", w, jnum(rtol), s.naccpt, jnum(rmax));
                        if s.status != Status::Success { why = format!("status {:?}", s.status); }
                        else if rmax > 0.5 { why = format!("rotation with angular velocity {}: error is {:.2} times 10 * naccpt * (atol + rtol |y|) (the unchanged solvers stay below 0.12)", w, rmax); }
                    }
                    _ => why = "run fails".into(),
                }
                row("ac", 200000 + k, "fast-rotation", Kind::Harmonic, method, "c01-accuracy", &why, &extra);
                k += 1;
            } } }
        }
    }
    // solutions of size 1e-12 .. 1e-15 under pure relative control, or with an absolute tolerance scaled down with them: the
    // error control has to follow the size of the solution (an error scale that is floored at an absolute constant stops
    // controlling such components), and the result is the scaled result of the size-1 problem
    {
        let mut k = 0;
        for method in METHODS { for (size, rtol, atol_rel) in [(1e-12, 1e-8, 0.0), (1e-15, 1e-6, 0.0), (1e-13, 1e-7, 1e-3)] { for back in [false, true] {
            let p = Tiny { size, lam: [-0.7, -3.0] };
            let xend = if back { -0.8 } else { 2.0 };
            let atol = atol_rel * rtol * size;
            let o = Options::builder().method(method).rtol(rtol).atol(atol).build();
            let (mut why, mut extra) = (String::new(), String::new());
            match catch_unwind(AssertUnwindSafe(|| solve_ivp(&p, 0.0, xend, &[size, -2.0 * size], o))) {
                Ok(Ok(s)) => {
                    let nacc = s.naccpt.max(1) as f64;
                    let mut rmax = 0.0f64;
                    for (t, y) in s.t.iter().zip(s.y.iter()) {
                        let ex = [size * (p.lam[0] * t).exp(), -2.0 * size * (p.lam[1] * t).exp()];
                        for i in 0..2 { let b = 10.0 * nacc * (atol + rtol * ex[i].abs()) + 200.0 * f64::EPSILON * nacc * ex[i].abs(); rmax = rmax.max((y[i] - ex[i]).abs() / b); }
                    }
                    extra = format!("\"size\":{:e},\"rtol\":{},\"naccpt\":{},\"ratio\":{},", size, jnum(rtol), s.naccpt, jnum(rmax));
                    if s.status != Status::Success { why = format!("status {:?}", s.status); }
                    else if rmax > 0.5 { why = format!("solution of size {:e}, rtol {:e}, atol {:e}: error is {:.2} times 10 * naccpt * (atol + rtol |y|) ({} accepted steps)", size, rtol, atol, rmax, s.naccpt); }
                }
                _ => why = "run fails".into(),
            }
            row("ac", 210000 + k, "tiny-solution", Kind::Decay3, method, "c01-accuracy", &why, &extra);
            k += 1;
        } } }
    }
    // a nonlinear planar problem with closed-form solution (radial logistic law plus rotation) over many end times, without
    // requested times, so that the last sample is the state of the landing step itself: whatever happens to that step
    // (shortened and repeated after a slow or diverging Newton iteration, rejected, stretched) the sample at xend has to be
    // the solution there.  Both directions (the backward runs integrate the time-reflected field).
    {
        let mut r2 = Rng(seed ^ 0xAD1A);
        let mut k = 0;
        for method in METHODS { for r in [10.0, 30.0, 100.0] { for _ in 0..(4 + cases / 40) { for dir in [1.0, -1.0] { for rtol in [1e-4, 1e-6, 1e-8] {
            let span = r2.range(8.0, 35.0) / r;
            let atol = 1e-3 * rtol;
            let p = RadialLogistic { r, w: 3.0, dir };
            let o = Options::builder().method(method).rtol(rtol).atol(atol).build();
            let (mut why, mut extra) = (String::new(), String::new());
            match catch_unwind(AssertUnwindSafe(|| solve_ivp(&p, 0.0, dir * span, &[0.1, 0.0], o))) {
                Ok(Ok(s)) => {
                    let nacc = s.naccpt.max(1) as f64;
                    let (mut rmax, mut tworst) = (0.0f64, 0.0);
                    for (t, y) in s.t.iter().zip(s.y.iter()) {
                        let ex = p.exact(*t);
                        let size = ex[0].abs().max(ex[1].abs());
                        let q = (y[0] - ex[0]).abs().max((y[1] - ex[1]).abs()) / (10.0 * nacc * (atol + rtol * size));
                        if !(q <= rmax) { rmax = q; tworst = *t; }
                    }
                    extra = format!("\"r\":{},\"span\":{},\"dir\":{},\"rtol\":{},\"naccpt\":{},\"ratio\":{},", r, span, dir, jnum(rtol), s.naccpt, jnum(rmax));
                    if s.status != Status::Success { why = format!("status {:?}", s.status); }
                    else if !(rmax <= 0.5) { why = format!("radial logistic r = {}, span {}, dir {}, rtol {:e}: error at t = {} is {:.2} times 10 * naccpt * (atol + rtol |y|) ({} accepted steps)", r, span, dir, rtol, tworst, rmax, s.naccpt); }
                }
                _ => why = "run fails".into(),
            }
            row("ac", 220000 + k, "radial-logistic", Kind::Mixed, method, "c01-accuracy", &why, &extra);
            k += 1;
        } } } } }
    }
    // a first_step that covers the whole interval (or more): the first trial step is the landing step and is rejected at these
    // tolerances; the shortened retries must not be taken for the landing step — the sample at xend is the solution at xend
    {
        let mut k = 0;
        for method in METHODS { for dir in [1.0, -1.0] { for (span, fs) in [(0.5, 0.5), (0.5, 2.0), (0.3, 0.3)] { for rtol in [1e-6, 1e-8] {
            let atol = 1e-3 * rtol;
            let p = RadialLogistic { r: 10.0, w: 3.0, dir };
            let mut o = Options::builder().method(method).rtol(rtol).atol(atol).build();
            o.first_step = Some(fs);
            let (mut why, mut extra) = (String::new(), String::new());
            match catch_unwind(AssertUnwindSafe(|| solve_ivp(&p, 0.0, dir * span, &[0.1, 0.0], o))) {
                Ok(Ok(s)) => {
                    let nacc = s.naccpt.max(1) as f64;
                    let (te, ye) = (*s.t.last().unwrap(), s.y.last().unwrap().clone());
                    let ex = p.exact(te);
                    let size = ex[0].abs().max(ex[1].abs());
                    let q = (ye[0] - ex[0]).abs().max((ye[1] - ex[1]).abs()) / (10.0 * nacc * (atol + rtol * size));
                    extra = format!("\"span\":{},\"dir\":{},\"first_step\":{},\"rtol\":{},\"naccpt\":{},\"ratio\":{},", span, dir, fs, jnum(rtol), s.naccpt, jnum(q));
                    if s.status != Status::Success { why = format!("status {:?}", s.status); }
                    else if te != dir * span { why = format!("Success but the last sample is at {} (xend = {})", te, dir * span); }
                    else if !(q <= 0.5) { why = format!("first_step {} on a span of {}, dir {}, rtol {:e}: error at xend is {:.3e} times 10 * naccpt * (atol + rtol |y|) ({} accepted steps)", fs, span, dir, rtol, q, s.naccpt); }
                }
                _ => why = "run fails".into(),
            }
            row("ac", 230000 + k, "covering-first-step", Kind::Mixed, method, "c01-accuracy", &why, &extra);
            k += 1;
        } } } }
    }
}

/// x' = r x (1 - x^2 - y^2) - w y, y' = r y (1 - x^2 - y^2) + w x from (0.1, 0): rho = x^2 + y^2 obeys rho' = 2 r rho (1 - rho),
/// the polar angle grows as w t; `dir = -1`: the time-reflected field (integrated over [0, -span])
struct RadialLogistic { r: f64, w: f64, dir: f64 }
impl IVP for RadialLogistic {
    fn ode(&self, _t: f64, y: &[f64], d: &mut [f64]) {
        let rho = y[0] * y[0] + y[1] * y[1];
        d[0] = self.dir * (self.r * y[0] * (1.0 - rho) - self.w * y[1]);
        d[1] = self.dir * (self.r * y[1] * (1.0 - rho) + self.w * y[0]);
    }
}
impl RadialLogistic {
    fn exact(&self, t: f64) -> [f64; 2] {
        let s = self.dir * t;
        let rho = 1.0 / (1.0 + (1.0 / 0.01 - 1.0) * (-2.0 * self.r * s).exp());
        let a = rho.sqrt();
        [a * (self.w * s).cos(), a * (self.w * s).sin()]
    }
}

/// y_i' = lam_i y_i started at a state of size `size` (two uncoupled components)
struct Tiny { size: f64, lam: [f64; 2] }
impl IVP for Tiny {
    fn ode(&self, _x: f64, y: &[f64], d: &mut [f64]) { let _ = self.size; d[0] = self.lam[0] * y[0]; d[1] = self.lam[1] * y[1]; }
    fn jac(&self, _x: f64, _y: &[f64], j: &mut Matrix) { j[(0, 0)] = self.lam[0]; j[(0, 1)] = 0.0; j[(1, 0)] = 0.0; j[(1, 1)] = self.lam[1]; }
}

/// y0' = w y1, y1' = -w y0: rotation with angular velocity w, solution (cos wt, -sin wt)
struct Rot { w: f64 }
impl IVP for Rot {
    fn ode(&self, _x: f64, y: &[f64], d: &mut [f64]) { d[0] = self.w * y[1]; d[1] = -self.w * y[0]; }
    fn jac(&self, _x: f64, _y: &[f64], j: &mut Matrix) { j[(0, 0)] = 0.0; j[(0, 1)] = self.w; j[(1, 0)] = -self.w; j[(1, 1)] = 0.0; }
}

// ------------------------------------------------------------------------------------------------------------ C14
/// Prothero–Robinson system  y_i' = -lam_i (y_i - phi_i(t)) + phi_i'(t),  phi_i(t) = cos(t + i)   (solution y = phi)
/// Prothero–Robinson: y_i' = -sign lam_i (y_i - phi_i(t)) + phi_i'(t), phi_i = cos(t + i), or — with `big` = S > 0 — the large
/// negative phi_i = -S (2 + cos(t + i)).  Without `user_jac` the Jacobian is the trait's default (finite differences).
struct PR { lam: Vec<f64>, sign: f64, user_jac: bool, big: f64 }
impl PR {
    fn phi(&self, t: f64, i: usize) -> f64 { if self.big == 0.0 { (t + i as f64).cos() } else { -self.big * (2.0 + (t + i as f64).cos()) } }
    fn dphi(&self, t: f64, i: usize) -> f64 { if self.big == 0.0 { -(t + i as f64).sin() } else { self.big * (t + i as f64).sin() } }
}
impl IVP for PR {
    fn ode(&self, t: f64, y: &[f64], d: &mut [f64]) {
        for i in 0..y.len() { d[i] = -self.sign * self.lam[i] * (y[i] - self.phi(t, i)) + self.dphi(t, i); }
    }
    fn jac(&self, t: f64, y: &[f64], j: &mut Matrix) {
        if self.user_jac { for i in 0..y.len() { for k in 0..y.len() { j[(i, k)] = if i == k { -self.sign * self.lam[i] } else { 0.0 }; } } }
        else {
            // the trait's own default body (src/ivp.rs)
            struct D<'a>(&'a PR);
            impl<'a> IVP for D<'a> { fn ode(&self, t: f64, y: &[f64], d: &mut [f64]) { self.0.ode(t, y, d) } }
            D(self).jac(t, y, j);
        }
    }
}

/// C14: stiff problems on Radau and BDF
pub fn stiff(args: &[String]) {
    std::panic::set_hook(Box::new(|_| {}));
    let seed: u64 = args.get(0).and_then(|s| s.parse().ok()).unwrap_or(1);
    let cases: usize = args.get(1).and_then(|s| s.parse().ok()).unwrap_or(40);
    let mut rng = Rng(seed ^ 0xC14);
    let r14 = |case: usize, branch: &str, m: Method, key: &str, why: &str, extra: &str| {
        println!("{{\"kind\":\"st\",\"case\":{},\"branch\":\"{}\",\"method\":\"{}\",\"finding_key\":\"{}\",{}\"ok\":{},\"why\":{:?}}}", case, branch, method_name(m), if why.is_empty() { "" } else { key }, extra, why.is_empty(), why);
    };
    for case in 0..cases {
        let method = if rng.chance(0.5) { Method::RADAU } else { Method::BDF };
        let n = 1 + rng.below(8);
        let rtol = 10f64.powf(-rng.range(3.0, 6.0));
        let atol = rtol * 1e-2;
        let user_jac = rng.chance(0.5);
        let back = rng.chance(0.25);
        // the origin of the time axis must not matter: a tiny automatic first step trips the stagnation guard sooner at |x0| > 0
        let x0 = [0.0, 0.0, 10.0, -7.0, 1000.0][case % 5];
        let xend = x0 + rng.range(1.0, 4.0) * if back { -1.0 } else { 1.0 };
        // the same problem at stiffness ratios 1e2 .. 1e10: Success, error at the tolerance scale, step count bounded
        let mut steps = vec![];
        let mut why = String::new();
        let mut key = "";
        let pattern: Vec<f64> = (0..n).map(|_| rng.range(0.1, 1.0)).collect();
        for ex in [2.0, 4.0, 6.0, 8.0, 10.0] {
            let lam: Vec<f64> = pattern.iter().enumerate().map(|(i, u)| if i == 0 { 10f64.powf(ex) } else { 10f64.powf(ex * u) }).collect();
            let p = PR { lam, sign: if back { -1.0 } else { 1.0 }, user_jac, big: 0.0 };
            let y0: Vec<f64> = (0..n).map(|i| (x0 + i as f64).cos()).collect();
            let o = Options::builder().method(method).rtol(rtol).atol(atol).build();
            match catch_unwind(AssertUnwindSafe(|| solve_ivp(&p, x0, xend, &y0, o))) {
                Ok(Ok(s)) => {
                    steps.push(s.nstep);
                    if s.status != Status::Success && why.is_empty() { why = format!("stiffness 1e{}: status {:?}", ex, s.status); key = "c14-status"; }
                    let nacc = s.naccpt.max(1) as f64;
                    for (t, y) in s.t.iter().zip(s.y.iter()) { for i in 0..n {
                        let e = (y[i] - (t + i as f64).cos()).abs();
                        let b = 10.0 * nacc * (atol + rtol);
                        if e > b && why.is_empty() { why = format!("stiffness 1e{}: component {} at t = {} off by {:.3e} (> {:.3e})", ex, i, t, e, b); key = "c14-accuracy"; }
                    } }
                }
                _ => { if why.is_empty() { why = format!("stiffness 1e{}: run fails", ex); key = "c14-status"; } steps.push(0); }
            }
        }
        if why.is_empty() {
            let (mn, mx) = (*steps.iter().min().unwrap(), *steps.iter().max().unwrap());
            if mx > 3 * mn + 60 { why = format!("step counts grow with the stiffness ratio: {:?} for 1e2..1e10", steps); key = "c14-steps"; }
        }
        r14(case, "prothero-robinson", method, key, &why, &format!("\"n\":{},\"user_jac\":{},\"rtol\":{},\"x0\":{},\"back\":{},\"steps\":{:?},", n, user_jac, jnum(rtol), x0, back, steps));
    }
    // tight tolerance (steps far below 1, so that h/alpha < 1 and a relative test on it is an absolute one): the cost must not
    // grow with the stiffness ratio — neither the attempts nor the share of them that is thrown away
    {
        let mut k = 0;
        for method in [Method::RADAU, Method::BDF] { for n in [1usize, 8] { for user_jac in [true, false] {
            let (rtol, atol) = (1e-9, 1e-12);
            let mut counts: Vec<(usize, usize)> = vec![];
            let (mut why, mut key) = (String::new(), "");
            for ex in [2.0, 4.0, 6.0, 8.0, 10.0] {
                let lam: Vec<f64> = (0..n).map(|i| if n == 1 { 10f64.powf(ex) } else { 10f64.powf(ex * (1.0 - 0.8 * i as f64 / (n - 1) as f64)) }).collect();
                let p = PR { lam, sign: 1.0, user_jac, big: 0.0 };
                // off the slow manifold: the fast transient has to be resolved first, the steps then grow by many orders of magnitude
                let y0: Vec<f64> = (0..n).map(|i| (i as f64).cos() + 1.0 + if i % 2 == 0 { 1.0 } else { 0.0 }).collect();
                let mut o = Options::builder().method(method).rtol(rtol).atol(atol).build();
                o.max_steps = Some(50_000);
                match catch_unwind(AssertUnwindSafe(|| solve_ivp(&p, 0.0, 10.0, &y0, o))) {
                    Ok(Ok(s)) => {
                        counts.push((s.nstep, s.nrejct));
                        if s.status != Status::Success && why.is_empty() { why = format!("stiffness 1e{}: status {:?} after {} steps", ex, s.status, s.nstep); key = "c14-status"; }
                    }
                    _ => { if why.is_empty() { why = format!("stiffness 1e{}: run fails", ex); key = "c14-status"; } counts.push((0, 0)); }
                }
            }
            if why.is_empty() {
                // growth only, measured against the least stiff member (fewer steps at a higher ratio are no complaint; resolving
                // the transients of more widely spread rates costs a few steps per decade)
                let (mn, mx) = (counts[0].0, counts.iter().map(|c| c.0).max().unwrap());
                let (rn, rx) = (counts[0].1, counts.iter().map(|c| c.1).max().unwrap());
                if mx > 3 * mn + 60 { why = format!("step counts grow with the stiffness ratio: (attempts, rejected) = {:?} for 1e2..1e10", counts); key = "c14-steps"; }
                else if rx > 3 * rn + 60 { why = format!("rejected attempts grow with the stiffness ratio: (attempts, rejected) = {:?} for 1e2..1e10", counts); key = "c14-steps"; }
            }
            r14(300000 + k, "tight-tolerance", method, key, &why, &format!("\"n\":{},\"user_jac\":{},\"rtol\":1e-9,\"counts\":{:?},", n, user_jac, counts.iter().map(|c| vec![c.0, c.1]).collect::<Vec<_>>()));
            k += 1;
        } } }
    }
    // a start off the slow manifold, away from the origin of the time axis: the transient of rate 1e8 .. 1e10 needs first steps of a few
    // ulp(x0).  Where Radau resolves it (Success, error at the tolerance scale) BDF has to as well.
    {
        let mut k = 0;
        for (x0, ex, rtol) in [(10.0, 10.0, 1e-6), (10.0, 10.0, 1e-9), (1000.0, 8.0, 1e-7), (0.0, 10.0, 1e-9)] { for back in [false, true] {
            let atol = rtol * 1e-3;
            let sign = if back { -1.0 } else { 1.0 };
            let xend = x0 + sign;
            let mut res: Vec<(Method, String, f64, usize)> = vec![];
            for method in [Method::RADAU, Method::BDF] {
                let p = PR { lam: vec![10f64.powf(ex)], sign, user_jac: true, big: 0.0 };
                let y0 = [x0.cos() + 1.0];
                let mut o = Options::builder().method(method).rtol(rtol).atol(atol).build();
                o.max_steps = Some(50_000);
                match catch_unwind(AssertUnwindSafe(|| solve_ivp(&p, x0, xend, &y0, o))) {
                    Ok(Ok(s)) => { let e = (s.y.last().unwrap()[0] - s.t.last().unwrap().cos()).abs(); res.push((method, format!("{:?}", s.status), e, s.nstep)); }
                    _ => res.push((method, "fails".into(), f64::NAN, 0)),
                }
            }
            let mut why = String::new();
            let radau_ok = res[0].1 == "Success" && res[0].2 <= 1e3 * rtol;
            if radau_ok && !(res[1].1 == "Success" && res[1].2 <= 1e3 * rtol) {
                why = format!("y' = -+1e{}(y - cos t) - sin t from x0 = {} to {}, y0 = cos x0 + 1, rtol {:e}: Radau ends {} after {} steps (error {:.1e}), BDF ends {} after {} steps (error {:.1e})", ex, x0, xend, rtol, res[0].1, res[0].3, res[0].2, res[1].1, res[1].3, res[1].2);
            }
            // two situations: no attempt at all (the stagnation guard fired on the automatic first step), or the first attempt,
            // made at the resolution of the time axis, was rejected
            let key = if res[1].3 == 0 { "c14-bdf-start-stagnation" } else { "c14-bdf-start-below-time-resolution" };
            r14(310000 + k, "transient-away-from-origin", Method::BDF, key, &why, &format!("\"x0\":{},\"xend\":{},\"rate\":1e{},\"rtol\":{},\"radau\":\"{}\",\"bdf\":\"{}\",\"bdf_steps\":{},", x0, xend, ex, jnum(rtol), res[0].1, res[1].1, res[1].3));
            k += 1;
        } }
    }
    // the same test equation around a large NEGATIVE slow solution (-1e9 .. -3e9): the finite-difference increment must follow
    // |y_j|, otherwise it is absorbed, the Jacobian column vanishes and the stiff solvers fall back to explicit-size steps
    {
        let mut k = 0;
        for method in [Method::RADAU, Method::BDF] { for back in [false, true] {
            let (rtol, atol, big) = (1e-6, 1e-3, 1e9);
            let mut counts: Vec<(usize, usize)> = vec![];
            let (mut why, mut key) = (String::new(), "");
            for ex in [2.0, 4.0, 6.0, 8.0] {
                let mut pair = [0usize; 2];
                for (q, user_jac) in [true, false].iter().enumerate() {
                    let p = PR { lam: vec![10f64.powf(ex), 10f64.powf(ex / 2.0)], sign: if back { -1.0 } else { 1.0 }, user_jac: *user_jac, big };
                    let (x0, xend) = (0.0, if back { -2.0 } else { 2.0 });
                    let y0: Vec<f64> = (0..2).map(|i| p.phi(x0, i)).collect();
                    let mut o = Options::builder().method(method).rtol(rtol).atol(atol).build();
                    o.max_steps = Some(20_000);
                    match catch_unwind(AssertUnwindSafe(|| solve_ivp(&p, x0, xend, &y0, o))) {
                        Ok(Ok(s)) => {
                            pair[q] = s.nstep;
                            if s.status != Status::Success && why.is_empty() { why = format!("stiffness 1e{}, {} Jacobian: status {:?} after {} steps", ex, if *user_jac { "analytic" } else { "finite-difference" }, s.status, s.nstep); key = "c14-status"; }
                            if why.is_empty() {
                                let nacc = s.naccpt.max(1) as f64;
                                for (t, y) in s.t.iter().zip(s.y.iter()) { for i in 0..2 {
                                    let e = (y[i] - p.phi(*t, i)).abs();
                                    let b = 10.0 * nacc * (atol + rtol * p.phi(*t, i).abs());
                                    if e > b && why.is_empty() { why = format!("stiffness 1e{}: component {} at t = {} off by {:.3e} (> {:.3e})", ex, i, t, e, b); key = "c14-accuracy"; }
                                } }
                            }
                        }
                        _ => { if why.is_empty() { why = format!("stiffness 1e{}: run fails", ex); key = "c14-status"; } }
                    }
                }
                counts.push((pair[0], pair[1]));
            }
            if why.is_empty() {
                let (mn, mx) = (counts.iter().map(|c| c.0.min(c.1)).min().unwrap(), counts.iter().map(|c| c.0.max(c.1)).max().unwrap());
                if mx > 3 * mn + 60 { why = format!("step counts (analytic, finite-difference Jacobian) grow with the stiffness ratio or with the Jacobian source: {:?} for 1e2..1e8", counts); key = "c14-steps"; }
            }
            r14(800000 + k, "prothero-robinson-large-negative", method, key, &why, &format!("\"back\":{},\"steps_analytic_fd\":{:?},", back, counts.iter().map(|c| vec![c.0, c.1]).collect::<Vec<_>>()));
            k += 1;
        } }
    }
    // Robertson and Van der Pol
    // (Van der Pol over three periods' worth of fast transitions, at loose and moderate tolerances: many recovered Newton failures)
    for (k, (kind, xend, rtol)) in [(Kind::Robertson, 40.0, 1e-5), (Kind::Robertson, 4000.0, 1e-5), (Kind::VdPStiff, 30.0, 1e-5), (Kind::VdPStiff, 800.0, 1e-5),
                                    (Kind::VdPStiff, 3000.0, 1e-3), (Kind::VdPStiff, 3000.0, 1e-4), (Kind::Robertson, 1e6, 1e-3),
                                    (Kind::Robertson, 1e11, 1e-5), (Kind::Robertson, 1e11, 1e-3), (Kind::Robertson, 1e9, 1e-7)].iter().enumerate() {
        for method in [Method::RADAU, Method::BDF] { for user_jac in [true, false] {
            let p = Prob { user_jac, ..Prob::new(*kind) };
            let o = Options::builder().method(method).rtol(*rtol).atol(rtol * 1e-4).build();
            let mut why = String::new();
            let mut key = "";
            let mut extra = String::new();
            match catch_unwind(AssertUnwindSafe(|| solve_ivp(&p, 0.0, *xend, &p.y0(), o))) {
                Ok(Ok(s)) => {
                    extra = format!("\"nstep\":{},\"naccpt\":{},\"nrejct\":{},", s.nstep, s.naccpt, s.nrejct);
                    if s.status != Status::Success { why = format!("{:?} to t = {}: status {:?}", kind, xend, s.status); key = "c14-status"; }
                    else if s.nstep > 6000 { why = format!("{:?} to t = {}: {} steps", kind, xend, s.nstep); key = "c14-steps"; }
                    else if *kind == Kind::Robertson {
                        // the linear invariant y1 + y2 + y3 = 1 is preserved to rounding
                        let dev = s.y.iter().map(|y| (y[0] + y[1] + y[2] - 1.0).abs()).fold(0.0, f64::max);
                        if dev > 1e-11 * (s.naccpt.max(1) as f64) { why = format!("Robertson: y1 + y2 + y3 drifts from 1 by {:.3e}", dev); key = "c14-invariant"; }
                        let yl = s.y.last().unwrap();
                        // reference values: y(40) = (0.7158, 9.185e-6, 0.2842)
                        if (*xend - 40.0).abs() < 1e-9 && ((yl[0] - 0.715827).abs() > 2e-4 || (yl[2] - 0.284164).abs() > 2e-4) { why = format!("Robertson at t = 40: {:?}", yl); key = "c14-accuracy"; }
                    }
                }
                _ => { why = "run fails".into(); key = "c14-status"; }
            }
            // Robertson far into its tail (t >= 1e9) with the default finite-difference Jacobian is a recorded finding of its own
            let key = if !why.is_empty() && *kind == Kind::Robertson && *xend >= 1e9 && !user_jac { "c14-robertson-late-fd-jacobian" } else { key };
            r14(200000 + k, &format!("{:?}", kind), method, key, &why, &format!("{}\"user_jac\":{},\"xend\":{},\"rtol\":{},", extra, user_jac, xend, jnum(*rtol)));
        } }
    }
    // nonlinear relaxation onto a slow manifold, started off it, with a user first step that is far too long for the
    // transient: several corrector / Newton failures in a row before the first accepted step (LU / Jacobian refresh paths)
    for (k, (rtol, first)) in [(1e-6, 1e-2), (1e-4, 1e-2), (1e-6, 1e-1)].iter().enumerate() {
        for method in [Method::RADAU, Method::BDF] { for user_jac in [true, false] {
            let mut steps = vec![];
            let (mut why, mut key) = (String::new(), "");
            for ex in [2.0, 4.0, 6.0, 8.0, 10.0] {
                let p = Relax { lam: 10f64.powf(ex), user_jac };
                let o = Options::builder().method(method).rtol(*rtol).atol(rtol * 1e-2).first_step(*first).build();
                match catch_unwind(AssertUnwindSafe(|| solve_ivp(&p, 0.0, 10.0, &[3.0, 1.0], o))) {
                    Ok(Ok(s)) => {
                        steps.push(s.nstep);
                        if s.status != Status::Success && why.is_empty() { why = format!("stiffness 1e{}: status {:?} after {} accepted steps", ex, s.status, s.naccpt); key = "c14-status"; }
                        let yl = s.y.last().unwrap();
                        let t = *s.t.last().unwrap();
                        let exact = [2.0 + t.sin(), 2.0 + 0.5 * (t.sin() - t.cos()) - 0.5 * (-t).exp()];
                        let b = 10.0 * (s.naccpt.max(1) as f64) * (rtol * 1e-2 + rtol * 3.0);
                        if s.status == Status::Success && why.is_empty() && ex >= 4.0 && ((yl[0] - exact[0]).abs() > b || (yl[1] - exact[1]).abs() > b + 2.0 / 10f64.powf(ex)) { why = format!("stiffness 1e{}: final state {:?} vs slow solution {:?}", ex, yl, exact); key = "c14-accuracy"; }
                    }
                    _ => { if why.is_empty() { why = format!("stiffness 1e{}: run fails", ex); key = "c14-status"; } steps.push(0); }
                }
            }
            if why.is_empty() {
                let (mn, mx) = (*steps.iter().min().unwrap(), *steps.iter().max().unwrap());
                if mx > 3 * mn + 60 { why = format!("step counts grow with the stiffness ratio: {:?} for 1e2..1e10", steps); key = "c14-steps"; }
            }
            r14(300000 + k, "relaxation-off-manifold", method, key, &why, &format!("\"user_jac\":{},\"rtol\":{},\"first_step\":{},\"steps\":{:?},", user_jac, jnum(*rtol), jnum(*first), steps));
        } }
    }
    pr_cubic();
}

/// Prothero–Robinson with a cubic restoring term: y' = -lam (y - cos t) - sin t - c (y - cos t)^3, y(0) = 1 (solution cos t)
struct PRCubic { lam: f64, c: f64, user_jac: bool }
impl IVP for PRCubic {
    fn ode(&self, t: f64, y: &[f64], d: &mut [f64]) { let e = y[0] - t.cos(); d[0] = -self.lam * e - t.sin() - self.c * e * e * e; }
    fn jac(&self, t: f64, y: &[f64], j: &mut Matrix) {
        if self.user_jac { let e = y[0] - t.cos(); j[(0, 0)] = -self.lam - 3.0 * self.c * e * e; }
        else { let mut f0 = vec![0.0]; self.ode(t, y, &mut f0); let d = (f64::EPSILON).sqrt() * y[0].abs().max(1.0); let mut f1 = vec![0.0]; self.ode(t, &[y[0] + d], &mut f1); j[(0, 0)] = (f1[0] - f0[0]) / d; }
    }
}

/// C14 on a stiff problem with a mild nonlinearity: the final steps grow by the maximal factor with a reused Jacobian and a
/// convergence-rate estimate carried over from the previous step
pub fn pr_cubic() {
    let mut k = 0;
    for method in [Method::RADAU, Method::BDF] {
        for (lam, rtol) in [(1e6, 1e-4), (1e8, 1e-6), (1e4, 1e-4), (1e8, 1e-4), (1e6, 1e-6), (1e10, 1e-8)] {
            for user_jac in [true, false] {
                let p = PRCubic { lam, c: 1e6, user_jac };
                let o = Options::builder().method(method).rtol(rtol).atol(rtol * 1e-3).build();
                let (mut why, mut key, mut extra) = (String::new(), "", String::new());
                match catch_unwind(AssertUnwindSafe(|| solve_ivp(&p, 0.0, 2.0, &[1.0], o))) {
                    Ok(Ok(s)) => {
                        let mut worst: f64 = 0.0;
                        for (t, y) in s.t.iter().zip(s.y.iter()) { worst = worst.max((y[0] - t.cos()).abs()); }
                        extra = format!("\"status\":\"{:?}\",\"naccpt\":{},\"worst\":{:e},", s.status, s.naccpt, worst);
                        if s.status != Status::Success { why = format!("status {:?}", s.status); key = "c14-status"; }
                        else if worst > 10.0 * (s.naccpt.max(1) as f64) * rtol { why = format!("lambda = {:e}, rtol = {:e}: error {:.3e} after {} accepted steps (the last step of length {:.3} is accepted after one Newton iteration)", lam, rtol, worst, s.naccpt, s.t[s.t.len() - 1] - s.t[s.t.len() - 2]); key = if method == Method::RADAU { "c14-radau-first-iterate-accepted" } else { "c14-accuracy" }; }
                    }
                    _ => { why = "run fails".into(); key = "c14-status"; }
                }
                println!("{{\"kind\":\"st\",\"case\":{},\"branch\":\"pr-cubic\",\"method\":\"{}\",\"finding_key\":\"{}\",\"lam\":{:e},\"rtol\":{:e},\"user_jac\":{},{}\"ok\":{},\"why\":{:?}}}",
                    400000 + k, method_name(method), if why.is_empty() { "" } else { key }, lam, rtol, user_jac, extra, why.is_empty(), why);
                k += 1;
            }
        }
    }
}

/// y0' = -lam (y0^3 - phi^3) + phi',  y1' = -(y1 - y0),  phi = 2 + sin t: relaxation with rate ~ 3 lam phi^2 onto y0 = phi
struct Relax { lam: f64, user_jac: bool }
impl IVP for Relax {
    fn ode(&self, x: f64, y: &[f64], d: &mut [f64]) {
        let p = 2.0 + x.sin();
        d[0] = -self.lam * (y[0] * y[0] * y[0] - p * p * p) + x.cos();
        d[1] = -(y[1] - y[0]);
    }
    fn jac(&self, x: f64, y: &[f64], j: &mut Matrix) {
        if self.user_jac {
            j[(0, 0)] = -3.0 * self.lam * y[0] * y[0]; j[(0, 1)] = 0.0; j[(1, 0)] = 1.0; j[(1, 1)] = -1.0;
        } else {
            // the trait's default forward-difference formula
            let n = y.len();
            let mut yp = y.to_vec();
            let (mut f0, mut f1) = (vec![0.0; n], vec![0.0; n]);
            self.ode(x, y, &mut f0);
            let eps = f64::EPSILON.sqrt();
            for c in 0..n {
                let h = eps * y[c].abs().max(1.0);
                yp[c] = y[c] + h;
                self.ode(x, &yp, &mut f1);
                yp[c] = y[c];
                for r in 0..n { j[(r, c)] = (f1[r] - f0[r]) / h; }
            }
        }
    }
}

/// `m` copies of the linear homogeneous stiff system u' = -lam u + v, v' = -0.2 u - 0.7 v
struct LinStiff { lam: f64, m: usize }
impl IVP for LinStiff {
    fn ode(&self, _x: f64, y: &[f64], d: &mut [f64]) {
        for j in 0..self.m { d[2 * j] = -self.lam * y[2 * j] + y[2 * j + 1]; d[2 * j + 1] = -0.2 * y[2 * j] - 0.7 * y[2 * j + 1]; }
    }
}

/// four small stiff problems with rate `lam` (linear with forcing, van der Pol, quadratic coupling, cubic damping);
/// `reflect`: z'(s) = -f(-s, z)
struct StiffFam { kind: usize, lam: f64, reflect: bool }
impl IVP for StiffFam {
    fn ode(&self, x: f64, y: &[f64], d: &mut [f64]) {
        let t = if self.reflect { -x } else { x };
        let (v, w) = match self.kind {
            0 => (-self.lam * (y[0] - t.cos()) - t.sin(), -0.5 * self.lam * (y[1] - (0.3 * t).sin()) + 0.3 * (0.3 * t).cos()),
            1 => (y[1], self.lam * ((1.0 - y[0] * y[0]) * y[1] - y[0])),
            2 => (-self.lam * y[0] + y[1] * y[1], y[0] - y[1] * (1.0 + 0.1 * t.sin())),
            _ => (-self.lam * y[0] * y[0] * y[0] + t.sin(), -0.01 * self.lam * y[1] + y[0]),
        };
        d[0] = if self.reflect { -v } else { v };
        d[1] = if self.reflect { -w } else { w };
    }
}

/// y0' = 0.002 y0 + x^2 y1,  y1' = -0.003 y1  (slow start, time-dependent); `reflect`: z'(s) = -f(-s, z)
struct SlowT { reflect: bool }
impl IVP for SlowT {
    fn ode(&self, x: f64, y: &[f64], d: &mut [f64]) {
        let t = if self.reflect { -x } else { x };
        d[0] = 0.002 * y[0] + t * t * y[1];
        d[1] = -0.003 * y[1];
        if self.reflect { d[0] = -d[0]; d[1] = -d[1]; }
    }
    fn jac(&self, x: f64, _y: &[f64], j: &mut Matrix) {
        let t = if self.reflect { -x } else { x };
        let s = if self.reflect { -1.0 } else { 1.0 };
        j[(0, 0)] = s * 0.002; j[(0, 1)] = s * (t * t); j[(1, 0)] = 0.0; j[(1, 1)] = s * -0.003;
    }
}
