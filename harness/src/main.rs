//! Verification harness for `ivp`: runs the real crate in-process and prints line-oriented reports
//! (JSON per line) that /verif/bin/check consumes.  Every random choice derives from the seed argument.

mod common;
mod order;
mod problems;
mod dense;
mod matrix;
mod solout;
mod monitors;
mod runs;
mod xsolve;
mod lu;
mod xfdjac;
mod xpy;
mod families;
mod xradau;
mod xbdf;
mod xcont;
mod xbdfnum;
mod xradaunum;

fn main() {
    let args: Vec<String> = std::env::args().collect();
    if args.len() < 2 {
        eprintln!("usage: harness <subcommand> [args]");
        std::process::exit(2);
    }
    let rest = &args[2..];
    match args[1].as_str() {
        "order-probe" => order::run(rest),
        "dense-check" => dense::run(rest),
        "bdf-dense-check" => dense::bdf_dense(rest),
        "xmatrix" => matrix::run(rest),
        "matrix-oracle" => matrix::oracle(rest),
        "xsolout" => solout::run(rest),
        "xsolve" => xsolve::run(rest),
        "xlu" => lu::run(rest),
        "xfdjac" => xfdjac::run(rest),
        "xpy" => xpy::run(rest),
        "xradau" => xradau::run(rest),
        "xbdf" => xbdf::run(rest),
        "xcont" => xcont::run(rest),
        "xbdfnum" => xbdfnum::run(rest),
        "xradaunum" => xradaunum::run(rest),
        "sym-check" => families::sym(rest),
        "mass-check" => families::mass(rest),
        "accuracy-check" => families::accuracy(rest),
        "stiff-check" => families::stiff(rest),
        "event-check" => monitors::events(rest),
        "teval-check" => monitors::teval(rest),
        "interval-check" => runs::interval(rest),
        "hostile-check" => runs::hostile(rest),
        "options-check" => runs::options(rest),
        "protocol-check" => runs::protocol(rest),
        other => {
            eprintln!("unknown subcommand {other}");
            std::process::exit(2);
        }
    }
}
