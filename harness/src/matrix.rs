//! X-matrix: generates matrix operation sequences, executes them on the real `ivp::matrix::Matrix`
//! (panics caught) and writes the op lines and the implementation's answers to two files that
//! /verif/bin/check feeds to the Lean model driver and diffs.
use crate::common::*;
use ivp::prelude::*;
use std::collections::HashMap;
use std::fmt::Write as _;
use std::panic::{catch_unwind, AssertUnwindSafe};

fn storage_str(s: &MatrixStorage) -> String {
    match s {
        MatrixStorage::Identity => "identity".into(),
        MatrixStorage::Full => "full".into(),
        MatrixStorage::Banded { ml, mu } => format!("banded:{}:{}", ml, mu),
    }
}
fn dump(m: &Matrix) -> String {
    format!("mat {} {} {} {} {}", m.n, m.m, storage_str(&m.storage), m.data.len(), hxs(&m.data))
}

pub struct Exec {
    pub regs: HashMap<String, Matrix>,
    pub ops: String,
    pub out: String,
    pub nops: usize,
    pub npanic: usize,
    pub hist: HashMap<String, usize>,
}
impl Exec {
    pub fn new() -> Self {
        Exec { regs: HashMap::new(), ops: String::new(), out: String::new(), nops: 0, npanic: 0, hist: HashMap::new() }
    }
    fn emit(&mut self, op: String, res: String) {
        let key = op.split(' ').take(if op.starts_with("new") { 3 } else { 1 }).filter(|w| w.len() > 1 || w.chars().all(|c| c.is_alphabetic())).collect::<Vec<_>>().join(" ");
        let key = if op.starts_with("new") { format!("new {}", op.split(' ').nth(2).unwrap_or("")) } else { key };
        *self.hist.entry(key).or_insert(0) += 1;
        if res == "panic" {
            self.npanic += 1;
        }
        writeln!(self.ops, "{}", op).unwrap();
        writeln!(self.out, "{}", res).unwrap();
        self.nops += 1;
    }
    pub fn new_mat(&mut self, r: &str, spec: &str) {
        let w: Vec<&str> = spec.split(' ').collect();
        let u = |s: &str| s.parse::<usize>().unwrap();
        let res = catch_unwind(AssertUnwindSafe(|| match w[0] {
            "identity" => Matrix::identity(u(w[1])),
            "full" => Matrix::full(u(w[1]), u(w[2])),
            "zeros" => Matrix::zeros(u(w[1]), u(w[2])),
            "square" => Matrix::square(u(w[1])),
            "banded" => Matrix::banded(u(w[1]), u(w[2]), u(w[3])),
            "lower" => Matrix::lower_triangular(u(w[1])),
            "upper" => Matrix::upper_triangular(u(w[1])),
            "diag" => Matrix::diagonal(parse_fs(w[1])),
            "fromvec" => Matrix::from_vec(u(w[1]), u(w[2]), parse_fs(w[3])),
            "fromstorage" => {
                let st = match w[3] {
                    "identity" => MatrixStorage::Identity,
                    "full" => MatrixStorage::Full,
                    _ => MatrixStorage::Banded { ml: u(w[4]), mu: u(w[5]) },
                };
                Matrix::from_storage(u(w[1]), u(w[2]), st)
            }
            _ => unreachable!(),
        }));
        let op = format!("new {} {}", r, spec);
        match res {
            Ok(m) => {
                self.regs.insert(r.to_string(), m);
                self.emit(op, "ok".into());
            }
            Err(_) => self.emit(op, "panic".into()),
        }
    }
    pub fn get(&mut self, r: &str, i: usize, j: usize) {
        let m = self.regs.get(r).unwrap();
        let res = catch_unwind(AssertUnwindSafe(|| m[(i, j)]));
        let s = match res { Ok(v) => format!("val {}", hx(v)), Err(_) => "panic".into() };
        self.emit(format!("get {} {} {}", r, i, j), s);
    }
    pub fn set(&mut self, r: &str, i: usize, j: usize, v: f64) {
        let mut m = self.regs.get(r).unwrap().clone();
        let res = catch_unwind(AssertUnwindSafe(|| { m[(i, j)] = v; m }));
        let s = match res { Ok(m2) => { self.regs.insert(r.to_string(), m2); "ok".to_string() } Err(_) => "panic".into() };
        self.emit(format!("set {} {} {} {}", r, i, j, hx(v)), s);
    }
    pub fn binop(&mut self, op: &str, d: &str, a: &str, b: &str) {
        let ma = self.regs.get(a).unwrap().clone();
        let mb = self.regs.get(b).unwrap().clone();
        let res = catch_unwind(AssertUnwindSafe(|| if op == "add" { ma + mb } else { ma - mb }));
        let s = match res { Ok(m) => { self.regs.insert(d.to_string(), m); "ok".to_string() } Err(_) => "panic".into() };
        self.emit(format!("{} {} {} {}", op, d, a, b), s);
    }
    pub fn scalar(&mut self, op: &str, d: &str, a: &str, c: f64) {
        let ma = self.regs.get(a).unwrap().clone();
        let res = catch_unwind(AssertUnwindSafe(|| match op { "cadd" => ma.component_add(c), "csub" => ma.component_sub(c), _ => ma.component_mul(c) }));
        let s = match res { Ok(m) => { self.regs.insert(d.to_string(), m); "ok".to_string() } Err(_) => "panic".into() };
        self.emit(format!("{} {} {} {}", op, d, a, hx(c)), s);
    }
    pub fn mulmut(&mut self, a: &str, c: f64) {
        let mut ma = self.regs.get(a).unwrap().clone();
        let res = catch_unwind(AssertUnwindSafe(|| { ma.component_mul_mut(c); ma }));
        let s = match res { Ok(m) => { self.regs.insert(a.to_string(), m); "ok".to_string() } Err(_) => "panic".into() };
        self.emit(format!("cmulmut {} {}", a, hx(c)), s);
    }
    /// the default `IVP::mass` body applied to the register
    pub fn defmass(&mut self, a: &str) {
        struct NoMass;
        impl ivp::prelude::IVP for NoMass { fn ode(&self, _: f64, _: &[f64], _: &mut [f64]) {} }
        let mut ma = self.regs.get(a).unwrap().clone();
        let res = catch_unwind(AssertUnwindSafe(|| { ivp::prelude::IVP::mass(&NoMass, &mut ma); ma }));
        let s = match res { Ok(m) => { self.regs.insert(a.to_string(), m); "ok".to_string() } Err(_) => "panic".into() };
        self.emit(format!("defmass {}", a), s);
    }
    pub fn fill(&mut self, a: &str, c: f64) {
        let m = self.regs.get_mut(a).unwrap();
        let res = catch_unwind(AssertUnwindSafe(|| m.fill(c)));
        let s = match res { Ok(()) => "ok".to_string(), Err(_) => "panic".into() };
        self.emit(format!("fill {} {}", a, hx(c)), s);
    }
    pub fn isid(&mut self, a: &str) {
        let m = self.regs.get(a).unwrap();
        let res = catch_unwind(AssertUnwindSafe(|| m.is_identity()));
        let s = match res { Ok(b) => format!("bool {}", b), Err(_) => "panic".into() };
        self.emit(format!("isid {}", a), s);
    }
    pub fn dump(&mut self, a: &str) {
        let s = dump(self.regs.get(a).unwrap());
        self.emit(format!("dump {}", a), s);
    }
    pub fn read_all(&mut self, a: &str) {
        let (n, m) = { let x = self.regs.get(a).unwrap(); (x.n, x.m) };
        for i in 0..n { for j in 0..m { self.get(a, i, j); } }
        self.get(a, n, 0);
    }
}
fn parse_fs(s: &str) -> Vec<f64> {
    if s == "-" { return vec![]; }
    s.split(',').map(|h| f64::from_bits(u64::from_str_radix(h, 16).unwrap())).collect()
}

fn rand_val(rng: &mut Rng) -> f64 {
    let k = rng.below(17) as f64 - 8.0;
    if rng.chance(0.2) { k / 2.0 } else { k }
}

fn rand_ctor(rng: &mut Rng, n: usize) -> String {
    match rng.below(10) {
        0 => format!("identity {}", n),
        1 => format!("full {} {}", n, n),
        2 => format!("zeros {} {}", n, n),
        3 => format!("banded {} {} {}", n, rng.below(n + 1), rng.below(n + 1)),
        4 => format!("lower {}", n),
        5 => format!("upper {}", n),
        6 => format!("diag {}", hxs(&(0..n).map(|_| rand_val(rng)).collect::<Vec<_>>())),
        7 => format!("fromvec {} {} {}", n, n, hxs(&(0..n * n).map(|_| rand_val(rng)).collect::<Vec<_>>())),
        8 => match rng.below(3) {
            0 => format!("fromstorage {} {} identity", n, n),
            1 => format!("fromstorage {} {} full", n, n),
            _ => format!("fromstorage {} {} banded {} {}", n, n, rng.below(n + 1), rng.below(n + 1)),
        },
        _ => format!("square {}", n),
    }
}

fn fill(ex: &mut Exec, rng: &mut Rng, r: &str) {
    let (n, st) = { let m = ex.regs.get(r).unwrap(); (m.n, m.storage.clone()) };
    let k = rng.below(n * n + 2);
    for _ in 0..k {
        let (i, j) = match (&st, rng.chance(0.85)) {
            (MatrixStorage::Banded { ml, mu }, true) => {
                // pick inside the band
                let j = rng.below(n);
                let lo = j.saturating_sub(*mu);
                let hi = (j + *ml).min(n - 1);
                (lo + rng.below(hi - lo + 1), j)
            }
            _ => (rng.below(n + 1), rng.below(n + 1)),
        };
        ex.set(r, i, j, rand_val(rng));
    }
}

pub fn random_case(ex: &mut Exec, rng: &mut Rng, maxn: usize) {
    ex.regs.clear();
    ex.emit("reset".into(), "ok".into());
    let n = 1 + rng.below(maxn);
    let names = ["A", "B", "C"];
    for r in names.iter() {
        loop {
            let c = rand_ctor(rng, n);
            ex.new_mat(r, &c);
            if ex.regs.contains_key(*r) { break; }
        }
        if !ex.regs.get(*r).unwrap().data.is_empty() || rng.chance(0.5) {
            fill(ex, rng, r);
        }
    }
    if rng.chance(0.15) {
        // dimension mismatch
        let c = rand_ctor(rng, n + 1);
        ex.new_mat("C", &c);
    }
    for _ in 0..(3 + rng.below(5)) {
        let a = *rng.pick(&names);
        let b = *rng.pick(&names);
        match rng.below(8) {
            0 | 1 => ex.binop("add", "D", a, b),
            2 | 3 => ex.binop("sub", "D", a, b),
            4 => { let c = if rng.chance(0.3) { 0.0 } else { rand_val(rng) }; ex.scalar("cadd", "D", a, c) }
            5 => { let c = if rng.chance(0.3) { 0.0 } else { rand_val(rng) }; ex.scalar("csub", "D", a, c) }
            6 => { let c = if rng.chance(0.3) { 0.0 } else { rand_val(rng) }; ex.scalar("cmul", "D", a, c) }
            _ => { let c = rand_val(rng); ex.mulmut(a, c) }
        }
        if ex.regs.contains_key("D") {
            ex.dump("D");
            ex.read_all("D");
            ex.isid("D");
        }
    }
    for r in names.iter() {
        ex.isid(r);
        ex.read_all(r);
    }
    // fill: afterwards every entry reads the constant, whatever the storage was
    {
        let r = *rng.pick(&names);
        let c = if rng.chance(0.3) { 0.0 } else { rand_val(rng) };
        ex.fill(r, c);
        ex.dump(r);
        ex.read_all(r);
        ex.isid(r);
    }
    // the default mass matrix on a fresh matrix of every storage kind, and on whatever is in A
    let st = match rng.below(3) { 0 => format!("fromstorage {} {} identity", n, n), 1 => format!("fromstorage {} {} full", n, n), _ => format!("fromstorage {} {} banded {} {}", n, n, rng.below(n), rng.below(n)) };
    ex.new_mat("M", &st);
    ex.defmass("M");
    ex.dump("M");
    ex.read_all("M");
    ex.isid("M");
    if ex.regs.get("A").map_or(false, |m| m.n == m.m) {
        ex.defmass("A");
        ex.dump("A");
    }
}

/// every storage pair × every bandwidth pair for n ≤ maxn, add and sub, entries = distinct small integers
pub fn exhaustive(ex: &mut Exec, maxn: usize) {
    for n in 1..=maxn {
        let mut specs: Vec<String> = vec![format!("identity {}", n), format!("fromvec {} {} {}", n, n, hxs(&(0..n * n).map(|k| (k as f64) - 3.0).collect::<Vec<_>>()))];
        for ml in 0..n { for mu in 0..n { specs.push(format!("banded {} {} {}", n, ml, mu)); } }
        for sa in &specs {
            for sb in &specs {
                ex.regs.clear();
                ex.emit("reset".into(), "ok".into());
                ex.new_mat("A", sa);
                ex.new_mat("B", sb);
                for (r, base) in [("A", 1.0), ("B", 20.0)] {
                    let (st, nn) = { let m = ex.regs.get(r).unwrap(); (m.storage.clone(), m.n) };
                    if let MatrixStorage::Banded { ml, mu } = st {
                        for i in 0..nn { for j in 0..nn {
                            if j <= i + mu && i <= j + ml { ex.set(r, i, j, base + (i * nn + j) as f64); }
                        } }
                    }
                }
                for op in ["add", "sub"] {
                    ex.binop(op, "D", "A", "B");
                    ex.dump("D");
                    ex.read_all("D");
                }
                for (op, c) in [("cadd", 0.0), ("cadd", 2.0), ("csub", 0.0), ("csub", 3.0), ("cmul", 0.0), ("cmul", -2.0)] {
                    ex.scalar(op, "D", "A", c);
                    ex.dump("D");
                    ex.read_all("D");
                }
                ex.isid("A");
            }
        }
    }
}

/// is_identity on matrices one entry away from the identity: every storage, every bandwidth pair, every stored position
pub fn near_identity(ex: &mut Exec, maxn: usize) {
    for n in 1..=maxn {
        let mut specs: Vec<(String, usize, usize)> = vec![(format!("fromstorage {} {} full", n, n), n, n)];
        for ml in 0..n { for mu in 0..n { specs.push((format!("banded {} {} {}", n, ml, mu), ml, mu)); } }
        for (spec, ml, mu) in &specs {
            ex.regs.clear();
            ex.emit("reset".into(), "ok".into());
            ex.new_mat("A", spec);
            ex.isid("A");
            for i in 0..n { ex.set("A", i, i, 1.0); }
            ex.isid("A");
            for i in 0..n { for j in 0..n {
                if !(j <= i + mu && i <= j + ml) { continue; }
                let back = if i == j { 1.0 } else { 0.0 };
                ex.set("A", i, j, if i == j { 0.0 } else { 5.0 });
                ex.isid("A");
                ex.set("A", i, j, back);
            } }
            ex.isid("A");
        }
    }
}

pub fn run(args: &[String]) {
    std::panic::set_hook(Box::new(|_| {}));
    let seed: u64 = args.get(0).and_then(|s| s.parse().ok()).unwrap_or(1);
    let cases: usize = args.get(1).and_then(|s| s.parse().ok()).unwrap_or(200);
    let maxn: usize = args.get(2).and_then(|s| s.parse().ok()).unwrap_or(6);
    let exh: usize = args.get(3).and_then(|s| s.parse().ok()).unwrap_or(3);
    let prefix = args.get(4).cloned().unwrap_or_else(|| "/tmp/xmatrix".into());
    let mut rng = Rng(seed);
    let mut ex = Exec::new();
    exhaustive(&mut ex, exh);
    near_identity(&mut ex, exh + 2);
    let nexh = ex.nops;
    for _ in 0..cases {
        random_case(&mut ex, &mut rng, maxn);
    }
    std::fs::write(format!("{}.ops", prefix), &ex.ops).unwrap();
    std::fs::write(format!("{}.impl", prefix), &ex.out).unwrap();
    let mut h: Vec<_> = ex.hist.iter().collect();
    h.sort();
    let hist = h.iter().map(|(k, v)| format!("\"{}\":{}", k, v)).collect::<Vec<_>>().join(",");
    println!("{{\"kind\":\"xmatrix\",\"ops\":{},\"exhaustive_ops\":{},\"random_cases\":{},\"panics\":{},\"hist\":{{{}}}}}", ex.nops, nexh, cases, ex.npanic, hist);
}

// ---------------------------------------------------------------------------------------------------------------
/// C17 search side: every operation compared entrywise with the same operation on the dense equivalents
/// (entries are small dyadic numbers, so binary64 arithmetic is exact).
fn dense_of(m: &Matrix) -> Option<Vec<f64>> {
    let n = m.n;
    let mut d = Vec::with_capacity(n * n);
    for i in 0..n {
        for j in 0..n {
            match catch_unwind(AssertUnwindSafe(|| m[(i, j)])) {
                Ok(v) => d.push(v),
                Err(_) => return None,
            }
        }
    }
    Some(d)
}

fn build(rng: &mut Rng, n: usize) -> (Matrix, String) {
    loop {
        // half of the operands are general banded matrices (the storage with the most index arithmetic)
        let spec = if rng.chance(0.5) { format!("banded {} {} {}", n, rng.below(n + 1), rng.below(n + 1)) } else { rand_ctor(rng, n) };
        let mut ex = Exec::new();
        ex.new_mat("A", &spec);
        if let Some(_) = ex.regs.get("A") {
            fill(&mut ex, rng, "A");
            let m = ex.regs.remove("A").unwrap();
            let desc = format!("{} then {}", spec, ex.ops.lines().filter(|l| l.starts_with("set")).count());
            return (m, desc);
        }
    }
}

pub fn oracle(args: &[String]) {
    std::panic::set_hook(Box::new(|_| {}));
    let seed: u64 = args.get(0).and_then(|s| s.parse().ok()).unwrap_or(1);
    let cases: usize = args.get(1).and_then(|s| s.parse().ok()).unwrap_or(300);
    let maxn: usize = args.get(2).and_then(|s| s.parse().ok()).unwrap_or(6);
    let mut rng = Rng(seed ^ 0xC17);
    // directed: is_identity one entry away from the identity, every storage / bandwidth pair / stored position, n <= 5
    for n in 1..=5usize {
        let mut specs: Vec<(MatrixStorage, usize, usize)> = vec![(MatrixStorage::Full, n, n)];
        for ml in 0..n { for mu in 0..n { specs.push((MatrixStorage::Banded { ml, mu }, ml, mu)); } }
        for (st, ml, mu) in specs {
            let mut a = Matrix::from_storage(n, n, st.clone());
            for i in 0..n { a[(i, i)] = 1.0; }
            let mut why = String::new();
            if !a.is_identity() { why = "is_identity = false on a matrix whose entries are those of the identity".into(); }
            for i in 0..n { for j in 0..n {
                if !(j <= i + mu && i <= j + ml) || !why.is_empty() { continue; }
                let old = a[(i, j)];
                a[(i, j)] = if i == j { 0.0 } else { 5.0 };
                if a.is_identity() { why = format!("is_identity = true although entry ({},{}) = {}", i, j, a[(i, j)]); }
                a[(i, j)] = old;
            } }
            println!("{{\"kind\":\"moracle\",\"case\":\"near-identity\",\"n\":{},\"op\":\"is_identity\",\"a\":\"{}\",\"ok\":{},\"finding_key\":\"c17-is-identity\",\"why\":{:?}}}", n, storage_str(&st), why.is_empty(), why);
        }
    }
    // directed: fill on every storage (Identity, Full, every bandwidth pair, n <= 4) with a zero and a non-zero constant
    for n in 1..=4usize {
        let mut specs: Vec<MatrixStorage> = vec![MatrixStorage::Identity, MatrixStorage::Full];
        for ml in 0..n { for mu in 0..n { specs.push(MatrixStorage::Banded { ml, mu }); } }
        for st in specs { for c in [0.0, 2.5] {
            let mut a = Matrix::from_storage(n, n, st.clone());
            let mut why = String::new();
            match catch_unwind(AssertUnwindSafe(|| { a.fill(c); a })) {
                Err(_) => why = "fill panicked".into(),
                Ok(a) => match dense_of(&a) {
                    None => why = "matrix cannot be read after fill".into(),
                    Some(d) => {
                        if let Some(k) = (0..n * n).find(|k| d[*k] != c) { why = format!("after fill({}) entry ({},{}) reads {}", c, k / n, k % n, d[k]); }
                        let isid_dense = (0..n * n).all(|k| d[k] == if k / n == k % n { 1.0 } else { 0.0 });
                        if why.is_empty() && a.is_identity() != isid_dense { why = format!("after fill({}): is_identity = {} but the entries say {}", c, a.is_identity(), isid_dense); }
                    }
                },
            }
            println!("{{\"kind\":\"moracle\",\"case\":\"fill\",\"n\":{},\"op\":\"fill\",\"a\":\"{}\",\"scalar\":{},\"ok\":{},\"finding_key\":\"c17-fill\",\"why\":{:?}}}", n, storage_str(&st), c, why.is_empty(), why);
        } }
    }
    // chains: two to four operations in a row (by-value, in-place and scalar), the operand of a later step being the result
    // of an earlier one, every intermediate result compared with the dense computation.  A third of the chains start from
    // Identity storage, whose representation after an in-place scalar operation is the delicate one.
    let mut r3 = Rng(seed ^ 0xC17C);
    for case in 0..cases {
        let n = 1 + r3.below(maxn);
        let start_id = r3.chance(0.34);
        let (mut a, desc) = if start_id { (Matrix::identity(n), "identity".to_string()) } else { build(&mut r3, n) };
        let mut why = String::new();
        let mut trail = String::new();
        let mut da = match dense_of(&a) { Some(d) => d, None => { why = "constructor result cannot be read".into(); vec![] } };
        let steps = 2 + r3.below(3);
        for _ in 0..steps {
            if !why.is_empty() { break; }
            let opk = r3.below(9);
            let c = if r3.chance(0.25) { 0.0 } else { rand_val(&mut r3) };
            // the other operand: a fresh matrix, the identity, or a scaled identity made in place
            let (b, bname) = match r3.below(4) {
                0 => (Matrix::identity(n), "I"),
                1 => { let mut m = Matrix::identity(n); m.component_mul_mut(c); (m, "cI(mut)") }
                _ => (build(&mut r3, n).0, "M"),
            };
            let db = match dense_of(&b) { Some(d) => d, None => { why = format!("operand {} cannot be read", bname); break; } };
            let opname = ["add", "sub", "add_assign", "sub_assign", "sub_assign_ref", "cadd", "csub", "cmul", "cmulmut"][opk];
            trail += &format!("{}{} ", opname, if opk < 5 { format!("[{}]", bname) } else { format!("[{}]", c) });
            let a0 = a.clone();
            let res = catch_unwind(AssertUnwindSafe(move || { let mut a = a0; match opk {
                0 => a + b,
                1 => a - b,
                2 => { a += b; a }
                3 => { a -= b; a }
                4 => { a -= &b; a }
                5 => a.component_add(c),
                6 => a.component_sub(c),
                7 => a.component_mul(c),
                _ => { a.component_mul_mut(c); a }
            } }));
            match res {
                Err(_) => { why = format!("{} panicked on well-formed operands", opname); }
                Ok(r) => match dense_of(&r) {
                    None => why = format!("result of {} cannot be read", opname),
                    Some(dr) => {
                        for k in 0..n * n {
                            let want = match opk { 0 | 2 => da[k] + db[k], 1 | 3 | 4 => da[k] - db[k], 5 => da[k] + c, 6 => da[k] - c, _ => da[k] * c };
                            if dr[k] != want { why = format!("after `{}`: entry ({},{}) = {} but the dense computation gives {}", trail.trim_end(), k / n, k % n, dr[k], want); break; }
                        }
                        let isid_dense = (0..n * n).all(|k| dr[k] == if k / n == k % n { 1.0 } else { 0.0 });
                        if why.is_empty() && r.is_identity() != isid_dense { why = format!("after `{}`: is_identity = {} but the entries say {}", trail.trim_end(), r.is_identity(), isid_dense); }
                        da = dr; a = r;
                    }
                },
            }
        }
        println!("{{\"kind\":\"moracle\",\"case\":\"chain{}\",\"n\":{},\"op\":\"chain\",\"a\":\"{}\",\"trail\":{:?},\"ok\":{},\"finding_key\":\"c17-chain\",\"why\":{:?}}}", case, n, desc, trail.trim_end(), why.is_empty(), why);
    }
    for case in 0..cases {
        let n = 1 + rng.below(maxn);
        let (a, da_desc) = build(&mut rng, n);
        let (b, db_desc) = build(&mut rng, n);
        let mut why = String::new();
        let (da, db) = (dense_of(&a), dense_of(&b));
        let opk = rng.below(6);
        let c = if rng.chance(0.3) { 0.0 } else { rand_val(&mut rng) };
        let opname = ["add", "sub", "cadd", "csub", "cmul", "readwrite"][opk];
        if da.is_none() { why = format!("constructor result cannot be read: {}", da_desc); }
        if db.is_none() && why.is_empty() { why = format!("constructor result cannot be read: {}", db_desc); }
        if why.is_empty() {
            let (da, db) = (da.unwrap(), db.unwrap());
            let res = catch_unwind(AssertUnwindSafe(|| match opk {
                0 => a.clone() + b.clone(),
                1 => a.clone() - b.clone(),
                2 => a.clone().component_add(c),
                3 => a.clone().component_sub(c),
                4 => a.clone().component_mul(c),
                _ => a.clone(),
            }));
            match res {
                Err(_) => why = format!("{} panicked on well-formed operands", opname),
                Ok(r) => match dense_of(&r) {
                    None => why = format!("result of {} cannot be read", opname),
                    Some(dr) => {
                        for k in 0..n * n {
                            let want = match opk { 0 => da[k] + db[k], 1 => da[k] - db[k], 2 => da[k] + c, 3 => da[k] - c, 4 => da[k] * c, _ => da[k] };
                            if dr[k] != want {
                                why = format!("{}: entry ({},{}) = {} but dense equivalent gives {}", opname, k / n, k % n, dr[k], want);
                                break;
                            }
                        }
                        // is_identity agrees with the dense definition
                        let isid_dense = (0..n * n).all(|k| dr[k] == if k / n == k % n { 1.0 } else { 0.0 });
                        if why.is_empty() && r.is_identity() != isid_dense {
                            why = format!("is_identity = {} but dense definition gives {}", r.is_identity(), isid_dense);
                        }
                    }
                },
            }
            // write semantics on A
            if why.is_empty() && opk == 5 {
                let (i, j) = (rng.below(n), rng.below(n));
                let v = rand_val(&mut rng) + 100.0;
                let inband = match &a.storage { MatrixStorage::Full => true, MatrixStorage::Identity => false, MatrixStorage::Banded { ml, mu } => j <= i + *mu && i <= j + *ml };
                let mut a2 = a.clone();
                let r = catch_unwind(AssertUnwindSafe(|| { a2[(i, j)] = v; a2 }));
                match (r, inband) {
                    (Ok(a2), true) => {
                        let d2 = dense_of(&a2).unwrap_or_default();
                        for k in 0..n * n {
                            let want = if k == i * n + j { v } else { da[k] };
                            if d2.get(k).copied() != Some(want) { why = format!("write ({},{}) changed entry ({},{})", i, j, k / n, k % n); break; }
                        }
                    }
                    (Err(_), false) => {}
                    (Ok(_), false) => why = format!("write outside the band / into Identity at ({},{}) did not panic", i, j),
                    (Err(_), true) => why = format!("in-band write at ({},{}) panicked", i, j),
                }
            }
        }
        println!(
            "{{\"kind\":\"moracle\",\"case\":{},\"n\":{},\"op\":\"{}\",\"a\":\"{} {}\",\"b\":\"{} {}\",\"scalar\":{},\"ok\":{},\"why\":{:?}}}",
            case, n, opname, storage_str(&a.storage), da_desc, storage_str(&b.storage), db_desc, c, why.is_empty(), why
        );
    }
}
