//! X-solve: runs the low-level explicit solvers with an instrumented right-hand side and a scripted callback,
//! records every call (arguments and results) and every callback, and writes the case as op lines for the Lean
//! control-skeleton models.
use crate::common::*;
use crate::problems::*;
use ivp::methods::{DOP853, DOPRI5, RK23, RK4};
use ivp::prelude::*;
use std::cell::RefCell;
use std::fmt::Write as _;

struct LogF<'a> {
    p: &'a Prob,
    log: RefCell<Vec<(f64, Vec<f64>, Vec<f64>)>>,
}
impl<'a> IVP for LogF<'a> {
    fn ode(&self, t: f64, y: &[f64], d: &mut [f64]) {
        self.p.rhs(t, y, d);
        self.log.borrow_mut().push((t, y.to_vec(), d.to_vec()));
    }
}

fn status_str(s: Status) -> &'static str {
    match s {
        Status::Success => "Success",
        Status::UserInterrupt => "UserInterrupt",
        Status::NeedLargerNMax => "NeedLargerNMax",
        Status::StepSizeTooSmall => "StepSizeTooSmall",
        Status::ProbablyStiff => "ProbablyStiff",
        _ => "Other",
    }
}

pub fn run(args: &[String]) {
    let seed: u64 = args.get(0).and_then(|s| s.parse().ok()).unwrap_or(1);
    let cases: usize = args.get(1).and_then(|s| s.parse().ok()).unwrap_or(100);
    let prefix = args.get(2).cloned().unwrap_or_else(|| "/tmp/xsolve".into());
    let mut rng = Rng(seed ^ 0x501E);
    let (mut ops, mut out) = (String::new(), String::new());
    let mut hist: std::collections::HashMap<String, usize> = std::collections::HashMap::new();
    let kinds = [Kind::Harmonic, Kind::Logistic, Kind::Decay3, Kind::Riccati, Kind::VdP, Kind::Mixed, Kind::Stiff, Kind::Blowup];
    for id in 0..cases {
        let kind = *rng.pick(&kinds);
        let method = *rng.pick(&EXPLICIT);
        let p = Prob::new(kind);
        let n = p.n();
        let span = match rng.below(8) { 0 => 1e-9, 1 => 30.0, _ => rng.range(0.2, 3.0) };
        let back = rng.chance(0.35);
        let x0 = if rng.chance(0.3) { rng.range(-1.0, 1.0) } else { 0.0 };
        // far from the origin one ulp of the time exceeds every absolute tolerance in the code: the landing on xend, the
        // underflow guards and the callbacks' end points are then decided by rounding
        let x0 = if rng.chance(0.12) { x0 + [1e3, -1e4, 1e5, -3e5][rng.below(4)] * rng.range(0.5, 1.5) } else { x0 };
        let xend = if back { x0 - span } else { x0 + span };
        let sgn = if back { -1.0 } else { 1.0 };
        let rtol_s = 10f64.powf(-rng.range(2.0, 9.0));
        let vector_tol = rng.chance(0.3);
        let rtol: Vec<f64> = if vector_tol { (0..n).map(|_| rtol_s * rng.range(0.5, 2.0)).collect() } else { vec![rtol_s; n] };
        let atol: Vec<f64> = if rng.chance(0.15) { vec![0.0; n] } else if vector_tol { (0..n).map(|_| rtol_s * rng.range(1e-3, 1e-1)).collect() } else { vec![rtol_s * 1e-2; n] };
        let first = match rng.below(6) { 0 => Some(span * 0.02), 1 => Some(span * 3.0), 2 => Some(-span * 0.1), _ => None };
        let maxstep = match rng.below(6) { 0 => Some(span / 7.0), 1 => Some(f64::INFINITY), 2 => Some(span * 0.011), _ => None };
        let nmax = if rng.chance(0.25) { 1 + rng.below(40) } else { 100_000 };
        let dense = rng.chance(0.75);
        // directed: a stiff problem long enough for the stiffness detector of DOPRI5 / DOP853 to end the run (ProbablyStiff)
        let stiff_exit = id % 40 == 7;
        let (kind, method, p, n, span, back, x0, xend, sgn) = if stiff_exit {
            let m = if (id / 40) % 2 == 0 { Method::DOPRI5 } else { Method::DOP853 };
            (Kind::Stiff, m, Prob::new(Kind::Stiff), 2, 12.0, false, 0.0, 12.0, 1.0)
        } else { (kind, method, p, n, span, back, x0, xend, sgn) };
        // directed: the solution overflows although the right-hand side stays finite (the non-finite-candidate guard)
        let huge = id % 40 == 11;
        let (kind, method, p, n, span, x0, xend, sgn) = if huge {
            let m = [Method::RK23, Method::DOPRI5, Method::DOP853][(id / 40) % 3];
            let e: f64 = if (id / 120) % 2 == 0 { 10.0 } else { -10.0 };
            (Kind::Huge, m, Prob::new(Kind::Huge), 2, 10.0, 0.0, e, e.signum())
        } else { (kind, method, p, n, span, x0, xend, sgn) };
        let (rtol, atol, vector_tol) = if stiff_exit { (vec![1e-5; 2], vec![1e-8; 2], false) } else if huge { (vec![1e-3; 2], vec![1e-6; 2], false) } else { (rtol, atol, vector_tol) };
        let (first, maxstep, nmax) = if stiff_exit { (None, None, 100_000) } else if huge { (Some([1.0, 0.25, 10.0][(id / 40) % 3]), None, 100_000) } else { (first, maxstep, nmax) };
        let _ = back;
        let h4 = sgn * span / (3.0 + rng.below(40) as f64 + if rng.chance(0.5) { 0.37 } else { 0.0 });
        // directed: RK4 far from the origin with a fixed step below one rounding error of x (the stagnation guard)
        let stuck = id % 40 == 17;
        let (method, x0, xend, h4) = if stuck {
            let (a, sp, hh) = [(1e15, 1.0, 0.01), (1.0, 8.0 * f64::EPSILON, 1e-17), (-1e15, -8.0, -0.05), (1e8, 1e-7, 1e-9)][(id / 40) % 4];
            (Method::RK4, a, a + sp, hh)
        } else { (method, x0, xend, h4) };
        // script
        let mut script: Vec<(usize, Reply)> = vec![];
        let mut script_s: Vec<String> = vec![];
        for _ in 0..(if stiff_exit || huge { 0 } else { rng.below(3) }) {
            let k = rng.below(12);
            if script.iter().any(|(j, _)| *j == k) { continue; }
            if rng.chance(0.35) { script.push((k, Reply::Interrupt)); script_s.push(format!("{}:I", k)); }
            else { let c = *rng.pick(&[1.0, 2.0, 0.5, 1.25]); script.push((k, Reply::Modify(c))); script_s.push(format!("{}:M{}", k, hx(c))); }
        }
        let lf = LogF { p: &p, log: RefCell::new(vec![]) };
        let mut rec = Recorder::new();
        rec.script = script.clone();
        let y0 = p.y0();
        let tolr: ivp::methods::Tolerance = if vector_tol { rtol.clone().into() } else { rtol[0].into() };
        let tola: ivp::methods::Tolerance = if vector_tol || atol[0] == 0.0 { atol.clone().into() } else { atol[0].into() };
        // every fifth DOPRI5 / DOP853 case runs the stiffness detector at every accepted step, or every second / seventh
        let nstiff: Option<usize> = if matches!(method, Method::DOPRI5 | Method::DOP853) && !stiff_exit && id % 5 == 3 { Some([1usize, 2, 7][(id / 5) % 3]) } else { None };
        let res = match method {
            Method::RK4 => RK4::builder().max_steps(nmax).dense_output(dense).build().solve(&lf, x0, &y0, xend, h4, Some(&mut rec)),
            Method::RK23 => RK23::builder().maybe_first_step(first).maybe_max_step(maxstep).max_steps(nmax).dense_output(dense).build().solve(&lf, x0, &y0, xend, tolr, tola, Some(&mut rec)),
            Method::DOPRI5 => match nstiff { Some(k) => DOPRI5::builder().maybe_first_step(first).maybe_max_step(maxstep).max_steps(nmax).dense_output(dense).stiff_test(k).build().solve(&lf, x0, &y0, xend, tolr, tola, Some(&mut rec)),
                None => DOPRI5::builder().maybe_first_step(first).maybe_max_step(maxstep).max_steps(nmax).dense_output(dense).build().solve(&lf, x0, &y0, xend, tolr, tola, Some(&mut rec)) },
            _ => match nstiff { Some(k) => DOP853::builder().maybe_first_step(first).maybe_max_step(maxstep).max_steps(nmax).dense_output(dense).stiff_test(k).build().solve(&lf, x0, &y0, xend, tolr, tola, Some(&mut rec)),
                None => DOP853::builder().maybe_first_step(first).maybe_max_step(maxstep).max_steps(nmax).dense_output(dense).build().solve(&lf, x0, &y0, xend, tolr, tola, Some(&mut rec)) },
        };
        let res = match res { Ok(r) => r, Err(_) => continue };
        if lf.log.borrow().len() > 60_000 { continue; }
        writeln!(ops, "case {}", id).unwrap();
        writeln!(out, "ok").unwrap();
        writeln!(
            ops,
            "method {} n={} x0={} xend={} rtol={} atol={} first={} maxstep={} nmax={} dense={} h={} script={} nstiff={}",
            method_name(method), n, hx(x0), hx(xend), hxs(&rtol), hxs(&atol),
            if method == Method::RK4 { "-".to_string() } else { first.map(hx).unwrap_or("-".into()) },
            if method == Method::RK4 { "-".to_string() } else { maxstep.map(hx).unwrap_or("-".into()) },
            nmax, dense as u8, hx(h4), if script_s.is_empty() { "-".to_string() } else { script_s.join(",") },
            nstiff.map(|k| k.to_string()).unwrap_or("-".into())
        )
        .unwrap();
        writeln!(out, "ok").unwrap();
        for (t, y, d) in lf.log.borrow().iter() {
            writeln!(ops, "ode {} {} {}", hx(*t), hxs(y), hxs(d)).unwrap();
            writeln!(out, "ok").unwrap();
        }
        writeln!(ops, "run").unwrap();
        let cbs: Vec<String> = rec.cbs.iter().map(|c| format!("{},{}:{}:{}", hx(c.xold), hx(c.x), hxs(&c.y), c.samples.iter().map(|s| hxs(s)).collect::<Vec<_>>().join("/"))).collect();
        // the recorder stores y *before* a Modify reply rewrites it: that is what the model logs as well
        writeln!(
            out,
            "res {} h={} nfev={} nstep={} nacc={} nrej={} calls={} mismatch=- cbs={} {}",
            status_str(res.status), hx(res.h), res.evals.ode, res.steps.total, res.steps.accepted, res.steps.rejected, lf.log.borrow().len(), cbs.len(), cbs.join("|")
        )
        .unwrap();
        *hist.entry(format!("{}:{}", method_name(method), status_str(res.status))).or_insert(0) += 1;
        *hist.entry(format!("rejections>0:{}", res.steps.rejected > 0)).or_insert(0) += 1;
        if !script.is_empty() { *hist.entry("scripted".into()).or_insert(0) += 1; }
    }
    std::fs::write(format!("{}.ops", prefix), &ops).unwrap();
    std::fs::write(format!("{}.impl", prefix), &out).unwrap();
    let mut h: Vec<_> = hist.iter().collect();
    h.sort();
    let hs = h.iter().map(|(k, v)| format!("\"{}\":{}", k, v)).collect::<Vec<_>>().join(",");
    println!("{{\"kind\":\"xsolve\",\"cases\":{},\"lines\":{},\"hist\":{{{}}}}}", cases, ops.lines().count(), hs);
}
