//! X-solout: feeds generated callback histories to the real `DefaultSolOut` (through the cfg-gated hook) and
//! writes the same histories as op lines for the Lean handler model.
use crate::common::*;
use crate::problems::*;
use ivp::dense::StepInterpolant;
use ivp::prelude::*;
use ivp::verif_hooks::HandlerProbe;
use std::fmt::Write as _;
use std::panic::{catch_unwind, AssertUnwindSafe};

/// quadratic test interpolant: c0 + θ (c1 − c0) + θ (1 − θ) c2
pub fn quad(xi: f64, yi: &mut [f64], cont: &[f64], xold: f64, h: f64) {
    let n = yi.len();
    let th = (xi - xold) / h;
    for i in 0..n {
        yi[i] = cont[i] + th * (cont[n + i] - cont[i]) + th * (1.0 - th) * cont[2 * n + i];
    }
}

fn rows(v: &[Vec<f64>]) -> String {
    v.iter().map(|r| hxs(r)).collect::<Vec<_>>().join(";")
}

pub struct Case {
    pub n: usize,
    pub events: Vec<EventSpec>,
    pub collect: bool,
    pub first: Option<f64>,
    pub x0: f64,
    pub teval: Option<Vec<f64>>,
    /// (xold, x, y, interp: Option<(xoldI, h, c0, c1, c2)>)
    pub cbs: Vec<(f64, f64, Vec<f64>, Option<(f64, f64, Vec<f64>, Vec<f64>, Vec<f64>)>)>,
}

pub fn run_case(case: &Case, id: usize, ops: &mut String, out: &mut String, stats: &mut std::collections::HashMap<String, usize>) {
    let mut p = Prob::new(Kind::Const);
    p.events = case.events.clone();
    writeln!(ops, "case {}", id).unwrap();
    writeln!(out, "ok").unwrap();
    for e in &case.events {
        writeln!(ops, "ev {} {} {} {} {}", hx(e.a), hx(e.c), e.dir, e.terminal.map(|k| k.to_string()).unwrap_or("-".into()), hxs(&e.b)).unwrap();
        writeln!(out, "ok").unwrap();
    }
    writeln!(
        ops,
        "cfg n={} collect={} first={} x0={} teval={}",
        case.n,
        case.collect as u8,
        case.first.map(hx).unwrap_or("-".into()),
        hx(case.x0),
        case.teval.as_ref().map(|v| if v.is_empty() { "".to_string() } else { hxs(v) }).unwrap_or("-".into())
    )
    .unwrap();
    writeln!(out, "ok").unwrap();
    let mut probe = Some(HandlerProbe::new(&p, case.teval.clone(), case.collect, case.first, case.x0, case.n));
    let mut dead = false;
    let mut panicked = false;
    for (xold, x, y, ip) in &case.cbs {
        match ip {
            Some((xo, h, c0, c1, c2)) => writeln!(ops, "cb {} {} {} {} {} {} {} {}", hx(*xold), hx(*x), hxs(y), hx(*xo), hx(*h), hxs(c0), hxs(c1), hxs(c2)).unwrap(),
            None => writeln!(ops, "cb {} {} {}", hx(*xold), hx(*x), hxs(y)).unwrap(),
        }
        if dead {
            writeln!(out, "skipped").unwrap();
            continue;
        }
        let mut xx = *x;
        let mut yy = y.clone();
        let cont: Vec<f64> = match ip {
            Some((_, _, c0, c1, c2)) => c0.iter().chain(c1.iter()).chain(c2.iter()).cloned().collect(),
            None => vec![],
        };
        let pr = probe.as_mut().unwrap();
        let res = catch_unwind(AssertUnwindSafe(|| match ip {
            Some((xo, h, _, _, _)) => {
                let si = StepInterpolant::new(&cont, *xo, *h, quad);
                pr.callback(*xold, &mut xx, &mut yy, Some(&si))
            }
            None => pr.callback(*xold, &mut xx, &mut yy, None),
        }));
        let s = match res {
            Ok(ControlFlag::Continue) => "flag cont",
            Ok(ControlFlag::Interrupt) => { dead = true; "flag interrupt" }
            Ok(_) => { dead = true; "flag other" }
            Err(_) => { dead = true; panicked = true; "flag panic" }
        };
        *stats.entry(s.to_string()).or_insert(0) += 1;
        // the handler receives the solver's own abscissa and state by mutable reference: what it leaves there is output too
        if panicked { writeln!(out, "{}", s).unwrap(); } else { writeln!(out, "{} x={} y={}", s, hx(xx), hxs(&yy)).unwrap(); }
    }
    writeln!(ops, "end").unwrap();
    let (t, y, te, ye, segs) = probe.take().unwrap().into_payload();
    let tes = te.iter().map(|v| hxs(v)).collect::<Vec<_>>().join("|");
    let yes = ye.iter().map(|v| rows(v)).collect::<Vec<_>>().join("|");
    let sg = segs.iter().map(|(_, xo, h)| format!("{},{}", hx(*xo), hx(*h))).collect::<Vec<_>>().join(";");
    if panicked {
        // the handler's state after a panic is unspecified (partially updated): not compared
        writeln!(out, "end after-panic").unwrap();
    } else {
        writeln!(out, "end t=[{}] y=[{}] te=[{}] ye=[{}] segs=[{}]", hxs(&t), rows(&y), tes, yes, sg).unwrap();
    }
    if !t.is_empty() { *stats.entry("cases_with_samples".into()).or_insert(0) += 1; }
    if te.iter().any(|v| !v.is_empty()) { *stats.entry("cases_with_events".into()).or_insert(0) += 1; }
    if te.iter().map(|v| v.len()).sum::<usize>() >= 2 { *stats.entry("cases_with_2plus_events".into()).or_insert(0) += 1; }
}

pub fn gen_case(rng: &mut Rng) -> Case {
    let n = 1 + rng.below(3);
    let fwd = rng.chance(0.6);
    let dir = if fwd { 1.0 } else { -1.0 };
    let x0 = if rng.chance(0.3) { 0.0 } else { rng.range(-2.0, 2.0) };
    let nsteps = 1 + rng.below(10);
    // step grid
    let mut xs = vec![x0];
    for _ in 0..nsteps {
        let h = if rng.chance(0.1) { rng.range(1e-13, 3e-12) } else if rng.chance(0.3) { (1 + rng.below(8)) as f64 / 16.0 } else { rng.range(0.02, 0.6) };
        xs.push(xs.last().unwrap() + dir * h);
    }
    // states: smooth-ish random walk
    let mut ys: Vec<Vec<f64>> = vec![(0..n).map(|_| rng.range(-1.0, 1.0)).collect()];
    for k in 1..=nsteps {
        let prev = ys[k - 1].clone();
        ys.push(prev.iter().map(|v| v + rng.range(-0.8, 0.8)).collect());
    }
    // events
    let nev = if rng.chance(0.25) { 0 } else { 1 + rng.below(3) };
    let mut events = vec![];
    for _ in 0..nev {
        let a = if rng.chance(0.5) { 1.0 } else if rng.chance(0.5) { 0.0 } else { rng.range(-1.0, 1.0) };
        let b: Vec<f64> = (0..n).map(|_| if rng.chance(0.5) { 0.0 } else { rng.range(-1.0, 1.0) }).collect();
        // place the level so that a crossing is likely somewhere along the history
        let k = rng.below(nsteps + 1);
        let mut g = a * xs[k];
        for i in 0..n { g += b[i] * ys[k][i]; }
        let c = if rng.chance(0.15) { g } else { g + rng.range(-0.3, 0.3) };
        let terminal = if rng.chance(0.35) { Some(1 + rng.below(2)) } else { None };
        // now and then the whole event function is scaled to the edge of the f64 range (sign tests on products underflow)
        let sc = if rng.chance(0.12) { [1e-170, 1e-300, 1e200, 1e-13][rng.below(4)] } else { 1.0 };
        let (a, b, c) = (a * sc, b.iter().map(|v| v * sc).collect::<Vec<f64>>(), c * sc);
        events.push(EventSpec { a, b, c, dir: [-1, 0, 1][rng.below(3)], terminal });
    }
    // output mode
    let mut teval = None;
    let mut first = None;
    if rng.chance(0.45) {
        let xend = *xs.last().unwrap();
        let mut pts = vec![];
        for k in 0..xs.len() {
            if rng.chance(0.4) { pts.push(xs[k]); }
            if rng.chance(0.15) { pts.push(xs[k] + dir * 5e-13); }
            if rng.chance(0.15) { pts.push(xs[k] - dir * 5e-13); }
            if k + 1 < xs.len() {
                let m = rng.below(3);
                for _ in 0..m { pts.push(xs[k] + (xs[k + 1] - xs[k]) * rng.unit()); }
            }
        }
        if rng.chance(0.2) && !pts.is_empty() { let d = pts[rng.below(pts.len())]; pts.push(d); }
        // now and then: a requested time a little beyond an interior step end and a terminal time event between the two
        if rng.chance(0.15) && xs.len() > 2 {
            let k = 1 + rng.below(xs.len() - 2);
            pts.push(xs[k] + dir * 8e-13);
            events.push(EventSpec { a: 1.0, b: vec![0.0; n], c: xs[k] + dir * 2e-13, dir: 0, terminal: Some(1) });
        }
        pts.retain(|t| (t - x0) * dir >= -1e-12 && (xend - t) * dir >= -1e-12);
        pts.sort_by(|a, b| if fwd { a.partial_cmp(b).unwrap() } else { b.partial_cmp(a).unwrap() });
        teval = Some(pts);
    } else if rng.chance(0.4) {
        let span = (xs.last().unwrap() - x0).abs();
        first = Some(match rng.below(5) {
            0 => span * 2.0,
            1 => -(xs[1] - x0).abs() * 0.5,
            2 => (xs[1] - x0).abs(),
            _ => span * rng.unit(),
        });
    }
    let collect = rng.chance(0.5);
    // callbacks
    let mut cbs = vec![(x0, x0, ys[0].clone(), None)];
    for k in 1..=nsteps {
        let (xold, x) = (xs[k - 1], xs[k]);
        let c2: Vec<f64> = (0..n).map(|_| if rng.chance(0.3) { 0.0 } else { rng.range(-1.5, 1.5) }).collect();
        let ip = if rng.chance(0.04) { None } else { Some((xold, x - xold, ys[k - 1].clone(), ys[k].clone(), c2)) };
        cbs.push((xold, x, ys[k].clone(), ip));
    }
    Case { n, events, collect, first, x0, teval, cbs }
}

pub fn run(args: &[String]) {
    std::panic::set_hook(Box::new(|_| {}));
    let seed: u64 = args.get(0).and_then(|s| s.parse().ok()).unwrap_or(1);
    let cases: usize = args.get(1).and_then(|s| s.parse().ok()).unwrap_or(500);
    let prefix = args.get(2).cloned().unwrap_or_else(|| "/tmp/xsolout".into());
    let mut rng = Rng(seed ^ 0x5010);
    let (mut ops, mut out) = (String::new(), String::new());
    let mut stats = std::collections::HashMap::new();
    for id in 0..cases {
        let c = gen_case(&mut rng);
        if c.teval.is_some() { *stats.entry("mode1_teval".to_string()).or_insert(0) += 1; }
        else if c.first.is_some() { *stats.entry("mode2_first_step".to_string()).or_insert(0) += 1; }
        else { *stats.entry("mode2_plain".to_string()).or_insert(0) += 1; }
        run_case(&c, id, &mut ops, &mut out, &mut stats);
    }
    std::fs::write(format!("{}.ops", prefix), &ops).unwrap();
    std::fs::write(format!("{}.impl", prefix), &out).unwrap();
    let mut h: Vec<_> = stats.iter().collect();
    h.sort();
    let hist = h.iter().map(|(k, v)| format!("\"{}\":{}", k, v)).collect::<Vec<_>>().join(",");
    println!("{{\"kind\":\"xsolout\",\"cases\":{},\"lines\":{},\"hist\":{{{}}}}}", cases, ops.lines().count(), hist);
}
