//! X-fdjac: the default finite-difference Jacobian of the `IVP` trait (src/ivp.rs) on right-hand sides that do NOT override
//! `jac`, next to the Lean model (Model/FdJac.lean over the translated increment and difference quotient): every entry must
//! agree bit for bit.  States of every sign and size (the increment must follow |y_j|), affine and quadratic right-hand sides.
use crate::common::*;
use ivp::prelude::*;
use std::io::Write as _;

/// kind 0: f_r = b_r + Σ_c A[r][c] y_c;  kind 1: f_r = b_r + Σ_c A[r][c] y_c y_{(c+1) mod n}  (accumulated left to right)
struct P { kind: usize, n: usize, a: Vec<f64>, b: Vec<f64> }
impl IVP for P {
    fn ode(&self, _x: f64, y: &[f64], d: &mut [f64]) {
        for r in 0..self.n {
            let mut s = self.b[r];
            for c in 0..self.n {
                if self.kind == 0 { s += self.a[r * self.n + c] * y[c]; } else { s += self.a[r * self.n + c] * y[c] * y[(c + 1) % self.n]; }
            }
            d[r] = s;
        }
    }
}

pub fn run(args: &[String]) {
    let seed: u64 = args.get(0).and_then(|s| s.parse().ok()).unwrap_or(1);
    let cases: usize = args.get(1).and_then(|s| s.parse().ok()).unwrap_or(300);
    let prefix = args.get(2).cloned().unwrap_or_else(|| "/tmp/xfdjac".into());
    let mut rng = Rng(seed ^ 0xFD);
    let mut ops = std::fs::File::create(format!("{prefix}.ops")).unwrap();
    let mut out = std::fs::File::create(format!("{prefix}.impl")).unwrap();
    let mut hist: std::collections::BTreeMap<String, usize> = Default::default();
    for case in 0..cases {
        let n = 1 + rng.below(6);
        let kind = rng.below(2);
        let a: Vec<f64> = (0..n * n).map(|_| if rng.chance(0.25) { 0.0 } else { rng.range(-3.0, 3.0) * 10f64.powi(rng.below(7) as i32 - 3) }).collect();
        let b: Vec<f64> = (0..n).map(|_| rng.range(-2.0, 2.0)).collect();
        // the size class of the state: O(1), tiny, large, huge — with both signs inside one vector
        let class = case % 5;
        let y: Vec<f64> = (0..n).map(|_| {
            let m = match class { 0 => rng.range(0.0, 2.0), 1 => rng.range(0.0, 1e-9), 2 => rng.range(1.0, 1e4), 3 => rng.range(1e7, 1e10), _ => 10f64.powf(rng.range(-12.0, 14.0)) };
            if rng.chance(0.5) { -m } else { m }
        }).collect();
        *hist.entry(format!("kind{} class{}", kind, class)).or_default() += 1;
        let p = P { kind, n, a: a.clone(), b: b.clone() };
        let mut j = Matrix::zeros(n, n);
        p.jac(0.25, &y, &mut j);
        let flat: Vec<f64> = (0..n * n).map(|i| j[(i / n, i % n)]).collect();
        writeln!(ops, "fdj {} {} {} {} {}", kind, n, hxs(&a), hxs(&b), hxs(&y)).unwrap();
        writeln!(out, "J {}", hxs(&flat)).unwrap();
    }
    println!("{{\"stream\":\"xfdjac\",\"cases\":{},\"distribution\":{:?}}}", cases, hist);
}
