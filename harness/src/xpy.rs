//! X-py: the Rust side of the Python-binding co-simulation (C20).
//! Writes `<prefix>.cases` (one JSON object per line: what bin/py_cosim.py must call `ivp.solve_ivp` with) and
//! `<prefix>.ops` (what the Rust `solve_ivp` returned for the same problem and options, as line-protocol input of the
//! Lean model of `build_result` / `evaluate_array` / `group_columns`).
use crate::common::*;
use crate::problems::*;
use ivp::prelude::*;
use std::fmt::Write as _;
use std::io::Write as _;

fn hq(x: f64) -> String { format!("\"{}\"", hx(x)) }
fn hql(xs: &[f64]) -> String { format!("[{}]", xs.iter().map(|x| hq(*x)).collect::<Vec<_>>().join(",")) }
fn opt(x: Option<f64>) -> String { x.map(hq).unwrap_or("null".into()) }
fn rows(v: &[Vec<f64>]) -> String { if v.is_empty() { "-".into() } else { v.iter().map(|r| hxs(r)).collect::<Vec<_>>().join(";") } }

pub fn run(args: &[String]) {
    let seed: u64 = args.get(0).and_then(|s| s.parse().ok()).unwrap_or(1);
    let cases: usize = args.get(1).and_then(|s| s.parse().ok()).unwrap_or(100);
    let prefix = args.get(2).cloned().unwrap_or("/dev/null".into());
    let mut rng = Rng(seed ^ 0xC20);
    let mut cf = std::io::BufWriter::new(std::fs::File::create(format!("{prefix}.cases")).unwrap());
    let mut of = std::io::BufWriter::new(std::fs::File::create(format!("{prefix}.ops")).unwrap());
    let mut hist: std::collections::BTreeMap<String, usize> = Default::default();
    let mut nops = 0usize;
    for id in 0..cases {
        // ---------------- a solve case
        let stiff = rng.chance(0.3);
        let (pyname, method): (Option<&str>, Method) = if stiff {
            *rng.pick(&[(Some("Radau"), Method::RADAU), (Some("BDF"), Method::BDF), (Some("radau"), Method::RADAU)])
        } else {
            *rng.pick(&[(Some("RK45"), Method::DOPRI5), (Some("DOPRI5"), Method::DOPRI5), (Some("rk23"), Method::RK23), (Some("RK23"), Method::RK23),
                        (Some("DOP853"), Method::DOP853), (Some("RK4"), Method::RK4), (None, Method::DOPRI5), (Some("LSODA"), Method::DOPRI5)])
        };
        let kind = if stiff { *rng.pick(&[Kind::Robertson, Kind::Decay3, Kind::VdP, Kind::Harmonic, Kind::Slow, Kind::Logistic]) }
                   else { *rng.pick(&[Kind::Harmonic, Kind::Logistic, Kind::Decay3, Kind::Riccati, Kind::VdP, Kind::Mixed, Kind::Slow]) };
        // every sixth case: an oscillating two-component problem over several periods with a non-terminal state event, so
        // that one event function fires several times (y_events entries with k >= 2 rows and n >= 2 columns)
        let multi = id % 6 == 1;
        let kind = if multi { *rng.pick(&[Kind::Harmonic, Kind::VdP, Kind::Mixed]) } else { kind };
        let span = if multi { rng.range(7.0, 14.0) } else { rng.range(0.3, 3.0) };
        let back = rng.chance(0.3);
        let x0 = if rng.chance(0.3) { rng.range(-1.0, 1.0) } else { 0.0 };
        let xend = if back { x0 - span } else { x0 + span };
        let sgn = if back { -1.0 } else { 1.0 };
        let tol = if rng.chance(0.2) { None } else { let r = 10f64.powf(-rng.range(3.0, 8.0)); Some((r, r * 1e-2)) };
        let first = if method == Method::RK4 || rng.chance(0.25) { Some(sgn * span * rng.range(0.005, 0.05)) } else { None };
        let maxstep = if rng.chance(0.25) { Some(span * rng.range(0.02, 0.3)) } else { None };
        let maxsteps = if rng.chance(0.15) { Some(3 + rng.below(40)) } else { None };
        let dense = rng.chance(0.5);
        let teval = if rng.chance(0.35) {
            let k = rng.below(7);
            let mut pts: Vec<f64> = (0..k).map(|_| x0 + (xend - x0) * rng.unit()).collect();
            if rng.chance(0.5) { pts.push(xend); }
            pts.sort_by(|a, b| if !back { a.partial_cmp(b).unwrap() } else { b.partial_cmp(a).unwrap() });
            Some(pts)
        } else { None };
        let mut p = Prob::new(kind);
        let n = p.n();
        let nev = if rng.chance(0.45) { 1 + rng.below(3) } else { 0 };
        let as_list = rng.chance(0.7); // a single event may be passed bare or in a list
        for _ in 0..nev {
            let time_ev = rng.chance(0.5);
            let mut b = vec![0.0; n];
            let (a, c) = if time_ev { (1.0, x0 + (xend - x0) * rng.range(0.1, 0.95)) } else { b[rng.below(n)] = 1.0; (0.0, p.y0()[0] * rng.range(0.3, 0.95)) };
            p.events.push(EventSpec { a, b, c, dir: [-1, 0, 0, 1][rng.below(4)], terminal: if rng.chance(0.3) { Some(if id % 4 == 3 { 2 } else { 1 }) } else { None } });
        }
        if multi {
            let mut b = vec![0.0; n];
            b[0] = 1.0;
            p.events.push(EventSpec { a: 0.0, b, c: 0.1, dir: [-1, 0, 1][id / 6 % 3], terminal: None });
        }
        let nev = p.events.len();
        let linear = matches!(kind, Kind::Harmonic | Kind::Decay3 | Kind::Slow);
        let jac = if !stiff { "none" } else { match rng.below(3) { 0 => "none", 1 => "callable", _ => if linear { "const" } else { "callable" } } };
        p.user_jac = jac != "none";
        let use_args = rng.chance(0.4);
        let nq = if dense { 1 + rng.below(5) } else { 0 };
        let queries: Vec<f64> = (0..nq).map(|_| x0 + (xend - x0) * rng.range(-0.2, 1.2)).collect();
        let scalar_q = x0 + (xend - x0) * rng.range(0.0, 1.0);
        // every fifth case with tolerances: rtol and/or atol given per component (a list, an ndarray or a tuple on the Python
        // side, Tolerance::Vector on the Rust side)
        let tolform = if tol.is_some() && method != Method::RK4 && id % 5 == 2 { 1 + (id / 5) % 3 } else { 0 };
        let rvec: Option<Vec<f64>> = if tolform == 1 || tolform == 3 { tol.map(|t| (0..n).map(|i| t.0 * (1.0 + 0.5 * i as f64)).collect()) } else { None };
        let avec: Option<Vec<f64>> = if tolform >= 2 { tol.map(|t| (0..n).map(|i| t.1 * (1.0 + i as f64)).collect()) } else { None };
        // --- the case, for Python
        let evs = if nev == 0 { "null".to_string() } else {
            format!("[{}]", p.events.iter().map(|e| format!("{{\"a\":{},\"b\":{},\"c\":{},\"dir\":{},\"pydir\":{},\"terminal\":{},\"tform\":{}}}", hq(e.a), hql(&e.b), hq(e.c), e.dir, (e.dir as f64) * [1.0, 0.5, 3.0, 0.25][(id + e.dir.unsigned_abs() as usize + e.b.len()) % 4], e.terminal.unwrap_or(0), id / 2 + e.b.len())).collect::<Vec<_>>().join(","))
        };
        writeln!(cf, "{{\"type\":\"solve\",\"id\":{},\"kind\":\"{:?}\",\"method\":{},\"x0\":{},\"xend\":{},\"rtol\":{},\"atol\":{},\"rtol_vec\":{},\"atol_vec\":{},\"first_step\":{},\"max_step\":{},\"max_steps\":{},\"t_eval\":{},\"dense\":{},\"events\":{},\"events_as_list\":{},\"jac\":\"{}\",\"args\":{},\"queries\":{},\"scalar_query\":{}}}",
            id, kind, pyname.map(|s| format!("\"{s}\"")).unwrap_or("null".into()), hq(x0), hq(xend), opt(tol.map(|t| t.0)), opt(tol.map(|t| t.1)), rvec.as_ref().map(|v| hql(v)).unwrap_or("null".into()), avec.as_ref().map(|v| hql(v)).unwrap_or("null".into()), opt(first), opt(maxstep),
            maxsteps.map(|v| v.to_string()).unwrap_or("null".into()), teval.as_ref().map(|v| hql(v)).unwrap_or("null".into()), dense, evs, as_list || nev != 1, jac, use_args, hql(&queries), hq(scalar_q)).unwrap();
        // --- the Rust run
        let mut o = match tol { Some((r, a)) => Options::builder().method(method).rtol(r).atol(a).build(), None => Options::builder().method(method).build() };
        if let Some(v) = &rvec { o.rtol = ivp::methods::Tolerance::Vector(v.clone()); }
        if let Some(v) = &avec { o.atol = ivp::methods::Tolerance::Vector(v.clone()); }
        o.first_step = first;
        o.max_step = maxstep;
        o.max_steps = maxsteps;
        o.dense_output = dense;
        o.t_eval = teval.clone();
        let y0 = p.y0();
        let res = std::panic::catch_unwind(std::panic::AssertUnwindSafe(|| solve_ivp(&p, x0, xend, &y0, o)));
        *hist.entry(format!("{}/{:?}", method_name(method), kind)).or_default() += 1;
        match res {
            Err(_) => { writeln!(of, "panic").unwrap(); nops += 1; }
            Ok(Err(e)) => { writeln!(of, "err {}", format!("{:?}", e).replace(' ', "_")).unwrap(); nops += 1; }
            Ok(Ok(sol)) => {
                let mut l = String::new();
                write!(l, "res n={} events={} constjac={} dense={} status={:?} nfev={} njev={} nlu={} t={} y={}", n, (nev > 0) as u8, (jac == "const") as u8,
                    sol.continuous_sol.is_some() as u8, sol.status, sol.nfev, sol.njev, sol.nlu, if sol.t.is_empty() { "-".into() } else { hxs(&sol.t) }, rows(&sol.y)).unwrap();
                if nev > 0 {
                    write!(l, " tev={}", sol.t_events.iter().map(|v| if v.is_empty() { "-".into() } else { hxs(v) }).collect::<Vec<_>>().join("|")).unwrap();
                    write!(l, " yev={}", sol.y_events.iter().map(|v| rows(v)).collect::<Vec<_>>().join("|")).unwrap();
                }
                writeln!(of, "{l}").unwrap();
                nops += 1;
                if let Some(c) = &sol.continuous_sol {
                    let vals: Vec<Option<Vec<f64>>> = queries.iter().map(|q| c.evaluate_extrapolate(*q)).collect();
                    if vals.iter().all(|v| v.is_some()) {
                        let flat: Vec<f64> = vals.into_iter().flat_map(|v| v.unwrap()).collect();
                        writeln!(of, "evalk k={} n={} vals={}", queries.len(), n, hxs(&flat)).unwrap();
                    } else { writeln!(of, "evalnone").unwrap(); }
                    match c.evaluate_extrapolate(scalar_q) { Some(v) => writeln!(of, "eval1 n={} vals={}", n, hxs(&v)).unwrap(), None => writeln!(of, "evalnone").unwrap() }
                    nops += 2;
                }
            }
        }
        // ---------------- a sparsity-pattern case every third solve case
        if id % 3 == 0 {
            let n = 1 + rng.below(10);
            let shape = rng.below(8);
            let dens = rng.range(0.05, 0.6);
            let mut pm = vec![vec![0u8; n]; n];
            for r in 0..n { for c in 0..n {
                let v = match shape {
                    0 => (r as i64 - c as i64).abs() <= 1,           // tridiagonal
                    1 => r == c || r == 0,                            // pool row
                    2 => r == c || c == 0,                            // arrow column
                    3 => r == c || r == c + 1,                        // lower bidiagonal
                    4 => true,                                        // dense
                    5 => r == c,                                      // diagonal
                    _ => r == c || rng.chance(dens),                  // random
                };
                pm[r][c] = v as u8;
            } }
            let mut indptr = vec![0usize];
            let mut indices = vec![];
            // every other pattern is handed over with the row indices of each column in shuffled storage order (a CSC matrix
            // need not have sorted indices: products of sparse matrices and hand-built ones do not)
            let unsorted = id % 2 == 0;
            for c in 0..n {
                let mut rows: Vec<usize> = (0..n).filter(|r| pm[*r][c] != 0).collect();
                if unsorted { for i in (1..rows.len()).rev() { let j = rng.below(i + 1); rows.swap(i, j); } }
                indices.extend(rows);
                indptr.push(indices.len());
            }
            let js = |v: &Vec<usize>| v.iter().map(|x| x.to_string()).collect::<Vec<_>>().join(",");
            writeln!(cf, "{{\"type\":\"group\",\"id\":{},\"n\":{},\"P\":[{}],\"unsorted\":{},\"indptr\":[{}],\"indices\":[{}],\"method\":\"{}\"}}", id, n,
                pm.iter().map(|r| format!("[{}]", r.iter().map(|x| x.to_string()).collect::<Vec<_>>().join(","))).collect::<Vec<_>>().join(","),
                unsorted, js(&indptr), js(&indices),
                if rng.chance(0.5) { "BDF" } else { "Radau" }).unwrap();
            writeln!(of, "group n={} indptr={} indices={}", n, js(&indptr), if indices.is_empty() { "-".into() } else { js(&indices) }).unwrap();
            nops += 1;
            *hist.entry(format!("group/shape{}", shape)).or_default() += 1;
        }
    }
    cf.flush().unwrap();
    of.flush().unwrap();
    println!("{{\"kind\":\"xpy-gen\",\"cases\":{},\"ops\":{},\"distribution\":{:?}}}", cases, nops, hist);
}
