//! Shared helpers: PRNG, hex floats, recording callbacks.
#![allow(dead_code)]
use ivp::prelude::*;
use ivp::solout::SolOut;

/// splitmix64 — every random choice in the harness derives from one seed
pub struct Rng(pub u64);
impl Rng {
    pub fn next_u64(&mut self) -> u64 {
        self.0 = self.0.wrapping_add(0x9E3779B97F4A7C15);
        let mut z = self.0;
        z = (z ^ (z >> 30)).wrapping_mul(0xBF58476D1CE4E5B9);
        z = (z ^ (z >> 27)).wrapping_mul(0x94D049BB133111EB);
        z ^ (z >> 31)
    }
    pub fn unit(&mut self) -> f64 {
        (self.next_u64() >> 11) as f64 / (1u64 << 53) as f64
    }
    pub fn range(&mut self, lo: f64, hi: f64) -> f64 {
        lo + (hi - lo) * self.unit()
    }
    pub fn below(&mut self, n: usize) -> usize {
        (self.next_u64() % n as u64) as usize
    }
    pub fn pick<'a, T>(&mut self, xs: &'a [T]) -> &'a T {
        &xs[self.below(xs.len())]
    }
    pub fn chance(&mut self, p: f64) -> bool {
        self.unit() < p
    }
}

/// hex bit pattern; every NaN is written as the canonical quiet NaN (sign and payload of NaNs are not compared)
pub fn hx(x: f64) -> String {
    if x.is_nan() { return "7ff8000000000000".to_string(); }
    format!("{:016x}", x.to_bits())
}
pub fn hxs(xs: &[f64]) -> String {
    xs.iter().map(|x| hx(*x)).collect::<Vec<_>>().join(",")
}
pub fn jnum(x: f64) -> String {
    if x.is_finite() { format!("{:e}", x) } else { format!("\"{}\"", x) }
}
pub fn jarr(xs: &[f64]) -> String {
    format!("[{}]", xs.iter().map(|x| jnum(*x)).collect::<Vec<_>>().join(","))
}

pub fn method_name(m: Method) -> &'static str {
    match m {
        Method::RK4 => "RK4",
        Method::RK23 => "RK23",
        Method::DOPRI5 => "DOPRI5",
        Method::DOP853 => "DOP853",
        Method::RADAU => "RADAU",
        Method::BDF => "BDF",
    }
}
pub const ALL_METHODS: [Method; 6] = [Method::RK4, Method::RK23, Method::DOPRI5, Method::DOP853, Method::RADAU, Method::BDF];
pub const ADAPTIVE: [Method; 5] = [Method::RK23, Method::DOPRI5, Method::DOP853, Method::RADAU, Method::BDF];
pub const EXPLICIT: [Method; 4] = [Method::RK4, Method::RK23, Method::DOPRI5, Method::DOP853];

/// One recorded callback
#[derive(Clone, Debug)]
pub struct Cb {
    pub xold: f64,
    pub x: f64,
    pub y: Vec<f64>,
    /// interpolant sampled at theta = 0, 1/4, 1/2, 3/4, 1 (empty if no interpolant)
    pub samples: Vec<Vec<f64>>,
    pub has_interp: bool,
}

/// Recording SolOut with a scripted reply per callback index.
pub struct Recorder {
    pub cbs: Vec<Cb>,
    pub script: Vec<(usize, Reply)>,
    pub thetas: Vec<f64>,
}
#[derive(Clone, Debug)]
pub enum Reply {
    Interrupt,
    /// multiply the state by this factor and return ModifiedSolution
    Modify(f64),
}
impl Recorder {
    pub fn new() -> Self {
        Recorder { cbs: vec![], script: vec![], thetas: vec![0.0, 0.25, 0.5, 0.75, 1.0] }
    }
}
impl SolOut for Recorder {
    fn solout(&mut self, xold: f64, x: &mut f64, y: &mut [f64], interpolant: Option<&ivp::dense::StepInterpolant<'_>>) -> ControlFlag {
        let idx = self.cbs.len();
        let mut samples = vec![];
        if let Some(ip) = interpolant {
            for th in &self.thetas {
                let mut yi = vec![0.0; y.len()];
                ip.interpolate(xold + th * (*x - xold), &mut yi);
                samples.push(yi);
            }
        }
        self.cbs.push(Cb { xold, x: *x, y: y.to_vec(), samples, has_interp: interpolant.is_some() });
        for (k, r) in &self.script {
            if *k == idx {
                match r {
                    Reply::Interrupt => { ivp::verif_hooks::trace("cb", &[1.0]); return ControlFlag::Interrupt; }
                    Reply::Modify(c) => {
                        for v in y.iter_mut() {
                            *v *= *c;
                        }
                        ivp::verif_hooks::trace("cb", &[2.0]);
                        return ControlFlag::ModifiedSolution;
                    }
                }
            }
        }
        // (the control trace of an instrumented solver records what the callback answered; a no-op otherwise)
        ivp::verif_hooks::trace("cb", &[0.0]);
        ControlFlag::Continue
    }
}
