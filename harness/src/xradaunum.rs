//! X-radaunum: full co-simulation of `RADAU::solve`.  The solver runs on an instrumented problem that logs every
//! right-hand-side call and every Jacobian call (arguments and results), with a scripted recording callback, an optional
//! mass matrix (several storages of the same matrix) and an index-2 partition; the Lean model `RadauNum.solve` re-runs
//! the case with those logs as oracles and must reproduce every call argument, every callback (interpolant sampled at
//! five points), the counters and the status bit for bit.
use crate::common::*;
use crate::problems::*;
use ivp::methods::{Tolerance, RADAU};
use ivp::prelude::*;
use std::cell::RefCell;
use std::fmt::Write as _;

/// M y' = rhs(t, y) with rhs either a `Prob` or, for mass cases, `M·(A y) + M·b(t)`-free linear tridiagonal `A y`
/// 0: the `Prob`;  1: draining tank y' = -sqrt(y) (NaN below 0);  2: y' = y, NaN once y > 2;
/// 3 / 4: linear problems whose real / complex iteration matrix is exactly singular at step size `h0`
#[derive(Clone, Copy, PartialEq)]
enum Special { No, Tank, GrowNan, SingReal(f64), SingComplex(f64) }

struct Logged<'a> {
    special: Special,
    p: &'a Prob,
    /// dense mass matrix (row-major), None = the trait default
    mass: Option<Vec<f64>>,
    /// right-hand side multiplied by the mass matrix (so that the solution does not depend on M) unless `dae`
    premultiply: bool,
    odes: RefCell<Vec<(f64, Vec<f64>, Vec<f64>)>>,
    jacs: RefCell<Vec<(f64, Vec<f64>, Vec<f64>)>>,
}
impl<'a> Logged<'a> {
    fn raw(&self, t: f64, y: &[f64], d: &mut [f64]) {
        let n = y.len();
        match self.special {
            Special::No => self.p.rhs(t, y, d),
            Special::Tank => { d[0] = -y[0].sqrt(); }
            Special::GrowNan => { d[0] = if y[0] > 2.0 { f64::NAN } else { y[0] }; }
            Special::SingReal(h0) => { let a = 3.637_834_252_744_496 / h0; d[0] = a * y[0]; d[1] = a * y[1]; }
            Special::SingComplex(h0) => { let (a, b) = (2.681_082_873_627_752_3 / h0, 3.050_430_199_247_410_5 / h0); d[0] = a * y[0] - b * y[1]; d[1] = b * y[0] + a * y[1]; }
        }
        if let (Some(m), true) = (&self.mass, self.premultiply) {
            let f: Vec<f64> = d.to_vec();
            for i in 0..n { let mut s = 0.0; for j in 0..n { s += m[i * n + j] * f[j]; } d[i] = s; }
        }
    }
}
impl<'a> IVP for Logged<'a> {
    fn ode(&self, t: f64, y: &[f64], d: &mut [f64]) {
        self.raw(t, y, d);
        self.odes.borrow_mut().push((t, y.to_vec(), d.to_vec()));
    }
    fn jac(&self, t: f64, y: &[f64], j: &mut Matrix) {
        let n = y.len();
        if let Special::SingReal(h0) = self.special {
            let a = 3.637_834_252_744_496 / h0; j[(0, 0)] = a; j[(0, 1)] = 0.0; j[(1, 0)] = 0.0; j[(1, 1)] = a;
        } else if let Special::SingComplex(h0) = self.special {
            let (a, b) = (2.681_082_873_627_752_3 / h0, 3.050_430_199_247_410_5 / h0); j[(0, 0)] = a; j[(0, 1)] = -b; j[(1, 0)] = b; j[(1, 1)] = a;
        } else if self.p.user_jac && self.mass.is_none() && self.special == Special::No {
            IVP::jac(self.p, t, y, j);
        } else {
            // forward differences on the (possibly premultiplied) right-hand side; not stepper evaluations
            let mut yp = y.to_vec();
            let (mut f0, mut f1) = (vec![0.0; n], vec![0.0; n]);
            self.raw(t, y, &mut f0);
            let eps = f64::EPSILON.sqrt();
            for c in 0..n {
                let h = eps * y[c].abs().max(1.0);
                yp[c] = y[c] + h;
                self.raw(t, &yp, &mut f1);
                yp[c] = y[c];
                for r in 0..n { j[(r, c)] = (f1[r] - f0[r]) / h; }
            }
        }
        let mut flat = Vec::with_capacity(n * n);
        for r in 0..n { for c in 0..n { flat.push(j[(r, c)]); } }
        self.jacs.borrow_mut().push((t, y.to_vec(), flat));
    }
    fn mass(&self, m: &mut Matrix) {
        match &self.mass {
            None => { if !matches!(m.storage, MatrixStorage::Identity) { for i in 0..m.n { m[(i, i)] = 1.0; } } }
            Some(mm) => {
                let n = m.n;
                for i in 0..n { for j in 0..n {
                    let v = mm[i * n + j];
                    let inband = match &m.storage { MatrixStorage::Full => true, MatrixStorage::Identity => false, MatrixStorage::Banded { ml, mu } => j <= i + *mu && i <= j + *ml };
                    if inband { m[(i, j)] = v; }
                } }
            }
        }
    }
}

fn st(s: Status) -> &'static str {
    match s { Status::Success => "Success", Status::UserInterrupt => "UserInterrupt", Status::NeedLargerNMax => "NeedLargerNMax",
              Status::StepSizeTooSmall => "StepSizeTooSmall", Status::SingularMatrix => "SingularMatrix", _ => "Other" }
}
fn o(x: Option<f64>) -> String { x.map(hx).unwrap_or("-".into()) }

pub fn run(args: &[String]) {
    std::panic::set_hook(Box::new(|_| {}));
    let seed: u64 = args.get(0).and_then(|s| s.parse().ok()).unwrap_or(1);
    let cases: usize = args.get(1).and_then(|s| s.parse().ok()).unwrap_or(100);
    let prefix = args.get(2).cloned().unwrap_or_else(|| "/dev/null".into());
    let mut rng = Rng(seed ^ 0x7AD0);
    let (mut ops, mut out) = (String::new(), String::new());
    let mut hist: std::collections::BTreeMap<String, usize> = Default::default();
    let (mut ncalls, mut ncbs) = (0usize, 0usize);
    let kinds = [Kind::Harmonic, Kind::Logistic, Kind::Decay3, Kind::Riccati, Kind::VdP, Kind::Mixed, Kind::Stiff, Kind::VdPStiff, Kind::Robertson, Kind::Blowup, Kind::Slow, Kind::Huge];
    for id in 0..cases {
        let kind = *rng.pick(&kinds);
        let mut p = Prob::new(kind);
        let n = p.n();
        p.user_jac = rng.chance(0.5);
        let y0 = if rng.chance(0.1) { vec![0.0; n] } else { p.y0() };
        let span = match kind { Kind::VdPStiff => rng.range(1.0, 900.0), Kind::Robertson => 10f64.powf(rng.range(-1.0, 3.0)), Kind::Blowup => rng.range(0.5, 2.0), _ => match rng.below(8) { 0 => 1e-9, 1 => 30.0, _ => rng.range(0.2, 3.0) } };
        let back = rng.chance(0.25) && !matches!(kind, Kind::VdPStiff | Kind::Robertson | Kind::Stiff);
        let x0 = if rng.chance(0.3) { rng.range(-2.0, 2.0) } else { 0.0 };
        let x0 = if rng.chance(0.1) { x0 + [1e3, -1e4, 1e5, -3e5][rng.below(4)] * rng.range(0.5, 1.5) } else { x0 };
        let xend = if back { x0 - span } else { x0 + span };
        let rtol_s = 10f64.powf(-rng.range(2.0, 8.0));
        let vector_tol = rng.chance(0.3);
        let rtol: Vec<f64> = if vector_tol { (0..n).map(|_| rtol_s * rng.range(0.5, 2.0)).collect() } else { vec![rtol_s; n] };
        let atol: Vec<f64> = if vector_tol { (0..n).map(|_| rtol_s * rng.range(1e-3, 1e-1)).collect() } else { vec![rtol_s * 1e-2; n] };
        let first = match rng.below(7) { 0 => Some(span * 0.02), 1 => Some(span * 3.0), 2 => Some(-span * 0.1), 3 => Some(1.0), _ => None };
        let maxstep = match rng.below(6) { 0 => Some(span / 7.0), 1 => Some(f64::INFINITY), _ => None };
        let minstep = if rng.chance(0.1) { Some(span * 1e-6) } else { None };
        let nmax = if rng.chance(0.2) { 1 + rng.below(60) } else { 2500 };
        let maxnewton = if rng.chance(0.25) { 2 + rng.below(5) } else { 7 };
        let predictive = rng.chance(0.8);
        let ntol = if rng.chance(0.1) { Some(10f64.powf(-rng.range(1.0, 4.0))) } else { None };
        let smin = if rng.chance(0.2) { 0.5 } else { 0.2 };
        let smax = if rng.chance(0.2) { 4.0 } else { 8.0 };
        let dense = rng.chance(0.85);
        // mass matrix: none (three storages of the default), a tridiagonal nonsingular one (Full / Banded storages)
        let mass_kind = rng.below(6);
        let (mass, mstorage): (Option<Vec<f64>>, MatrixStorage) = match mass_kind {
            0 => (None, MatrixStorage::Identity),
            1 => (None, MatrixStorage::Full),
            2 => (None, MatrixStorage::Banded { ml: rng.below(n), mu: rng.below(n) }),
            _ => {
                let mut m = vec![0.0; n * n];
                for i in 0..n { m[i * n + i] = 1.0 + rng.range(-0.2, 0.2); if i > 0 && mass_kind != 5 { m[i * n + i - 1] = rng.range(-0.3, 0.3); } if i + 1 < n { m[i * n + i + 1] = rng.range(-0.3, 0.3); } }
                let stg = match rng.below(3) { 0 => MatrixStorage::Full, 1 => MatrixStorage::Banded { ml: if mass_kind == 5 { 0 } else { 1.min(n - 1) }, mu: 1.min(n - 1) }, _ => MatrixStorage::Banded { ml: (n - 1).min(2), mu: (n - 1).min(2) } };
                (Some(m), stg)
            }
        };
        // index-2 partition on a few cases (only the scaling of the error weights is exercised; the problem stays an ODE)
        let nind2 = if n >= 2 && rng.chance(0.1) { 1 } else { 0 };
        // ... and an index-3 block behind it on a few; `nind1` is left to be inferred (the documented default) or given
        let nind3 = if n >= 3 && rng.chance(0.4) { 1 } else { 0 };
        let give_nind1 = rng.chance(0.3);
        let jstorage = if rng.chance(0.25) { MatrixStorage::Banded { ml: n - 1, mu: n - 1 } } else { MatrixStorage::Full };
        // directed cases: landing steps that run into Newton failures, breakdowns of the right-hand side, exactly singular
        // iteration matrices
        let mut special = Special::No;
        let (mut kind, mut n, mut y0, mut x0, mut xend, mut rtol, mut atol, mut first, mut maxstep, mut minstep, mut mass, mut mstorage, mut nind2, mut nind3, mut vector_tol) =
            (kind, n, y0, x0, xend, rtol, atol, first, maxstep, minstep, mass, mstorage, nind2, nind3, vector_tol);
        let mut scripted = true;
        match id % 15 {
            3 => { kind = Kind::VdPStiff; x0 = 0.0; xend = [805.0, 805.5, 806.0, 806.5, 807.0, 808.0][(id / 15) % 6]; rtol = vec![1e-3; 2]; atol = vec![1e-6; 2]; first = None; maxstep = None; minstep = None; mass = None; mstorage = MatrixStorage::Identity; nind2 = 0; nind3 = 0; vector_tol = false; scripted = false; }
            7 => { special = Special::Tank; x0 = 0.0; xend = 3.0; first = Some([0.01, 0.1, 1.0][(id / 15) % 3]); }
            11 => { special = Special::GrowNan; x0 = 0.0; xend = 2.0; first = Some([2.0, 0.5, 1.0][(id / 15) % 3]); }
            13 => { let h0 = [1.0, 0.25][(id / 15) % 2]; special = Special::SingReal(h0); x0 = 0.0; xend = 3.0; first = Some(h0); }
            14 => { let h0 = [1.0, 0.25][(id / 15) % 2]; special = Special::SingComplex(h0); x0 = 0.0; xend = 3.0; first = Some(h0); }
            _ => {}
        }
        if special != Special::No {
            n = if matches!(special, Special::Tank | Special::GrowNan) { 1 } else { 2 };
            y0 = if n == 1 { vec![1.0] } else { vec![1.0, 0.5] };
            rtol = vec![1e-3; n]; atol = vec![1e-6; n]; maxstep = None; minstep = None; mass = None; mstorage = MatrixStorage::Identity; nind2 = 0; nind3 = 0; vector_tol = false; scripted = false;
        }
        if id % 15 == 3 { p = Prob::new(kind); p.user_jac = true; n = 2; y0 = p.y0(); }
        // directed: an index-3 block (with or without an index-2 block before it) whose `nind1` is left to be inferred
        let mut give_nind1 = give_nind1;
        if id % 15 == 5 {
            kind = if (id / 15) % 2 == 0 { Kind::Decay3 } else { Kind::Robertson };
            p = Prob::new(kind); p.user_jac = (id / 30) % 2 == 0; n = 3; y0 = p.y0();
            x0 = 0.0; xend = if kind == Kind::Robertson { 40.0 } else { 2.0 };
            rtol = vec![1e-4; 3]; atol = vec![1e-7; 3]; vector_tol = false; first = None; maxstep = None; minstep = None;
            mass = None; mstorage = MatrixStorage::Identity;
            nind3 = 1; nind2 = (id / 15) % 3 % 2; give_nind1 = false; scripted = false;
        }
        let jstorage = if id % 15 == 5 { MatrixStorage::Full } else { jstorage };
        let mut rec = Recorder::new();
        let mut script = vec![];
        match if scripted { rng.below(6) } else { 5 } {
            0 => { let k = rng.below(8); rec.script.push((k, Reply::Interrupt)); script.push(format!("{}:I", k)); }
            1 => { let k = rng.below(12); let c = if rng.chance(0.5) { 1.0 } else { 1.5 }; rec.script.push((k, Reply::Modify(c))); script.push(format!("{}:M{}", k, hx(c))); }
            2 => { rec.script.push((0, Reply::Modify(1.0))); script.push(format!("0:M{}", hx(1.0))); let k = 1 + rng.below(6); rec.script.push((k, Reply::Modify(0.5))); script.push(format!("{}:M{}", k, hx(0.5))); }
            _ => {}
        }
        let b = RADAU::builder().max_steps(nmax).scale_min(smin).scale_max(smax).newton_maxiter(maxnewton).predictive(predictive)
            .maybe_newton_tol(ntol).maybe_first_step(first).maybe_max_step(maxstep).maybe_min_step(minstep)
            .mass_storage(mstorage.clone()).jac_storage(jstorage).dense_output(dense);
        let solver = b.maybe_nind1(if give_nind1 && nind2 + nind3 > 0 { Some(n - nind2 - nind3) } else { None })
            .maybe_nind2(if nind2 > 0 { Some(nind2) } else { None }).maybe_nind3(if nind3 > 0 { Some(nind3) } else { None }).build();
        let lp = Logged { special, p: &p, mass: mass.clone(), premultiply: true, odes: RefCell::new(vec![]), jacs: RefCell::new(vec![]) };
        let (rt, at): (Tolerance, Tolerance) = if vector_tol { (Tolerance::Vector(rtol.clone()), Tolerance::Vector(atol.clone())) } else { (Tolerance::Scalar(rtol[0]), Tolerance::Scalar(atol[0])) };
        let res = std::panic::catch_unwind(std::panic::AssertUnwindSafe(|| solver.solve(&lp, x0, &y0, xend, rt, at, Some(&mut rec))));
        let res = match res { Ok(Ok(r)) => r, _ => { *hist.entry("error-or-panic".into()).or_default() += 1; continue; } };
        *hist.entry(match special { Special::No => format!("{:?}/m{}/{}", kind, mass_kind.min(3), st(res.status)), Special::Tank => format!("Tank/{}", st(res.status)), Special::GrowNan => format!("GrowNaN/{}", st(res.status)), Special::SingReal(_) => format!("SingularReal/{}", st(res.status)), Special::SingComplex(_) => format!("SingularComplex/{}", st(res.status)) }).or_default() += 1;
        // the dense matrix the model works with
        let dense_mass: Vec<f64> = match &mass { Some(m) => m.clone(), None => { let mut m = vec![0.0; n * n]; for i in 0..n { m[i * n + i] = 1.0; } m } };
        // what a Banded storage cannot hold is zero for the solver too
        let dense_mass: Vec<f64> = match &mstorage { MatrixStorage::Banded { ml, mu } if mass.is_some() => (0..n * n).map(|k| { let (i, j) = (k / n, k % n); if j <= i + *mu && i <= j + *ml { dense_mass[k] } else { 0.0 } }).collect(), _ => dense_mass };
        writeln!(ops, "case {}", id).unwrap();
        writeln!(out, "ok").unwrap();
        writeln!(ops, "setup n={} x0={} xend={} rtol={} atol={} mass={} first={} maxstep={} minstep={} ntol={} nmax={} maxnewton={} smin={} smax={} pred={} nind1={} given1={} nind2={} nind3={} dense={} script={}",
            n, hx(x0), hx(xend), hxs(&rtol), hxs(&atol), hxs(&dense_mass), o(first), o(maxstep), o(minstep), o(ntol), nmax, maxnewton, hx(smin), hx(smax), predictive as u8,
            n - nind2 - nind3, (give_nind1 && nind2 + nind3 > 0) as u8, nind2, nind3, dense as u8, if script.is_empty() { "-".into() } else { script.join(",") }).unwrap();
        writeln!(out, "ok").unwrap();
        for (t, y, d) in lp.odes.borrow().iter() { writeln!(ops, "ode {} {} {}", hx(*t), hxs(y), hxs(d)).unwrap(); writeln!(out, "ok").unwrap(); }
        for (t, y, m) in lp.jacs.borrow().iter() { writeln!(ops, "jac {} {} {}", hx(*t), hxs(y), hxs(m)).unwrap(); writeln!(out, "ok").unwrap(); }
        ncalls += lp.odes.borrow().len() + lp.jacs.borrow().len();
        ncbs += rec.cbs.len();
        let cbs: Vec<String> = rec.cbs.iter().map(|c| format!("{},{}:{}:{}", hx(c.xold), hx(c.x), hxs(&c.y), c.samples.iter().map(|s| hxs(s)).collect::<Vec<_>>().join("/"))).collect();
        writeln!(ops, "run").unwrap();
        writeln!(out, "res {} h={} total={} acc={} rej={} ode={} jac={} lu={} odecalls={} jaccalls={} mism=- starved=0 cbs={} {}",
            st(res.status), hx(res.h), res.steps.total, res.steps.accepted, res.steps.rejected, res.evals.ode, res.evals.jac, res.evals.lu,
            lp.odes.borrow().len(), lp.jacs.borrow().len(), cbs.len(), cbs.join("|")).unwrap();
    }
    std::fs::write(format!("{prefix}.ops"), &ops).unwrap();
    std::fs::write(format!("{prefix}.impl"), &out).unwrap();
    println!("{{\"kind\":\"xradaunum-gen\",\"cases\":{},\"calls\":{},\"callbacks\":{},\"distribution\":{:?}}}", cases, ncalls, ncbs, hist);
}
