//! X-bdfnum: full co-simulation of `BDF::solve`.  The solver runs on an instrumented problem that logs every
//! right-hand-side call and every Jacobian call (arguments and results) and a scripted recording callback; the Lean
//! model `BdfNum.solve` re-runs the case with those logs as oracles and must reproduce every call argument, every
//! callback (with the interpolant sampled at five points), the counters and the status bit for bit.
use crate::common::*;
use crate::problems::*;
use ivp::methods::{Tolerance, BDF};
use ivp::prelude::*;
use std::cell::RefCell;
use std::fmt::Write as _;

struct Logged<'a> {
    p: &'a Prob,
    odes: RefCell<Vec<(f64, Vec<f64>, Vec<f64>)>>,
    jacs: RefCell<Vec<(f64, Vec<f64>, Vec<f64>)>>,
}
impl<'a> IVP for Logged<'a> {
    fn ode(&self, t: f64, y: &[f64], d: &mut [f64]) {
        self.p.rhs(t, y, d);
        self.odes.borrow_mut().push((t, y.to_vec(), d.to_vec()));
    }
    fn jac(&self, t: f64, y: &[f64], j: &mut Matrix) {
        // analytic, or the trait's forward differences routed through `Prob::rhs` (not stepper evaluations)
        IVP::jac(self.p, t, y, j);
        let n = y.len();
        let mut flat = Vec::with_capacity(n * n);
        for r in 0..n { for c in 0..n { flat.push(j[(r, c)]); } }
        self.jacs.borrow_mut().push((t, y.to_vec(), flat));
    }
}

fn st(s: Status) -> &'static str {
    match s { Status::Success => "Success", Status::UserInterrupt => "UserInterrupt", Status::NeedLargerNMax => "NeedLargerNMax",
              Status::StepSizeTooSmall => "StepSizeTooSmall", _ => "Other" }
}
fn o(x: Option<f64>) -> String { x.map(hx).unwrap_or("-".into()) }

pub fn run(args: &[String]) {
    std::panic::set_hook(Box::new(|_| {}));
    let seed: u64 = args.get(0).and_then(|s| s.parse().ok()).unwrap_or(1);
    let cases: usize = args.get(1).and_then(|s| s.parse().ok()).unwrap_or(100);
    let prefix = args.get(2).cloned().unwrap_or_else(|| "/dev/null".into());
    let mut rng = Rng(seed ^ 0xBDF0);
    let (mut ops, mut out) = (String::new(), String::new());
    let mut hist: std::collections::BTreeMap<String, usize> = Default::default();
    let (mut ncalls, mut ncbs, mut maxorder_seen) = (0usize, 0usize, 0usize);
    let kinds = [Kind::Harmonic, Kind::Logistic, Kind::Decay3, Kind::Riccati, Kind::VdP, Kind::Mixed, Kind::Stiff, Kind::VdPStiff, Kind::Robertson, Kind::Blowup, Kind::Slow, Kind::Huge];
    for id in 0..cases {
        let kind = *rng.pick(&kinds);
        let mut p = Prob::new(kind);
        let n = p.n();
        p.user_jac = rng.chance(0.5);
        let y0 = if rng.chance(0.1) { vec![0.0; n] } else { p.y0() };
        let span = match kind { Kind::VdPStiff => rng.range(1.0, 900.0), Kind::Robertson => 10f64.powf(rng.range(-1.0, 3.0)), Kind::Blowup => rng.range(0.5, 2.0), _ => match rng.below(8) { 0 => 1e-9, 1 => 30.0, _ => rng.range(0.2, 3.0) } };
        let back = rng.chance(0.25) && !matches!(kind, Kind::VdPStiff | Kind::Robertson | Kind::Stiff);
        let x0 = if rng.chance(0.3) { rng.range(-2.0, 2.0) } else { 0.0 };
        let x0 = if rng.chance(0.1) { x0 + [1e3, -1e4, 1e5, -3e5][rng.below(4)] * rng.range(0.5, 1.5) } else { x0 };
        let xend = if back { x0 - span } else { x0 + span };
        // every third case: tight tolerances on a smooth problem, so that the order climbs to 5
        let rtol_s = if id % 3 == 0 { 10f64.powf(-rng.range(7.0, 10.0)) } else { 10f64.powf(-rng.range(2.0, 7.0)) };
        let vector_tol = rng.chance(0.3);
        let rtol: Vec<f64> = if vector_tol { (0..n).map(|_| rtol_s * rng.range(0.5, 2.0)).collect() } else { vec![rtol_s; n] };
        let atol: Vec<f64> = if rng.chance(0.1) { vec![0.0; n] } else if vector_tol { (0..n).map(|_| rtol_s * rng.range(1e-3, 1e-1)).collect() } else { vec![rtol_s * 1e-2; n] };
        let first = match rng.below(7) { 0 => Some(span * 0.02), 1 => Some(span * 3.0), 2 => Some(-span * 0.1), 3 => Some(1.0), _ => None };
        let maxstep = match rng.below(6) { 0 => Some(span / 7.0), 1 => Some(f64::INFINITY), _ => None };
        let minstep = if rng.chance(0.1) { Some(span * 1e-6) } else { None };
        let nmax = if rng.chance(0.2) { 1 + rng.below(60) } else { 2500 };
        let maxit = if rng.chance(0.25) { 1 + rng.below(5) } else { 4 };
        let ntol = if rng.chance(0.1) { Some(10f64.powf(-rng.range(1.0, 4.0))) } else { None };
        let mut rec = Recorder::new();
        let mut script = vec![];
        match rng.below(6) {
            0 => { let k = rng.below(8); rec.script.push((k, Reply::Interrupt)); script.push(format!("{}:I", k)); }
            1 => { let k = rng.below(12); let c = if rng.chance(0.5) { 1.0 } else { 1.5 }; rec.script.push((k, Reply::Modify(c))); script.push(format!("{}:M{}", k, hx(c))); }
            2 => { rec.script.push((0, Reply::Modify(1.0))); script.push(format!("0:M{}", hx(1.0))); let k = 1 + rng.below(6); rec.script.push((k, Reply::Modify(0.5))); script.push(format!("{}:M{}", k, hx(0.5))); }
            _ => {}
        }
        let solver = BDF::builder().max_steps(nmax).newton_maxiter(maxit).maybe_newton_tol(ntol).maybe_first_step(first).maybe_max_step(maxstep).maybe_min_step(minstep).build();
        let lp = Logged { p: &p, odes: RefCell::new(vec![]), jacs: RefCell::new(vec![]) };
        let (rt, at): (Tolerance, Tolerance) = if vector_tol { (Tolerance::Vector(rtol.clone()), Tolerance::Vector(atol.clone())) } else { (Tolerance::Scalar(rtol[0]), Tolerance::Scalar(atol[0])) };
        let res = std::panic::catch_unwind(std::panic::AssertUnwindSafe(|| solver.solve(&lp, x0, &y0, xend, rt, at, Some(&mut rec))));
        let res = match res { Ok(Ok(r)) => r, _ => { *hist.entry("error-or-panic".into()).or_default() += 1; continue; } };
        *hist.entry(format!("{:?}/{}", kind, st(res.status))).or_default() += 1;
        writeln!(ops, "case {}", id).unwrap();
        writeln!(out, "ok").unwrap();
        writeln!(ops, "setup n={} x0={} xend={} rtol={} atol={} first={} maxstep={} minstep={} ntol={} nmax={} maxit={} script={}",
            n, hx(x0), hx(xend), hxs(&rtol), hxs(&atol), o(first), o(maxstep), o(minstep), o(ntol), nmax, maxit, if script.is_empty() { "-".into() } else { script.join(",") }).unwrap();
        writeln!(out, "ok").unwrap();
        for (t, y, d) in lp.odes.borrow().iter() { writeln!(ops, "ode {} {} {}", hx(*t), hxs(y), hxs(d)).unwrap(); writeln!(out, "ok").unwrap(); }
        for (t, y, m) in lp.jacs.borrow().iter() { writeln!(ops, "jac {} {} {}", hx(*t), hxs(y), hxs(m)).unwrap(); writeln!(out, "ok").unwrap(); }
        ncalls += lp.odes.borrow().len() + lp.jacs.borrow().len();
        ncbs += rec.cbs.len();
        // the highest order reached shows in the interpolant only; estimate it from the step count for the histogram
        maxorder_seen = maxorder_seen.max(res.steps.accepted);
        let cbs: Vec<String> = rec.cbs.iter().map(|c| format!("{},{}:{}:{}", hx(c.xold), hx(c.x), hxs(&c.y), c.samples.iter().map(|s| hxs(s)).collect::<Vec<_>>().join("/"))).collect();
        writeln!(ops, "run").unwrap();
        writeln!(out, "res {} h={} total={} acc={} rej={} ode={} jac={} lu={} odecalls={} jaccalls={} mism=- starved=0 cbs={} {}",
            st(res.status), hx(res.h), res.steps.total, res.steps.accepted, res.steps.rejected, res.evals.ode, res.evals.jac, res.evals.lu,
            lp.odes.borrow().len(), lp.jacs.borrow().len(), cbs.len(), cbs.join("|")).unwrap();
    }
    std::fs::write(format!("{prefix}.ops"), &ops).unwrap();
    std::fs::write(format!("{prefix}.impl"), &out).unwrap();
    println!("{{\"kind\":\"xbdfnum-gen\",\"cases\":{},\"calls\":{},\"callbacks\":{},\"distribution\":{:?}}}", cases, ncalls, ncbs, hist);
}
