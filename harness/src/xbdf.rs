//! X-bdf: control-trace co-simulation of `BDF::solve` (see xradau.rs for the scheme).
use crate::common::*;
use crate::problems::*;
use ivp::methods::BDF;
use ivp::prelude::*;
use std::fmt::Write as _;

fn st(s: Status) -> &'static str {
    match s { Status::Success => "Success", Status::UserInterrupt => "UserInterrupt", Status::NeedLargerNMax => "NeedLargerNMax",
              Status::StepSizeTooSmall => "StepSizeTooSmall", _ => "Other" }
}
fn o(x: Option<f64>) -> String { x.map(hx).unwrap_or("-".into()) }

/// J = (1/c) I makes the corrector matrix I - c J exactly singular for the first step of order 1
struct SingB { lam: f64, nf: std::cell::Cell<usize>, nj: std::cell::Cell<usize> }
impl IVP for SingB {
    fn ode(&self, _t: f64, y: &[f64], d: &mut [f64]) { self.nf.set(self.nf.get() + 1); d[0] = self.lam * y[0]; d[1] = self.lam * y[1]; }
    fn jac(&self, _t: f64, _y: &[f64], j: &mut Matrix) { self.nj.set(self.nj.get() + 1); j[(0, 0)] = self.lam; j[(0, 1)] = 0.0; j[(1, 0)] = 0.0; j[(1, 1)] = self.lam; }
}

pub fn run(args: &[String]) {
    std::panic::set_hook(Box::new(|_| {}));
    let seed: u64 = args.get(0).and_then(|s| s.parse().ok()).unwrap_or(1);
    let cases: usize = args.get(1).and_then(|s| s.parse().ok()).unwrap_or(100);
    let prefix = args.get(2).cloned().unwrap_or_else(|| "/dev/null".into());
    let mut rng = Rng(seed ^ 0xBDF5);
    let (mut ops, mut out) = (String::new(), String::new());
    let mut hist: std::collections::BTreeMap<String, usize> = Default::default();
    let mut npass = 0usize;
    let kinds = [Kind::Harmonic, Kind::Logistic, Kind::Decay3, Kind::Riccati, Kind::VdP, Kind::Mixed, Kind::Stiff, Kind::VdPStiff, Kind::Robertson, Kind::Blowup, Kind::Slow];
    for id in 0..cases {
        let kind = *rng.pick(&kinds);
        let mut p = Prob::new(kind);
        p.user_jac = rng.chance(0.5);
        let y0 = if rng.chance(0.1) { vec![0.0; p.n()] } else { p.y0() };
        let span = match kind { Kind::VdPStiff => rng.range(1.0, 2500.0), Kind::Robertson => 10f64.powf(rng.range(-1.0, 4.0)), Kind::Blowup => rng.range(0.5, 2.0), _ => match rng.below(8) { 0 => 1e-9, 1 => 30.0, _ => rng.range(0.2, 3.0) } };
        let back = rng.chance(0.25) && !matches!(kind, Kind::VdPStiff | Kind::Robertson | Kind::Stiff);
        let x0 = if rng.chance(0.3) { rng.range(-2.0, 2.0) } else { 0.0 };
        let xend = if back { x0 - span } else { x0 + span };
        let rtol = 10f64.powf(-rng.range(2.0, 8.0));
        let atol = rtol * 10f64.powf(-rng.range(0.0, 3.0));
        let first = match rng.below(7) { 0 => Some(span * 0.02), 1 => Some(span * 3.0), 2 => Some(-span * 0.1), 3 => Some(1.0), _ => None };
        let maxstep = match rng.below(6) { 0 => Some(span / 7.0), 1 => Some(f64::INFINITY), _ => None };
        let minstep = if rng.chance(0.1) { Some(span * 1e-6) } else { None };
        // every 20th case: a tiny time scale with a max_step far below the automatic first step
        let (span, xend, first, maxstep, minstep) = if id % 20 == 7 {
            let sp = if rng.chance(0.5) { 1.03e-5 } else { 4.1e-6 };
            (sp, if back { x0 - sp } else { x0 + sp }, if rng.chance(0.3) { Some(3e-7) } else { None }, Some(if rng.chance(0.5) { 2e-7 } else { 5e-7 }), None)
        } else { (span, xend, first, maxstep, minstep) };
        let (p, y0) = if id % 20 == 7 { let p = Prob::new(Kind::Slow); let y0 = p.y0(); (p, y0) } else { (p, y0) };
        // every 20th case: far from the origin (|x| = 2^40, one ulp = 2^-12) with a binding max_step and a remainder a little
        // above 1 % of it: the landing stretch must be measured against the step, not against the size of x
        let far = id % 20 == 11;
        let (x0, span, xend, first, maxstep, minstep) = if far {
            let x0 = [1_099_511_627_776.0, -1_099_511_627_776.0, 1_099_511_627_780.0][(id / 20) % 3];
            let sp = 10.0 * 0.125 + [0.140625, 0.1298828125, 0.126953125, 0.12548828125][(id / 60) % 4];
            (x0, sp, if back { x0 - sp } else { x0 + sp }, Some(0.125), Some(0.125), None)
        } else { (x0, span, xend, first, maxstep, minstep) };
        let (p, y0) = if far { let p = Prob::new(Kind::Slow); let y0 = p.y0(); (p, y0) } else { (p, y0) };
        let nmax = if rng.chance(0.2) { 1 + rng.below(60) } else { 3000 };
        let maxit = if rng.chance(0.25) { 1 + rng.below(5) } else { 4 };
        let ntol = if rng.chance(0.1) { Some(10f64.powf(-rng.range(1.0, 4.0))) } else { None };
        let mut rec = Recorder::new();
        rec.thetas = vec![];
        match rng.below(6) { 0 => rec.script.push((rng.below(8), Reply::Interrupt)), 1 => rec.script.push((rng.below(12), Reply::Modify(if rng.chance(0.5) { 1.0 } else { 1.5 }))), 2 => { rec.script.push((0, Reply::Modify(1.0))); rec.script.push((1 + rng.below(6), Reply::Modify(0.5))); } _ => {} }
        let solver = BDF::builder().max_steps(nmax).newton_maxiter(maxit).maybe_newton_tol(ntol).maybe_first_step(first).maybe_max_step(maxstep).maybe_min_step(minstep).build();
        // every 25th case: I - c J exactly singular at the first step (order 1: c = h_signed / alpha[1])
        let sing = if id % 25 == 24 && span > 0.5 {
            let alpha1 = (1.0 - (-0.1850)) * (0.0 + 1.0 / 1.0);
            let dir = (xend - x0).signum();
            // h0 = alpha1 / 8 gives c = h0 / alpha1 = 1/8 exactly, so J = 8 I makes I - c J the zero matrix
            let h0 = alpha1 * 0.125;
            Some((SingB { lam: dir * 8.0, nf: 0.into(), nj: 0.into() }, h0))
        } else { None };
        ivp::verif_hooks::trace_start();
        let res = std::panic::catch_unwind(std::panic::AssertUnwindSafe(|| match &sing {
            Some((sp, h0)) => BDF::builder().max_steps(nmax).newton_maxiter(maxit).maybe_newton_tol(ntol).first_step(*h0).build()
                .solve(sp, x0, &[1.0, 0.5], xend, rtol.into(), atol.into(), Some(&mut rec)),
            None => solver.solve(&p, x0, &y0, xend, rtol.into(), atol.into(), Some(&mut rec)),
        }));
        let tr = ivp::verif_hooks::trace_take();
        let res = match res { Ok(Ok(r)) => r, _ => { *hist.entry("error-or-panic".into()).or_default() += 1; continue; } };
        *hist.entry(format!("{}/{}", if sing.is_some() { "Singular".to_string() } else { format!("{:?}", kind) }, st(res.status))).or_default() += 1;
        let (fcalls, jcalls) = match &sing { Some((sp, _)) => (sp.nf.get(), sp.nj.get()), None => (p.count.get(), p.jcount.get()) };
        let endline = format!("end {} h={} total={} acc={} rej={} ode={} jac={} nlu={} fcalls={} jcalls={}", st(res.status), hx(res.h), res.steps.total, res.steps.accepted, res.steps.rejected, res.evals.ode, res.evals.jac, res.evals.lu, fcalls, jcalls);
        let init = match tr.iter().find(|e| e.0 == "binit") { Some(e) => e.1.clone(), None => continue };
        // the initial callback happens before "binit"
        let ib = tr.iter().position(|e| e.0 == "binit").unwrap();
        let cb0 = tr[..ib].iter().find(|e| e.0 == "cb").map(|e| e.1[0]).unwrap_or(0.0);
        let ode0 = if cb0 == 2.0 { init[7] as u64 - 1 } else { init[7] as u64 };
        writeln!(ops, "case x0={} xend={} habs0={} maxstep={} minstep={} nmax={} maxit={} ntol={} ode0={} cb0={}",
            hx(x0), hx(xend), hx(init[0]), o(if sing.is_some() { None } else { maxstep }), o(if sing.is_some() { None } else { minstep }), nmax, maxit, hx(init[4]), ode0, cb0 as u8).unwrap();
        writeln!(out, "init h={} hmax={} hmin={} dir={}", hx(init[1]), hx(init[2]), hx(init[3]), hx(init[5])).unwrap();
        let passes: Vec<usize> = tr.iter().enumerate().filter(|(_, e)| e.0 == "bpass").map(|(i, _)| i).collect();
        if passes.is_empty() { continue; }
        let state_line = |v: &Vec<f64>| format!("state x={} h={} order={} neq={} lu={} c={} total={} acc={} rej={} ode={} jac={} nlu={}",
            hx(v[0]), hx(v[1]), v[2] as u64, v[3] as u64, v[4] as u8, hx(v[5]), v[6] as u64, v[7] as u64, v[8] as u64, v[9] as u64, v[10] as u64, v[11] as u64);
        writeln!(ops, "first").unwrap();
        writeln!(out, "{}", state_line(&tr[passes[0]].1)).unwrap();
        for (k, &i) in passes.iter().enumerate() {
            let j = if k + 1 < passes.len() { passes[k + 1] } else { tr.len() };
            let (mut lu, mut dys, mut err, mut errm, mut errp, mut cb) = (None, vec![], None, None, None, None);
            for e in &tr[i + 1..j] {
                match e.0 { "blu" => lu = Some(e.1[0] as u8), "bnewt" => dys.push(e.1[0]), "berr" => err = Some(e.1[0]), "bord" => { errm = Some(e.1[0]); errp = Some(e.1[1]); } "cb" => cb = Some(e.1[0] as u8), _ => {} }
            }
            writeln!(ops, "pass lu={} dys={} err={} errm={} errp={} cb={}", lu.map(|c| c.to_string()).unwrap_or("-".into()), if dys.is_empty() { "-".into() } else { hxs(&dys) }, o(err), o(errm), o(errp), cb.map(|c| c.to_string()).unwrap_or("-".into())).unwrap();
            if k + 1 < passes.len() { writeln!(out, "{}", state_line(&tr[passes[k + 1]].1)).unwrap(); } else { writeln!(out, "{endline}").unwrap(); }
            npass += 1;
        }
    }
    std::fs::write(format!("{prefix}.ops"), &ops).unwrap();
    std::fs::write(format!("{prefix}.impl"), &out).unwrap();
    println!("{{\"kind\":\"xbdf-gen\",\"cases\":{},\"passes\":{},\"distribution\":{:?}}}", cases, npass, hist);
}
