//! Search side of C03, C04, C11, C12, C18, C19: whole-run properties checked on the real solvers.
use crate::common::*;
use crate::problems::*;
use ivp::methods::{BDF, DOP853, DOPRI5, RADAU, RK23, RK4};
use ivp::prelude::*;
use ivp::solout::SolOut;
use std::panic::{catch_unwind, AssertUnwindSafe};

fn finite(v: &[f64]) -> bool {
    v.iter().all(|x| x.is_finite())
}

/// IVP wrapper with a work budget: panics after `limit` right-hand-side calls (turns a hang into a report)
struct Budgeted<'a> {
    p: &'a Prob,
    limit: usize,
    nan_after: Option<f64>,
    jump_at: Option<f64>,
    x0: f64,
}
/// right-hand side that turns NaN once the first component exceeds a limit (a state-dependent breakdown, like sqrt of a
/// negative number): `nan_above` is read from a thread-local so that the struct literal used everywhere stays as it is
thread_local! { static NAN_ABOVE: std::cell::Cell<Option<f64>> = const { std::cell::Cell::new(None) }; }
impl<'a> IVP for Budgeted<'a> {
    fn ode(&self, t: f64, y: &[f64], d: &mut [f64]) {
        if self.p.count.get() > self.limit {
            panic!("work budget exceeded");
        }
        self.p.ode(t, y, d);
        if let Some(ts) = self.nan_after {
            if (t - self.x0).abs() > ts.abs() { for v in d.iter_mut() { *v = f64::NAN; } }
        }
        if let Some(tj) = self.jump_at {
            if (t - self.x0).abs() > tj.abs() { for v in d.iter_mut() { *v = -*v + 3.0; } }
        }
        if let Some(lim) = NAN_ABOVE.with(|c| c.get()) {
            if y[0].abs() > lim { for v in d.iter_mut() { *v = f64::NAN; } }
        }
    }
    fn n_events(&self) -> usize { self.p.n_events() }
    fn events(&self, t: f64, y: &[f64], o: &mut [f64]) { self.p.events(t, y, o) }
    fn event_config(&self, i: usize) -> EventConfig { self.p.event_config(i) }
    fn jac(&self, t: f64, y: &[f64], j: &mut Matrix) { self.p.jac(t, y, j) }
}

fn lowlevel<S: SolOut>(m: Method, f: &impl IVP, x0: f64, y0: &[f64], xend: f64, rtol: f64, atol: f64, first: Option<f64>, maxstep: Option<f64>, nmax: Option<usize>, s: &mut S)
    -> Result<ivp::methods::IntegrationResult, ivp::error::Error> {
    match m {
        Method::RK4 => RK4::builder().max_steps(nmax.unwrap_or(usize::MAX)).build().solve(f, x0, y0, xend, first.unwrap_or((xend - x0) / 50.0), Some(s)),
        Method::RK23 => RK23::builder().maybe_first_step(first).maybe_max_step(maxstep).max_steps(nmax.unwrap_or(usize::MAX)).build().solve(f, x0, y0, xend, rtol.into(), atol.into(), Some(s)),
        Method::DOPRI5 => DOPRI5::builder().maybe_first_step(first).maybe_max_step(maxstep).max_steps(nmax.unwrap_or(usize::MAX)).build().solve(f, x0, y0, xend, rtol.into(), atol.into(), Some(s)),
        Method::DOP853 => DOP853::builder().maybe_first_step(first).maybe_max_step(maxstep).max_steps(nmax.unwrap_or(usize::MAX)).build().solve(f, x0, y0, xend, rtol.into(), atol.into(), Some(s)),
        Method::RADAU => RADAU::builder().maybe_first_step(first).maybe_max_step(maxstep).max_steps(nmax.unwrap_or(usize::MAX)).mass_storage(MatrixStorage::Identity).build().solve(f, x0, y0, xend, rtol.into(), atol.into(), Some(s)),
        Method::BDF => BDF::builder().maybe_first_step(first).maybe_max_step(maxstep).max_steps(nmax.unwrap_or(usize::MAX)).build().solve(f, x0, y0, xend, rtol.into(), atol.into(), Some(s)),
    }
}

struct Cfg {
    kind: Kind,
    method: Method,
    x0: f64,
    xend: f64,
    rtol: f64,
    atol: f64,
    first: Option<f64>,
    maxstep: Option<f64>,
    nmax: Option<usize>,
}
impl Cfg {
    fn desc(&self) -> String {
        format!(
            "\"problem\":\"{:?}\",\"method\":\"{}\",\"x0\":{},\"xend\":{},\"rtol\":{},\"atol\":{},\"first_step\":{},\"max_step\":{},\"max_steps\":{}",
            self.kind, method_name(self.method), jnum(self.x0), jnum(self.xend), jnum(self.rtol), jnum(self.atol),
            self.first.map(jnum).unwrap_or("null".into()), self.maxstep.map(jnum).unwrap_or("null".into()), self.nmax.map(|v| v.to_string()).unwrap_or("null".into())
        )
    }
    fn opts(&self) -> ivp::solve::Options {
        let mut o = Options::builder().method(self.method).rtol(self.rtol).atol(self.atol).build();
        o.first_step = self.first;
        o.max_step = self.maxstep;
        o.max_steps = self.nmax;
        o
    }
}

fn gen_cfg(rng: &mut Rng) -> Cfg {
    let kind = *rng.pick(&SMOOTH);
    let method = *rng.pick(&ALL_METHODS);
    let span = match rng.below(10) { 0 => 1e-12, 1 => 1e-9, 2 => 40.0, _ => rng.range(0.3, 4.0) };
    let back = rng.chance(0.35);
    let x0 = if rng.chance(0.3) { rng.range(-1.0, 1.0) } else { 0.0 };
    let xend = if back { x0 - span } else { x0 + span };
    let rtol = 10f64.powf(-rng.range(3.0, 8.0));
    let sgn = if back { -1.0 } else { 1.0 };
    let first = match rng.below(8) {
        0 => Some(span * 2.0 * sgn),           // larger than the interval
        1 => Some(span * 0.01 * sgn),
        2 => Some(span * 0.3 * sgn),
        3 => Some(-span * 0.05 * sgn),         // wrong sign
        _ => None,
    };
    let maxstep = match rng.below(6) { 0 => Some(span / 8.0), 1 => Some(f64::INFINITY), 2 => Some(span * 0.013), _ => None };
    Cfg { kind, method, x0, xend, rtol, atol: rtol * 1e-2, first, maxstep, nmax: None }
}

fn out(kind: &str, case: usize, c: &Cfg, branch: &str, key: &str, why: &str, extra: &str) {
    println!("{{\"kind\":\"{}\",\"case\":{},{},\"branch\":\"{}\",\"finding_key\":\"{}\",{}\"ok\":{},\"why\":{:?}}}", kind, case, c.desc(), branch, key, extra, why.is_empty(), why);
}

/// C03 + C18 (+ finiteness) on solve_ivp
pub fn interval(args: &[String]) {
    std::panic::set_hook(Box::new(|_| {}));
    let seed: u64 = args.get(0).and_then(|s| s.parse().ok()).unwrap_or(1);
    let cases: usize = args.get(1).and_then(|s| s.parse().ok()).unwrap_or(200);
    let mut rng = Rng(seed ^ 0xC03);
    for case in 0..cases {
        let c = gen_cfg(&mut rng);
        if c.method == Method::RK4 && c.first.map_or(false, |h| h * (c.xend - c.x0) < 0.0) {
            continue; // RK4 documents that the sign of the fixed step must match (rejected with an error)
        }
        let mut p = Prob::new(c.kind);
        p.record_times = true;
        p.user_jac = rng.chance(0.5);
        let with_event = rng.chance(0.3);
        // zero-norm starts (the first-step heuristic falls back to its default guess) now and then
        let y0 = if rng.chance(0.15) { vec![0.0; p.n()] } else { p.y0() };
        if with_event {
            let tc = c.x0 + (c.xend - c.x0) * rng.range(0.2, 0.9);
            p.events = vec![EventSpec { a: 1.0, b: vec![0.0; p.n()], c: tc, dir: 0, terminal: if rng.chance(0.5) { Some(1) } else { None } }];
        }
        let mut o = c.opts();
        o.dense_output = rng.chance(0.4);
        let use_teval = rng.chance(0.25);
        if use_teval {
            let k = 1 + rng.below(6);
            let mut pts: Vec<f64> = (0..k).map(|_| c.x0 + (c.xend - c.x0) * rng.unit()).collect();
            pts.push(c.xend);
            let d = (c.xend - c.x0).signum();
            pts.sort_by(|a, b| if d > 0.0 { a.partial_cmp(b).unwrap() } else { b.partial_cmp(a).unwrap() });
            o.t_eval = Some(pts);
        }
        let b = Budgeted { p: &p, limit: 3_000_000, nan_after: None, jump_at: None, x0: c.x0 };
        let res = catch_unwind(AssertUnwindSafe(|| solve_ivp(&b, c.x0, c.xend, &y0, o)));
        let dirn = (c.xend - c.x0).signum();
        let (lo, hi) = (c.x0.min(c.xend), c.x0.max(c.xend));
        let mut why = String::new();
        let mut key = "";
        let mut extra = String::new();
        match res {
            Err(_) => { why = "solve_ivp panicked or exceeded the work budget of 3e6 right-hand-side calls".into(); key = "c04-hang-or-panic"; }
            Ok(Err(e)) => { extra = format!("\"status\":\"Err({:?})\",", e).replace('"', "'").replace("'status':", "\"status\":\"").replace(",'", "\","); extra = format!("\"status\":\"Err\","); let _ = e; }
            Ok(Ok(sol)) => {
                extra = format!("\"status\":\"{:?}\",\"n\":{},", sol.status, sol.t.len());
                let mut fail = |k: &'static str, w: String| { if why.is_empty() { why = w; key = k; } };
                if sol.t.len() != sol.y.len() { fail("c03-shape", "t and y have different lengths".into()); }
                if sol.y.iter().any(|v| v.len() != p.n()) { fail("c03-shape", "a sample has the wrong dimension".into()); }
                if !use_teval {
                    if sol.t.first() != Some(&c.x0) { fail("c03-start", format!("first sample time {:?} is not x0", sol.t.first())); }
                }
                for w in sol.t.windows(2) {
                    let strict = !use_teval; // requested times may repeat
                    if (w[1] - w[0]) * dirn < 0.0 || (strict && w[1] == w[0]) { fail("c03-monotone", format!("sample times {} then {} do not move strictly toward xend", w[0], w[1])); }
                }
                // (the landing step sets the time to xend itself, so no sample may lie beyond xend, not even by a rounding error)
                for t in &sol.t { if (t - c.xend) * dirn > 0.0 { fail("c03-overshoot", format!("sample time {} lies beyond xend = {}", t, c.xend)); } }
                // "never evaluated at a time outside the closed interval": exact, not to rounding
                let slack = 0.0;
                for t in p.times.borrow().iter() {
                    if *t < lo - slack || *t > hi + slack {
                        // `hinit` probes x0 + h with h clipped to the span: x0 + (xend − x0) can miss xend by an ulp (a recorded finding of its own)
                        let key = if *t == c.x0 + (c.xend - c.x0) { "c03-hinit-probe-beyond-xend" } else { "c03-eval-outside" };
                        fail(key, format!("right-hand side / Jacobian / event function evaluated at t = {} outside [{}, {}]", t, lo, hi)); break;
                    }
                }
                let terminal_fired = with_event && p.events[0].terminal.is_some() && !sol.t_events[0].is_empty();
                match sol.status {
                    Status::Success => {
                        if terminal_fired { fail("c03-status", "terminal event fired but status is Success".into()); }
                        if !use_teval {
                            let last = *sol.t.last().unwrap();
                            if (last - c.xend).abs() > 1e-12 * (1.0 + c.xend.abs()) { fail("c03-success-not-reached", format!("Success but the last sample is t = {} (xend = {}, {} samples)", last, c.xend, sol.t.len())); }
                        }
                        if c.method != Method::RK4 && !sol.y.iter().all(|v| finite(v)) { fail("c03-nonfinite-success", "Success with non-finite values".into()); }
                    }
                    Status::UserInterrupt => { if !terminal_fired { fail("c03-status", "UserInterrupt without a terminal event".into()); } }
                    st => {
                        // "Success exactly when the whole interval was covered": a run that stopped with its last sample at xend
                        // to rounding has covered it
                        if !use_teval {
                            let last = *sol.t.last().unwrap();
                            if (last - c.xend).abs() <= 4.0 * f64::EPSILON * c.xend.abs().max(c.x0.abs()) && sol.t.len() > 1 {
                                fail("c03-covered-not-success", format!("status {:?} although the last sample t = {} is xend = {} to rounding", st, last, c.xend));
                            }
                        }
                    }
                }
                // C18
                if sol.nfev != p.count.get() { fail("c18-nfev", format!("nfev = {} but the stepper made {} right-hand-side evaluations", sol.nfev, p.count.get())); }
                if sol.njev != p.jcount.get() { fail("c18-njev", format!("njev = {} but {} Jacobian evaluations were made", sol.njev, p.jcount.get())); }
                if sol.nstep < sol.naccpt { fail("c18-nstep", format!("nstep {} < naccpt {}", sol.nstep, sol.naccpt)); }
                // C11 through solve_ivp: no reported interval is longer than max_step (1 % stretch on the last one), RK4's default
                // step span / 100 included (a first_step above max_step is outside the precondition)
                if let Some(hm) = c.maxstep {
                    if !use_teval && c.first.map_or(true, |h| h.abs() <= hm) {
                        let m = sol.t.len();
                        for k in 1..m {
                            let len = (sol.t[k] - sol.t[k - 1]).abs();
                            let lim = if k == m - 1 { 1.01 * hm } else { hm };
                            // (the two ends are rounded to the grid of t: allow two ulps of the larger one)
                            if len > lim * (1.0 + 1e-12) + 4.0 * f64::EPSILON * sol.t[k].abs().max(sol.t[k - 1].abs()) { fail("c11-max-step", format!("reported interval {} has length {} > max_step {}", k, len, hm)); break; }
                        }
                    }
                }
                if !use_teval && c.first.is_none() && !terminal_fired && sol.status != Status::UserInterrupt {
                    if sol.naccpt != sol.t.len() - 1 { fail("c18-naccpt", format!("naccpt = {} but {} intervals were reported", sol.naccpt, sol.t.len() - 1)); }
                }
            }
        }
        out("iv", case, &c, if use_teval { "teval" } else if with_event { "event" } else { "plain" }, key, &why, &extra);
    }
    // stiff problems on the implicit methods: Newton failures, step rejections, singular iteration matrices (C18 counters)
    for case in 0..(cases / 6 + 4) {
        let mut kind = *rng.pick(&[Kind::VdPStiff, Kind::Robertson, Kind::Stiff, Kind::VdPStiff]);
        let mut method = if rng.chance(0.6) { Method::RADAU } else { Method::BDF };
        let mut xend = match kind { Kind::VdPStiff => rng.range(0.5, 30.0), Kind::Robertson => 10f64.powf(rng.range(0.0, 3.0)), _ => rng.range(0.5, 3.0) };
        let mut rtol = 10f64.powf(-rng.range(2.5, 6.0));
        let mut first = match rng.below(4) { 0 => Some(1e-2), 1 => Some(1.0), _ => None };
        // the first eight: Van der Pol ending just before / inside its first fast transition (t = 807), where the landing
        // step itself runs into Newton failures
        if case < 8 { kind = Kind::VdPStiff; method = if case < 6 { Method::RADAU } else { Method::BDF }; xend = [805.0, 805.5, 806.0, 806.5, 807.0, 808.0, 805.5, 806.5][case]; rtol = 1e-3; first = None; }
        let c = Cfg { kind, method, x0: 0.0, xend, rtol, atol: rtol * 1e-3, first, maxstep: None, nmax: None };
        let mut p = Prob::new(kind);
        p.user_jac = rng.chance(0.5);
        let y0 = p.y0();
        let b = Budgeted { p: &p, limit: 3_000_000, nan_after: None, jump_at: None, x0: 0.0 };
        let res = catch_unwind(AssertUnwindSafe(|| solve_ivp(&b, 0.0, xend, &y0, c.opts())));
        let mut why = String::new();
        let mut key = "";
        let mut extra = String::new();
        match res {
            Err(_) => { why = "solve_ivp panicked or exceeded the work budget of 3e6 right-hand-side calls".into(); key = "c04-hang-or-panic"; }
            Ok(Err(_)) => { extra = "\"status\":\"Err\",".into(); }
            Ok(Ok(sol)) => {
                extra = format!("\"status\":\"{:?}\",\"n\":{},\"nrejct\":{},", sol.status, sol.t.len(), sol.nrejct);
                if sol.status == Status::Success && (sol.t.last().unwrap() - xend).abs() > 1e-12 * (1.0 + xend.abs()) { why = format!("Success but the last sample is t = {} (xend = {})", sol.t.last().unwrap(), xend); key = "c03-success-not-reached"; }
                else if sol.nfev != p.count.get() { why = format!("nfev = {} but the stepper made {} right-hand-side evaluations", sol.nfev, p.count.get()); key = "c18-nfev"; }
                else if sol.njev != p.jcount.get() { why = format!("njev = {} but {} Jacobian evaluations were made", sol.njev, p.jcount.get()); key = "c18-njev"; }
                else if sol.nstep < sol.naccpt { why = format!("nstep {} < naccpt {}", sol.nstep, sol.naccpt); key = "c18-nstep"; }
                else if sol.status == Status::Success && !sol.y.iter().all(|v| finite(v)) { why = "Success with non-finite values".into(); key = "c03-nonfinite-success"; }
            }
        }
        out("iv", 100000 + case, &c, "stiff", key, &why, &extra);
    }
    // C03, evaluation times: a vanishing right-hand side makes `hinit` propose 1e-6, clipped to the span when that is shorter;
    // on spans that straddle zero `x0 + (xend − x0)` can lie one ulp beyond xend
    {
        struct Zero { times: std::cell::RefCell<Vec<f64>> }
        impl IVP for Zero { fn ode(&self, x: f64, _y: &[f64], d: &mut [f64]) { self.times.borrow_mut().push(x); d[0] = 0.0; } }
        let mut k = 0;
        for method in ALL_METHODS {
            for (x0, xend) in [(-1e-8, 2e-8), (1e-8, -2e-8), (-3e-9, 1e-10), (-1e-7, 7e-9), (2e-8, -1e-9), (-0.7, 0.05), (0.3, -0.011)] {
                let f = Zero { times: Vec::new().into() };
                let o = Options::builder().method(method).build();
                let (lo, hi) = if x0 < xend { (x0, xend) } else { (xend, x0) };
                let (mut why, mut key, mut extra) = (String::new(), "", String::new());
                match catch_unwind(AssertUnwindSafe(|| solve_ivp(&f, x0, xend, &[1.0], o))) {
                    Ok(Ok(sol)) => {
                        extra = format!("\"status\":\"{:?}\",", sol.status);
                        if let Some(t) = f.times.borrow().iter().find(|t| **t < lo || **t > hi) { key = if *t == x0 + (xend - x0) { "c03-hinit-probe-beyond-xend" } else { "c03-eval-outside" }; why = format!("y' = 0 on [{:e}, {:e}]: right-hand side evaluated at t = {:e}, outside the interval", x0, xend, t); }
                        else if sol.status == Status::Success && sol.t.last() != Some(&xend) { key = "c03-success-not-reached"; why = format!("Success but the last sample is {:?}", sol.t.last()); }
                    }
                    Ok(Err(_)) => { extra = "\"status\":\"Err\",".into(); }
                    Err(_) => { key = "c04-hang-or-panic"; why = "solve_ivp panicked".into(); }
                }
                println!("{{\"kind\":\"iv\",\"case\":{},\"problem\":\"y'=0\",\"method\":\"{}\",\"x0\":{:e},\"xend\":{:e},\"branch\":\"hinit-probe\",\"finding_key\":\"{}\",{}\"ok\":{},\"why\":{:?}}}",
                    540000 + k, method_name(method), x0, xend, key, extra, why.is_empty(), why);
                k += 1;
            }
        }
    }
    // C03 through solve_ivp: a first_step that covers the whole interval, far from the origin, where x0 -/+ |xend - x0| does not
    // round to xend: Success has to come with the sample at xend
    {
        let mut k = 0;
        for method in ALL_METHODS {
            for (x0, xend, fs) in [(20000.3, 0.1, 20000.2), (20000.3, 0.1, 30000.0), (1000000.3, 0.1, 1000000.2), (0.1, 20000.3, 20000.2), (-7.1, 65536.7, 1e6), (3.3e7, -0.7, 3.3e7)] {
                let p = Prob::new(Kind::Harmonic);
                let c = Cfg { kind: Kind::Harmonic, method, x0, xend, rtol: 1e-3, atol: 1e-6, first: Some(fs), maxstep: None, nmax: Some(200000), };
                let (mut why, mut key) = (String::new(), "");
                match catch_unwind(AssertUnwindSafe(|| solve_ivp(&p, x0, xend, &p.y0(), c.opts()))) {
                    Ok(Ok(sol)) => {
                        if sol.status == Status::Success && sol.t.last().copied() != Some(xend) {
                            key = "c03-covering-first-step-no-end-sample";
                            why = format!("first_step {} covers [{}, {}]: Success, but the samples are {:?} (the last one is not xend)", fs, x0, xend, if sol.t.len() <= 4 { sol.t.clone() } else { vec![sol.t[0], *sol.t.last().unwrap()] });
                        }
                    }
                    Ok(Err(e)) => { key = "c03-covering-first-step-no-end-sample"; why = format!("solve_ivp returns Err({:?})", e).replace('"', "'"); }
                    Err(_) => { key = "c04-hang-or-panic"; why = "solve_ivp panicked".into(); }
                }
                out("iv", 537000 + k, &c, "covering-first-step-far-origin", key, &why, "");
                k += 1;
            }
        }
    }
    // C11 at the solver interface (accepted steps as the callback sees them): a given first_step larger than max_step must not
    // produce an accepted step longer than max_step
    {
        let mut k = 0;
        for method in [Method::RK23, Method::DOPRI5, Method::DOP853, Method::RADAU, Method::BDF] {
            for (x0, xend, hm, mult) in [(0.0, 2.0, 0.05, 4.0), (1.0, -1.0, 0.02, 10.0), (0.0, 3.0, 0.3, 1.5)] {
                let p = Prob::new(Kind::Harmonic);
                let first = hm * mult;
                let mut rec = Recorder::new();
                rec.thetas = vec![];
                let c = Cfg { kind: Kind::Harmonic, method, x0, xend, rtol: 1e-4, atol: 1e-7, first: Some(first), maxstep: Some(hm), nmax: None };
                let (mut why, mut key) = (String::new(), "");
                match catch_unwind(AssertUnwindSafe(|| lowlevel(method, &p, x0, &p.y0(), xend, 1e-4, 1e-7, Some(first), Some(hm), None, &mut rec))) {
                    Ok(Ok(_)) => {
                        let m = rec.cbs.len();
                        for (j, cb) in rec.cbs.iter().enumerate().skip(1) {
                            let len = (cb.x - cb.xold).abs();
                            let lim = if j == m - 1 { 1.01 * hm } else { hm };
                            if len > lim * (1.0 + 1e-12) + 4.0 * f64::EPSILON * cb.x.abs().max(cb.xold.abs()) { key = "c11-first-step-above-max-step"; why = format!("first_step = {} > max_step = {}: accepted step {} runs from {} to {} (length {})", first, hm, j, cb.xold, cb.x, len); break; }
                        }
                    }
                    Ok(Err(e)) => { why = format!("solver returns Err({:?})", e).replace('"', "'"); key = "c11-first-step-above-max-step"; }
                    Err(_) => { key = "c04-hang-or-panic"; why = "solver panicked".into(); }
                }
                out("iv", 535000 + k, &c, "first-step-above-max-step", key, &why, "");
                k += 1;
            }
        }
    }
    // C11 through solve_ivp: a max_step below RK4's default step (span / 100), no first_step, both directions
    {
        let mut k = 0;
        for (x0, xend, div) in [(0.0, 2.0, 250.0), (1.0, -1.5, 1000.0), (-0.3, 0.7, 130.0)] {
            let c = Cfg { kind: Kind::Harmonic, method: Method::RK4, x0, xend, rtol: 1e-6, atol: 1e-9, first: None, maxstep: Some((xend - x0 as f64).abs() / div), nmax: None };
            let p = Prob::new(Kind::Harmonic);
            let hm = c.maxstep.unwrap();
            let (mut why, mut key) = (String::new(), "");
            match catch_unwind(AssertUnwindSafe(|| solve_ivp(&p, x0, xend, &p.y0(), c.opts()))) {
                Ok(Ok(sol)) => {
                    let m = sol.t.len();
                    for j in 1..m {
                        let len = (sol.t[j] - sol.t[j - 1]).abs();
                        let lim = if j == m - 1 { 1.01 * hm } else { hm };
                        if len > lim * (1.0 + 1e-12) + 4.0 * f64::EPSILON * sol.t[j].abs().max(sol.t[j - 1].abs()) { key = "c11-max-step"; why = format!("RK4 without first_step: reported interval {} has length {} > max_step {} ({} samples)", j, len, hm, m); break; }
                    }
                }
                Ok(Err(e)) => { key = "c11-max-step"; why = format!("solve_ivp returns Err({:?})", e).replace('"', "'"); }
                Err(_) => { key = "c04-hang-or-panic"; why = "solve_ivp panicked".into(); }
            }
            out("iv", 530000 + k, &c, "rk4-max-step", key, &why, "");
            k += 1;
        }
    }
    // C03: a chirp y' = 10 x cos(5 x^2) (y = sin(5 x^2)) over many interval lengths at a loose tolerance: the step that lands on xend
    // is often rejected; the run must still cover the whole interval before it reports Success (a landing flag that survives
    // the rejection ends the run early with the time set to xend and the state of a shorter step)
    {
        struct Chirp;
        impl IVP for Chirp { fn ode(&self, x: f64, _y: &[f64], d: &mut [f64]) { d[0] = 10.0 * x * (5.0 * x * x).cos(); } }
        let mut k = 0;
        for method in ADAPTIVE {
            let (mut bad, mut worst, mut wx, mut runs) = (0usize, 0.0f64, 0.0f64, 0usize);
            for j in 0..80 {
                let xend = 1.0 + 3.0 * (j as f64) / 80.0 + 0.0137;
                for back in [false, true] {
                    let (a, b) = if back { (xend, 0.0) } else { (0.0, xend) };
                    let o = Options::builder().method(method).rtol(1e-4).atol(1e-6).build();
                    if let Ok(Ok(sol)) = catch_unwind(AssertUnwindSafe(|| solve_ivp(&Chirp, a, b, &[(5.0 * a * a).sin()], o))) {
                        runs += 1;
                        if sol.status == Status::Success {
                            let e = (sol.y.last().unwrap()[0] - (5.0 * b * b).sin()).abs();
                            if e > worst { worst = e; wx = xend; }
                            if e > 0.05 { bad += 1; }
                        }
                    }
                }
            }
            let (mut why, mut key) = (String::new(), "");
            if bad > 0 { key = "c03-success-short-step"; why = format!("chirp y' = 10 x cos(5 x^2): {} of {} successful runs end with an error above 0.05 at xend (worst {:.3} for the interval of length {}): Success without having covered the interval", bad, runs, worst, wx); }
            println!("{{\"kind\":\"iv\",\"case\":{},\"problem\":\"chirp\",\"method\":\"{}\",\"branch\":\"chirp-landing\",\"finding_key\":\"{}\",\"runs\":{},\"worst_error\":{},\"ok\":{},\"why\":{:?}}}",
                560000 + k, method_name(method), key, runs, jnum(worst), why.is_empty(), why);
            k += 1;
        }
    }
    // C11 far from the origin (|x| = 2^40, one ulp = 2^-12): first_step = max_step = 1/8 and a remainder a little above 1 % of
    // max_step — the landing stretch must be measured against the step, not against the size of x (all values dyadic: exact)
    {
        let mut k = 0;
        for method in ADAPTIVE {
            for (x0, sgn) in [(1_099_511_627_776.0f64, 1.0f64), (-1_099_511_627_776.0, -1.0), (1_099_511_627_780.0, -1.0)] {
                for rem in [0.140625f64, 0.1298828125, 0.126953125] {
                    let xend = x0 + sgn * (10.0 * 0.125 + rem);
                    let c = Cfg { kind: Kind::Slow, method, x0, xend, rtol: 1e-3, atol: 1e-6, first: Some(0.125), maxstep: Some(0.125), nmax: None };
                    let p = Prob { user_jac: true, ..Prob::new(Kind::Slow) };
                    let (mut why, mut key, mut extra) = (String::new(), "", String::new());
                    match catch_unwind(AssertUnwindSafe(|| solve_ivp(&p, x0, xend, &p.y0(), c.opts()))) {
                        Ok(Ok(sol)) => {
                            extra = format!("\"status\":\"{:?}\",\"n\":{},", sol.status, sol.t.len());
                            let m = sol.t.len();
                            for j in 1..m {
                                let len = (sol.t[j] - sol.t[j - 1]).abs();
                                let lim = if j == m - 1 { 1.01 * 0.125 } else { 0.125 };
                                if len > lim { key = "c11-max-step"; why = format!("|x| = 2^40: reported interval {} of {} has length {} > {} (max_step 0.125, remainder {})", j, m - 1, len, lim, rem); break; }
                            }
                            if why.is_empty() && sol.status == Status::Success && sol.t.last() != Some(&xend) { key = "c03-success-not-reached"; why = format!("Success but the last sample is {:?}", sol.t.last()); }
                        }
                        Ok(Err(_)) => { extra = "\"status\":\"Err\",".into(); }
                        Err(_) => { key = "c04-hang-or-panic"; why = "solve_ivp panicked".into(); }
                    }
                    out("iv", 550000 + k, &c, "far-origin-max-step", key, &why, &extra);
                    k += 1;
                }
            }
        }
    }
    // C18 where the corrector struggles: right-hand sides that leave their domain (sqrt, ln), a solution that overflows, a
    // loose tolerance (one or two Newton iterations), a Newton iteration limit of 1 (low-level BDF) — every exit of the
    // Newton loop must leave nfev equal to the number of right-hand-side calls (calls made while differencing excluded)
    counts_at_breakdown();
    // a stiff problem on the explicit methods, long enough for the stiffness detector to stop the run (it looks at every
    // 1000th accepted step): the counters of a run that ends ProbablyStiff
    {
        let mut k = 0;
        for method in [Method::DOPRI5, Method::DOP853] {
            for (xend, rtol) in [(12.0, 1e-6), (-9.0, 1e-5), (15.0, 1e-4)] {
                let c = Cfg { kind: Kind::Stiff, method, x0: 0.0, xend, rtol, atol: rtol * 1e-3, first: None, maxstep: None, nmax: None };
                let p = Prob::new(Kind::Stiff);
                let b = Budgeted { p: &p, limit: 3_000_000, nan_after: None, jump_at: None, x0: 0.0 };
                let res = catch_unwind(AssertUnwindSafe(|| solve_ivp(&b, 0.0, xend, &p.y0(), c.opts())));
                let (mut why, mut key, mut extra) = (String::new(), "", String::new());
                match res {
                    Err(_) => { why = "solve_ivp panicked or exceeded the work budget".into(); key = "c04-hang-or-panic"; }
                    Ok(Err(_)) => { extra = "\"status\":\"Err\",".into(); }
                    Ok(Ok(sol)) => {
                        extra = format!("\"status\":\"{:?}\",\"n\":{},\"naccpt\":{},\"nstep\":{},", sol.status, sol.t.len(), sol.naccpt, sol.nstep);
                        if sol.nfev != p.count.get() { why = format!("nfev = {} but the stepper made {} right-hand-side evaluations", sol.nfev, p.count.get()); key = "c18-nfev"; }
                        else if sol.naccpt != sol.t.len() - 1 { why = format!("status {:?}: naccpt = {} but {} intervals were reported", sol.status, sol.naccpt, sol.t.len() - 1); key = "c18-naccpt-stiff-exit"; }
                        else if sol.nstep < sol.naccpt { why = format!("nstep {} < naccpt {}", sol.nstep, sol.naccpt); key = "c18-nstep"; }
                    }
                }
                out("iv", 500000 + k, &c, "stiff-explicit", key, &why, &extra);
                k += 1;
            }
        }
    }
    // a first step that already covers the whole interval (first_step >= span): the landing step is the first trial step
    // and is usually rejected; the run must still end at xend
    {
        let mut k = 0;
        for method in ADAPTIVE {
            for kind in [Kind::Harmonic, Kind::VdP, Kind::Riccati, Kind::Mixed] {
                for (x0, span, mult, rtol) in [(0.0, 5.0, 1.0, 1e-6), (0.0, 3.0, 2.0, 1e-4), (0.0, 1.0, 1.0 / 1.005, 1e-8), (0.0, -4.0, 1.5, 1e-5),
                                               (0.38770000000000004, 1.3467900000000002, 700.0, 1e-5), (0.1, 0.7, 3.0, 1e-4), (-0.3, 1.1, 1.0, 1e-6), (2.2, -1.9000000000000001, 50.0, 1e-5)] {
                    if kind == Kind::Riccati && x0 != 0.0 { continue; }
                    let xend = x0 + span;
                    let c = Cfg { kind, method, x0, xend, rtol, atol: rtol * 1e-2, first: Some(span * mult), maxstep: None, nmax: None };
                    let p = Prob::new(kind);
                    let b = Budgeted { p: &p, limit: 3_000_000, nan_after: None, jump_at: None, x0 };
                    let res = catch_unwind(AssertUnwindSafe(|| solve_ivp(&b, x0, xend, &p.y0(), c.opts())));
                    let (mut why, mut key, mut extra) = (String::new(), "", String::new());
                    match res {
                        Err(_) => { why = "solve_ivp panicked or exceeded the work budget".into(); key = "c04-hang-or-panic"; }
                        Ok(Err(_)) => { extra = "\"status\":\"Err\",".into(); }
                        Ok(Ok(sol)) => {
                            let last = *sol.t.last().unwrap();
                            extra = format!("\"status\":\"{:?}\",\"n\":{},\"last\":{},", sol.status, sol.t.len(), jnum(last));
                            if sol.status == Status::Success && last != xend {
                                key = "c03-success-not-reached";
                                why = format!("Success but the last sample is t = {:?} (xend = {:?}, {} samples): first_step = {} covers the interval", last, xend, sol.t.len(), span * mult);
                            }
                            if let Some(t) = sol.t.iter().find(|t| (**t - xend) * span.signum() > 0.0) { key = "c03-overshoot"; why = format!("sample time {:?} lies beyond xend = {:?} (first_step = {})", t, xend, span * mult); }
                            // ... and the state reported there is the solution at xend, not that of a shorter, retried step
                            if why.is_empty() && sol.status == Status::Success {
                                // (the closed-form solutions of the test problems start at x0 = 0)
                                if let Some(ex) = if x0 == 0.0 { p.exact(xend) } else { None } {
                                    let e = (0..ex.len()).map(|i| (sol.y.last().unwrap()[i] - ex[i]).abs()).fold(0.0, f64::max);
                                    if e > 0.02 { key = "c03-success-short-step"; why = format!("Success at xend = {:?} with a state off by {:.3} (first_step = {} covers the interval; {} samples): the interval was not covered", xend, e, span * mult, sol.t.len()); }
                                }
                            }
                        }
                    }
                    out("iv", 300000 + k, &c, "first-step-covers-span", key, &why, &extra);
                    k += 1;
                }
            }
        }
    }
    // a covering first step on intervals with awkward end points: x0 + (xend - x0) is not always xend, but no sample may lie
    // beyond xend and a successful run ends at xend itself
    {
        let mut pairs: Vec<(f64, f64)> = vec![(0.38770000000000004, 1.7344900000000003)];
        for _ in 0..40 { let a = rng.range(-3.0, 3.0); let b = a + rng.range(0.2, 4.0) * if rng.chance(0.4) { -1.0 } else { 1.0 }; pairs.push((a, b)); }
        let mut k = 0;
        for method in ADAPTIVE {
            for &(x0, xend) in &pairs {
                let c = Cfg { kind: Kind::Decay3, method, x0, xend, rtol: 1e-3, atol: 1e-6, first: Some(1e3), maxstep: None, nmax: None };
                let p = Prob::new(Kind::Decay3);
                let res = catch_unwind(AssertUnwindSafe(|| solve_ivp(&p, x0, xend, &p.y0(), c.opts())));
                let (mut why, mut key, mut extra) = (String::new(), "", String::new());
                if let Ok(Ok(sol)) = res {
                    extra = format!("\"status\":\"{:?}\",\"n\":{},", sol.status, sol.t.len());
                    let d = (xend - x0).signum();
                    if let Some(t) = sol.t.iter().find(|t| (**t - xend) * d > 0.0) { key = "c03-overshoot"; why = format!("sample time {:?} lies beyond xend = {:?} (first_step = 1e3 covers the interval)", t, xend); }
                    else if sol.status == Status::Success && *sol.t.last().unwrap() != xend { key = "c03-success-not-reached"; why = format!("Success but the last sample is {:?}, xend = {:?}", sol.t.last().unwrap(), xend); }
                }
                out("iv", 340000 + k, &c, "covering-first-step-ends", key, &why, &extra);
                k += 1;
            }
        }
    }
    // a first_step far below the output handler's time tolerance: the sample times must still move strictly toward xend
    {
        let mut k = 0;
        for method in ADAPTIVE {
            for (xend, first) in [(1.0, 1e-13), (-1.0, 1e-13), (1.0, 3e-13), (2.0, 1e-15), (1.0, 9.9e-13)] {
                let c = Cfg { kind: Kind::Decay3, method, x0: 0.0, xend, rtol: 1e-6, atol: 1e-9, first: Some(first), maxstep: None, nmax: None };
                let p = Prob::new(Kind::Decay3);
                let b = Budgeted { p: &p, limit: 3_000_000, nan_after: None, jump_at: None, x0: 0.0 };
                let res = catch_unwind(AssertUnwindSafe(|| solve_ivp(&b, 0.0, xend, &p.y0(), c.opts())));
                let (mut why, mut key, mut extra) = (String::new(), "", String::new());
                match res {
                    Err(_) => { why = "solve_ivp panicked or exceeded the work budget".into(); key = "c04-hang-or-panic"; }
                    Ok(Err(_)) => { extra = "\"status\":\"Err\",".into(); }
                    Ok(Ok(sol)) => {
                        extra = format!("\"status\":\"{:?}\",\"n\":{},", sol.status, sol.t.len());
                        let d = xend.signum();
                        if let Some(w) = sol.t.windows(2).find(|w| (w[1] - w[0]) * d <= 0.0) { key = "c03-monotone"; why = format!("first_step = {:e}: sample times {:?} then {:?} do not move strictly toward xend (first samples {:?})", first, w[0], w[1], &sol.t[..sol.t.len().min(6)]); }
                        else if sol.status == Status::Success && *sol.t.last().unwrap() != xend { key = "c03-success-not-reached"; why = format!("Success but the last sample is {:?}", sol.t.last()); }
                    }
                }
                out("iv", 350000 + k, &c, "tiny-first-step", key, &why, &extra);
                k += 1;
            }
        }
    }
    // RK4 through solve_ivp: first_step is the (positive) fixed step size in either direction
    {
        let mut k = 0;
        for (x0, xend, first) in [(3.0, 0.0, 0.1), (0.0, -2.0, 0.25), (0.0, 2.0, 0.25), (1.0, -1.0, 0.5)] {
            let c = Cfg { kind: Kind::Harmonic, method: Method::RK4, x0, xend, rtol: 1e-6, atol: 1e-9, first: Some(first), maxstep: None, nmax: None };
            let p = Prob::new(Kind::Harmonic);
            let res = catch_unwind(AssertUnwindSafe(|| solve_ivp(&p, x0, xend, &p.y0(), c.opts())));
            let (mut why, mut key, mut extra) = (String::new(), "", String::new());
            match res {
                Err(_) => { why = "solve_ivp panicked".into(); key = "c04-hang-or-panic"; }
                Ok(Err(e)) => { extra = "\"status\":\"Err\",".into(); key = "c11-rk4-first-step-sign"; why = format!("RK4 from {} to {} with first_step = {}: solve_ivp returns Err({:?}) instead of integrating with that step size", x0, xend, first, e).replace('"', "'"); }
                Ok(Ok(sol)) => {
                    extra = format!("\"status\":\"{:?}\",\"n\":{},", sol.status, sol.t.len());
                    if sol.t.len() < 2 || ((sol.t[1] - sol.t[0]).abs() - first).abs() > 4.0 * f64::EPSILON * (1.0 + x0.abs()) { key = "c11-first-step"; why = format!("RK4 first_step = {}: first reported interval {:?}", first, &sol.t[..sol.t.len().min(2)]); }
                }
            }
            out("iv", 360000 + k, &c, "rk4-first-step-sign", key, &why, &extra);
            k += 1;
        }
    }
    // tiny but non-zero intervals (the zero-interval shortcut must not swallow them): Success means the last sample is xend
    {
        let mut k = 0;
        for method in ALL_METHODS {
            for (x0, span) in [(0.0, 5e-16), (0.0, -9e-16), (0.0, 1.5e-15), (0.0, 3e-14), (1e-3, 6e-16), (0.0, 1e-300)] {
                let xend = x0 + span;
                let c = Cfg { kind: Kind::Harmonic, method, x0, xend, rtol: 1e-6, atol: 1e-9, first: None, maxstep: None, nmax: None };
                let p = Prob::new(Kind::Harmonic);
                let b = Budgeted { p: &p, limit: 3_000_000, nan_after: None, jump_at: None, x0 };
                let res = catch_unwind(AssertUnwindSafe(|| solve_ivp(&b, x0, xend, &p.y0(), c.opts())));
                let (mut why, mut key, mut extra) = (String::new(), "", String::new());
                match res {
                    Err(_) => { why = "solve_ivp panicked or exceeded the work budget".into(); key = "c04-hang-or-panic"; }
                    Ok(Err(_)) => { extra = "\"status\":\"Err\",".into(); }
                    Ok(Ok(sol)) => {
                        let last = *sol.t.last().unwrap();
                        extra = format!("\"status\":\"{:?}\",\"n\":{},\"last\":{},", sol.status, sol.t.len(), jnum(last));
                        if sol.status == Status::Success && (last - xend).abs() > 4.0 * f64::EPSILON * xend.abs().max(x0.abs()) {
                            key = "c03-success-not-reached";
                            why = format!("Success on the interval [{:e}, {:e}] but the last sample is t = {:e} ({} samples)", x0, xend, last, sol.t.len());
                        }
                    }
                }
                out("iv", 400000 + k, &c, "tiny-interval", key, &why, &extra);
                k += 1;
            }
        }
    }
    // max_step dividing the span (with the controller sitting on max_step): the steps add up to xend minus a rounding
    // remainder; the run must still end with Success at xend
    {
        let mut k = 0;
        for method in ADAPTIVE {
            for (x0, span) in [(0.0, 1.0), (0.0, 0.7), (2.0, 1.0), (0.0, 1e-5), (-1.0, 0.3)] {
                for div in [10.0, 7.0, 3.0, 50.0] {
                    for dirn in [1.0, -1.0] {
                        let xend = x0 + dirn * span;
                        let ms = span / div;
                        let c = Cfg { kind: Kind::Slow, method, x0, xend, rtol: 1e-3, atol: 1e-6, first: Some(ms), maxstep: Some(ms), nmax: None };
                        let p = Prob::new(Kind::Slow);
                        let res = catch_unwind(AssertUnwindSafe(|| solve_ivp(&p, x0, xend, &p.y0(), c.opts())));
                        let (mut why, mut key, mut extra) = (String::new(), "", String::new());
                        match res {
                            Err(_) => { why = "solve_ivp panicked".into(); key = "c04-hang-or-panic"; }
                            Ok(Err(_)) => { extra = "\"status\":\"Err\",".into(); }
                            Ok(Ok(sol)) => {
                                let last = *sol.t.last().unwrap();
                                extra = format!("\"status\":\"{:?}\",\"n\":{},\"last\":{},", sol.status, sol.t.len(), jnum(last));
                                if sol.status != Status::Success {
                                    key = "c03-covered-not-success";
                                    why = format!("status {:?} with last sample t = {} (xend = {}): max_step = first_step = span/{} on a slow problem", sol.status, last, xend, div);
                                } else if (last - xend).abs() > 4.0 * f64::EPSILON * xend.abs().max(x0.abs()) {
                                    key = "c03-success-not-reached";
                                    why = format!("Success but the last sample is t = {} (xend = {})", last, xend);
                                }
                            }
                        }
                        out("iv", 200000 + k, &c, "maxstep-divides-span", key, &why, &extra);
                        k += 1;
                    }
                }
            }
        }
    }
    // zero-length run
    let p = Prob::new(Kind::Harmonic);
    let sol = solve_ivp(&p, 0.7, 0.7, &p.y0(), Options::builder().build()).unwrap();
    let ok = sol.nfev == 0 && sol.njev == 0 && sol.nstep == 0 && sol.naccpt == 0 && sol.nrejct == 0 && sol.t == vec![0.7] && sol.status == Status::Success;
    println!("{{\"kind\":\"iv\",\"case\":\"zero-length\",\"branch\":\"zero\",\"finding_key\":\"c18-zero-run\",\"ok\":{},\"why\":\"zero-length run: all counters zero, one sample\"}}", ok);
}

/// C04: termination / no panic / no non-finite Success on hostile right-hand sides
pub fn hostile(args: &[String]) {
    std::panic::set_hook(Box::new(|_| {}));
    let seed: u64 = args.get(0).and_then(|s| s.parse().ok()).unwrap_or(1);
    let cases: usize = args.get(1).and_then(|s| s.parse().ok()).unwrap_or(60);
    let mut rng = Rng(seed ^ 0xC04);
    for case in 0..cases {
        // the first 18 cases sweep the blow-up problem over every method and three non-zero origins
        let (method, variant, forced_x0) = if case < 18 { (ALL_METHODS[case % 6], 0, Some([-3.0, -1000.0, 2.5][case / 6])) }
            else if case < 30 { ([Method::RADAU, Method::BDF, Method::RK23, Method::DOPRI5][case % 4], 5, None) }
            else { (*rng.pick(&ALL_METHODS), rng.below(6), None) };
        let (kind, xend, nan_after, jump_at, name) = match variant {
            0 => (Kind::Blowup, rng.range(1.2, 3.0), None, None, "blow-up y'=y^2 (pole at t=1)"),
            1 => (Kind::Stiff, rng.range(0.5, 3.0), None, None, "stiff decay (rate 1000)"),
            2 => (*rng.pick(&SMOOTH), rng.range(1.0, 3.0), Some(rng.range(0.2, 0.9)), None, "NaN after t*"),
            3 => (*rng.pick(&SMOOTH), rng.range(1.0, 3.0), None, Some(rng.range(0.2, 0.9)), "discontinuous right-hand side"),
            5 => (Kind::Logistic, rng.range(2.6, 4.0), None, None, "right-hand side NaN once |y| exceeds a limit"),
            _ => (Kind::Blowup, -rng.range(0.5, 2.0), None, None, "y'=y^2 backward (decays)"),
        };
        // state-dependent breakdown: logistic growth from 0.1 towards 1, NaN once y > 0.5 (reached near t = 2.2)
        NAN_ABOVE.with(|c| c.set(if variant == 5 { Some(0.5) } else { None }));
        let rtol = 10f64.powf(-rng.range(3.0, 7.0));
        let nmax = if rng.chance(0.4) { Some(50 + rng.below(2000)) } else { None };
        // the same scenario at an origin left or right of zero (all test problems except Riccati are autonomous)
        let x0 = if kind == Kind::Riccati { 0.0 } else { forced_x0.unwrap_or(*rng.pick(&[0.0, 0.0, -3.0, -1000.0, 2.5])) };
        let xend = x0 + xend;
        let c = Cfg { kind, method, x0, xend, rtol, atol: rtol * 1e-2, first: None, maxstep: None, nmax };
        let p = Prob::new(kind);
        let y0 = p.y0();
        // a user min_step (an option of solve_ivp that reaches Radau and BDF) on every third implicit run
        let min_step = if matches!(method, Method::RADAU | Method::BDF) && (case % 3 == 1 || (case < 18 && case % 6 >= 4)) { Some(10f64.powf(-rng.range(2.0, 5.0))) } else { None };
        let b = Budgeted { p: &p, limit: if min_step.is_some() { 3_000_000 } else { 20_000_000 }, nan_after, jump_at, x0 };
        let t0 = std::time::Instant::now();
        let mut o = c.opts();
        o.min_step = min_step;
        // a user first step on half of the breakdown cases: as long as the span (the first trial step is the landing step),
        // or short
        if variant == 5 && case % 2 == 0 { o.first_step = Some(if case % 4 == 0 { xend - x0 } else { 0.01 }); }
        let res = catch_unwind(AssertUnwindSafe(|| solve_ivp(&b, x0, xend, &y0, o)));
        let secs = t0.elapsed().as_secs_f64();
        let mut why = String::new();
        let mut key = "";
        let mut extra = format!("\"variant\":\"{}\",\"min_step\":{},\"seconds\":{:.3},\"rhs_calls\":{},", name, min_step.map(jnum).unwrap_or("null".into()), secs, p.count.get());
        match res {
            Err(_) => { why = format!("{}: solve_ivp panicked or did not finish within 2e7 right-hand-side calls", name); key = "c04-hang-or-panic"; }
            Ok(Err(_)) => { extra += "\"status\":\"Err\","; }
            Ok(Ok(sol)) => {
                extra += &format!("\"status\":\"{:?}\",", sol.status);
                if sol.status == Status::Success && method != Method::RK4 && !sol.y.iter().all(|v| finite(v)) { why = format!("{}: Success with non-finite states", name); key = "c04-nonfinite-success"; }
                if variant == 0 && sol.status == Status::Success && method != Method::RK4 { why = format!("{}: integration across a pole reported Success", name); key = "c04-blowup-success"; }
                if variant == 2 && sol.status == Status::Success && method != Method::RK4 { why = format!("{}: Success although the right-hand side returns NaN before xend", name); key = "c04-nan-success"; }
                if sol.t.len() != sol.y.len() { why = "t and y have different lengths".into(); key = "c04-shape"; }
                if variant == 5 && sol.status == Status::Success && method != Method::RK4 { why = format!("{}: Success although the solution leaves the region where the right-hand side is defined (last sample t = {:?}, xend = {})", name, sol.t.last(), xend); key = "c04-nan-success"; }
            }
        }
        out("hs", case, &c, name, key, &why, &extra);
    }
    NAN_ABOVE.with(|c| c.set(None));
    // right-hand sides that break down at a state the solution reaches (sqrt of a negative number; undefined above a limit),
    // with user first steps from tiny to the whole span: Success must mean that xend was reached with finite samples
    {
        let mut k = 0;
        for method in ADAPTIVE {
            for (prob, xend) in [(0usize, 3.0), (1usize, 2.0), (1usize, -2.0)] {
                for first in [0.01, 0.1, 1.0, 2.0, 3.0] {
                    let o = { let mut o = Options::builder().method(method).build(); o.first_step = Some(first); o };
                    let calls = std::cell::Cell::new(0usize);
                    let f = Breakdown { which: prob, sign: if xend < 0.0 { -1.0 } else { 1.0 }, calls: &calls };
                    let res = catch_unwind(AssertUnwindSafe(|| solve_ivp(&f, 0.0, xend, &[1.0], o)));
                    let (mut why, mut key, mut extra) = (String::new(), "", String::new());
                    match res {
                        Err(_) => { why = "solve_ivp panicked or did not finish within 3e6 right-hand-side calls".into(); key = "c04-hang-or-panic"; }
                        Ok(Err(_)) => { extra = "\"status\":\"Err\",".into(); }
                        Ok(Ok(sol)) => {
                            let last = *sol.t.last().unwrap();
                            extra = format!("\"status\":\"{:?}\",\"n\":{},\"last\":{},", sol.status, sol.t.len(), jnum(last));
                            if !sol.y.iter().all(|v| finite(v)) && sol.status == Status::Success { why = "Success with non-finite samples".into(); key = "c04-nonfinite-success"; }
                            else if sol.status == Status::Success && last != xend { why = format!("Success although the run stopped at t = {} (xend = {}), {} samples", last, xend, sol.t.len()); key = "c04-success-short"; }
                        }
                    }
                    println!("{{\"kind\":\"hs\",\"case\":{},\"problem\":\"{}\",\"method\":\"{}\",\"x0\":0,\"xend\":{},\"first_step\":{},\"branch\":\"breakdown\",\"finding_key\":\"{}\",{}\"ok\":{},\"why\":{:?}}}",
                        400000 + k, if prob == 0 { "tank y'=-sqrt(y)" } else { "y'=y, NaN above 2" }, method_name(method), xend, first, key, extra, why.is_empty(), why);
                    k += 1;
                }
            }
        }
    }
    overflow_family();
    overflowing_span_family();
    stagnation_family();
    hostile_jacobian_family();
}

/// 0: y' = -sqrt(y) (NaN for y < 0), 1: y' = -y (overflows backward), 2: y' = -ln(y) - 1 - x (Newton iterates can leave y > 0)
struct CountRhs { which: usize, analytic: bool, calls: std::cell::Cell<usize>, diff_calls: std::cell::Cell<usize>, differencing: std::cell::Cell<bool>, jcalls: std::cell::Cell<usize> }
impl CountRhs { fn new(which: usize, analytic: bool) -> Self { CountRhs { which, analytic, calls: 0.into(), diff_calls: 0.into(), differencing: false.into(), jcalls: 0.into() } } }
struct FdOf<'a>(&'a CountRhs);
impl<'a> IVP for FdOf<'a> { fn ode(&self, x: f64, y: &[f64], d: &mut [f64]) { self.0.ode(x, y, d) } }
impl IVP for CountRhs {
    fn ode(&self, x: f64, y: &[f64], d: &mut [f64]) {
        if self.differencing.get() { self.diff_calls.set(self.diff_calls.get() + 1); } else { self.calls.set(self.calls.get() + 1); }
        if self.calls.get() + self.diff_calls.get() > 5_000_000 { panic!("work budget exceeded"); }
        d[0] = match self.which { 0 => -y[0].sqrt(), 1 => -y[0], _ => -y[0].ln() - 1.0 - x };
    }
    fn jac(&self, x: f64, y: &[f64], j: &mut Matrix) {
        self.jcalls.set(self.jcalls.get() + 1);
        if self.analytic { j[(0, 0)] = match self.which { 0 => -0.5 / y[0].sqrt(), 1 => -1.0, _ => -1.0 / y[0] }; }
        else { self.differencing.set(true); FdOf(self).jac(x, y, j); self.differencing.set(false); }
    }
}

fn counts_at_breakdown() {
    let mut k = 0;
    let report = |k: usize, name: &str, method: &str, analytic: bool, status: String, nfev: usize, njev: usize, f: &CountRhs| {
        let (mut why, mut key) = (String::new(), "");
        if nfev != f.calls.get() { why = format!("nfev = {} but the stepper made {} right-hand-side evaluations (status {})", nfev, f.calls.get(), status); key = "c18-nfev"; }
        else if njev != f.jcalls.get() { why = format!("njev = {} but {} Jacobian evaluations were made (status {})", njev, f.jcalls.get(), status); key = "c18-njev"; }
        println!("{{\"kind\":\"iv\",\"case\":{},\"problem\":\"{}\",\"method\":\"{}\",\"analytic_jacobian\":{},\"branch\":\"counts-at-breakdown\",\"finding_key\":\"{}\",\"status\":\"{}\",\"ok\":{},\"why\":{:?}}}",
            520000 + k, name, method, analytic, key, status, why.is_empty(), why);
    };
    for method in [Method::BDF, Method::RADAU] {
        for (which, xend, y0, rtol, atol, name) in [(0usize, 3.0, 1.0, 1e-3, 1e-6, "y'=-sqrt(y) on [0,3]"), (0, 3.0, 1.0, 1e-10, 1e-12, "y'=-sqrt(y) on [0,3], tight"), (2, 5.0, 1.0, 1e-3, 1e-6, "y'=-ln(y)-1-x on [0,5]"),
                                                    (2, 5.0, 1.0, 1e-1, 1e-1, "y'=-ln(y)-1-x on [0,5], loose"), (1, -800.0, 1.0, 1e-3, 1e-6, "y'=-y on [0,-800] (overflows)")] {
            for analytic in [true, false] {
                let f = CountRhs::new(which, analytic);
                let o = Options::builder().method(method).rtol(rtol).atol(atol).max_steps(100_000).build();
                match catch_unwind(AssertUnwindSafe(|| solve_ivp(&f, 0.0, xend, &[y0], o))) {
                    Ok(Ok(sol)) => report(k, name, method_name(method), analytic, format!("{:?}", sol.status), sol.nfev, sol.njev, &f),
                    Ok(Err(_)) => report(k, name, method_name(method), analytic, "Err".into(), f.calls.get(), f.jcalls.get(), &f),
                    Err(_) => println!("{{\"kind\":\"iv\",\"case\":{},\"problem\":\"{}\",\"method\":\"{}\",\"branch\":\"counts-at-breakdown\",\"finding_key\":\"c04-hang-or-panic\",\"ok\":false,\"why\":\"solve_ivp panicked or exceeded the work budget\"}}", 520000 + k, name, method_name(method)),
                }
                k += 1;
            }
        }
    }
    // explicit methods: huge but finite values and a step that is too coarse, so that a stage or the candidate state overflows
    // while the run goes on (y' = -1000 y from 1e300 with first_step 1, and its mirror): every attempt's evaluations are counted
    for method in [Method::RK23, Method::DOPRI5, Method::DOP853] {
        for (lam, xend, y0v) in [(-1000.0, 1.0, 1e300), (1000.0, -1.0, 1e300), (-1000.0, 1.0, -3e299)] {
            struct Lin { lam: f64, calls: std::cell::Cell<usize> }
            impl IVP for Lin { fn ode(&self, _x: f64, y: &[f64], d: &mut [f64]) { self.calls.set(self.calls.get() + 1); d[0] = self.lam * y[0]; } }
            let f = Lin { lam, calls: 0.into() };
            let mut o = Options::builder().method(method).rtol(1e-6).atol(1e-9).max_steps(100_000).build();
            o.first_step = Some(1.0);
            let (mut why, mut key, mut status) = (String::new(), "", String::new());
            if let Ok(Ok(sol)) = catch_unwind(AssertUnwindSafe(|| solve_ivp(&f, 0.0, xend, &[y0v], o))) {
                status = format!("{:?}", sol.status);
                if sol.nfev != f.calls.get() { why = format!("nfev = {} but the stepper made {} right-hand-side evaluations (status {}, {} rejected attempts)", sol.nfev, f.calls.get(), status, sol.nrejct); key = "c18-nfev"; }
            }
            println!("{{\"kind\":\"iv\",\"case\":{},\"problem\":\"y'={}y from {:e}, first_step 1\",\"method\":\"{}\",\"branch\":\"counts-at-breakdown\",\"finding_key\":\"{}\",\"status\":\"{}\",\"ok\":{},\"why\":{:?}}}",
                520000 + k, lam, y0v, method_name(method), key, status, why.is_empty(), why);
            k += 1;
        }
    }
    // low-level BDF with a Newton iteration limit of 1 and 2: no attempt can establish convergence with one iteration
    for maxiter in [1usize, 2] {
        for analytic in [true, false] {
            let f = CountRhs::new(1, analytic);
            let solver = BDF::builder().newton_maxiter(maxiter).build();
            let r = catch_unwind(AssertUnwindSafe(|| solver.solve(&f, 0.0, &[1.0], 1.0, 1e-3.into(), 1e-6.into(), None::<&mut Recorder>)));
            if let Ok(Ok(res)) = r { report(k, &format!("y'=-y on [0,1], newton_maxiter {}", maxiter), "BDF", analytic, format!("{:?}", res.status), res.evals.ode, res.evals.jac, &f); }
            k += 1;
        }
    }
}

/// C04: intervals far from the origin whose default step is below one rounding error of x (RK4 takes span / 100), and a
/// min_step larger than the interval or than max_step (Radau / BDF): the call must return, without panicking
fn stagnation_family() {
    let mut k = 0;
    for method in ALL_METHODS {
        for (x0, span) in [(1e15, 1.0), (1.0, 4.0 * f64::EPSILON), (1e8, 1e-7), (-1e15, -8.0), (1e15, 64.0)] {
            let xend = x0 + span;
            let calls = std::cell::Cell::new(0usize);
            let f = Overflow { which: 1, c: -1.0, calls: &calls };
            let o = Options::builder().method(method).build();
            let res = catch_unwind(AssertUnwindSafe(|| solve_ivp(&f, x0, xend, &[1.0], o)));
            let (mut why, mut key, mut extra) = (String::new(), "", String::new());
            match res {
                Err(_) => { why = format!("solve_ivp on [{:e}, {:e} + {:e}] panicked or did not finish within 3e6 right-hand-side calls", x0, x0, span); key = "c04-hang-or-panic"; }
                Ok(Err(_)) => { extra = "\"status\":\"Err\",".into(); }
                Ok(Ok(sol)) => { extra = format!("\"status\":\"{:?}\",\"n\":{},", sol.status, sol.t.len()); }
            }
            println!("{{\"kind\":\"hs\",\"case\":{},\"problem\":\"y'=-y far from the origin\",\"method\":\"{}\",\"x0\":{:e},\"xend\":{:?},\"branch\":\"stagnation\",\"finding_key\":\"{}\",{}\"ok\":{},\"why\":{:?}}}",
                460000 + k, method_name(method), x0, xend, key, extra, why.is_empty(), why);
            k += 1;
        }
    }
    for method in [Method::RADAU, Method::BDF] {
        for (minstep, maxstep) in [(10.0, None), (0.5, Some(0.1)), (2.0, Some(2.0))] {
            let calls = std::cell::Cell::new(0usize);
            let f = Overflow { which: 1, c: -1.0, calls: &calls };
            let mut o = Options::builder().method(method).build();
            o.min_step = Some(minstep);
            o.max_step = maxstep;
            let res = catch_unwind(AssertUnwindSafe(|| solve_ivp(&f, 0.0, 1.0, &[1.0], o)));
            let (mut why, mut key, mut extra) = (String::new(), "", String::new());
            match res {
                Err(_) => { why = format!("min_step = {}, max_step = {:?} on [0, 1]: solve_ivp panicked (or exceeded the work budget) instead of returning a status or an Err", minstep, maxstep); key = "c04-min-step-panic"; }
                Ok(Err(_)) => { extra = "\"status\":\"Err\",".into(); }
                Ok(Ok(sol)) => { extra = format!("\"status\":\"{:?}\",\"n\":{},", sol.status, sol.t.len()); }
            }
            println!("{{\"kind\":\"hs\",\"case\":{},\"problem\":\"y'=-y\",\"method\":\"{}\",\"x0\":0,\"xend\":1,\"min_step\":{},\"branch\":\"min-step-bounds\",\"finding_key\":\"{}\",{}\"ok\":{},\"why\":{:?}}}",
                470000 + k, method_name(method), minstep, key, extra, why.is_empty(), why);
            k += 1;
        }
    }
}

/// y' = lambda y with a user Jacobian that is exact (mode 0), NaN (1), +inf on the diagonal (2) or NaN beyond `xb` (3)
#[derive(Clone, Copy)]
struct BadJac { lambda: f64, n: usize, mode: usize, xb: f64 }
impl IVP for BadJac {
    fn ode(&self, _x: f64, y: &[f64], d: &mut [f64]) { for i in 0..self.n { d[i] = self.lambda * y[i]; } }
    fn jac(&self, x: f64, _y: &[f64], j: &mut Matrix) {
        for r in 0..self.n { for c in 0..self.n {
            let exact = if r == c { self.lambda } else { 0.0 };
            j[(r, c)] = match self.mode { 0 => exact, 1 => f64::NAN, 2 => if r == c { f64::INFINITY } else { 0.0 }, _ => if x > self.xb { f64::NAN } else { exact } };
        } }
    }
}

/// C04: iteration matrices that cannot be factorised when a step is first attempted (NaN / inf user Jacobian from the start
/// or part-way, an exactly singular `I − cJ`), with a `min_step` and the default unlimited step budget.  Such a run makes no
/// right-hand-side calls while it spins, so the work budget of the other families cannot see it: each case runs on a helper
/// thread under a wall-clock deadline, and a case that misses it is reported and ends the monitor (the thread cannot be stopped).
fn hostile_jacobian_family() {
    use std::sync::mpsc;
    let mut k = 0;
    for method in [Method::BDF, Method::RADAU] {
        for (lambda, n, mode, xb, min_step, xend) in [(-1.0, 1usize, 1usize, 0.0, 1e-3, 1.0), (-1.0, 2, 1, 0.0, 1e-3, 1.0), (-1.0, 1, 1, 0.0, 1e-3, -1.0), (-2.0, 2, 2, 0.0, 1e-2, 1.0),
                                                      (-1.0, 1, 3, 0.02, 1e-3, 1.0), (-30.0, 2, 3, 0.02, 1e-4, 1.0), (1.0, 1, 0, 0.0, 1.185, 10.0), (1.0, 1, 0, 0.0, 1.0, 10.0), (-1.0, 1, 1, 0.0, 0.5, 1.0)] {
            let f = BadJac { lambda, n, mode, xb };
            let (tx, rx) = mpsc::channel();
            std::thread::spawn(move || {
                let y0 = vec![1.0; n];
                let mut o = Options::builder().method(method).rtol(1e-3).atol(1e-6).build();
                o.min_step = Some(min_step);
                let r = catch_unwind(AssertUnwindSafe(|| solve_ivp(&f, 0.0, xend, &y0, o)));
                let _ = tx.send(match r { Err(_) => Err(()), Ok(Err(_)) => Ok(("Err".to_string(), 0, true)), Ok(Ok(sol)) => Ok((format!("{:?}", sol.status), sol.nstep, sol.status != Status::Success || sol.y.iter().all(|v| finite(v)))) });
            });
            let (mut why, mut key, mut extra) = (String::new(), "", String::new());
            let mut hung = false;
            match rx.recv_timeout(std::time::Duration::from_secs(20)) {
                Err(_) => { hung = true; why = format!("solve_ivp did not return within 20 s (Jacobian mode {}, min_step {}, unlimited step budget)", mode, min_step); key = "c04-hang-jacobian"; }
                Ok(Err(())) => { why = "solve_ivp panicked".into(); key = "c04-hang-or-panic"; }
                Ok(Ok((status, nstep, fin))) => {
                    extra = format!("\"status\":\"{}\",\"nstep\":{},", status, nstep);
                    if !fin { why = "Success with non-finite states".into(); key = "c04-nonfinite-success"; }
                }
            }
            println!("{{\"kind\":\"hs\",\"case\":{},\"problem\":\"y'={}y, Jacobian mode {} (0 exact, 1 NaN, 2 inf, 3 NaN beyond {})\",\"method\":\"{}\",\"x0\":0,\"xend\":{},\"n\":{},\"min_step\":{},\"branch\":\"hostile-jacobian\",\"finding_key\":\"{}\",{}\"ok\":{},\"why\":{:?}}}",
                480000 + k, lambda, mode, xb, method_name(method), xend, n, min_step, key, extra, why.is_empty(), why);
            k += 1;
            if hung { use std::io::Write; let _ = std::io::stdout().flush(); std::process::exit(0); }
        }
    }
}

/// finite right-hand sides whose solution leaves the range of f64 before xend: 0: y' = c, 1: y' = c y, 2: y' = c x
struct Overflow<'a> { which: usize, c: f64, calls: &'a std::cell::Cell<usize> }
impl<'a> IVP for Overflow<'a> {
    fn ode(&self, x: f64, y: &[f64], d: &mut [f64]) {
        self.calls.set(self.calls.get() + 1);
        if self.calls.get() > 3_000_000 { panic!("work budget exceeded"); }
        d[0] = match self.which { 0 => self.c, 1 => self.c * y[0], _ => self.c * x };
    }
}

/// C04: finite end points whose difference overflows (x0 = -1e308, xend = 1e308): the span, and with it the first step, is
/// infinite and never shrinks; whatever the right-hand side does, solve_ivp has to return (an Err or a non-success status)
fn overflowing_span_family() {
    let mut k = 0;
    for method in ADAPTIVE {
        for (x0, xend) in [(-1e308, 1e308), (1e308, -1e308), (-1.7e308, 0.5e308)] {
            for which in [1usize, 3] {
                for nmax in [None, Some(1000usize)] {
                    let calls = std::cell::Cell::new(0usize);
                    let f = SpanRhs { nan: which == 3, calls: &calls };
                    let o = { let mut o = Options::builder().method(method).build(); o.max_steps = nmax; o };
                    let (mut why, mut key, mut extra) = (String::new(), "", String::new());
                    match catch_unwind(AssertUnwindSafe(|| solve_ivp(&f, x0, xend, &[1.0], o))) {
                        Err(_) => { why = format!("solve_ivp did not return within 3,000,000 right-hand-side calls (span {:e} -> {:e} overflows, max_steps {:?})", x0, xend, nmax); key = "c04-hang-overflowing-span"; }
                        Ok(Err(_)) => { extra = "\"status\":\"Err\",".into(); }
                        Ok(Ok(sol)) => {
                            extra = format!("\"status\":\"{:?}\",", sol.status);
                            if sol.status == Status::Success && !sol.y.iter().all(|v| finite(v)) { why = "Success with non-finite states".into(); key = "c04-nonfinite-success"; }
                        }
                    }
                    println!("{{\"kind\":\"hs\",\"case\":{},\"problem\":\"{}\",\"method\":\"{}\",\"x0\":{:e},\"xend\":{:e},\"branch\":\"overflowing-span\",\"finding_key\":\"{}\",{}\"ok\":{},\"why\":{:?}}}",
                        490000 + k, if which == 3 { "y' = NaN" } else { "y' = -y" }, method_name(method), x0, xend, key, extra, why.is_empty(), why);
                    k += 1;
                }
            }
        }
    }
}
struct SpanRhs<'a> { nan: bool, calls: &'a std::cell::Cell<usize> }
impl<'a> IVP for SpanRhs<'a> {
    fn ode(&self, _x: f64, y: &[f64], d: &mut [f64]) {
        self.calls.set(self.calls.get() + 1);
        if self.calls.get() > 3_000_000 { panic!("work budget exceeded"); }
        d[0] = if self.nan { f64::NAN } else { -y[0] };
    }
}

/// C04: the solution overflows before xend (the right-hand side itself stays finite); no error-controlled method may
/// report Success with non-finite states
fn overflow_family() {
    let mut k = 0;
    for method in ADAPTIVE {
        for (which, c, y0, xend) in [(0usize, 1e308, 0.0, 10.0), (0, -1e308, 0.0, -10.0), (0, 1e308, 0.0, -10.0), (2, 1e306, 0.0, 100.0), (1, 1e3, 1.0, 10.0), (1, 700.0, 1.0, 2.0), (0, 1e300, 1.0, 1e9),
                                      (0, 1e300, 1e308, 8e7), (0, -1e300, -1e308, 1e8), (0, 1e300, 1e308, 1e9), (0, -1e300, 1e308, -1e8)] {
            for first in [None, Some(1.0), Some(0.25), Some(xend)] {
                let o = { let mut o = Options::builder().method(method).build(); o.first_step = first.map(|h: f64| h.abs()); o };
                let calls = std::cell::Cell::new(0usize);
                let f = Overflow { which, c, calls: &calls };
                let res = catch_unwind(AssertUnwindSafe(|| solve_ivp(&f, 0.0, xend, &[y0], o)));
                let (mut why, mut key, mut extra) = (String::new(), "", String::new());
                match res {
                    Err(_) => { why = "solve_ivp panicked or did not finish within 3e6 right-hand-side calls".into(); key = "c04-hang-or-panic"; }
                    Ok(Err(_)) => { extra = "\"status\":\"Err\",".into(); }
                    Ok(Ok(sol)) => {
                        extra = format!("\"status\":\"{:?}\",\"n\":{},", sol.status, sol.t.len());
                        if sol.status == Status::Success && !sol.y.iter().all(|v| finite(v)) { why = format!("Success with non-finite states: t = {:?}, last y = {:?}", sol.t, sol.y.last()); key = "c04-overflow-success"; }
                    }
                }
                println!("{{\"kind\":\"hs\",\"case\":{},\"problem\":\"overflow {} c={:e}\",\"method\":\"{}\",\"x0\":0,\"xend\":{},\"first_step\":{},\"branch\":\"overflow\",\"finding_key\":\"{}\",{}\"ok\":{},\"why\":{:?}}}",
                    450000 + k, ["y'=c", "y'=c*y", "y'=c*x"][which], c, method_name(method), jnum(xend), first.map(jnum).unwrap_or("null".into()), key, extra, why.is_empty(), why);
                k += 1;
            }
        }
    }
}

/// 0: draining tank y' = -sqrt(y) (NaN for y < 0);  1: y' = sign * y, NaN once y > 2.  Default finite-difference Jacobian.
struct Breakdown<'a> { which: usize, sign: f64, calls: &'a std::cell::Cell<usize> }
impl<'a> IVP for Breakdown<'a> {
    fn ode(&self, _x: f64, y: &[f64], d: &mut [f64]) {
        self.calls.set(self.calls.get() + 1);
        if self.calls.get() > 3_000_000 { panic!("work budget exceeded"); }
        d[0] = if self.which == 0 { -y[0].sqrt() } else if y[0] > 2.0 { f64::NAN } else { self.sign * y[0] };
    }
}

struct Hasher(u64);
impl Hasher {
    fn add(&mut self, x: f64) { self.0 = (self.0 ^ x.to_bits()).wrapping_mul(0x100000001B3).rotate_left(7); }
}
struct LogIVP<'a> { p: &'a Prob, h: std::cell::RefCell<Hasher>, n: std::cell::Cell<usize> }
impl<'a> IVP for LogIVP<'a> {
    fn ode(&self, t: f64, y: &[f64], d: &mut [f64]) {
        self.p.ode(t, y, d);
        let mut h = self.h.borrow_mut();
        h.add(t);
        for v in y { h.add(*v); }
        self.n.set(self.n.get() + 1);
    }
    fn n_events(&self) -> usize { self.p.n_events() }
    fn events(&self, t: f64, y: &[f64], o: &mut [f64]) { self.p.events(t, y, o) }
    fn event_config(&self, i: usize) -> EventConfig { self.p.event_config(i) }
    fn jac(&self, t: f64, y: &[f64], j: &mut Matrix) { self.p.jac(t, y, j) }
}

/// C12 + C11 (budget prefix): option subsets do not perturb the integration
/// bitwise equality (NaN states of a run that blew up compare equal to themselves)
fn bits_eq(a: &[f64], b: &[f64]) -> bool { a.len() == b.len() && a.iter().zip(b).all(|(x, y)| x.to_bits() == y.to_bits()) }
fn rows_eq(a: &[Vec<f64>], b: &[Vec<f64>]) -> bool { a.len() == b.len() && a.iter().zip(b).all(|(x, y)| bits_eq(x, y)) }

pub fn options(args: &[String]) {
    std::panic::set_hook(Box::new(|_| {}));
    let seed: u64 = args.get(0).and_then(|s| s.parse().ok()).unwrap_or(1);
    let cases: usize = args.get(1).and_then(|s| s.parse().ok()).unwrap_or(100);
    let mut rng = Rng(seed ^ 0xC12);
    for case in 0..cases {
        let mut c = gen_cfg(&mut rng);
        c.first = None;
        // the first 12 cases: uniform stepping (first_step = max_step = 0.1; RK4's fixed step) on a non-autonomous problem with
        // t_eval on the same grid written as k/10: accumulated step ends and requested times agree to rounding, not bitwise
        let grid_case = case < 12;
        if grid_case {
            let back = case >= 6;
            c = Cfg { kind: Kind::Riccati, method: ALL_METHODS[case % 6], x0: 0.0, xend: if back { -1.5 } else { 1.5 }, rtol: 1e-3, atol: 1e-6,
                      first: Some(if back { -0.1 } else { 0.1 }), maxstep: Some(0.1), nmax: None };
        }
        // every third case: a span that straddles zero and ends close to it — the landing step's
        // `xold + (xend − xold)` then differs from `xend` in the last bit, which is where an output option that touches the
        // solver's abscissa shows (seeded change C12d)
        if !grid_case && case % 3 == 1 {
            // (|xend| well below the length of the landing step: the rounding error of `xend − xold` is then many ulps of xend)
            let (a, b) = (0.4 + 1.2 * rng.unit(), 0.002 + 0.1 * rng.unit());
            if rng.below(2) == 0 { c.x0 = -a; c.xend = b; } else { c.x0 = a; c.xend = -b; }
            c.maxstep = match c.maxstep { Some(m) if m.is_finite() => Some((a + b) / 8.0), m => m };
        }
        if (c.xend - c.x0).abs() < 1e-6 { continue; }
        let run = |teval: bool, dense: bool, events: bool, nmax: Option<usize>, rng_pts: &Vec<f64>| {
            let mut p = Prob::new(c.kind);
            if events { p.events = vec![EventSpec { a: 1.0, b: vec![0.0; p.n()], c: c.x0 + 0.37 * (c.xend - c.x0), dir: 0, terminal: None }, EventSpec { a: 0.0, b: { let mut b = vec![0.0; p.n()]; b[0] = 1.0; b }, c: p.y0()[0] * 0.9, dir: 0, terminal: None }]; }
            let l = LogIVP { p: &p, h: Hasher(0xcbf29ce484222325).into(), n: 0.into() };
            let mut o = c.opts();
            o.dense_output = dense;
            o.max_steps = nmax;
            if teval { o.t_eval = Some(rng_pts.clone()); }
            let y0 = p.y0();
            let r = solve_ivp(&l, c.x0, c.xend, &y0, o);
            let hash = l.h.borrow().0;
            (r, hash, l.n.get())
        };
        let d = (c.xend - c.x0).signum();
        let mut pts: Vec<f64> = (0..5).map(|_| c.x0 + (c.xend - c.x0) * rng.unit()).collect();
        pts.push(c.xend);
        pts.sort_by(|a, b| if d > 0.0 { a.partial_cmp(b).unwrap() } else { b.partial_cmp(a).unwrap() });
        if grid_case { pts = (1..=15).map(|k| d * (k as f64) / 10.0).collect(); }
        let (base, h0, n0) = run(false, false, false, None, &pts);
        let base = match base { Ok(b) => b, Err(_) => continue };
        let mut why = String::new();
        let mut key = "";
        // the events of the events-only run: every other subset that has events must report the same ones, bit for bit
        let mut ev_ref: Option<(Vec<Vec<f64>>, Vec<Vec<Vec<f64>>>)> = None;
        for mask in [4u32, 1, 2, 3, 5, 6, 7] {
            let (r, h, n) = run(mask & 1 != 0, mask & 2 != 0, mask & 4 != 0, None, &pts);
            let r = match r { Ok(r) => r, Err(e) => { why = format!("option subset {:03b} fails with {:?}", mask, e); key = "c12-error"; break; } };
            if h != h0 || n != n0 { why = format!("option subset {:03b} (bit0 t_eval, bit1 dense, bit2 events): the sequence of right-hand-side calls differs from the plain run ({} vs {} calls)", mask, n, n0); key = "c12-calls"; break; }
            if (r.nfev, r.nstep, r.naccpt, r.nrejct, r.status) != (base.nfev, base.nstep, base.naccpt, base.nrejct, base.status) { why = format!("option subset {:03b}: statistics/status differ from the plain run", mask); key = "c12-stats"; break; }
            if mask & 1 == 0 && !(bits_eq(&r.t, &base.t) && rows_eq(&r.y, &base.y)) {
                let i = (0..r.t.len().min(base.t.len())).find(|&i| r.t[i].to_bits() != base.t[i].to_bits() || !bits_eq(&r.y[i], &base.y[i]));
                let at = match i { Some(i) => format!("sample {}: t = {:e} y = {:?}, plain run: t = {:e} y = {:?}", i, r.t[i], r.y[i], base.t[i], base.y[i]), None => format!("{} samples, plain run {}", r.t.len(), base.t.len()) };
                why = format!("option subset {:03b}: accepted samples differ from the plain run ({})", mask, at); key = "c12-samples"; break;
            }
            if mask & 4 != 0 {
                match &ev_ref {
                    None => ev_ref = Some((r.t_events.clone(), r.y_events.clone())),
                    Some((te, ye)) => {
                        let same = te.len() == r.t_events.len() && te.iter().zip(r.t_events.iter()).all(|(a, b)| bits_eq(a, b))
                            && ye.len() == r.y_events.len() && ye.iter().zip(r.y_events.iter()).all(|(a, b)| rows_eq(a, b));
                        if !same { why = format!("option subset {:03b} (bit0 t_eval, bit1 dense, bit2 events) reports other events than the events-only run: {:?} vs {:?}", mask, r.t_events, te); key = "c09-events-option-dependent"; break; }
                    }
                }
            }
            // with t_eval the reported value at xend is the interpolant's (C05); the integrator's own trajectory is compared
            // through the hash of every right-hand-side call (times and states) above
        }
        // repeatability
        if why.is_empty() {
            let (r2, h2, _) = run(false, false, false, None, &pts);
            if h2 != h0 || !r2.map(|r| bits_eq(&r.t, &base.t) && rows_eq(&r.y, &base.y)).unwrap_or(false) { why = "repeating the same call gives a different result".into(); key = "c12-repeat"; }
        }
        // budget prefix (C11)
        if why.is_empty() && base.nstep > 3 {
            let budget = 1 + rng.below(base.nstep - 1);
            let (rb, _, _) = run(false, false, false, Some(budget), &pts);
            if let Ok(rb) = rb {
                if rb.nstep > budget + 1 { why = format!("max_steps = {} but nstep = {}", budget, rb.nstep); key = "c11-budget-count"; }
                else if rb.status == Status::Success && !bits_eq(&rb.t, &base.t) { why = "budgeted run succeeded with different samples".into(); key = "c11-budget-prefix"; }
                else if rb.status != Status::Success {
                    if rb.status != Status::NeedLargerNMax { why = format!("budget ran out but status is {:?}", rb.status); key = "c11-budget-status"; }
                    let m = rb.t.len();
                    if m > base.t.len() || !bits_eq(&rb.t[..], &base.t[..m]) || !rows_eq(&rb.y[..], &base.y[..m]) { why = format!("budgeted run (max_steps = {}) is not a bit-identical prefix of the unbudgeted run", budget); key = "c11-budget-prefix"; }
                }
            }
        }
        out("op", case, &c, "subsets", key, &why, "");
    }
    // rough problems at coarse tolerances (many rejected steps, retries capped by the previous step): every method, plain run
    // against the run with dense output / t_eval / an event — bit for bit, statistics included
    {
        struct Vdp5;
        impl IVP for Vdp5 {
            fn ode(&self, _x: f64, y: &[f64], d: &mut [f64]) { d[0] = y[1]; d[1] = 5.0 * (1.0 - y[0] * y[0]) * y[1] - y[0]; }
            fn n_events(&self) -> usize { 1 }
            fn events(&self, _x: f64, y: &[f64], out: &mut [f64]) { out[0] = y[0] - 0.3; }
        }
        struct Vdp5Plain;
        impl IVP for Vdp5Plain { fn ode(&self, x: f64, y: &[f64], d: &mut [f64]) { Vdp5.ode(x, y, d) } }
        let mut k = 0;
        for method in ALL_METHODS {
            for (rtol, xend) in [(1e-3, 12.0), (0.5, 12.0), (1e-2, -6.0)] {
                let mk = |dense: bool, teval: bool| { let mut o = Options::builder().method(method).rtol(rtol).atol(rtol * 1e-3).build(); o.dense_output = dense; if teval { o.t_eval = Some((1..=9).map(|j| xend * j as f64 / 9.0).collect()); } o };
                let base = solve_ivp(&Vdp5Plain, 0.0, xend, &[2.0, 0.0], mk(false, false));
                let (mut why, mut key) = (String::new(), "");
                if let Ok(base) = base {
                    for (name, r) in [("dense_output", solve_ivp(&Vdp5Plain, 0.0, xend, &[2.0, 0.0], mk(true, false))), ("events", solve_ivp(&Vdp5, 0.0, xend, &[2.0, 0.0], mk(false, false))),
                                      ("t_eval", solve_ivp(&Vdp5Plain, 0.0, xend, &[2.0, 0.0], mk(false, true)))] {
                        if let Ok(r) = r {
                            if (r.nfev, r.nstep, r.naccpt, r.nrejct, r.status) != (base.nfev, base.nstep, base.naccpt, base.nrejct, base.status) {
                                why = format!("Van der Pol (mu = 5), rtol {}: with {} the statistics are (nfev {}, nstep {}, naccpt {}, nrejct {}), plain run ({}, {}, {}, {})", rtol, name, r.nfev, r.nstep, r.naccpt, r.nrejct, base.nfev, base.nstep, base.naccpt, base.nrejct); key = "c12-stats"; break;
                            }
                            if name != "t_eval" && !(bits_eq(&r.t, &base.t) && rows_eq(&r.y, &base.y)) {
                                let i = (0..r.t.len().min(base.t.len())).find(|&i| r.t[i].to_bits() != base.t[i].to_bits() || !bits_eq(&r.y[i], &base.y[i]));
                                why = format!("Van der Pol (mu = 5), rtol {}: with {} the accepted samples differ from the plain run from sample {:?} on", rtol, name, i); key = "c12-samples"; break;
                            }
                        }
                    }
                }
                println!("{{\"kind\":\"op\",\"case\":{},\"problem\":\"VdP mu=5\",\"method\":\"{}\",\"x0\":0,\"xend\":{},\"rtol\":{},\"branch\":\"rough\",\"finding_key\":\"{}\",\"ok\":{},\"why\":{:?}}}", 900000 + k, method_name(method), xend, rtol, key, why.is_empty(), why);
                k += 1;
            }
        }
    }
    observer_presence();
}

/// the low-level solvers with and without an observer: status and every counter must agree (C12 at the solver level)
fn observer_presence() {
    for method in ALL_METHODS {
        for (kind, x0, xend) in [(Kind::Harmonic, 0.0, 2.0), (Kind::Logistic, 0.0, -1.5), (Kind::VdP, 0.5, 2.5)] {
            let run = |with: bool| {
                let p = Prob::new(kind);
                let y0 = p.y0();
                let mut rec = Recorder::new();
                rec.thetas = vec![];
                let (rt, at): (ivp::methods::Tolerance, ivp::methods::Tolerance) = (1e-5.into(), 1e-8.into());
                let so = if with { Some(&mut rec) } else { None };
                let r = match method {
                    Method::RK4 => RK4::builder().build().solve(&p, x0, &y0, xend, (xend - x0) / 40.0, so),
                    Method::RK23 => RK23::builder().build().solve(&p, x0, &y0, xend, rt, at, so),
                    Method::DOPRI5 => DOPRI5::builder().build().solve(&p, x0, &y0, xend, rt, at, so),
                    Method::DOP853 => DOP853::builder().build().solve(&p, x0, &y0, xend, rt, at, so),
                    Method::RADAU => RADAU::builder().mass_storage(MatrixStorage::Identity).build().solve(&p, x0, &y0, xend, rt, at, so),
                    Method::BDF => BDF::builder().build().solve(&p, x0, &y0, xend, rt, at, so),
                };
                r.map(|r| (format!("{:?}", r.status), r.steps.total, r.steps.accepted, r.steps.rejected, r.evals.ode, p.count.get()))
            };
            let (a, b) = (run(true), run(false));
            let why = match (&a, &b) {
                (Ok(a), Ok(b)) => if a != b { format!("with an observer: (status, nstep, naccpt, nrejct, nfev, calls) = {:?}; without: {:?}", a, b) } else { String::new() },
                _ => "run fails".to_string(),
            };
            println!("{{\"kind\":\"op\",\"case\":\"observer-presence\",\"problem\":\"{:?}\",\"method\":\"{}\",\"x0\":{},\"xend\":{},\"branch\":\"observer\",\"finding_key\":\"{}\",\"ok\":{},\"why\":{:?}}}",
                kind, method_name(method), x0, xend, if why.is_empty() { "" } else { "c12-no-observer" }, why.is_empty(), why);
        }
    }
}

/// C11 (step limits, first step) + C19 (callback protocol) on the low-level solvers
pub fn protocol(args: &[String]) {
    std::panic::set_hook(Box::new(|_| {}));
    let seed: u64 = args.get(0).and_then(|s| s.parse().ok()).unwrap_or(1);
    let cases: usize = args.get(1).and_then(|s| s.parse().ok()).unwrap_or(100);
    let mut rng = Rng(seed ^ 0xC19);
    for case in 0..cases {
        // the first 40 cases are a sweep: slowly varying problem (long automatic first step) against a small max_step,
        // every adaptive method, both directions
        let directed = case < 40;
        // cases 40..52: a non-autonomous problem on every method, both directions (what ModifiedSolution re-evaluates matters
        // only if the right-hand side depends on x)
        let directed2 = case >= 40 && case < 52;
        let mut c = gen_cfg(&mut rng);
        if directed2 {
            let m = ALL_METHODS[(case - 40) % 6];
            let back = (case - 40) / 6 == 1;
            c = Cfg { kind: Kind::Riccati, method: m, x0: if back { 1.0 } else { -0.5 }, xend: if back { -0.5 } else { 1.0 }, rtol: 1e-5, atol: 1e-8, first: None, maxstep: None, nmax: None };
        }
        if directed {
            let m = [Method::RK23, Method::DOPRI5, Method::DOP853, Method::RADAU, Method::BDF][case % 5];
            let back = (case / 5) % 2 == 1;
            let ms = if (case / 10) % 2 == 0 { 0.05 } else { 0.01 };
            let rtol = if case / 20 == 0 { 1e-3 } else { 1e-6 };
            c = Cfg { kind: Kind::Slow, method: m, x0: if back { 2.0 } else { 0.0 }, xend: if back { 0.0 } else { 2.0 }, rtol, atol: rtol * 1e-3, first: None, maxstep: Some(ms), nmax: None };
        }
        // cases 72..92: a first step that covers the whole interval (the landing step is the first trial step and is rejected):
        // every adaptive method, both directions, two problems — the callbacks must still announce the intervals their
        // interpolants belong to
        let directed4 = case >= 72 && case < 92;
        if directed4 {
            let q = case - 72;
            let m = [Method::RK23, Method::DOPRI5, Method::DOP853, Method::RADAU, Method::BDF][q % 5];
            let back = (q / 5) % 2 == 1;
            let kind = if q / 10 == 0 { Kind::Harmonic } else { Kind::VdP };
            let sp = if q / 10 == 0 { 5.0 } else { 3.0 };
            c = Cfg { kind, method: m, x0: 0.0, xend: if back { -sp } else { sp }, rtol: 1e-6, atol: 1e-9, first: Some(if back { -1.5 * sp } else { 1.5 * sp }), maxstep: None, nmax: None };
        }
        // cases 52..72: the same sweep on a tiny time scale, max_step below every built-in default first step
        let directed3 = case >= 52 && case < 72;
        if directed3 {
            let m = [Method::RK23, Method::DOPRI5, Method::DOP853, Method::RADAU, Method::BDF][(case - 52) % 5];
            let back = ((case - 52) / 5) % 2 == 1;
            let (sp, ms) = if (case - 52) / 10 == 0 { (1.03e-5, 2e-7) } else { (4.1e-6, 5e-7) };
            c = Cfg { kind: Kind::Slow, method: m, x0: if back { sp } else { 0.0 }, xend: if back { 0.0 } else { sp }, rtol: 1e-3, atol: 1e-6, first: None, maxstep: Some(ms), nmax: None };
        }
        let span = (c.xend - c.x0).abs();
        if span < 1e-6 || span > 10.0 { continue; }
        let sgn = (c.xend - c.x0).signum();
        if !directed && !directed2 && !directed3 && !directed4 {
            if rng.chance(0.3) { c.maxstep = Some(span * rng.range(0.004, 0.05)); }
            // C11 uses well-formed limits only
            c.first = if rng.chance(0.5) { Some(sgn * span * rng.range(0.001, 0.05)) } else { None };
            if let (Some(f), Some(m)) = (c.first, c.maxstep) { if f.abs() > m { c.first = Some(sgn * m * 0.5); } }
        }
        let linear = directed || directed3 || (!directed2 && !directed4 && rng.chance(0.4));
        if linear && !directed && !directed3 { c.kind = *rng.pick(&[Kind::Harmonic, Kind::Decay3, Kind::Slow]); }
        let mut p = Prob::new(c.kind);
        p.record_times = true;
        let y0 = p.y0();
        let mut rec = Recorder::new();
        let base = lowlevel(c.method, &p, c.x0, &y0, c.xend, c.rtol, c.atol, c.first, c.maxstep, None, &mut rec);
        let mut why = String::new();
        let mut key = "";
        let mut fail = |k: &'static str, w: String, why: &mut String, key: &mut &str| { if why.is_empty() { *why = w; *key = k; } };
        let base = match base { Ok(b) => b, Err(e) => { out("pr", case, &c, "error", "", "", &format!("\"status\":\"Err({})\",", format!("{:?}", e).replace('"', "'"))); continue; } };
        let ncb = rec.cbs.len();
        // ---- C19 basic protocol
        if ncb == 0 { fail("c19-initial", "no callback at all".into(), &mut why, &mut key); }
        else {
            let f0 = &rec.cbs[0];
            if !(f0.xold == c.x0 && f0.x == c.x0 && f0.y == y0 && !f0.has_interp) { fail("c19-initial", format!("initial callback is (xold={}, x={}, interp={})", f0.xold, f0.x, f0.has_interp), &mut why, &mut key); }
            for k in 1..ncb {
                let (a, b) = (&rec.cbs[k - 1], &rec.cbs[k]);
                if (b.xold - a.x).abs() > 1e-12 * (1.0 + a.x.abs()) { fail("c19-contiguous", format!("callback {}: xold = {} but the previous x was {}", k, b.xold, a.x), &mut why, &mut key); }
                if (b.x - b.xold) * sgn <= 0.0 { fail("c19-direction", format!("callback {}: interval [{}, {}] does not advance", k, b.xold, b.x), &mut why, &mut key); }
                if (b.x - c.xend) * sgn > 4.0 * f64::EPSILON * c.xend.abs().max(c.x0.abs()) { fail("c03-overshoot", format!("callback {}: x = {} lies beyond xend = {}", k, b.x, c.xend), &mut why, &mut key); }
                if !b.has_interp { fail("c19-interpolant", format!("callback {} has no interpolant", k), &mut why, &mut key); }
                // "an interpolant valid on that interval": at the right end of the announced interval it returns the state passed
                // with it (an interpolant built for a shorter step extrapolates there).  The left end is C06's business (dense-check).
                if b.has_interp && b.samples.len() == 5 && rec.script.is_empty() {
                    let scale = b.y.iter().fold(1.0f64, |m, x| m.max(x.abs()));
                    let d1 = b.y.iter().zip(b.samples[4].iter()).map(|(u, v)| (u - v).abs()).fold(0.0, f64::max);
                    if d1 > 1e-6 * scale { fail("c19-interpolant-ends", format!("callback {}: the interpolant at x = {} differs from the state passed by {:.3e}: it is not the interpolant of [{}, {}]", k, b.x, d1, b.xold, b.x), &mut why, &mut key); }
                }
            }
            if base.status == Status::Success && (rec.cbs[ncb - 1].x - c.xend).abs() > 1e-12 * (1.0 + c.xend.abs()) { fail("c03-success-not-reached", format!("Success but the last callback is at x = {} (xend = {})", rec.cbs[ncb - 1].x, c.xend), &mut why, &mut key); }
            if base.steps.accepted != ncb - 1 { fail("c18-naccpt", format!("steps.accepted = {} but {} per-step callbacks were made", base.steps.accepted, ncb - 1), &mut why, &mut key); }
            if base.evals.ode != p.count.get() { fail("c18-nfev", format!("evals.ode = {} but {} right-hand-side evaluations were made", base.evals.ode, p.count.get()), &mut why, &mut key); }
            // ---- C11 step limits
            let hmax = c.maxstep.unwrap_or(span);
            for k in 1..ncb {
                if c.method == Method::RK4 { break; } // low-level RK4 takes the step it is given; it has no max_step option (solve_ivp's RK4: interval-check)
                let len = (rec.cbs[k].x - rec.cbs[k].xold).abs();
                let lim = if k == ncb - 1 { 1.01 * hmax } else { hmax };
                if len > lim * (1.0 + 1e-12) { fail("c11-max-step", format!("accepted step {} has length {} > max_step {}", k, len, hmax), &mut why, &mut key); }
            }
            // (C11's precondition: a first_step not larger than max_step or the span)
            if let Some(h0) = c.first.filter(|h| h.abs() <= span) {
                // the first trial step: some early evaluation must sit at x0 + c*h0 for the method's first node
                let cn = match c.method { Method::RK4 => 0.5, Method::RK23 => 0.5, Method::DOPRI5 => 0.2, Method::DOP853 => 0.526001519587677318785587544488e-01, Method::RADAU => 0.155_051_025_721_682_2, Method::BDF => 1.0 };
                let want = c.x0 + cn * h0;
                let times = p.times.borrow();
                let hit = times.iter().take(12).any(|t| (t - want).abs() <= 4.0 * f64::EPSILON * (1.0 + want.abs()));
                if !hit { fail("c11-first-step", format!("first_step = {}: no early evaluation at x0 + c*h0 = {} (first times {:?})", h0, want, &times[..times.len().min(6)]), &mut why, &mut key); }
            }
        }
        // ---- C19 scripted flags
        if why.is_empty() && ncb >= 3 {
            let k = 1 + rng.below(ncb - 1);
            // Interrupt at callback k
            let p2 = Prob::new(c.kind);
            let mut r2 = Recorder::new();
            r2.script = vec![(k, Reply::Interrupt)];
            if let Ok(res) = lowlevel(c.method, &p2, c.x0, &y0, c.xend, c.rtol, c.atol, c.first, c.maxstep, None, &mut r2) {
                if res.status != Status::UserInterrupt { fail("c19-interrupt", format!("Interrupt at callback {} gives status {:?}", k, res.status), &mut why, &mut key); }
                if r2.cbs.len() != k + 1 { fail("c19-interrupt", format!("{} callbacks after Interrupt at callback {}", r2.cbs.len() - k - 1, k), &mut why, &mut key); }
                if r2.cbs.len() == k + 1 && (0..=k).any(|j| r2.cbs[j].x != rec.cbs[j].x || r2.cbs[j].y != rec.cbs[j].y) { fail("c19-interrupt", "callbacks before the Interrupt differ from the uninterrupted run".into(), &mut why, &mut key); }
                if res.evals.ode != p2.count.get() { fail("c18-nfev", "evals.ode differs from the number of calls in the interrupted run".into(), &mut why, &mut key); }
            }
            // ModifiedSolution with an unchanged state at callback k: a no-op apart from one extra evaluation
            {
                let p3 = Prob::new(c.kind);
                let mut r3 = Recorder::new();
                r3.script = vec![(k, Reply::Modify(1.0))];
                if let Ok(res) = lowlevel(c.method, &p3, c.x0, &y0, c.xend, c.rtol, c.atol, c.first, c.maxstep, None, &mut r3) {
                    if r3.cbs.len() != rec.cbs.len() || r3.cbs.iter().zip(rec.cbs.iter()).any(|(a, b)| a.x != b.x || a.y != b.y) { fail(if c.method == Method::BDF { "c19-modified-noop-BDF" } else { "c19-modified-noop" }, format!("ModifiedSolution with an unchanged state at callback {} changes the rest of the run", k), &mut why, &mut key); }
                    else if p3.count.get() != p.count.get() + 1 { fail("c19-modified-noop", format!("ModifiedSolution (unchanged state): {} right-hand-side calls instead of {} + 1", p3.count.get(), p.count.get()), &mut why, &mut key); }
                    if res.evals.ode != p3.count.get() { fail("c18-nfev", "evals.ode differs from the number of calls in the ModifiedSolution run".into(), &mut why, &mut key); }
                }
            }
            // doubling on a linear homogeneous problem (absolute tolerance scaled too would be needed for exactness: use rtol only)
            if linear && (why.is_empty() || key == "c19-modified-noop-BDF") {
                // (implicit methods: with the analytic Jacobian; the finite-difference increments eps*max(|y|,1) are not
                //  scale-invariant, so there the symmetry holds only to rounding)
                let imp = matches!(c.method, Method::RADAU | Method::BDF);
                let p4 = Prob { user_jac: imp, ..Prob::new(c.kind) };
                let mut r4 = Recorder::new();
                r4.script = vec![(k, Reply::Modify(2.0))];
                let p5 = Prob { user_jac: imp, ..Prob::new(c.kind) };
                let mut r5 = Recorder::new();
                // reference: the same callback returns ModifiedSolution without touching the state
                r5.script = vec![(k, Reply::Modify(1.0))];
                // pure relative control so that scaling the state by 2 is an exact symmetry
                let a = lowlevel(c.method, &p4, c.x0, &y0, c.xend, c.rtol, 0.0, c.first, c.maxstep, None, &mut r4);
                let b = lowlevel(c.method, &p5, c.x0, &y0, c.xend, c.rtol, 0.0, c.first, c.maxstep, None, &mut r5);
                if let (Ok(_), Ok(_)) = (a, b) {
                    let dk = if c.method == Method::RADAU { "c19-modified-doubling-RADAU" } else { "c19-modified-doubling" };
                    if r4.cbs.len() != r5.cbs.len() { fail(dk, format!("doubling the state at callback {} changes the number of steps ({} vs {})", k, r4.cbs.len(), r5.cbs.len()), &mut why, &mut key); }
                    else {
                        for j in (k + 1)..r4.cbs.len() {
                            let same_x = r4.cbs[j].x == r5.cbs[j].x;
                            let dbl = r4.cbs[j].y.iter().zip(r5.cbs[j].y.iter()).all(|(u, v)| *u == 2.0 * *v);
                            if !same_x || !dbl { fail(dk, format!("after doubling the state at callback {}, callback {} is not the doubled plain run", k, j), &mut why, &mut key); break; }
                        }
                    }
                }
            }
        }
        // ---- ModifiedSolution in the *initial* callback: writing c*y0 there is the same as starting at c*y0 (with a given first
        // step, so that the automatic step-size guess, which is made before the callback, plays no role)
        if why.is_empty() && c.method != Method::RK4 {
            let first = Some(c.first.unwrap_or(sgn * span * if case % 2 == 0 { 0.05 } else { 0.3 }).abs().min(c.maxstep.unwrap_or(f64::INFINITY)) * sgn);
            let factor = [2.0, 0.5, 1.0 / 1024.0, 3.0][case % 4];
            let imp = matches!(c.method, Method::RADAU | Method::BDF);
            let pa = Prob { user_jac: imp, ..Prob::new(c.kind) };
            let mut ra = Recorder::new();
            ra.script = vec![(0, Reply::Modify(factor))];
            let pb = Prob { user_jac: imp, ..Prob::new(c.kind) };
            let mut rb = Recorder::new();
            rb.script = vec![(0, Reply::Modify(1.0))];
            let yb: Vec<f64> = y0.iter().map(|v| v * factor).collect();
            let a = lowlevel(c.method, &pa, c.x0, &y0, c.xend, c.rtol, c.atol, first, c.maxstep, Some(400), &mut ra);
            let b = lowlevel(c.method, &pb, c.x0, &yb, c.xend, c.rtol, c.atol, first, c.maxstep, Some(400), &mut rb);
            if let (Ok(a), Ok(b)) = (a, b) {
                if a.status != b.status || ra.cbs.len() != rb.cbs.len() {
                    fail("c19-modified-initial", format!("writing {} * y0 in the initial callback: {:?} after {} callbacks; starting at {} * y0: {:?} after {} callbacks", factor, a.status, ra.cbs.len(), factor, b.status, rb.cbs.len()), &mut why, &mut key);
                } else {
                    for j in 1..ra.cbs.len() {
                        if ra.cbs[j].x != rb.cbs[j].x || ra.cbs[j].y != rb.cbs[j].y {
                            fail("c19-modified-initial", format!("writing {} * y0 in the initial callback differs from starting at {} * y0 at callback {} (x = {} vs {})", factor, factor, j, ra.cbs[j].x, rb.cbs[j].x), &mut why, &mut key);
                            break;
                        }
                    }
                }
            }
        }
        out("pr", case, &c, if linear { "linear" } else { "general" }, key, &why, &format!("\"status\":\"{:?}\",\"callbacks\":{},", base.status, ncb));
    }
}
