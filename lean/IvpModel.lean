import IvpModel.Num
import IvpModel.Gen.Common
import IvpModel.Gen.Rk4
import IvpModel.Gen.Rk23
import IvpModel.Gen.Dopri5
import IvpModel.Gen.Dop853
