import IvpModel.Driver.MatrixDrv
import IvpModel.Driver.SolOutDrv
import IvpModel.Driver.SolveDrv
import IvpModel.Driver.LuDrv
import IvpModel.Driver.PyDrv
import IvpModel.Driver.RadauDrv
import IvpModel.Driver.BdfDrv
import IvpModel.Driver.ContDrv
import IvpModel.Driver.BdfNumDrv
import IvpModel.Driver.RadauNumDrv
import IvpModel.Driver.FdJacDrv

def main (args : List String) : IO UInt32 := do
  let stdin ← IO.getStdin
  let lines ← Drv.readLines stdin #[]
  match args with
  | ["selftest"] =>
      -- facts about the `Float` instance that theorems take as hypotheses (the kernel cannot evaluate `Float`)
      let inf : Float := Num.one / Num.zero
      IO.println s!"inf-le-one={decide (inf ≤ (Num.one : Float))} inf-bits={inf.toBits} nan-minus={Num.isNaN (inf - inf)} finite-minus={Num.isNaN ((Num.one : Float) - Num.one)}"
      return 0
  | ["matrix"] =>
      for o in Drv.Matrix.run lines do IO.println o
      return 0
  | ["lu"] =>
      for o in Drv.Lu.run lines do IO.println o
      return 0
  | ["fdjac"] =>
      for o in Drv.FdJ.run lines do IO.println o
      return 0
  | ["radaunum"] =>
      for o in Drv.RadauN.run lines do IO.println o
      return 0
  | ["bdfnum"] =>
      for o in Drv.BdfN.run lines do IO.println o
      return 0
  | ["cont"] =>
      for o in Drv.Cont.run lines do IO.println o
      return 0
  | ["bdf"] =>
      for o in Drv.Bdf.run lines do IO.println o
      return 0
  | ["radau"] =>
      for o in Drv.Radau.run lines do IO.println o
      return 0
  | ["py"] =>
      for o in Drv.PyDrv.run lines do IO.println o
      return 0
  | ["solve"] =>
      for o in Drv.Solve.run lines do IO.println o
      return 0
  | ["solout"] =>
      for o in Drv.SolOut.run lines do IO.println o
      return 0
  | _ =>
      IO.eprintln "usage: driver (matrix|...) < lines"
      return 2
