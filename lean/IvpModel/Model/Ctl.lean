/-
  Control skeletons of the explicit solvers (`solve()` of rk4.rs, rk23.rs, dopri5.rs, dop853.rs).  Core Lean only.

  Each `solve` is  loop(params, kernel, observer):  the *kernel* is the numeric part of one attempted step — the
  translated regions of `Gen/*.lean` — and is a parameter here, so that the control theorems hold for every kernel
  (i.e. for every right-hand side, tolerance and floating-point coincidence that decides accept/reject);
  the *observer* is the `SolOut` callback, an arbitrary state machine returning Continue / Interrupt /
  ModifiedSolution (XOut is not modelled: neither `DefaultSolOut` nor the harness returns it).
  The right-hand side is an oracle indexed by the global call number, `f j t y`.

  Executed at `Float` next to the real solvers (X-solve: every call argument, every callback, status and counters
  must agree bit for bit) and reasoned about over ordered fields.
-/
import IvpModel.Num

namespace Ctl

inductive Status where
  | success | userInterrupt | needLargerNMax | stepSizeTooSmall | probablyStiff
deriving DecidableEq, Repr

inductive ObsFlag where
  | cont | interrupt | modified
deriving DecidableEq, Repr

structure Counters where
  ode : Nat := 0
  total : Nat := 0
  accepted : Nat := 0
  rejected : Nat := 0
deriving Repr, DecidableEq

variable {α : Type} [Num α] {n : Nat}

abbrev Vec (α : Type) (n : Nat) := Vector α n
abbrev Rhs (α : Type) (n : Nat) := Nat → α → Vec α n → Vec α n

/-- what the run did, in order -/
inductive Ev (α : Type) (n : Nat) where
  /-- right-hand-side call number `idx` at `(t, y)` -/
  | ode (idx : Nat) (t : α) (y : Vec α n)
  /-- callback `(xold, x, y)`, with the interpolant sampled at xold + θ(x − xold), θ = 0, ¼, ½, ¾, 1 (empty if none) -/
  | cb (xold x : α) (y : Vec α n) (samples : Array (Vec α n))

/-- observer (user `SolOut`): state machine; returns the flag and the (possibly rewritten) state vector -/
abbrev Obs (σ α : Type) (n : Nat) := σ → α → α → Vec α n → Option (α → Vec α n) → σ × ObsFlag × Vec α n

/-- append the calls of a region (global numbering starts at `base`) -/
def logCalls (log : Array (Ev α n)) (base : Nat) (calls : Array (α × Vec α n)) : Array (Ev α n) :=
  (calls.zipIdx).foldl (fun l p => l.push (Ev.ode (base + p.2) p.1.1 p.1.2)) log

def sampleInterp (ip : Option (α → Vec α n)) (xold x : α) (quarter half threeq : α) : Array (Vec α n) :=
  match ip with
  | none => #[]
  | some e => #[e xold, e (xold + quarter * (x - xold)), e (xold + half * (x - xold)), e (xold + threeq * (x - xold)),
               e (xold + Num.one * (x - xold))]


/-! ### the meter: event log, number of right-hand-side calls made, the code's own counters.
    Every solver updates it only through the helpers below, so the bookkeeping invariants (C18, C19) are proved once
    per helper. -/
structure Meter (α : Type) (n : Nat) where
  log : Array (Ev α n) := #[]
  ncalls : Nat := 0
  cnt : Counters := {}

namespace Meter
/-- a translated region made `calls` and the code added the literal `lit` to `evals.ode` -/
def bump (m : Meter α n) (calls : Array (α × Vec α n)) (lit : Nat) : Meter α n :=
  { log := logCalls m.log m.ncalls calls, ncalls := m.ncalls + calls.size, cnt := { m.cnt with ode := m.cnt.ode + lit } }
/-- one more attempted step (`steps.total += 1`) -/
def incTotal (m : Meter α n) : Meter α n := { m with cnt := { m.cnt with total := m.cnt.total + 1 } }
def incAccepted (m : Meter α n) : Meter α n := { m with cnt := { m.cnt with accepted := m.cnt.accepted + 1 } }
/-- `steps.accepted -= 1`: a step given up by the stiffness test is not delivered and not counted -/
def decAccepted (m : Meter α n) : Meter α n := { m with cnt := { m.cnt with accepted := m.cnt.accepted - 1 } }
def incRejected (m : Meter α n) : Meter α n := { m with cnt := { m.cnt with rejected := m.cnt.rejected + 1 } }
/-- a callback is made -/
def cb (m : Meter α n) (xold x : α) (y : Vec α n) (samples : Array (Vec α n)) : Meter α n :=
  { m with log := m.log.push (Ev.cb xold x y samples) }
/-- `ModifiedSolution`: one evaluation at `(x, y)`, counted -/
def refresh (m : Meter α n) (x : α) (y : Vec α n) : Meter α n :=
  { log := m.log.push (Ev.ode m.ncalls x y), ncalls := m.ncalls + 1, cnt := { m.cnt with ode := m.cnt.ode + 1 } }
end Meter

structure Result (σ α : Type) (n : Nat) where
  status : Status
  h : α
  x : α
  y : Vec α n
  /-- event log, number of right-hand-side calls actually made, the code's counters -/
  m : Meter α n
  obs : σ

/-- the outcome of a callback, shared by all skeletons: `Interrupt` ends the run; `ModifiedSolution` re-evaluates
    the derivative at the state the callback wrote; otherwise the FSAL derivative `kNext` is kept -/
inductive AfterCb (σ α : Type) (n : Nat) where
  | stop (obs : σ) (y : Vec α n)
  | go (obs : σ) (y : Vec α n) (k1 : Vec α n) (m : Meter α n)

def afterCb {σ : Type} (f : Rhs α n) (ob : Obs σ α n) (obs : σ) (m : Meter α n) (xold x : α) (y : Vec α n)
    (ip : Option (α → Vec α n)) (kNext : Vec α n) : AfterCb σ α n :=
  let r := ob obs xold x y ip
  match r.2.1 with
  | .interrupt => .stop r.1 r.2.2
  | .modified => .go r.1 r.2.2 (f m.ncalls x r.2.2) (m.refresh x r.2.2)
  | .cont => .go r.1 r.2.2 kNext m

end Ctl
