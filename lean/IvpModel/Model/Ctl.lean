/-
  Control skeletons of the explicit solvers (`solve()` of rk4.rs, rk23.rs, dopri5.rs, dop853.rs).  Core Lean only.

  Each `solve` is  loop(params, kernel, observer):  the *kernel* is the numeric part of one attempted step — the
  translated regions of `Gen/*.lean` — and is a parameter here, so that the control theorems hold for every kernel
  (i.e. for every right-hand side, tolerance and floating-point coincidence that decides accept/reject);
  the *observer* is the `SolOut` callback, an arbitrary state machine returning Continue / Interrupt /
  ModifiedSolution (XOut is not modelled: neither `DefaultSolOut` nor the harness returns it).
  The right-hand side is an oracle indexed by the global call number, `f j t y`.

  Executed at `Float` next to the real solvers (X-solve: every call argument, every callback, status and counters
  must agree bit for bit) and reasoned about over ordered fields.
-/
import IvpModel.Num

namespace Ctl

inductive Status where
  | success | userInterrupt | needLargerNMax | stepSizeTooSmall | probablyStiff
deriving DecidableEq, Repr

inductive ObsFlag where
  | cont | interrupt | modified
deriving DecidableEq, Repr

structure Counters where
  ode : Nat := 0
  total : Nat := 0
  accepted : Nat := 0
  rejected : Nat := 0
deriving Repr, DecidableEq

variable {α : Type} [Num α] {n : Nat}

abbrev Vec (α : Type) (n : Nat) := Vector α n
abbrev Rhs (α : Type) (n : Nat) := Nat → α → Vec α n → Vec α n

/-- what the run did, in order -/
inductive Ev (α : Type) (n : Nat) where
  /-- right-hand-side call number `idx` at `(t, y)` -/
  | ode (idx : Nat) (t : α) (y : Vec α n)
  /-- callback `(xold, x, y)`, with the interpolant sampled at xold + θ(x − xold), θ = 0, ¼, ½, ¾, 1 (empty if none) -/
  | cb (xold x : α) (y : Vec α n) (samples : Array (Vec α n))

/-- observer (user `SolOut`): state machine; returns the flag and the (possibly rewritten) state vector -/
abbrev Obs (σ α : Type) (n : Nat) := σ → α → α → Vec α n → Option (α → Vec α n) → σ × ObsFlag × Vec α n

structure Result (σ α : Type) (n : Nat) where
  status : Status
  h : α
  x : α
  y : Vec α n
  cnt : Counters
  /-- number of right-hand-side calls actually made -/
  ncalls : Nat
  obs : σ
  log : Array (Ev α n)

/-- append the calls of a region (global numbering starts at `base`) -/
def logCalls (log : Array (Ev α n)) (base : Nat) (calls : Array (α × Vec α n)) : Array (Ev α n) :=
  (calls.zipIdx).foldl (fun l p => l.push (Ev.ode (base + p.2) p.1.1 p.1.2)) log

def sampleInterp (ip : Option (α → Vec α n)) (xold x : α) (quarter half threeq : α) : Array (Vec α n) :=
  match ip with
  | none => #[]
  | some e => #[e xold, e (xold + quarter * (x - xold)), e (xold + half * (x - xold)), e (xold + threeq * (x - xold)),
               e (xold + Num.one * (x - xold))]

end Ctl
