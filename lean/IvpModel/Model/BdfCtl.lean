/-
  Control logic of `BDF::solve` (src/methods/bdf.rs): step-size limits and landing, LU reuse, simplified-Newton
  convergence control, step rejection, order / step-size selection, counters and status — with the numeric kernel
  replaced by an oracle: whether the factorisation (if rebuilt) succeeded, the scaled norm `dy_norm` of every Newton
  increment, the error norm, the two neighbouring error norms used for order selection, and the callback's flag.
  Core Lean only.  Executed at `Float` against the control trace of real runs (X-bdf) and reasoned about in
  Proofs/BdfLemmas.lean.
-/
import IvpModel.Num

namespace BdfCtl
variable {α : Type} [Num α]

inductive Status where
  | success | userInterrupt | needLargerNMax | stepSizeTooSmall
  /-- not a status of the code: the oracle of a pass held fewer `dy_norm` values than the control logic asked for -/
  | oracleExhausted
deriving DecidableEq, Repr

inductive Flag where
  | cont | interrupt | modified
deriving DecidableEq, Repr

structure Lits (α : Type) where
  zero : α
  one : α
  two : α
  half : α
  tenth : α
  safety : α        -- SAFETY_DEFAULT 0.9
  minFactor : α     -- 0.2
  maxFactor : α     -- 10.0
  minPositive : α   -- f64::MIN_POSITIVE
  inf : α
  stretch : α       -- 1.01 (last-step stretch)
  /-- KAPPA[0..5] -/
  kappa : Nat → α

def maxOrder : Nat := 5

/-- gamma[k] = gamma[k-1] + 1/k -/
def gamma (L : Lits α) : Nat → α
  | 0 => L.zero
  | k + 1 => gamma L k + L.one / Num.ofNat (k + 1)

def alpha (L : Lits α) (k : Nat) : α := (L.one - L.kappa k) * gamma L k

structure Params (α : Type) where
  xend : α
  direction : α
  hmax : α
  hmin : α
  nmax : Nat
  maxit : Nat
  newtonTol : α

structure Counters where
  total : Nat := 0
  accepted : Nat := 0
  rejected : Nat := 0
  ode : Nat := 0
  jac : Nat := 0
  lu : Nat := 0
deriving Repr, DecidableEq

structure State (α : Type) where
  x : α
  h : α            -- current_h (positive)
  order : Nat := 1
  nEqual : Nat := 0
  luCurrent : Bool := false
  currentC : α
  cnt : Counters
  /-- the current step is being retried after a failed attempt -/
  retrying : Bool := false

structure Result (α : Type) where
  status : Status
  /-- `direction * current_h` -/
  h : α
  x : α
  cnt : Counters

structure PassOracle (α : Type) where
  luOk : Bool
  dyNorms : List α
  errorNorm : α
  errM : α
  errP : α
  cb : Flag

/-- outcome of the corrector iteration -/
inductive Newton where
  | converged (iters : Nat) (ode : Nat)
  | failed (ode : Nat)
  | starved

/-- `while iters < newton_maxiter { … }` -/
def newtonLoop (L : Lits α) (P : Params α) : Nat → List α → (iters : Nat) → (prev : Option α) → (ode : Nat) → Newton
  | 0, _, _, _, ode => .failed ode
  | fuel + 1, dys, iters, prev, ode =>
    if iters < P.maxit then
      match dys with
      | [] => .starved
      | dy :: rest =>
        let ode := ode + 1
        let rateCond : Bool :=
          match prev with
          | some p =>
            if p > L.zero then
              let rate := dy / p
              if rate ≥ L.one then true
              else
                let remaining : α := Num.ofNat (P.maxit - iters)
                let estimate := Num.pow rate remaining / (L.one - rate) * dy
                decide (estimate > P.newtonTol)
            else false
          | none => false
        if Num.eqb dy L.zero then .converged iters ode
        else
          let conv2 : Bool :=
            match prev with
            | some p =>
              if p > L.zero then
                let rate := dy / p
                if rate < L.one then decide (rate / (L.one - rate) * dy < P.newtonTol) else false
              else false
            | none => false
          if conv2 then .converged iters ode
          else if rateCond then .failed ode
          else newtonLoop L P fuel rest (iters + 1) (some dy) ode
    else .failed ode

/-- a step attempt is abandoned: halve (or scale) the step, count a rejection, start the next pass -/
def retry (s : State α) (factor : α) (cnt : Counters) (luCurrent : Bool) : State α :=
  { s with h := s.h * factor, nEqual := 0, luCurrent := luCurrent, cnt := { cnt with rejected := cnt.rejected + 1 }, retrying := true }

/-- `max_by(partial_cmp … unwrap_or(Equal))` over three factors: the last maximal element wins, an incomparable pair
    counts as equal -/
def argmax3 (f0 f1 f2 : α) : Nat :=
  let b1 : Nat × α := if f0 > f1 then (0, f0) else (1, f1)
  if b1.2 > f2 then b1.1 else 2

/-- "Order and step-size adaptation when sufficient equal steps observed" -/
def adapt (L : Lits α) (s : State α) (o : PassOracle α) (safety errorNorm : α) : State α :=
  if s.nEqual ≥ s.order + 1 then
    let errM := if s.order > 1 then o.errM else L.inf
    let errP := if s.order < maxOrder then o.errP else L.inf
    let ord : α := Num.ofNat s.order
    let f0 := Num.pow errM (-L.one / (ord + Num.ofNat 0))
    let f1 := Num.pow errorNorm (-L.one / (ord + Num.ofNat 1))
    let f2 := Num.pow errP (-L.one / (ord + Num.ofNat 2))
    let best := argmax3 f0 f1 f2
    let newOrder := if best = 0 ∧ s.order > 1 then s.order - 1 else if best = 2 ∧ s.order < maxOrder then s.order + 1 else s.order
    let maxF := Num.fmax (Num.fmax (Num.fmax L.zero f0) f1) f2
    let stepFactor := Num.fmin (safety * maxF) L.maxFactor
    { s with h := s.h * stepFactor, order := newOrder, nEqual := 0, luCurrent := false,
             cnt := if newOrder ≠ s.order then { s.cnt with jac := s.cnt.jac + 1 } else s.cnt }
  else s

def result (P : Params α) (s : State α) (st : Status) (cnt : Counters) : Result α :=
  { status := st, h := P.direction * s.h, x := s.x, cnt := cnt }

/-- step-size limits and the landing adjustment at the head of a pass: (state, h_signed, x_new), or an early exit -/
def limits (L : Lits α) (P : Params α) (s : State α) : Sum (State α × α × α) (Result α) :=
  let s1 := if s.h > P.hmax then { s with h := P.hmax, nEqual := 0, luCurrent := false } else s
  if s1.h < P.hmin ∧ P.hmin > L.zero ∧ s1.retrying = true then .inr (result P s1 .stepSizeTooSmall s1.cnt) else
  let s2 := if s1.h < P.hmin ∧ P.hmin > L.zero then { s1 with h := P.hmin, nEqual := 0, luCurrent := false } else s1
  let hSigned := P.direction * s2.h
  let xNew := s2.x + hSigned
  if P.direction * (s2.x + L.stretch * hSigned - P.xend) > L.zero then
    let stepToEnd := Num.abs (P.xend - s2.x)
    if Num.eqb stepToEnd L.zero then .inr (result P s2 .success s2.cnt)
    else
      let factor := stepToEnd / s2.h
      let s3 := { s2 with h := s2.h * factor, nEqual := 0, luCurrent := false }
      -- the landing step ends at xend itself (`x_new = xend`)
      .inl (s3, P.direction * s3.h, P.xend)
  else .inl (s2, hSigned, xNew)

/-- `ModifiedSolution`: one more evaluation, restart at order 1 with a fresh Jacobian -/
def afterCallback (s1 : State α) (fl : Flag) : State α :=
  if fl = .modified then
    { s1 with order := 1, nEqual := 0, luCurrent := false, cnt := { s1.cnt with ode := s1.cnt.ode + 1, jac := s1.cnt.jac + 1 } }
  else s1

/-- exit test and order selection after the callback -/
def tail (L : Lits α) (P : Params α) (s2 : State α) (o : PassOracle α) (safety : α) : Sum (State α) (Result α) :=
  if P.direction * (s2.x - P.xend) ≥ L.zero then .inr (result P s2 .success s2.cnt)
  else .inl (adapt L s2 o safety o.errorNorm)

/-- what follows an accepted corrector: error test, acceptance, callback, exit test, order selection -/
def afterNewton (L : Lits α) (P : Params α) (s : State α) (o : PassOracle α) (xNew : α) (iters : Nat) (cnt : Counters) :
    Sum (State α) (Result α) :=
  let mi : α := Num.ofNat P.maxit
  let safety := L.safety * (L.two * mi + L.one) / (L.two * mi + Num.ofNat (iters + 1))
  if o.errorNorm > L.one then
    let factor := Num.fmax (safety * Num.pow o.errorNorm (-L.one / (Num.ofNat s.order + L.one))) L.minFactor
    .inl (retry s factor cnt s.luCurrent)
  else
    let cnt := { cnt with accepted := cnt.accepted + 1 }
    let s1 : State α := { s with x := xNew, nEqual := s.nEqual + 1, cnt := cnt, retrying := false }
    if o.cb = .interrupt then .inr (result P s1 .userInterrupt cnt)
    else tail L P (afterCallback s1 o.cb) o safety

/-- one pass of `'main_loop` -/
def pass (L : Lits α) (P : Params α) (s : State α) (o : PassOracle α) : Sum (State α) (Result α) :=
  if s.cnt.total ≥ P.nmax then .inr (result P s .needLargerNMax s.cnt)
  else if s.h < L.minPositive then .inr (result P s .stepSizeTooSmall s.cnt)
  else
    match limits L P s with
    | .inr r => .inr r
    | .inl (s, hSigned, xNew) =>
      if Num.eqb (s.x + L.tenth * hSigned) s.x then .inr (result P s .stepSizeTooSmall s.cnt)
      else
        let cnt := { s.cnt with total := s.cnt.total + 1 }
        let c := hSigned / alpha L s.order
        let rebuild := (!s.luCurrent) || decide (Num.abs (c - s.currentC) / Num.fmax (Num.abs c) L.one > L.tenth)
        let cnt := if rebuild then { cnt with lu := cnt.lu + 1 } else cnt
        if rebuild && !o.luOk then .inl (retry s L.half cnt false)
        else
          let s := if rebuild then { s with luCurrent := true, currentC := c } else s
          match newtonLoop L P (P.maxit + 1) o.dyNorms 0 none cnt.ode with
          | .starved => .inr (result P s .oracleExhausted cnt)
          | .failed ode => .inl (retry s L.half { cnt with ode := ode, jac := cnt.jac + 1 } false)
          | .converged iters ode => afterNewton L P s o xNew iters { cnt with ode := ode }

/-- set-up before the loop -/
structure Setup (α : Type) where
  x0 : α
  xend : α
  /-- `h_abs` before the final clamp: |first_step|, or the magnitude of the automatic guess limited to the span, raised to
      `10·ε·|x0|` (the resolution of the time axis; applied in bdf.rs before the value is traced, modelled in `BdfNum`) -/
  hAbs0 : α
  maxStep : Option α
  minStep : Option α
  nmax : Nat
  maxit : Nat
  newtonTol : α
  /-- evaluations made before the loop (1, or 2 with the automatic first step) -/
  ode0 : Nat
  cb0 : Flag

def params (S : Setup α) : Params α :=
  { xend := S.xend, direction := Num.signum (S.xend - S.x0),
    hmax := Num.abs (match S.maxStep with | some m => m | none => Num.abs (S.xend - S.x0)),
    hmin := Num.abs (match S.minStep with | some m => m | none => Num.ofNat 0),
    nmax := S.nmax, maxit := S.maxit, newtonTol := S.newtonTol }

def start (L : Lits α) (S : Setup α) : Sum (State α) (Result α) :=
  let P := params S
  let h := Num.fmin S.hAbs0 (Num.fmax P.hmax L.minPositive)
  let cnt : Counters := { ode := S.ode0, jac := 1 }
  let s : State α := { x := S.x0, h := h, currentC := L.zero, cnt := cnt }
  match S.cb0 with
  | .interrupt => .inr (result P s .userInterrupt cnt)
  | .modified => .inl { s with cnt := { cnt with ode := cnt.ode + 1, jac := cnt.jac + 1 } }
  | .cont => .inl s

def run (L : Lits α) (P : Params α) : List (PassOracle α) → State α → Option (Result α)
  | [], _ => none
  | o :: os, s => match pass L P s o with
    | .inr r => some r
    | .inl s' => run L P os s'

end BdfCtl
