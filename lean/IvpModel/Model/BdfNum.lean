/-
  Full numeric model of `BDF::solve` (src/methods/bdf.rs): variable-order BDF(1..5) in the backward-difference
  ("Nordsieck-like") form of SciPy's BDF — predictor, simplified Newton corrector on `I − c·J` with the LU routines of
  `Model/LU.lean`, error test, difference-array update, order / step selection, history rescaling (`change_d`,
  `compute_r`), dense output (`cont` layout, `interpolate`) — together with the control flow.  Core Lean only.

  The right-hand side, the Jacobian and the callback are parameters: `ode j t y` is the j-th right-hand-side call,
  `jac j t y` the j-th Jacobian call (row-major n×n), `obs k xold x y` the k-th callback.  Executed at `Float` next to
  the real solver (stream X-bdfnum: every call argument, every callback with the interpolant sampled at five points,
  counters and status must agree bit for bit); the pure pieces (`interpolate`, `computeR`, `changeD`, `predict`,
  `weightedRms`) are reasoned about over ordered fields.
-/
import IvpModel.Gen.Static
import IvpModel.Num
import IvpModel.Model.LU
import IvpModel.Model.LUF
import IvpModel.Model.BdfCtl
import IvpModel.Gen.Common

namespace BdfNum
open BdfCtl (Status Flag Counters maxOrder argmax3)

variable {α : Type} [Num α]

/-- literals of bdf.rs beyond those of the control model -/
structure NLits (α : Type) extends BdfCtl.Lits α where
  eps : α        -- f64::EPSILON
  ten : α
  p03 : α        -- 0.03
  em9 : α        -- 1e-9

/-- `BLOCK = MAX_ORDER + 2`: D0, D1..D5, order marker -/
def block : Nat := maxOrder + 2

@[inline] def g (a : Array α) (i : Nat) : α := a.getD i Num.zero
@[inline] def g2 (d : Array (Array α)) (k i : Nat) : α := (d.getD k #[]).getD i Num.zero

/-- `weighted_rms_scaled(values, scale)` -/
def weightedRms (L : NLits α) (values scale : Array α) : α :=
  let m := min values.size scale.size
  let sum := (List.range m).foldl (fun sum i =>
    let s := g scale i
    let denom := if Num.eqb s L.zero then L.eps else s
    let ratio := g values i / denom
    sum + ratio * ratio) L.zero
  Num.sqrt (sum / Num.ofNat values.size)

/-- `m[i][j]` of `compute_r`: row 0 all ones, column 0 zero below, `(i − 1 − factor·j)/i` elsewhere -/
def mEntry (L : NLits α) (factor : α) (i j : Nat) : α :=
  if i = 0 then L.one else if j = 0 then L.zero else (Num.ofNat i - L.one - factor * Num.ofNat j) / Num.ofNat i

/-- `r[i][j]` of `compute_r`: cumulative column products `r[i][j] = r[i−1][j] · m[i][j]` -/
def rEntry (L : NLits α) (factor : α) : Nat → Nat → α
  | 0, j => mEntry L factor 0 j
  | i + 1, j => rEntry L factor i j * mEntry L factor (i + 1) j

/-- accumulate `coeff · v` unless `coeff == 0.0` (the shortcut of `matmul` and `change_d`; it matters for NaN and
    signed-zero propagation in binary64, not in a field) -/
@[inline] def accSkip (L : NLits α) (acc coeff v : α) : α :=
  if Num.eqb coeff L.zero then acc else acc + coeff * v

/-- `(R·U)[i][j]` as `matmul` computes it (`inner = order + 1`) -/
def ruEntry (L : NLits α) (order : Nat) (factor : α) (i j : Nat) : α :=
  (List.range (order + 1)).foldl (fun acc k => accSkip L acc (rEntry L factor i k) (rEntry L L.one k j)) L.zero

/-- component `i` of row `rowIdx` of the rescaled history: `Σ_k (R·U)[k][rowIdx] · d[k][i]` -/
def changedEntry (L : NLits α) (order : Nat) (factor : α) (dcol : Nat → α) (rowIdx : Nat) : α :=
  (List.range (order + 1)).foldl (fun acc k => accSkip L acc (ruEntry L order factor k rowIdx) (dcol k)) L.zero

/-- `compute_r(order, factor)` as a matrix -/
def computeR (L : NLits α) (order : Nat) (factor : α) : Array (Array α) :=
  (Array.range (order + 1)).map fun i => (Array.range (order + 1)).map fun j => rEntry L factor i j

/-- `change_d(d, order, factor, scratch)`: rows `0..=order` of `d` become `(R·U)ᵀ` applied to them -/
def changeD (L : NLits α) (d : Array (Array α)) (order : Nat) (factor : α) : Array (Array α) :=
  if Num.eqb factor L.one then d
  else
    let order := min order maxOrder
    let n := (d.getD 0 #[]).size
    (Array.range d.size).map fun k =>
      if k ≤ order then (Array.range n).map fun i => changedEntry L order factor (fun kk => g2 d kk i) k
      else d.getD k #[]

/-- the order marker of a dense block: `.round().clamp(1.0, MAX_ORDER as Float) as usize` (a NaN casts to 0) -/
def decodeOrder (marker : α) : Nat :=
  if Num.isNaN marker then 0 else min (max (Num.toNat marker) 1) maxOrder

/-- `x_factors[k] = (xi − (x_new − h·k)) / (h·(k + 1))` -/
def xFactor (L : NLits α) (xi xNew h : α) (k : Nat) : α :=
  (xi - (xNew - h * Num.ofNat k)) / (h * (Num.ofNat k + L.one))

/-- `p[k] = p[k−1] · x_factors[k]` -/
def pProd (L : NLits α) (xi xNew h : α) : Nat → α
  | 0 => xFactor L xi xNew h 0
  | k + 1 => pProd L xi xNew h k * xFactor L xi xNew h (k + 1)

/-- one component of the interpolant: `c 0 + Σ_{k < order} c (k+1) · p[k]` (Newton backward-difference form) -/
def interpScalar (L : NLits α) (order : Nat) (c : Nat → α) (xi xNew h : α) : α :=
  (List.range order).foldl (fun sum k => sum + c (k + 1) * pProd L xi xNew h k) (c 0)

/-- the Newton backward-difference form evaluated with `order` terms -/
def interpolateOrd (L : NLits α) (n order : Nat) (xi : α) (cont : Array α) (xold h : α) : Array α :=
  (Array.range n).map fun i => interpScalar L order (fun k => g cont (i * block + k)) xi (xold + h) h

/-- `BDF::interpolate(xi, yi, cont, xold, h)` for a state of dimension `n`; `yi` is returned (left untouched = `yi0`
    when `h == 0`) -/
def interpolate (L : NLits α) (n : Nat) (xi : α) (yi0 cont : Array α) (xold h : α) : Array α :=
  if Num.eqb h L.zero then yi0
  else if n = 0 then yi0
  else
    interpolateOrd L n (decodeOrder (g cont (block - 1))) xi cont xold h

/-- the accepted step's difference update, from the top down: `e(order+1) = delta`, `e(k) = d[k] + e(k+1)`;
    argument `t = order + 1 − k` -/
def eDown (dcol : Nat → α) (delta : α) (order : Nat) : Nat → α
  | 0 => delta
  | t + 1 => dcol (order - t) + eDown dcol delta order t

/-- one component of the difference arrays after an accepted step:
    `d[order+2] = delta − d[order+1]; d[order+1] = delta; for k in (0..=order).rev() { d[k] += d[k+1] }` -/
def updCol (dcol : Nat → α) (delta : α) (order k : Nat) : α :=
  if k ≤ order + 1 then eDown dcol delta order (order + 1 - k)
  else if k = order + 2 then delta - dcol (order + 1)
  else dcol k

/-- predictor `y_{n+1} ≈ Σ_{k ≤ order} D[k]` -/
def predict (L : NLits α) (d : Array (Array α)) (order n : Nat) : Array α :=
  (Array.range n).map fun i => (List.range (order + 1)).foldl (fun sum k => sum + g2 d k i) L.zero

/-- "Prepare dense coefficients" -/
def denseCont (L : NLits α) (d : Array (Array α)) (order n : Nat) : Array α :=
  Array.ofFn (n := n * block) fun idx =>
    let i := idx.val / block
    let k := idx.val % block
    if k = 0 then g2 d 0 i
    else if k = block - 1 then Num.ofNat order
    else if k ≤ order then g2 d k i else L.zero

/-- the scale `atol + rtol·|y|` with the zero guard -/
def scaleOf (L : NLits α) (atol rtol y : Array α) (n : Nat) : Array α :=
  (Array.range n).map fun i =>
    let s := g atol i + g rtol i * Num.abs (g y i)
    if Num.eqb s L.zero then L.eps else s

inductive Ev (α : Type) where
  | ode (j : Nat) (t : α) (y : Array α)
  | jac (j : Nat) (t : α) (y : Array α)
  | cb (xold x : α) (y : Array α) (samples : Array (Array α))

structure Setup (α : Type) where
  x0 : α
  xend : α
  y0 : Array α
  rtol : Array α
  atol : Array α
  firstStep : Option α
  maxStep : Option α
  minStep : Option α
  newtonTol : Option α
  nmax : Nat
  newtonMaxiter : Nat

structure Out (α : Type) where
  status : Status
  h : α
  cnt : Counters
  log : Array (Ev α)
  /-- ran out of fuel (never on a recorded run) -/
  starved : Bool := false

def toVec (n : Nat) (a : Array α) : Vector α n := Vector.ofFn fun i => g a i.val

/-- sample the step interpolant as the recording callback of the harness does -/
def samples (L : NLits α) (n : Nat) (cont : Array α) (xold x h : α) (thetas : Array α) : Array (Array α) :=
  thetas.map fun th => interpolate L n (xold + th * (x - xold)) (Array.replicate n L.zero) cont xold h

/-- `BDF::solve` -/
def solve (L : NLits α) (S : Setup α) (ode jac : Nat → α → Array α → Array α)
    (obs : Nat → α → α → Array α → Flag × Array α) (thetas : Array α) (fuel : Nat) : Out α := Id.run do
  let n := S.y0.size
  let mut cnt : Counters := {}
  let mut log : Array (Ev α) := #[]
  if n = 0 then return { status := .success, h := L.zero, cnt := cnt, log := log }
  let mut x := S.x0
  let mut y := S.y0
  let xend := S.xend
  let direction := Num.signum (xend - x)
  let hmax := Num.abs (match S.maxStep with | some m => m | none => Num.abs (xend - x))
  let hmin := Num.abs (match S.minStep with | some m => m | none => L.zero)
  -- f0, jac
  let mut nOde := 0
  let mut nJac := 0
  let mut nCb := 0
  log := log.push (.ode nOde x y)
  let mut f0 := ode nOde x y
  nOde := nOde + 1
  cnt := { cnt with ode := cnt.ode + 1 }
  log := log.push (.jac nJac x y)
  let mut jm := jac nJac x y
  nJac := nJac + 1
  cnt := { cnt with jac := cnt.jac + 1 }
  let mut luCurrent := false
  let mut currentC := L.zero
  -- gamma, alpha, error_const
  let gamma : Array α := Id.run do
    let mut gm : Array α := #[L.zero]
    for k in [1:maxOrder + 1] do
      gm := gm.push (g gm (k - 1) + L.one / Num.ofNat k)
    return gm
  let alpha : Array α := (Array.range (maxOrder + 1)).map fun k => (L.one - L.kappa k) * g gamma k
  let errorConst : Array α := (Array.range (maxOrder + 1)).map fun k => L.kappa k * g gamma k + L.one / (Num.ofNat k + L.one)
  let rtolMin := Num.fmax ((List.range n).foldl (fun m i => Num.fmin m (g S.rtol i)) L.inf) L.eps
  let mut newtonTol := match S.newtonTol with
    | some v => v
    | none => Num.fmax (L.ten * L.eps / rtolMin) (Num.fmin (Num.sqrt rtolMin) L.p03)
  if newtonTol ≤ L.zero then newtonTol := L.em9
  let maxit := max S.newtonMaxiter 1
  -- initial step size
  let mut hAbs := L.zero
  match S.firstStep with
  | some h => hAbs := Num.abs h
  | none =>
    let base := nOde
    let r := Gen.Common.hinit (n := n) (f := fun j t yv => toVec n (ode (base + j) t yv.toArray)) (atol := toVec n S.atol) (rtol := toVec n S.rtol)
      (y := toVec n y) (f0 := toVec n f0) (hmax := Num.fmin hmax (Num.abs (xend - x))) (posneg := direction) (x := x) (iord := Gen.Static.bdf_hinitOrder)
    for c in r.2 do
      log := log.push (.ode nOde c.1 c.2.toArray)
      nOde := nOde + 1
    cnt := { cnt with ode := cnt.ode + 1 }
    let guess := r.1
    let maxH := Num.abs (xend - x)
    let guess := if Num.abs guess > maxH then maxH * direction else guess
    hAbs := Num.abs guess
  -- a start below the resolution of the time axis is raised to ten units in the last place of x
  hAbs := Num.fmax hAbs (L.ten * L.eps * Num.abs x)
  hAbs := Num.fmin hAbs (Num.fmax hmax L.minPositive)
  let mut currentH := hAbs
  -- difference arrays
  let zeroRow : Array α := Array.replicate n L.zero
  let mut d : Array (Array α) := Array.replicate (maxOrder + 3) zeroRow
  d := d.setIfInBounds 0 y
  d := d.setIfInBounds 1 ((Array.range n).map fun i => g f0 i * currentH * direction)
  let mut order := 1
  let mut nEqual := 0
  let mut status : Status := .oracleExhausted
  let mut scale : Array α := zeroRow
  -- initial callback
  let (fl0, y0') := obs nCb x x y
  log := log.push (.cb x x y #[])
  nCb := nCb + 1
  match fl0 with
  | .interrupt => return { status := .userInterrupt, h := direction * currentH, cnt := cnt, log := log }
  | .modified =>
    y := y0'
    log := log.push (.ode nOde x y)
    f0 := ode nOde x y
    nOde := nOde + 1
    cnt := { cnt with ode := cnt.ode + 1 }
    d := d.setIfInBounds 0 y
    d := d.setIfInBounds 1 ((Array.range n).map fun i => g f0 i * currentH * direction)
    for k in [2:d.size] do
      d := d.setIfInBounds k zeroRow
    order := 1
    nEqual := 0
    log := log.push (.jac nJac x y)
    jm := jac nJac x y
    nJac := nJac + 1
    cnt := { cnt with jac := cnt.jac + 1 }
    luCurrent := false
  | .cont => pure ()
  let mut lu : Array α := Array.replicate (n * n) L.zero
  let mut pivot : Array Nat := Array.replicate n 0
  let mut starved := true
  let mut retrying := false
  for _ in [0:fuel] do
    if cnt.total ≥ S.nmax then
      status := .needLargerNMax; starved := false; break
    if currentH < L.minPositive then
      status := .stepSizeTooSmall; starved := false; break
    let mut hTry := currentH
    if hTry > hmax then
      let factor := hmax / hTry
      d := changeD L d order factor
      hTry := hmax
      currentH := hTry
      nEqual := 0
      luCurrent := false
    if hTry < hmin ∧ hmin > L.zero then
      if retrying then
        status := .stepSizeTooSmall; starved := false; break
      let factor := Num.fmax (hmin / hTry) L.one
      d := changeD L d order factor
      hTry := hmin
      currentH := hTry
      nEqual := 0
      luCurrent := false
    let mut hSigned := direction * hTry
    let xStart := x
    let mut xNew := x + hSigned
    if direction * (x + L.stretch * hSigned - xend) > L.zero then
      let stepToEnd := Num.abs (xend - x)
      if Num.eqb stepToEnd L.zero then
        status := .success; starved := false; break
      let factor := stepToEnd / hTry
      d := changeD L d order factor
      currentH := currentH * factor
      hTry := currentH
      hSigned := direction * hTry
      -- land on xend itself
      xNew := xend
      nEqual := 0
      luCurrent := false
    if Num.eqb (x + L.tenth * hSigned) x then
      status := .stepSizeTooSmall; starved := false; break
    cnt := { cnt with total := cnt.total + 1 }
    -- predictor, scale, psi
    let yPredict := predict L d order n
    scale := scaleOf L S.atol S.rtol yPredict n
    let psi : Array α := (Array.range n).map fun i =>
      (List.range order).foldl (fun s jj => s + g gamma (jj + 1) * g2 d (jj + 1) i) L.zero / g alpha order
    let c := hSigned / g alpha order
    if !luCurrent || decide (Num.abs (c - currentC) / Num.fmax (Num.abs c) L.one > L.tenth) then
      -- lu_matrix = I − c·J
      let m : Array α := Array.ofFn (n := n * n) fun idx =>
        let r := idx.val / n
        let cc := idx.val % n
        let v := -c * g jm (r * n + cc)
        if r = cc then v + L.one else v
      cnt := { cnt with lu := cnt.lu + 1 }
      match LUF.decomp n n n m with
      | .ok (a, ip) =>
        lu := a; pivot := ip
        luCurrent := true
        currentC := c
      | .error _ =>
        d := changeD L d order L.half
        currentH := currentH * L.half
        nEqual := 0
        luCurrent := false
        cnt := { cnt with rejected := cnt.rejected + 1 }
        retrying := true
        continue
    -- simplified Newton iterations
    let mut yNew := yPredict
    let mut delta : Array α := zeroRow
    let mut converged := false
    let mut dyPrev : Option α := none
    let mut iters := 0
    for _ in [0:maxit + 1] do
      if !(iters < maxit) then break
      log := log.push (.ode nOde xNew yNew)
      let fv := ode nOde xNew yNew
      nOde := nOde + 1
      cnt := { cnt with ode := cnt.ode + 1 }
      let rhs0 : Array α := (Array.range n).map fun i => c * g fv i - g psi i - g delta i
      let rhs := LUF.solve n lu pivot rhs0
      let dyNorm := weightedRms L rhs scale
      let mut rateCondition := false
      match dyPrev with
      | some prev =>
        if prev > L.zero then
          let rate := dyNorm / prev
          if rate ≥ L.one then rateCondition := true
          else
            let remaining : α := Num.ofNat (maxit - iters)
            let estimate := Num.pow rate remaining / (L.one - rate) * dyNorm
            if estimate > newtonTol then rateCondition := true
      | none => pure ()
      yNew := (Array.range n).map fun i => g yNew i + g rhs i
      delta := (Array.range n).map fun i => g delta i + g rhs i
      if Num.eqb dyNorm L.zero then
        converged := true; break
      match dyPrev with
      | some prev =>
        if prev > L.zero then
          let rate := dyNorm / prev
          if rate < L.one then
            let estimate := rate / (L.one - rate) * dyNorm
            if estimate < newtonTol then
              converged := true
      | none => pure ()
      if converged then break
      if rateCondition then break
      dyPrev := some dyNorm
      iters := iters + 1
    if !converged then
      log := log.push (.jac nJac xNew yPredict)
      jm := jac nJac xNew yPredict
      nJac := nJac + 1
      cnt := { cnt with jac := cnt.jac + 1 }
      luCurrent := false
      d := changeD L d order L.half
      currentH := currentH * L.half
      nEqual := 0
      cnt := { cnt with rejected := cnt.rejected + 1 }
      retrying := true
      continue
    let mi : α := Num.ofNat maxit
    let safety := L.safety * (L.two * mi + L.one) / (L.two * mi + Num.ofNat (iters + 1))
    scale := scaleOf L S.atol S.rtol yNew n
    let errVec : Array α := (Array.range n).map fun i => g errorConst order * g delta i
    let errorNorm0 := weightedRms L errVec scale
    -- "A new state that is not finite is never accepted"
    let yNewV := yNew
    let errorNorm := if (List.range n).all (fun i => !(Num.isNaN (g yNewV i - g yNewV i))) then errorNorm0 else L.inf
    if errorNorm > L.one then
      let factor := Num.fmax (safety * Num.pow errorNorm (-L.one / (Num.ofNat order + L.one))) L.minFactor
      d := changeD L d order factor
      currentH := currentH * factor
      nEqual := 0
      cnt := { cnt with rejected := cnt.rejected + 1 }
      retrying := true
      continue
    cnt := { cnt with accepted := cnt.accepted + 1 }
    retrying := false
    nEqual := nEqual + 1
    x := xNew
    y := yNew
    -- difference update
    d := (Array.range d.size).map fun k => (Array.range n).map fun i => updCol (fun kk => g2 d kk i) (g delta i) order k
    let cont := denseCont L d order n
    -- callback
    let (fl, yCb) := obs nCb xStart x y
    log := log.push (.cb xStart x y (samples L n cont xStart x hSigned thetas))
    nCb := nCb + 1
    match fl with
    | .interrupt =>
      status := .userInterrupt; starved := false; break
    | .modified =>
      y := yCb
      log := log.push (.ode nOde x y)
      f0 := ode nOde x y
      nOde := nOde + 1
      cnt := { cnt with ode := cnt.ode + 1 }
      d := d.setIfInBounds 0 y
      d := d.setIfInBounds 1 ((Array.range n).map fun i => g f0 i * currentH * direction)
      for k in [2:d.size] do
        d := d.setIfInBounds k zeroRow
      order := 1
      nEqual := 0
      log := log.push (.jac nJac x y)
      jm := jac nJac x y
      nJac := nJac + 1
      cnt := { cnt with jac := cnt.jac + 1 }
      luCurrent := false
    | .cont => pure ()
    if direction * (x - xend) ≥ L.zero then
      status := .success; starved := false; break
    -- order and step-size adaptation
    if nEqual ≥ order + 1 then
      let mut errM := L.inf
      let mut errP := L.inf
      if order > 1 then
        let v : Array α := (Array.range n).map fun i => g errorConst (order - 1) * g2 d order i
        errM := weightedRms L v scale
      if order < maxOrder then
        let v : Array α := (Array.range n).map fun i => g errorConst (order + 1) * g2 d (order + 2) i
        errP := weightedRms L v scale
      let ord : α := Num.ofNat order
      let fa0 := Num.pow errM (-L.one / (ord + Num.ofNat 0))
      let fa1 := Num.pow errorNorm (-L.one / (ord + Num.ofNat 1))
      let fa2 := Num.pow errP (-L.one / (ord + Num.ofNat 2))
      let best := argmax3 fa0 fa1 fa2
      let newOrder := if best = 0 ∧ order > 1 then order - 1 else if best = 2 ∧ order < maxOrder then order + 1 else order
      let maxF := Num.fmax (Num.fmax (Num.fmax L.zero fa0) fa1) fa2
      let stepFactor := Num.fmin (safety * maxF) L.maxFactor
      let oldOrder := order
      d := changeD L d newOrder stepFactor
      currentH := currentH * stepFactor
      order := newOrder
      nEqual := 0
      luCurrent := false
      if newOrder ≠ oldOrder then
        log := log.push (.jac nJac x y)
        jm := jac nJac x y
        nJac := nJac + 1
        cnt := { cnt with jac := cnt.jac + 1 }
  return { status := status, h := direction * currentH, cnt := cnt, log := log, starved := starved }

end BdfNum
