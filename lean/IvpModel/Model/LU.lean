/-
  Model of `lu_decomp`, `lin_solve`, `lu_decomp_complex`, `lin_solve_complex` (src/matrix/lu.rs, linear.rs):
  Hairer's DEC/SOL/DECC/SOLC with column-max pivot search, stored negative multipliers and deferred row swaps,
  on a dense row-major `n × n` buffer.  Core Lean only; executed at `Float` next to the Rust routines (X-lu:
  factors, pivots and solutions must agree bit for bit), reasoned about over ordered fields for small sizes.
-/
import IvpModel.Num

namespace LU
variable {α : Type} [Num α]

inductive Err where
  | nonSquare | pivotSize | singular
deriving DecidableEq, Repr

@[inline] def ix (n i j : Nat) : Nat := i * n + j
@[inline] def rd (a : Array α) (n i j : Nat) : α := a.getD (ix n i j) Num.zero
@[inline] def wr (a : Array α) (n i j : Nat) (v : α) : Array α := a.setIfInBounds (ix n i j) v

/-- `lu_decomp(a, ip)` on an `rows × cols` matrix with a pivot slice of length `ipLen`; returns the factors and pivots -/
def decomp (rows cols ipLen : Nat) (a0 : Array α) : Except Err (Array α × Array Nat) := Id.run do
  let n := rows
  if n ≠ cols then return .error .nonSquare
  if ipLen ≠ n then return .error .pivotSize
  let mut a := a0
  let mut ip : Array Nat := Array.replicate n 0
  if n = 1 then
    if Num.eqb (rd a n 0 0) Num.zero then return .error .singular
    return .ok (a, ip)
  for k in [0:n - 1] do
    let kp1 := k + 1
    -- pivot search: largest magnitude in column k
    let mut m := k
    let mut maxVal := Num.abs (rd a n k k)
    for i in [kp1:n] do
      let v := Num.abs (rd a n i k)
      if v > maxVal then
        maxVal := v
        m := i
    ip := ip.setIfInBounds k m
    let pivot := rd a n m k
    if Num.eqb pivot Num.zero then return .error .singular
    if m ≠ k then
      let tmp := rd a n m k
      a := wr a n m k (rd a n k k)
      a := wr a n k k tmp
    -- negative multipliers
    let t := Num.one / pivot
    for i in [kp1:n] do
      a := wr a n i k (-(rd a n i k) * t)
    -- update the remaining columns, swapping rows m and k as we go
    for j in [kp1:n] do
      let tj := rd a n m j
      if m ≠ k then
        let temp := rd a n m j
        a := wr a n m j (rd a n k j)
        a := wr a n k j temp
      if Num.eqb tj Num.zero = false then
        for i in [kp1:n] do
          a := wr a n i j (rd a n i j + rd a n i k * tj)
  if Num.eqb (rd a n (n - 1) (n - 1)) Num.zero then return .error .singular
  return .ok (a, ip)

/-- `lin_solve(a, b, ip)` -/
def solve (n : Nat) (a : Array α) (ip : Array Nat) (b0 : Array α) : Array α := Id.run do
  let mut b := b0
  if n = 1 then
    return b.setIfInBounds 0 (b.getD 0 Num.zero / rd a n 0 0)
  for k in [0:n - 1] do
    let m := ip.getD k 0
    let bm := b.getD m Num.zero
    let bk := b.getD k Num.zero
    b := (b.setIfInBounds m bk).setIfInBounds k bm
    for i in [k + 1:n] do
      b := b.setIfInBounds i (b.getD i Num.zero + rd a n i k * b.getD k Num.zero)
  for kb in [1:n] do
    let k := n - kb
    b := b.setIfInBounds k (b.getD k Num.zero / rd a n k k)
    for i in [0:k] do
      b := b.setIfInBounds i (b.getD i Num.zero + rd a n i k * (-(b.getD k Num.zero)))
  return b.setIfInBounds 0 (b.getD 0 Num.zero / rd a n 0 0)

/-- `lu_decomp_complex(ar, ai, ip)` (square inputs of the same size) -/
def decompC (n ipLen : Nat) (ar0 ai0 : Array α) : Except Err (Array α × Array α × Array Nat) := Id.run do
  if ipLen ≠ n then return .error .pivotSize
  let mut ar := ar0
  let mut ai := ai0
  let mut ip : Array Nat := Array.replicate n 0
  if n = 1 then
    if Num.eqb (Num.abs (rd ar n 0 0) + Num.abs (rd ai n 0 0)) Num.zero then return .error .singular
    return .ok (ar, ai, ip)
  for k in [0:n - 1] do
    let kp1 := k + 1
    let mut m := k
    let mut maxVal := Num.abs (rd ar n k k) + Num.abs (rd ai n k k)
    for i in [kp1:n] do
      let v := Num.abs (rd ar n i k) + Num.abs (rd ai n i k)
      if v > maxVal then
        maxVal := v
        m := i
    ip := ip.setIfInBounds k m
    let tr0 := rd ar n m k
    let ti0 := rd ai n m k
    if Num.eqb (Num.abs tr0 + Num.abs ti0) Num.zero then return .error .singular
    if m ≠ k then
      let tmpR := rd ar n m k
      let tmpI := rd ai n m k
      ar := wr ar n m k (rd ar n k k)
      ai := wr ai n m k (rd ai n k k)
      ar := wr ar n k k tmpR
      ai := wr ai n k k tmpI
    let den := tr0 * tr0 + ti0 * ti0
    let tr := tr0 / den
    let ti := -ti0 / den
    for i in [kp1:n] do
      let pr := rd ar n i k * tr - rd ai n i k * ti
      let pi := rd ai n i k * tr + rd ar n i k * ti
      ar := wr ar n i k (-pr)
      ai := wr ai n i k (-pi)
    for j in [kp1:n] do
      let mr := rd ar n m j
      let mi := rd ai n m j
      if m ≠ k then
        let tR := rd ar n m j
        let tI := rd ai n m j
        ar := wr ar n m j (rd ar n k j)
        ai := wr ai n m j (rd ai n k j)
        ar := wr ar n k j tR
        ai := wr ai n k j tI
      if Num.eqb (Num.abs mr + Num.abs mi) Num.zero = false then
        if Num.eqb mi Num.zero then
          for i in [kp1:n] do
            let pr := rd ar n i k * mr
            let pi := rd ai n i k * mr
            ar := wr ar n i j (rd ar n i j + pr)
            ai := wr ai n i j (rd ai n i j + pi)
        else if Num.eqb mr Num.zero then
          for i in [kp1:n] do
            let pr := -(rd ai n i k) * mi
            let pi := rd ar n i k * mi
            ar := wr ar n i j (rd ar n i j + pr)
            ai := wr ai n i j (rd ai n i j + pi)
        else
          for i in [kp1:n] do
            let pr := rd ar n i k * mr - rd ai n i k * mi
            let pi := rd ai n i k * mr + rd ar n i k * mi
            ar := wr ar n i j (rd ar n i j + pr)
            ai := wr ai n i j (rd ai n i j + pi)
  if Num.eqb (Num.abs (rd ar n (n - 1) (n - 1)) + Num.abs (rd ai n (n - 1) (n - 1))) Num.zero then return .error .singular
  return .ok (ar, ai, ip)

/-- `lin_solve_complex(ar, ai, br, bi, ip)` -/
def solveC (n : Nat) (ar ai : Array α) (ip : Array Nat) (br0 bi0 : Array α) : Array α × Array α := Id.run do
  let mut br := br0
  let mut bi := bi0
  let g := fun (v : Array α) (i : Nat) => v.getD i Num.zero
  if n = 1 then
    let den := rd ar n 0 0 * rd ar n 0 0 + rd ai n 0 0 * rd ai n 0 0
    let tR := (g br 0 * rd ar n 0 0 + g bi 0 * rd ai n 0 0) / den
    let tI := (g bi 0 * rd ar n 0 0 - g br 0 * rd ai n 0 0) / den
    return (br.setIfInBounds 0 tR, bi.setIfInBounds 0 tI)
  for k in [0:n - 1] do
    let m := ip.getD k 0
    let tr := g br m
    let ti := g bi m
    let brk := g br k
    let bik := g bi k
    br := (br.setIfInBounds m brk).setIfInBounds k tr
    bi := (bi.setIfInBounds m bik).setIfInBounds k ti
    for i in [k + 1:n] do
      let pr := rd ar n i k * tr - rd ai n i k * ti
      let pi := rd ai n i k * tr + rd ar n i k * ti
      br := br.setIfInBounds i (g br i + pr)
      bi := bi.setIfInBounds i (g bi i + pi)
  for kb in [1:n] do
    let k := n - kb
    let den := rd ar n k k * rd ar n k k + rd ai n k k * rd ai n k k
    let tR := (g br k * rd ar n k k + g bi k * rd ai n k k) / den
    let tI := (g bi k * rd ar n k k - g br k * rd ai n k k) / den
    br := br.setIfInBounds k tR
    bi := bi.setIfInBounds k tI
    let tr := -(g br k)
    let ti := -(g bi k)
    for i in [0:k] do
      let pr := rd ar n i k * tr - rd ai n i k * ti
      let pi := rd ai n i k * tr + rd ar n i k * ti
      br := br.setIfInBounds i (g br i + pr)
      bi := bi.setIfInBounds i (g bi i + pi)
  let den := rd ar n 0 0 * rd ar n 0 0 + rd ai n 0 0 * rd ai n 0 0
  let tR := (g br 0 * rd ar n 0 0 + g bi 0 * rd ai n 0 0) / den
  let tI := (g bi 0 * rd ar n 0 0 - g br 0 * rd ai n 0 0) / den
  return (br.setIfInBounds 0 tR, bi.setIfInBounds 0 tI)

end LU
