/-
  Control skeletons of RK23 (rk23.rs) and RK4 (rk4.rs) over the translated regions.  Core Lean only.
-/
import IvpModel.Model.Ctl
import IvpModel.Gen.Common
import IvpModel.Gen.Rk23
import IvpModel.Gen.Rk4

namespace Ctl
variable {α : Type} [Num α] {n : Nat}

/-! ### RK23 -/

structure R23Params (α : Type) (n : Nat) where
  xend : α
  posneg : α
  safety : α
  scaleMin : α
  scaleMax : α
  hmax : α
  nmax : Nat
  dense : Bool
  atol : Vec α n
  rtol : Vec α n
  one : α
  quarter : α
  half : α
  threeq : α

structure R23State (σ α : Type) (n : Nat) where
  x : α
  h : α
  y : Vec α n
  k1 : Vec α n
  cnt : Counters := {}
  ncalls : Nat := 0
  obs : σ
  log : Array (Ev α n) := #[]

def R23State.result {σ : Type} (s : R23State σ α n) (st : Status) : Result σ α n :=
  { status := st, h := s.h, x := s.x, y := s.y, cnt := s.cnt, ncalls := s.ncalls, obs := s.obs, log := s.log }

def rk23Iter {σ : Type} (P : R23Params α n) (f : Rhs α n) (ob : Obs σ α n) (s : R23State σ α n) :
    Sum (R23State σ α n) (Result σ α n) :=
  if s.cnt.total ≥ P.nmax then .inr (s.result .needLargerNMax)
  else if Gen.Rk23.underflowGuard s.h s.x then .inr (s.result .stepSizeTooSmall)
  else
    let h := if Gen.Rk23.lastGuard s.x s.h P.xend P.posneg then P.xend - s.x else s.h
    let o := Gen.Rk23.stages (f := fun j => f (s.ncalls + j)) (y := s.y) (h := h) (k1 := s.k1) (x := s.x)
    let log := logCalls s.log s.ncalls o.calls
    let ncalls := s.ncalls + o.calls.size
    let cnt := { s.cnt with ode := s.cnt.ode + 3 }
    let ye := (Gen.Rk23.errvec (h := h) (k1 := s.k1) (k2 := o.k2) (k3 := o.k3) (k4 := o.k4)).ye
    let err := Gen.Rk23.errnorm (atol := P.atol) (rtol := P.rtol) (yt := o.yt) (y := s.y) (ye := ye)
    if err ≤ P.one then
      let cnt := { cnt with total := cnt.total + 1, accepted := cnt.accepted + 1 }
      let xold := s.x
      let x := s.x + h
      let ip : Option (α → Vec α n) :=
        if P.dense then
          let d := Gen.Rk23.dense (ye := s.y) (k1 := s.k1) (k2 := o.k2) (k3 := o.k3) (k4 := o.k4)
          some fun xi => Gen.Rk23.interpolate (xi := xi) (xold := xold) (h := h) (cont0 := d.cont0) (cont1 := d.cont1)
            (cont2 := d.cont2) (cont3 := d.cont3)
        else none
      let log := log.push (Ev.cb xold x o.yt (sampleInterp ip xold x P.quarter P.half P.threeq))
      let (obs, flag, ycb) := ob s.obs xold x o.yt ip
      match flag with
      | .interrupt =>
        .inr { status := .userInterrupt, h := h, x := x, y := ycb, cnt := cnt, ncalls := ncalls, obs := obs, log := log }
      | _ =>
        let (k1', log, ncalls, cnt) :=
          if flag = .modified then (f ncalls x ycb, log.push (Ev.ode ncalls x ycb), ncalls + 1, { cnt with ode := cnt.ode + 1 })
          else (o.k4, log, ncalls, cnt)
        -- Adjust step size
        let h' := h * Gen.Rk23.hAcceptFactor P.safety err (Gen.Rk23.errorExponent : α) P.scaleMax P.scaleMin
        let h' := if Gen.Rk23.hmaxExceeded h' P.hmax then P.hmax * P.posneg else h'
        -- Normal exit
        if Num.eqb x P.xend = true then
          .inr { status := .success, h := h', x := x, y := ycb, cnt := cnt, ncalls := ncalls, obs := obs, log := log }
        else .inl { x := x, h := h', y := ycb, k1 := k1', cnt := cnt, ncalls := ncalls, obs := obs, log := log }
    else
      let cnt := { cnt with rejected := cnt.rejected + 1 }
      let h' := h * Gen.Rk23.hRejectFactor P.safety err (Gen.Rk23.errorExponent : α) P.scaleMin
      .inl { s with h := h', cnt := cnt, ncalls := ncalls, log := log }

def rk23Loop {σ : Type} (P : R23Params α n) (f : Rhs α n) (ob : Obs σ α n) : Nat → R23State σ α n → Option (Result σ α n)
  | 0, _ => none
  | fuel + 1, s => match rk23Iter P f ob s with
    | .inr r => some r
    | .inl s' => rk23Loop P f ob fuel s'

def rk23Solve {σ : Type} (P : R23Params α n) (f : Rhs α n) (ob : Obs σ α n) (obs0 : σ) (x0 : α) (y0 : Vec α n)
    (firstStep : Option α) (hmaxArg : α) (fuel : Nat) : Option (Result σ α n) :=
  let k1 := f 0 x0 y0
  let log : Array (Ev α n) := #[Ev.ode 0 x0 y0]
  let cnt : Counters := { ode := 1 }
  let (h, log, ncalls, cnt) :=
    match firstStep with
    | some h0 => (Num.abs h0 * P.posneg, log, 1, cnt)
    | none =>
      let r := Gen.Common.hinit (f := fun j => f (1 + j)) (atol := P.atol) (rtol := P.rtol) (y := y0) (f0 := k1)
        (hmax := hmaxArg) (posneg := P.posneg) (x := x0) (iord := 3)
      (r.1, logCalls log 1 r.2, 1 + r.2.size, { cnt with ode := cnt.ode + 1 })
  let log := log.push (Ev.cb x0 x0 y0 #[])
  let (obs, flag, ycb) := ob obs0 x0 x0 y0 none
  match flag with
  | .interrupt =>
    some { status := .userInterrupt, h := h, x := x0, y := ycb, cnt := cnt, ncalls := ncalls, obs := obs, log := log }
  | _ =>
    let (k1, log, ncalls, cnt) :=
      if flag = .modified then (f ncalls x0 ycb, log.push (Ev.ode ncalls x0 ycb), ncalls + 1, { cnt with ode := cnt.ode + 1 })
      else (k1, log, ncalls, cnt)
    rk23Loop P f ob fuel { x := x0, h := h, y := ycb, k1 := k1, cnt := cnt, ncalls := ncalls, obs := obs, log := log }

/-! ### RK4 (fixed step) -/

structure R4Params (α : Type) where
  xend : α
  nmax : Nat
  dense : Bool
  quarter : α
  half : α
  threeq : α

structure R4State (σ α : Type) (n : Nat) where
  x : α
  h : α
  y : Vec α n
  k1 : Vec α n
  cnt : Counters := {}
  ncalls : Nat := 0
  obs : σ
  log : Array (Ev α n) := #[]

def rk4Iter {σ : Type} (P : R4Params α) (f : Rhs α n) (ob : Obs σ α n) (s : R4State σ α n) :
    Sum (R4State σ α n) (Result σ α n) :=
  if s.cnt.total ≥ P.nmax then
    .inr { status := .needLargerNMax, h := s.h, x := s.x, y := s.y, cnt := s.cnt, ncalls := s.ncalls, obs := s.obs, log := s.log }
  else
    -- Adjust last step so we land exactly on xend
    let (h, last) := if Gen.Rk4.lastGuard s.x s.h P.xend then (P.xend - s.x, true) else (s.h, false)
    let o := Gen.Rk4.stages (f := fun j => f (s.ncalls + j)) (y := s.y) (h := h) (k1 := s.k1) (x := s.x)
    let log := logCalls s.log s.ncalls o.calls
    let ncalls := s.ncalls + o.calls.size
    let xold := s.x
    let u := Gen.Rk4.update (f := fun j => f (ncalls + j)) (h := h) (x := s.x) (k1 := s.k1) (k2 := o.k2) (k3 := o.k3)
      (k4 := o.k4) (y := s.y)
    let log := logCalls log ncalls u.calls
    let ncalls := ncalls + u.calls.size
    let cnt := { s.cnt with ode := s.cnt.ode + 4, total := s.cnt.total + 1, accepted := s.cnt.accepted + 1 }
    let ip : Option (α → Vec α n) :=
      if P.dense then
        let d := Gen.Rk4.dense (yt := s.y) (k2 := u.k2) (k1 := u.k1) (y := u.y)
        some fun xi => Gen.Rk4.interpolate (xi := xi) (xold := xold) (h := h) (cont0 := d.cont0) (cont1 := d.cont1)
          (cont2 := d.cont2) (cont3 := d.cont3)
      else none
    let log := log.push (Ev.cb xold u.x u.y (sampleInterp ip xold u.x P.quarter P.half P.threeq))
    let (obs, flag, ycb) := ob s.obs xold u.x u.y ip
    match flag with
    | .interrupt =>
      .inr { status := .userInterrupt, h := h, x := u.x, y := ycb, cnt := cnt, ncalls := ncalls, obs := obs, log := log }
    | _ =>
      let (k1', log, ncalls, cnt) :=
        if flag = .modified then (f ncalls u.x ycb, log.push (Ev.ode ncalls u.x ycb), ncalls + 1, { cnt with ode := cnt.ode + 1 })
        else (u.k1, log, ncalls, cnt)
      if last then
        .inr { status := .success, h := h, x := u.x, y := ycb, cnt := cnt, ncalls := ncalls, obs := obs, log := log }
      else .inl { x := u.x, h := h, y := ycb, k1 := k1', cnt := cnt, ncalls := ncalls, obs := obs, log := log }

def rk4Loop {σ : Type} (P : R4Params α) (f : Rhs α n) (ob : Obs σ α n) : Nat → R4State σ α n → Option (Result σ α n)
  | 0, _ => none
  | fuel + 1, s => match rk4Iter P f ob s with
    | .inr r => some r
    | .inl s' => rk4Loop P f ob fuel s'

def rk4Solve {σ : Type} (P : R4Params α) (f : Rhs α n) (ob : Obs σ α n) (obs0 : σ) (x0 : α) (y0 : Vec α n) (h : α)
    (fuel : Nat) : Option (Result σ α n) :=
  let k1 := f 0 x0 y0
  let log : Array (Ev α n) := #[Ev.ode 0 x0 y0, Ev.cb x0 x0 y0 #[]]
  let cnt : Counters := { ode := 1 }
  let (obs, flag, ycb) := ob obs0 x0 x0 y0 none
  match flag with
  | .interrupt =>
    some { status := .userInterrupt, h := h, x := x0, y := ycb, cnt := cnt, ncalls := 1, obs := obs, log := log }
  | _ =>
    let (k1, log, ncalls, cnt) :=
      if flag = .modified then (f 1 x0 ycb, log.push (Ev.ode 1 x0 ycb), 2, { cnt with ode := cnt.ode + 1 })
      else (k1, log, 1, cnt)
    rk4Loop P f ob fuel { x := x0, h := h, y := ycb, k1 := k1, cnt := cnt, ncalls := ncalls, obs := obs, log := log }

end Ctl
