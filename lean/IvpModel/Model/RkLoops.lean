/-
  Control skeletons of RK23 (rk23.rs) and RK4 (rk4.rs) over the translated regions.  Core Lean only.
-/
import IvpModel.Gen.Static
import IvpModel.Model.Hairer
import IvpModel.Gen.Common
import IvpModel.Gen.Rk23
import IvpModel.Gen.Rk4

namespace Ctl
variable {α : Type} [Num α] {n : Nat}

/-! ### RK23 -/

structure R23Params (α : Type) (n : Nat) where
  xend : α
  posneg : α
  safety : α
  scaleMin : α
  scaleMax : α
  hmax : α
  nmax : Nat
  dense : Bool
  atol : Vec α n
  rtol : Vec α n
  one : α
  quarter : α
  half : α
  threeq : α

structure R23State (σ α : Type) (n : Nat) where
  x : α
  h : α
  y : Vec α n
  k1 : Vec α n
  m : Meter α n := {}
  obs : σ

def R23State.result {σ : Type} (s : R23State σ α n) (st : Status) : Result σ α n :=
  { status := st, h := s.h, x := s.x, y := s.y, m := s.m, obs := s.obs }

def rk23Guard {σ : Type} (P : R23Params α n) (s : R23State σ α n) : Option Status :=
  if s.m.cnt.total ≥ P.nmax then some .needLargerNMax
  else if Gen.Rk23.underflowGuard s.h s.x then some .stepSizeTooSmall
  else none

/-- "Check for last step adjustment" -/
def rk23Adjust {σ : Type} (P : R23Params α n) (s : R23State σ α n) : α :=
  if Gen.Rk23.lastGuard s.x s.h P.xend P.posneg then P.xend - s.x else s.h

/-- the step was shortened to land on xend (`last`) -/
def rk23Last {σ : Type} (P : R23Params α n) (s : R23State σ α n) : Bool :=
  decide (Gen.Rk23.lastGuard s.x s.h P.xend P.posneg)

structure R23Trial (α : Type) (n : Nat) where
  o : Gen.Rk23.StagesOut α n
  m : Meter α n
  err : α

def rk23Trial {σ : Type} (P : R23Params α n) (f : Rhs α n) (s : R23State σ α n) (h : α) (last : Bool) : R23Trial α n :=
  -- the landing step evaluates its last stage at `xph = xend` (not at `x + h`, which can miss xend by a rounding error)
  let o := Gen.Rk23.stages (f := fun j => f (s.m.ncalls + j)) (y := s.y) (h := h) (k1 := s.k1) (x := s.x) (last := last) (xend := P.xend)
  let ye := (Gen.Rk23.errvec (h := h) (k1 := s.k1) (k2 := o.k2) (k3 := o.k3) (k4 := o.k4)).ye
  { o := o, m := s.m.bump o.calls 3, err := finiteGuard o.yt (Gen.Rk23.errnorm (atol := P.atol) (rtol := P.rtol) (yt := o.yt) (y := s.y) (ye := ye)) }

/-- "Adjust step size" after acceptance -/
def rk23NextStep (P : R23Params α n) (h err : α) : α :=
  let h' := h * Gen.Rk23.hAcceptFactor P.safety err (Gen.Rk23.errorExponent : α) P.scaleMax P.scaleMin
  if Gen.Rk23.hmaxExceeded h' P.hmax then P.hmax * P.posneg else h'

def rk23Accepted {σ : Type} (P : R23Params α n) (f : Rhs α n) (ob : Obs σ α n) (s : R23State σ α n) (h : α) (last : Bool)
    (T : R23Trial α n) : Sum (R23State σ α n) (Result σ α n) :=
  let m := T.m.incTotal.incAccepted
  let xold := s.x
  -- `x = xph` with `xph = if last { xend } else { x + h }` (the time of the last stage)
  let x := landX last P.xend s.x h
  let ip : Option (α → Vec α n) :=
    if P.dense then
      let d := Gen.Rk23.dense (ye := s.y) (k1 := s.k1) (k2 := T.o.k2) (k3 := T.o.k3) (k4 := T.o.k4)
      some fun xi => Gen.Rk23.interpolate (xi := xi) (xold := xold) (h := h) (cont0 := d.cont0) (cont1 := d.cont1)
        (cont2 := d.cont2) (cont3 := d.cont3)
    else none
  let m := m.cb xold x T.o.yt (sampleInterp ip xold x P.quarter P.half P.threeq)
  match afterCb f ob s.obs m xold x T.o.yt ip T.o.k4 with
  | .stop obs y => .inr { status := .userInterrupt, h := h, x := x, y := y, m := m, obs := obs }
  | .go obs y k1 m =>
    let h' := rk23NextStep P h T.err
    -- Normal exit: after the landing step, or when a step happens to end exactly at xend
    if last || Num.eqb x P.xend then .inr { status := .success, h := h', x := x, y := y, m := m, obs := obs }
    else .inl { x := x, h := h', y := y, k1 := k1, m := m, obs := obs }

def rk23Iter {σ : Type} (P : R23Params α n) (f : Rhs α n) (ob : Obs σ α n) (s : R23State σ α n) :
    Sum (R23State σ α n) (Result σ α n) :=
  match rk23Guard P s with
  | some st => .inr (s.result st)
  | none =>
    let h := rk23Adjust P s
    let T := rk23Trial P f s h (rk23Last P s)
    if T.err ≤ P.one then rk23Accepted P f ob s h (rk23Last P s) T
    else
      .inl { s with h := h * Gen.Rk23.hRejectFactor P.safety T.err (Gen.Rk23.errorExponent : α) P.scaleMin,
                    m := T.m.incRejected }

def rk23Loop {σ : Type} (P : R23Params α n) (f : Rhs α n) (ob : Obs σ α n) : Nat → R23State σ α n → Option (Result σ α n)
  | 0, _ => none
  | fuel + 1, s => match rk23Iter P f ob s with
    | .inr r => some r
    | .inl s' => rk23Loop P f ob fuel s'

def rk23Start {σ : Type} (P : R23Params α n) (f : Rhs α n) (ob : Obs σ α n) (obs0 : σ) (x0 : α) (y0 : Vec α n)
    (firstStep : Option α) (hmaxArg : α) : Sum (R23State σ α n) (Result σ α n) :=
  let i := startMeter f x0 y0 P.posneg P.hmax firstStep (fun f' k1 =>
    Gen.Common.hinit (f := f') (atol := P.atol) (rtol := P.rtol) (y := y0) (f0 := k1) (hmax := hmaxArg) (posneg := P.posneg)
      (x := x0) (iord := Gen.Static.rk23_hinitOrder))
  let m := i.2.2.cb x0 x0 y0 #[]
  match afterCb f ob obs0 m x0 x0 y0 none i.2.1 with
  | .stop obs y => .inr { status := .userInterrupt, h := i.1, x := x0, y := y, m := m, obs := obs }
  | .go obs y k1 m => .inl { x := x0, h := i.1, y := y, k1 := k1, m := m, obs := obs }

def rk23Solve {σ : Type} (P : R23Params α n) (f : Rhs α n) (ob : Obs σ α n) (obs0 : σ) (x0 : α) (y0 : Vec α n)
    (firstStep : Option α) (hmaxArg : α) (fuel : Nat) : Option (Result σ α n) :=
  match rk23Start P f ob obs0 x0 y0 firstStep hmaxArg with
  | .inr r => some r
  | .inl s => rk23Loop P f ob fuel s

/-! ### RK4 (fixed step) -/

structure R4Params (α : Type) where
  xend : α
  nmax : Nat
  dense : Bool
  quarter : α
  half : α
  threeq : α

structure R4State (σ α : Type) (n : Nat) where
  x : α
  h : α
  y : Vec α n
  k1 : Vec α n
  m : Meter α n := {}
  obs : σ

/-- "Adjust last step so we land exactly on xend" -/
def rk4Adjust {σ : Type} (P : R4Params α) (s : R4State σ α n) : α × Bool :=
  if Gen.Rk4.lastGuard s.x s.h P.xend then (P.xend - s.x, true) else (s.h, false)

def rk4Iter {σ : Type} (P : R4Params α) (f : Rhs α n) (ob : Obs σ α n) (s : R4State σ α n) :
    Sum (R4State σ α n) (Result σ α n) :=
  if s.m.cnt.total ≥ P.nmax then
    .inr { status := .needLargerNMax, h := s.h, x := s.x, y := s.y, m := s.m, obs := s.obs }
  else
    let a := rk4Adjust P s
    let h := a.1
    -- "A step below the resolution of x would never advance it": `if x + h == x { StepSizeTooSmall }`
    if Num.eqb (s.x + h) s.x then
      .inr { status := .stepSizeTooSmall, h := h, x := s.x, y := s.y, m := s.m, obs := s.obs }
    else
    let o := Gen.Rk4.stages (f := fun j => f (s.m.ncalls + j)) (y := s.y) (h := h) (k1 := s.k1) (x := s.x) (last := a.2) (xend := P.xend)
    let m := s.m.bump o.calls 3
    let xold := s.x
    let u := Gen.Rk4.update (f := fun j => f (m.ncalls + j)) (xph := o.xph) (h := h) (k1 := s.k1) (k2 := o.k2) (k3 := o.k3)
      (k4 := o.k4) (y := s.y)
    -- `evals.ode += 4` covers the three stages and the evaluation at the new point
    let m := (m.bump u.calls 1).incTotal.incAccepted
    let ip : Option (α → Vec α n) :=
      if P.dense then
        let d := Gen.Rk4.dense (yt := s.y) (k2 := u.k2) (k1 := u.k1) (y := u.y)
        some fun xi => Gen.Rk4.interpolate (xi := xi) (xold := xold) (h := h) (cont0 := d.cont0) (cont1 := d.cont1)
          (cont2 := d.cont2) (cont3 := d.cont3)
      else none
    let m := m.cb xold u.x u.y (sampleInterp ip xold u.x P.quarter P.half P.threeq)
    match afterCb f ob s.obs m xold u.x u.y ip u.k1 with
    | .stop obs y => .inr { status := .userInterrupt, h := h, x := u.x, y := y, m := m, obs := obs }
    | .go obs y k1 m =>
      if a.2 then .inr { status := .success, h := h, x := u.x, y := y, m := m, obs := obs }
      else .inl { x := u.x, h := h, y := y, k1 := k1, m := m, obs := obs }

def rk4Loop {σ : Type} (P : R4Params α) (f : Rhs α n) (ob : Obs σ α n) : Nat → R4State σ α n → Option (Result σ α n)
  | 0, _ => none
  | fuel + 1, s => match rk4Iter P f ob s with
    | .inr r => some r
    | .inl s' => rk4Loop P f ob fuel s'

def rk4Start {σ : Type} (f : Rhs α n) (ob : Obs σ α n) (obs0 : σ) (x0 : α) (y0 : Vec α n) (h : α) :
    Sum (R4State σ α n) (Result σ α n) :=
  let k1 := f 0 x0 y0
  let m : Meter α n := (({} : Meter α n).bump #[(x0, y0)] 1).cb x0 x0 y0 #[]
  match afterCb f ob obs0 m x0 x0 y0 none k1 with
  | .stop obs y => .inr { status := .userInterrupt, h := h, x := x0, y := y, m := m, obs := obs }
  | .go obs y k1 m => .inl { x := x0, h := h, y := y, k1 := k1, m := m, obs := obs }

def rk4Solve {σ : Type} (P : R4Params α) (f : Rhs α n) (ob : Obs σ α n) (obs0 : σ) (x0 : α) (y0 : Vec α n) (h : α)
    (fuel : Nat) : Option (Result σ α n) :=
  match rk4Start f ob obs0 x0 y0 h with
  | .inr r => some r
  | .inl s => rk4Loop P f ob fuel s

end Ctl
