/-
  Functional model of the real LU routines `lu_decomp` / `lin_solve` (src/matrix/lu.rs, linear.rs; Hairer's DEC / SOL):
  the same arithmetic as `Model/LU.lean` (which transcribes the loops), but written as one closed-form update per
  elimination step on matrices-as-functions, so that it can be reasoned about for **every** size by induction on the
  step.  Core Lean only.  Executed at `Float` next to the Rust routines (X-lu, and inside X-radaunum / X-bdfnum, which
  factorise with this model): factors, pivots and solutions must agree bit for bit.

  Column-max pivot search (first maximum wins), stored negative multipliers, deferred row swaps: the swap of step k
  touches columns ≥ k only; the multipliers of earlier columns stay where they are and `solve` replays the swaps on
  the right-hand side.
-/
import IvpModel.Num
import IvpModel.Model.LU

namespace LUF
open LU (Err)
variable {α : Type} [Num α]

abbrev Mx (α : Type) := Nat → Nat → α

/-- pivot search in column `k`: rows `i, i+1, …` (`cnt` of them), current best row `m` with magnitude `mx`;
    a later row replaces the best only if strictly larger (`v > max_val`; false for NaN) -/
def pivotGo (a : Mx α) (k : Nat) : (i cnt m : Nat) → (mx : α) → Nat
  | _, 0, m, _ => m
  | i, cnt + 1, m, mx =>
    let v := Num.abs (a i k)
    if v > mx then pivotGo a k (i + 1) cnt i v else pivotGo a k (i + 1) cnt m mx

/-- the pivot row of step `k` -/
def pivot (a : Mx α) (n k : Nat) : Nat := pivotGo a k (k + 1) (n - (k + 1)) k (Num.abs (a k k))

/-- the stored (negative) multiplier of row `i > k` in step `k` with pivot row `m` -/
def mult (a : Mx α) (k m i : Nat) : α := (-(if i = m then a k k else a i k)) * (Num.one / a m k)

/-- rows `m` and `k` exchanged (applied to the columns `≥ k` only) -/
def swapped (a : Mx α) (k m i j : Nat) : α := if i = k then a m j else if i = m then a k j else a i j

/-- the matrix after elimination step `k` with pivot row `m` -/
def stepEntry (a : Mx α) (k m : Nat) : Mx α := fun i j =>
  if j < k then a i j
  else if j = k then
    (if i < k then a i j else if i = k then a m k else mult a k m i)
  else
    (if i ≤ k then swapped a k m i j
     else if Num.eqb (a m j) Num.zero = false then swapped a k m i j + mult a k m i * a m j
     else swapped a k m i j)

def toFun (n : Nat) (arr : Array α) : Mx α := fun i j => arr.getD (i * n + j) Num.zero
def ofFun (n : Nat) (f : Mx α) : Array α := Array.ofFn (n := n * n) fun idx => f (idx.val / n) (idx.val % n)

/-- steps `k, k+1, …` (`cnt` of them), then the test of the last diagonal entry -/
def decompGo (n : Nat) : (k cnt : Nat) → Mx α → Array Nat → Except Err (Mx α × Array Nat)
  | _, 0, a, ip => if Num.eqb (a (n - 1) (n - 1)) Num.zero then .error .singular else .ok (a, ip)
  | k, cnt + 1, a, ip =>
    let m := pivot a n k
    if Num.eqb (a m k) Num.zero then .error .singular
    else decompGo n (k + 1) cnt (toFun n (ofFun n (stepEntry a k m))) (ip.setIfInBounds k m)

/-- `lu_decomp(a, ip)` on an `rows × cols` matrix with a pivot slice of length `ipLen` -/
def decomp (rows cols ipLen : Nat) (a0 : Array α) : Except Err (Array α × Array Nat) :=
  let n := rows
  if n ≠ cols then .error .nonSquare
  else if ipLen ≠ n then .error .pivotSize
  else if n = 1 then
    (if Num.eqb (toFun n a0 0 0) Num.zero then .error .singular else .ok (a0, Array.replicate n 0))
  else
    match decompGo n 0 (n - 1) (toFun n a0) (Array.replicate n 0) with
    | .ok (f, ip) => .ok (ofFun n f, ip)
    | .error e => .error e

abbrev Vc (α : Type) := Nat → α

/-- forward step `k` with pivot row `m`: exchange `b[m]`, `b[k]`, then add the multiples of the new `b[k]` below -/
def fwdStep (a : Mx α) (b : Vc α) (k m : Nat) : Vc α := fun i =>
  let s := if i = k then b m else if i = m then b k else b i
  if i > k then s + a i k * b m else s

/-- back-substitution step `k ≥ 1`: divide `b[k]`, subtract its multiples above -/
def backStep (a : Mx α) (b : Vc α) (k : Nat) : Vc α := fun i =>
  if i = k then b k / a k k
  else if i < k then b i + a i k * (-(b k / a k k))
  else b i

def vOf (n : Nat) (v : Array α) : Vc α := fun i => v.getD i Num.zero
def vTo (n : Nat) (b : Vc α) : Array α := Array.ofFn (n := n) fun i => b i.val

def fwdGo (n : Nat) (a : Mx α) (ip : Array Nat) : (k cnt : Nat) → Vc α → Vc α
  | _, 0, b => b
  | k, cnt + 1, b => fwdGo n a ip (k + 1) cnt (vOf n (vTo n (fwdStep a b k (ip.getD k 0))))

/-- `k = cnt, cnt−1, …, 1` -/
def backGo (n : Nat) (a : Mx α) : (cnt : Nat) → Vc α → Vc α
  | 0, b => b
  | cnt + 1, b => backGo n a cnt (vOf n (vTo n (backStep a b (cnt + 1))))

/-- `lin_solve(a, b, ip)` -/
def solve (n : Nat) (a : Array α) (ip : Array Nat) (b0 : Array α) : Array α :=
  let f := toFun n a
  if n = 1 then b0.setIfInBounds 0 (b0.getD 0 Num.zero / f 0 0)
  else
    let b1 := fwdGo n f ip 0 (n - 1) (vOf n b0)
    let b2 := backGo n f (n - 1) b1
    -- entries of `b0` beyond `n` (Radau hands over a longer buffer) are left alone
    let head := vTo n (fun i => if i = 0 then b2 0 / f 0 0 else b2 i)
    (Array.range b0.size).map fun i => if i < n then head.getD i Num.zero else b0.getD i Num.zero

end LUF
