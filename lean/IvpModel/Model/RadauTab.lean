/-
  The 3-stage Radau IIA tableau A(s) (s standing for √6), the code's transformation matrices T, TI and eigenvalue block Λ
  (exact rational values of the binary64 literals of radau.rs, regenerated on every run), and the kernel-evaluable check
  that the latter are the eigen-decomposition of the former.  Shared by C02 (order) and C14 (stability).
-/
import IvpModel.Model.Tableaux
import IvpModel.Gen.Radau

namespace Radau14
open Gen.Radau

def q (p : Int × Nat) : Rat := (p.1 : Rat) / (p.2 : Rat)
def absq (r : Rat) : Rat := if r < 0 then -r else r

/-- a rational within 1e-17 of √6 -/
def s6 : Rat := 2449489742783178098 / 1000000000000000000

abbrev M3 := Fin 3 → Fin 3 → Rat
def mul (X Y : M3) : M3 := fun i j => X i 0 * Y 0 j + X i 1 * Y 1 j + X i 2 * Y 2 j
def idm : M3 := fun i j => if i = j then 1 else 0
def near (X Y : M3) (eps : Rat) : Bool := (List.finRange 3).all fun i => (List.finRange 3).all fun j => decide (absq (X i j - Y i j) ≤ eps)

/-- Radau IIA (3 stages) with `s` in place of √6 -/
def A (s : Rat) : M3 := fun i j =>
  match i, j with
  | 0, 0 => (88 - 7 * s) / 360 | 0, 1 => (296 - 169 * s) / 1800 | 0, 2 => (-2 + 3 * s) / 225
  | 1, 0 => (296 + 169 * s) / 1800 | 1, 1 => (88 + 7 * s) / 360 | 1, 2 => (-2 - 3 * s) / 225
  | 2, 0 => (16 - s) / 36 | 2, 1 => (16 + s) / 36 | 2, 2 => 1 / 9

/-- the code's `T` (its last row is (T20, 1, 0)) and `TI`, exact values of the binary64 literals -/
def T : M3 := fun i j =>
  match i, j with
  | 0, 0 => q T00_f | 0, 1 => q T01_f | 0, 2 => q T02_f
  | 1, 0 => q T10_f | 1, 1 => q T11_f | 1, 2 => q T12_f
  | 2, 0 => q T20_f | 2, 1 => 1 | 2, 2 => 0
def TI : M3 := fun i j =>
  match i, j with
  | 0, 0 => q TI00_f | 0, 1 => q TI01_f | 0, 2 => q TI02_f
  | 1, 0 => q TI10_f | 1, 1 => q TI11_f | 1, 2 => q TI12_f
  | 2, 0 => q TI20_f | 2, 1 => q TI21_f | 2, 2 => q TI22_f
def Lam : M3 := fun i j =>
  match i, j with
  | 0, 0 => q U1_f | 1, 1 => q ALPH_f | 1, 2 => -q BETA_f | 2, 1 => q BETA_f | 2, 2 => q ALPH_f
  | _, _ => 0

def det3 (X : M3) : Rat :=
  X 0 0 * (X 1 1 * X 2 2 - X 1 2 * X 2 1) - X 0 1 * (X 1 0 * X 2 2 - X 1 2 * X 2 0) + X 0 2 * (X 1 0 * X 2 1 - X 1 1 * X 2 0)
def tr3 (X : M3) : Rat := X 0 0 + X 1 1 + X 2 2
def minors3 (X : M3) : Rat :=
  (X 0 0 * X 1 1 - X 0 1 * X 1 0) + (X 0 0 * X 2 2 - X 0 2 * X 2 0) + (X 1 1 * X 2 2 - X 1 2 * X 2 1)
/-- `A − 1·bᵀ` (b = last row of A): numerator matrix of the stability function -/
def AmB (s : Rat) : M3 := fun i j => A s i j - A s 2 j

def eps13 : Rat := 1 / 10 ^ 13
def eps14 : Rat := 1 / 10 ^ 14
def eps15 : Rat := 1 / 10 ^ 15

def constantsCheck : Bool :=
  decide (absq (s6 * s6 - 6) ≤ 1 / 10 ^ 17) &&
  near (mul TI T) idm eps14 &&
  near (mul (A s6) (mul T (mul Lam TI))) idm eps13 &&
  decide (absq (q C1_f - (4 - s6) / 10) ≤ eps15) && decide (absq (q C2_f - (4 + s6) / 10) ≤ eps15) &&
  decide (absq (q C1M1_f - (q C1_f - 1)) ≤ eps15) && decide (absq (q C2M1_f - (q C2_f - 1)) ≤ eps15) && decide (absq (q C1MC2_f - (q C1_f - q C2_f)) ≤ eps15) &&
  decide (absq (q DD1_f - (-(13 + 7 * s6) / 3)) ≤ eps14) && decide (absq (q DD2_f - ((-13 + 7 * s6) / 3)) ≤ eps14) && decide (absq (q DD3_f - (-1 / 3)) ≤ eps15) &&
  -- det(I − zA) = 1 − (3/5) z + (3/20) z² − (1/60) z³ ,  det(I − z(A − 1bᵀ)) = 1 + (2/5) z + (1/20) z²
  decide (absq (tr3 (A s6) - 3 / 5) ≤ eps15) && decide (absq (minors3 (A s6) - 3 / 20) ≤ eps15) && decide (absq (det3 (A s6) - 1 / 60) ≤ eps15) &&
  decide (absq (tr3 (AmB s6) - (-2 / 5)) ≤ eps15) && decide (absq (minors3 (AmB s6) - 1 / 20) ≤ eps15) && decide (absq (det3 (AmB s6)) ≤ eps15)


/-- a rational as a `(num, den)` pair for the tree-condition checker -/
def qq (r : Rat) : QQ := (r.num, r.den)

/-- Radau IIA as a tableau for the order-condition checker: A(s6), weights = last row (the method is stiffly accurate: the
    code propagates the third stage value), nodes = the stage times the code passes to the right-hand side (C1, C2, 1) -/
def radauTab : QTableau where
  A := [[qq (A s6 0 0), qq (A s6 0 1), qq (A s6 0 2)], [qq (A s6 1 0), qq (A s6 1 1), qq (A s6 1 2)],
        [qq (A s6 2 0), qq (A s6 2 1), qq (A s6 2 2)]]
  b := [qq (A s6 2 0), qq (A s6 2 1), qq (A s6 2 2)]
  c := [C1_f, C2_f, one_q]

end Radau14
