/-
  Continuous (dense-output) order conditions, kernel-evaluable.  Core Lean only.

  A dense output formula is  u(θ) = y + h Σ_i w_i(θ) K_i  with  w_i(θ) = Σ_m c_{m,i} p_m(θ)  for a small
  list of fixed basis polynomials p_m (e.g. θ, θ(1−θ), θ²(1−θ), θ²(1−θ)² for DOPRI5) and rational
  weights c_{m,i} built from the regenerated constants.  It has (uniform) order q iff for every rooted
  tree t of order ≤ q     Σ_i w_i(θ) Φ_i(t) = θ^|t| / γ(t)     as polynomials in θ.
  With a_ij = N_ij/S, c_{m,i} = C_{m,i}/S this is, for every power θ^k,
        γ(t) · Σ_m (Σ_i C_{m,i} Z_i(t)) · p_m[k]  =  [k = |t|] · S^|t|          (integers).
-/
import IvpModel.Model.Tableaux

structure DenseSpec where
  /-- extended tableau: all stages the dense output uses (FSAL stage, extra stages) -/
  A : List (List QQ)
  /-- basis polynomials, coefficient lists (index = power of θ) -/
  basis : List (List Int)
  /-- `W[m][i]` = weight of stage `i` on basis polynomial `m` -/
  W : List (List QQ)

namespace DenseSpec
def S (D : DenseSpec) : Nat := lcmAll (D.A ++ D.W)
def N (D : DenseSpec) : List (List Int) := D.A.map (scaleRow D.S)
def C (D : DenseSpec) : List (List Int) := D.W.map (scaleRow D.S)
def maxDeg (D : DenseSpec) : Nat := D.basis.foldl (fun a p => max a p.length) 0

/-- coefficient of θ^k in  γ(t)·S^|t|·Σ_i w_i(θ)Φ_i(t) -/
def coeff (D : DenseSpec) (t : BTree) (k : Nat) : Int :=
  let Z := phiZ D.N t
  (t.gamma : Int) * (List.zipWith (fun (row : List Int) (p : List Int) => idot row Z * p.getD k 0) D.C D.basis).foldl (· + ·) 0

def condTree (D : DenseSpec) (t : BTree) : Bool :=
  (List.range D.maxDeg).all fun k => D.coeff t k == (if k = t.order then (D.S : Int) ^ t.order else 0)

def condTreeApprox (D : DenseSpec) (tolInv : Nat) (t : BTree) : Bool :=
  (List.range D.maxDeg).all fun k =>
    decide (((D.coeff t k - (if k = t.order then (D.S : Int) ^ t.order else 0)).natAbs) * tolInv ≤ t.gamma * D.S ^ t.order)
end DenseSpec

/-! ### rational helpers on `(num, den)` pairs -/
def QQ.add (a b : QQ) : QQ := (a.1 * b.2 + b.1 * a.2, a.2 * b.2)
def QQ.sub (a b : QQ) : QQ := (a.1 * b.2 - b.1 * a.2, a.2 * b.2)
def QQ.smul (k : Int) (a : QQ) : QQ := (k * a.1, a.2)
def unitRow (len i : Nat) : List QQ := (List.range len).map fun j => if j = i then one_q else z
def padRow (len : Nat) (r : List QQ) : List QQ := r ++ List.replicate (len - r.length) z

/-! ### the four explicit methods -/

/-- RK4: stages K1..K4 and K5 = f(x+h, y_new) (the next `k1`); cubic Hermite with slopes K1, K5:
    u = y + h[ h01(θ) Σ b_i K_i + h10(θ) K_slot + h11(θ) K5 ],  h01 = 3θ²−2θ³, h10 = θ−2θ²+θ³, h11 = θ³−θ².
    `slot` is the stage whose value the code stores as the left slope (proved in `Proofs/DenseEqs.lean`). -/
def rk4Dense : DenseSpec where
  A := rk4Tab.A ++ [rk4Tab.b]
  basis := [[0, 0, 3, -2], [0, 1, -2, 1], [0, 0, -1, 1]]
  W := [padRow 5 rk4Tab.b, unitRow 5 0, unitRow 5 4]

/-- RK23: u = y + h[ θ K1 + θ² Σ D2_i K_i + θ³ Σ D3_i K_i ] -/
def rk23Dense : DenseSpec where
  A := rk23Tab.A
  basis := [[0, 1], [0, 0, 1], [0, 0, 0, 1]]
  W := [unitRow 4 0,
        [Gen.Rk23.D21_q, Gen.Rk23.D22_q, Gen.Rk23.D23_q, Gen.Rk23.D24_q],
        [Gen.Rk23.D31_q, Gen.Rk23.D32_q, Gen.Rk23.D33_q, Gen.Rk23.D34_q]]

/-- DOPRI5: u = y + θ·ydiff + θθ₁·bspl + θ²θ₁·(ydiff − hK7 − bspl) + θ²θ₁²·hΣD_iK_i,
    ydiff = hΣb_iK_i, bspl = hK1 − ydiff -/
def dopri5Dense : DenseSpec :=
  let b := dopri5Tab.b
  let e1 := unitRow 7 0
  let e7 := unitRow 7 6
  { A := dopri5Tab.A
    basis := [[0, 1], [0, 1, -1], [0, 0, 1, -1], [0, 0, 1, -2, 1]]
    W := [b, List.zipWith QQ.sub e1 b,
          List.zipWith QQ.sub (List.zipWith QQ.sub (b.map (QQ.smul 2)) e7) e1,
          [Gen.Dopri5.D1_q, z, Gen.Dopri5.D3_q, Gen.Dopri5.D4_q, Gen.Dopri5.D5_q, Gen.Dopri5.D6_q, Gen.Dopri5.D7_q]] }

open Gen.Dop853 in
/-- DOP853: 16 stages (K13 = f(x+h, y_new), K14..K16 the three extra stages);
    basis s, s s₁, s² s₁, s² s₁², s³ s₁², s³ s₁³, s⁴ s₁³ -/
def dop853Dense : DenseSpec :=
  let b := padRow 16 dop853Tab.b
  let e1 := unitRow 16 0
  let e13 := unitRow 16 12
  { A := dop853Tab.A ++ [dop853Tab.b,
          [A141_q, z, z, z, z, z, A147_q, A148_q, A149_q, A1410_q, A1411_q, A1412_q, A1413_q],
          [A151_q, z, z, z, z, A156_q, A157_q, A158_q, z, z, A1511_q, A1512_q, A1513_q, A1514_q],
          [A161_q, z, z, z, z, A166_q, A167_q, A168_q, A169_q, z, z, z, A1613_q, A1614_q, A1615_q]]
    basis := [[0, 1], [0, 1, -1], [0, 0, 1, -1], [0, 0, 1, -2, 1], [0, 0, 0, 1, -2, 1],
              [0, 0, 0, 1, -3, 3, -1], [0, 0, 0, 0, 1, -3, 3, -1]]
    W := [b, List.zipWith QQ.sub e1 b,
          List.zipWith QQ.sub (List.zipWith QQ.sub (b.map (QQ.smul 2)) e13) e1,
          [D41_q, z, z, z, z, D46_q, D47_q, D48_q, D49_q, D410_q, D411_q, D412_q, D413_q, D414_q, D415_q, D416_q],
          [D51_q, z, z, z, z, D56_q, D57_q, D58_q, D59_q, D510_q, D511_q, D512_q, D513_q, D514_q, D515_q, D516_q],
          [D61_q, z, z, z, z, D66_q, D67_q, D68_q, D69_q, D610_q, D611_q, D612_q, D613_q, D614_q, D615_q, D616_q],
          [D71_q, z, z, z, z, D76_q, D77_q, D78_q, D79_q, D710_q, D711_q, D712_q, D713_q, D714_q, D715_q, D716_q]] }

/-! ### the time arguments of DOP853's three extra dense stages

  The order conditions above take the node of a stage to be the row sum of its `A` row (`Φ_i(τ) = Σ_j a_ij`).  The code
  passes `x + C14·h`, `x + C15·h`, `x + C16·h` as the time argument (`Proofs/DenseEqs853.lean`), so for a right-hand side that
  depends on `t` the three constants have to *be* those row sums.  (The twelve main nodes are `rowsum_dop853`, property C02.) -/
def QQ.sumRow (r : List QQ) : QQ := r.foldl QQ.add (0, 1)
/-- `|Σ_j a_ij − c_i| ≤ 1/tolInv` for the pairs `(row, node)` -/
def nodesMatchRows (rows : List (List QQ)) (nodes : List QQ) (tolInv : Nat) : Bool :=
  (List.zipWith (fun (row : List QQ) (c : QQ) =>
      let s := QQ.sumRow row
      decide ((s.1 * c.2 - c.1 * s.2).natAbs * tolInv ≤ s.2 * c.2)) rows nodes).all id
    && rows.length == nodes.length
open Gen.Dop853 in
def dop853ExtraNodesOK (tolInv : Nat) : Bool :=
  nodesMatchRows (dop853Dense.A.drop 13) [C14_q, C15_q, C16_q] tolInv
