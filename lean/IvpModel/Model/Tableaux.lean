/-
  The Butcher tableaux *as applied by the stage code*, assembled from the regenerated constants
  (`Gen/*.lean`, `NAME_q = (num, den)`).  Which constant sits in which position is proved against
  the translated stage code in `Proofs/StageEqs.lean` (theorems `*_stage_eqs`), so a stage that
  reads the wrong buffer or the wrong constant breaks a proof obligation.  Core Lean only.
-/
import IvpModel.Model.Trees
import IvpModel.Gen.Rk4
import IvpModel.Gen.Rk23
import IvpModel.Gen.Dopri5
import IvpModel.Gen.Dop853

abbrev QQ := Int × Nat
def z : QQ := (0, 1)
def one_q : QQ := (1, 1)
def QQ.neg (q : QQ) : QQ := (-q.1, q.2)

structure QTableau where
  /-- strictly lower-triangular rows, row `j` (0-based) feeds stage `j+1`; stage 0 is `f(x, y)` -/
  A : List (List QQ)
  /-- weights of the propagated solution -/
  b : List QQ
  /-- nodes -/
  c : List QQ

namespace QTableau
def S (T : QTableau) : Nat := lcmAll (T.b :: T.c :: T.A)
def N (T : QTableau) : List (List Int) := T.A.map (scaleRow T.S)
def M (T : QTableau) : List Int := scaleRow T.S T.b
/-- every tree of the list satisfies the order condition exactly -/
def orderOK (T : QTableau) (ts : List BTree) : Bool := ts.all (condExact T.N T.M T.S)
def orderApproxOK (T : QTableau) (tolInv : Nat) (ts : List BTree) : Bool := ts.all (condApprox T.N T.M T.S tolInv)
/-- weights `E` (same denominator handling) annihilate every tree of the list -/
def killsOK (T : QTableau) (E : List QQ) (ts : List BTree) : Bool :=
  let S' := Nat.lcm T.S (lcmAll [E])
  ts.all (condZero (T.A.map (scaleRow S')) (scaleRow S' E))
def killsApproxOK (T : QTableau) (E : List QQ) (tolInv : Nat) (ts : List BTree) : Bool :=
  let S' := Nat.lcm T.S (lcmAll [E])
  ts.all (condZeroApprox (T.A.map (scaleRow S')) (scaleRow S' E) S' tolInv)
def someNonzero (T : QTableau) (E : List QQ) (ts : List BTree) : Bool :=
  let S' := Nat.lcm T.S (lcmAll [E])
  ts.any fun t => !(condZero (T.A.map (scaleRow S')) (scaleRow S' E) t)
def someNonzeroApprox (T : QTableau) (E : List QQ) (tolInv : Nat) (ts : List BTree) : Bool :=
  let S' := Nat.lcm T.S (lcmAll [E])
  ts.any fun t => !(condZeroApprox (T.A.map (scaleRow S')) (scaleRow S' E) S' tolInv t)
/-- row sums: `c_j · S = Σ_l N_jl` exactly -/
def rowSumOK (T : QTableau) : Bool :=
  (List.zipWith (fun (row : List Int) (cj : Int) => row.foldl (· + ·) 0 == cj) T.N (scaleRow T.S T.c)).all id
    && T.N.length == T.c.length
def rowSumApproxOK (T : QTableau) (tolInv : Nat) : Bool :=
  (List.zipWith (fun (row : List Int) (cj : Int) => decide ((row.foldl (· + ·) 0 - cj).natAbs * tolInv ≤ T.S)) T.N (scaleRow T.S T.c)).all id
    && T.N.length == T.c.length
/-- `0 ≤ c_j ≤ 1` -/
def nodesInUnit (T : QTableau) : Bool := T.c.all fun q => decide (0 ≤ q.1) && decide (q.1 ≤ (q.2 : Int))
end QTableau

open Gen in
def rk4Tab : QTableau where
  A := [[], [Rk4.A21_q], [z, Rk4.A32_q], [z, z, Rk4.A43_q]]
  b := [Rk4.B1_q, Rk4.B2_q, Rk4.B3_q, Rk4.B4_q]
  c := [z, Rk4.C2_q, Rk4.C3_q, Rk4.C4_q]

open Gen in
/-- RK23: the fourth stage is `f(x+h, y_new)` (FSAL) -/
def rk23Tab : QTableau where
  A := [[], [Rk23.A21_q], [z, Rk23.A32_q], [Rk23.B1_q, Rk23.B2_q, Rk23.B3_q]]
  b := [Rk23.B1_q, Rk23.B2_q, Rk23.B3_q, z]
  c := [z, Rk23.C2_q, Rk23.C3_q, one_q]
open Gen in
def rk23E : List QQ := [Rk23.E1_q, Rk23.E2_q, Rk23.E3_q, Rk23.E4_q]

open Gen.Dopri5 in
def dopri5Tab : QTableau where
  A := [[], [A21_q], [A31_q, A32_q], [A41_q, A42_q, A43_q], [A51_q, A52_q, A53_q, A54_q],
        [A61_q, A62_q, A63_q, A64_q, A65_q], [A71_q, z, A73_q, A74_q, A75_q, A76_q]]
  b := [A71_q, z, A73_q, A74_q, A75_q, A76_q, z]
  c := [z, C2_q, C3_q, C4_q, C5_q, one_q, one_q]
open Gen.Dopri5 in
def dopri5E : List QQ := [E1_q, z, E3_q, E4_q, E5_q, E6_q, E7_q]

open Gen.Dop853 in
def dop853Tab : QTableau where
  A := [[], [A21_q], [A31_q, A32_q], [A41_q, z, A43_q], [A51_q, z, A53_q, A54_q],
        [A61_q, z, z, A64_q, A65_q], [A71_q, z, z, A74_q, A75_q, A76_q],
        [A81_q, z, z, A84_q, A85_q, A86_q, A87_q], [A91_q, z, z, A94_q, A95_q, A96_q, A97_q, A98_q],
        [A101_q, z, z, A104_q, A105_q, A106_q, A107_q, A108_q, A109_q],
        [A111_q, z, z, A114_q, A115_q, A116_q, A117_q, A118_q, A119_q, A1110_q],
        [A121_q, z, z, A124_q, A125_q, A126_q, A127_q, A128_q, A129_q, A1210_q, A1211_q]]
  b := [B1_q, z, z, z, z, B6_q, B7_q, B8_q, B9_q, B10_q, B11_q, B12_q]
  c := [z, C2_q, C3_q, C4_q, C5_q, C6_q, C7_q, C8_q, C9_q, C10_q, C11_q, one_q]
open Gen.Dop853 in
/-- fifth-order estimator weights (`erri = Σ ER_i k_i`) -/
def dop853E5 : List QQ := [ER1_q, z, z, z, z, ER6_q, ER7_q, ER8_q, ER9_q, ER10_q, ER11_q, ER12_q]
open Gen.Dop853 in
/-- third-order estimator: `k4 − BH1·k1 − BH2·k9 − BH3·k12`, i.e. `b − b̂₃` (exact rationals, no common
    denominator needed because `killsApproxOK` rescales) -/
def dop853BH : List QQ := [BH1_q, z, z, z, z, z, z, z, BH2_q, z, z, BH3_q]
