/-
  The Butcher tableaux *as applied by the stage code*, assembled from the regenerated constants
  (`Gen/*.lean`, `NAME_q = (num, den)`).  Which constant sits in which position is proved against
  the translated stage code in `Proofs/StageEqs.lean` (theorems `*_stage_eqs`), so a stage that
  reads the wrong buffer or the wrong constant breaks a proof obligation.  Core Lean only.
-/
import IvpModel.Model.Trees
import IvpModel.Gen.Rk4
import IvpModel.Gen.Rk23
import IvpModel.Gen.Dopri5
import IvpModel.Gen.Dop853

abbrev QQ := Int × Nat
def z : QQ := (0, 1)
def one_q : QQ := (1, 1)
def QQ.neg (q : QQ) : QQ := (-q.1, q.2)

structure QTableau where
  /-- strictly lower-triangular rows, row `j` (0-based) feeds stage `j+1`; stage 0 is `f(x, y)` -/
  A : List (List QQ)
  /-- weights of the propagated solution -/
  b : List QQ
  /-- nodes -/
  c : List QQ

namespace QTableau
def S (T : QTableau) : Nat := lcmAll (T.b :: T.c :: T.A)
def N (T : QTableau) : List (List Int) := T.A.map (scaleRow T.S)
def M (T : QTableau) : List Int := scaleRow T.S T.b
/-- every tree of the list satisfies the order condition exactly -/
def orderOK (T : QTableau) (ts : List BTree) : Bool := ts.all (condExact T.N T.M T.S)
def orderApproxOK (T : QTableau) (tolInv : Nat) (ts : List BTree) : Bool := ts.all (condApprox T.N T.M T.S tolInv)
/-- weights `E` (same denominator handling) annihilate every tree of the list -/
def killsOK (T : QTableau) (E : List QQ) (ts : List BTree) : Bool :=
  let S' := Nat.lcm T.S (lcmAll [E])
  ts.all (condZero (T.A.map (scaleRow S')) (scaleRow S' E))
def killsApproxOK (T : QTableau) (E : List QQ) (tolInv : Nat) (ts : List BTree) : Bool :=
  let S' := Nat.lcm T.S (lcmAll [E])
  ts.all (condZeroApprox (T.A.map (scaleRow S')) (scaleRow S' E) S' tolInv)
def someNonzero (T : QTableau) (E : List QQ) (ts : List BTree) : Bool :=
  let S' := Nat.lcm T.S (lcmAll [E])
  ts.any fun t => !(condZero (T.A.map (scaleRow S')) (scaleRow S' E) t)
def someNonzeroApprox (T : QTableau) (E : List QQ) (tolInv : Nat) (ts : List BTree) : Bool :=
  let S' := Nat.lcm T.S (lcmAll [E])
  ts.any fun t => !(condZeroApprox (T.A.map (scaleRow S')) (scaleRow S' E) S' tolInv t)
/-- row sums: `c_j · S = Σ_l N_jl` exactly -/
def rowSumOK (T : QTableau) : Bool :=
  (List.zipWith (fun (row : List Int) (cj : Int) => row.foldl (· + ·) 0 == cj) T.N (scaleRow T.S T.c)).all id
    && T.N.length == T.c.length
def rowSumApproxOK (T : QTableau) (tolInv : Nat) : Bool :=
  (List.zipWith (fun (row : List Int) (cj : Int) => decide ((row.foldl (· + ·) 0 - cj).natAbs * tolInv ≤ T.S)) T.N (scaleRow T.S T.c)).all id
    && T.N.length == T.c.length
/-- `0 ≤ c_j ≤ 1` -/
def nodesInUnit (T : QTableau) : Bool := T.c.all fun q => decide (0 ≤ q.1) && decide (q.1 ≤ (q.2 : Int))
end QTableau

open Gen in
def rk4Tab : QTableau where
  A := [[], [Rk4.A21_q], [z, Rk4.A32_q], [z, z, Rk4.A43_q]]
  b := [Rk4.B1_q, Rk4.B2_q, Rk4.B3_q, Rk4.B4_q]
  c := [z, Rk4.C2_q, Rk4.C3_q, Rk4.C4_q]

open Gen in
/-- RK23: the fourth stage is `f(x+h, y_new)` (FSAL) -/
def rk23Tab : QTableau where
  A := [[], [Rk23.A21_q], [z, Rk23.A32_q], [Rk23.B1_q, Rk23.B2_q, Rk23.B3_q]]
  b := [Rk23.B1_q, Rk23.B2_q, Rk23.B3_q, z]
  c := [z, Rk23.C2_q, Rk23.C3_q, one_q]
open Gen in
def rk23E : List QQ := [Rk23.E1_q, Rk23.E2_q, Rk23.E3_q, Rk23.E4_q]

open Gen.Dopri5 in
def dopri5Tab : QTableau where
  A := [[], [A21_q], [A31_q, A32_q], [A41_q, A42_q, A43_q], [A51_q, A52_q, A53_q, A54_q],
        [A61_q, A62_q, A63_q, A64_q, A65_q], [A71_q, z, A73_q, A74_q, A75_q, A76_q]]
  b := [A71_q, z, A73_q, A74_q, A75_q, A76_q, z]
  c := [z, C2_q, C3_q, C4_q, C5_q, one_q, one_q]
open Gen.Dopri5 in
def dopri5E : List QQ := [E1_q, z, E3_q, E4_q, E5_q, E6_q, E7_q]

open Gen.Dop853 in
def dop853Tab : QTableau where
  A := [[], [A21_q], [A31_q, A32_q], [A41_q, z, A43_q], [A51_q, z, A53_q, A54_q],
        [A61_q, z, z, A64_q, A65_q], [A71_q, z, z, A74_q, A75_q, A76_q],
        [A81_q, z, z, A84_q, A85_q, A86_q, A87_q], [A91_q, z, z, A94_q, A95_q, A96_q, A97_q, A98_q],
        [A101_q, z, z, A104_q, A105_q, A106_q, A107_q, A108_q, A109_q],
        [A111_q, z, z, A114_q, A115_q, A116_q, A117_q, A118_q, A119_q, A1110_q],
        [A121_q, z, z, A124_q, A125_q, A126_q, A127_q, A128_q, A129_q, A1210_q, A1211_q]]
  b := [B1_q, z, z, z, z, B6_q, B7_q, B8_q, B9_q, B10_q, B11_q, B12_q]
  c := [z, C2_q, C3_q, C4_q, C5_q, C6_q, C7_q, C8_q, C9_q, C10_q, C11_q, one_q]
open Gen.Dop853 in
/-- fifth-order estimator weights (`erri = Σ ER_i k_i`) -/
def dop853E5 : List QQ := [ER1_q, z, z, z, z, ER6_q, ER7_q, ER8_q, ER9_q, ER10_q, ER11_q, ER12_q]
open Gen.Dop853 in
/-- third-order estimator: `k4 − BH1·k1 − BH2·k9 − BH3·k12`, i.e. `b − b̂₃` (exact rationals, no common
    denominator needed because `killsApproxOK` rescales) -/
def dop853BH : List QQ := [BH1_q, z, z, z, z, z, z, z, BH2_q, z, z, BH3_q]

/-! ### the same tableaux with the binary64 values the code actually multiplies by -/
open Gen.Dop853 in
def dop853TabF : QTableau where
  A := [[], [A21_f], [A31_f, A32_f], [A41_f, z, A43_f], [A51_f, z, A53_f, A54_f],
        [A61_f, z, z, A64_f, A65_f], [A71_f, z, z, A74_f, A75_f, A76_f],
        [A81_f, z, z, A84_f, A85_f, A86_f, A87_f], [A91_f, z, z, A94_f, A95_f, A96_f, A97_f, A98_f],
        [A101_f, z, z, A104_f, A105_f, A106_f, A107_f, A108_f, A109_f],
        [A111_f, z, z, A114_f, A115_f, A116_f, A117_f, A118_f, A119_f, A1110_f],
        [A121_f, z, z, A124_f, A125_f, A126_f, A127_f, A128_f, A129_f, A1210_f, A1211_f]]
  b := [B1_f, z, z, z, z, B6_f, B7_f, B8_f, B9_f, B10_f, B11_f, B12_f]
  c := [z, C2_f, C3_f, C4_f, C5_f, C6_f, C7_f, C8_f, C9_f, C10_f, C11_f, one_q]

open Gen.Dopri5 in
def dopri5TabF : QTableau where
  A := [[], [A21_f], [A31_f, A32_f], [A41_f, A42_f, A43_f], [A51_f, A52_f, A53_f, A54_f],
        [A61_f, A62_f, A63_f, A64_f, A65_f], [A71_f, z, A73_f, A74_f, A75_f, A76_f]]
  b := [A71_f, z, A73_f, A74_f, A75_f, A76_f, z]
  c := [z, C2_f, C3_f, C4_f, C5_f, one_q, one_q]

open Gen in
def rk23TabF : QTableau where
  A := [[], [Rk23.A21_f], [z, Rk23.A32_f], [Rk23.B1_f, Rk23.B2_f, Rk23.B3_f]]
  b := [Rk23.B1_f, Rk23.B2_f, Rk23.B3_f, z]
  c := [z, Rk23.C2_f, Rk23.C3_f, one_q]

open Gen in
def rk4TabF : QTableau where
  A := [[], [Rk4.A21_f], [z, Rk4.A32_f], [z, z, Rk4.A43_f]]
  b := [Rk4.B1_f, Rk4.B2_f, Rk4.B3_f, Rk4.B4_f]
  c := [z, Rk4.C2_f, Rk4.C3_f, Rk4.C4_f]
