/-
  The default finite-difference Jacobian of the `IVP` trait (src/ivp.rs, `fn jac`), over the two translated expressions
  `Gen.Ivp.fdPerturbation` and `Gen.Ivp.fdEntry`: one unperturbed evaluation, then for every column the component
  `y[col]` alone is moved by the increment and the difference quotient of every row is stored.  Core Lean only.
  Executed at `Float` next to the trait's default body (X-fdjac: every entry must agree bit for bit), reasoned about over
  ordered fields in Proofs/FdJacLemmas.lean.
-/
import IvpModel.Num
import IvpModel.Gen.Ivp

namespace FdJac
variable {α : Type} [Num α]

/-- `y` with component `c` moved by `p` -/
def perturbed (y : Nat → α) (c : Nat) (p : α) : Nat → α := fun i => if i = c then y c + p else y i

/-- entry (r, c) of the default Jacobian of `f` at `y` with relative increment `eps` -/
def entry (f : (Nat → α) → Nat → α) (eps : α) (y : Nat → α) (r c : Nat) : α :=
  let p := Gen.Ivp.fdPerturbation eps (y c)
  Gen.Ivp.fdEntry (f (perturbed y c p) r) (f y r) p

/-- the n × n matrix, row-major -/
def matrix (n : Nat) (f : (Nat → α) → Nat → α) (eps : α) (y : Nat → α) : Array α :=
  Array.ofFn (n := n * n) fun idx => entry f eps y (idx.val / n) (idx.val % n)

end FdJac
