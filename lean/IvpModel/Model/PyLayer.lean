/-
  Model of the Python binding's own logic (src/python/solve.rs `build_result`, solution.rs `evaluate_array`,
  sparsity.rs `from_python` / `group_columns` / `sparse_jacobian_fd`).  Core Lean only.

  The binding adds no numerics: it re-lays the Rust `Solution` out as SciPy does and, for a Jacobian sparsity
  pattern, groups columns for simultaneous finite differences.  Both are index logic, modelled here for every shape
  and pattern; executed beside the real extension module (X-py: the harness dumps the Rust `Solution`, this model
  lays it out, a Python script prints what `ivp.solve_ivp` actually returned for the same problem) and reasoned about
  in Proofs/PyLemmas.lean.
-/

namespace Py

/-- `crate::status::Status` -/
inductive Status where
  | success | userInterrupt | needLargerNMax | stepSizeTooSmall | probablyStiff | singularMatrix | poorConvergence
deriving DecidableEq, Repr

def Status.name : Status → String
  | .success => "Success" | .userInterrupt => "UserInterrupt" | .needLargerNMax => "NeedLargerNMax"
  | .stepSizeTooSmall => "StepSizeTooSmall" | .probablyStiff => "ProbablyStiff" | .singularMatrix => "SingularMatrix"
  | .poorConvergence => "PoorConvergence"

def Status.all : List Status :=
  [.success, .userInterrupt, .needLargerNMax, .stepSizeTooSmall, .probablyStiff, .singularMatrix, .poorConvergence]

def Status.ofName (s : String) : Option Status := Status.all.find? (fun st => st.name == s)

/-- "Convert status" of `build_result` -/
def statusInt : Status → Int
  | .success => 0
  | .userInterrupt => 1
  | _ => -1

def successFlag (st : Status) : Bool := decide (statusInt st ≥ 0)

/-- `Status::is_success` of the Rust API -/
def rustIsSuccess : Status → Bool
  | .success | .userInterrupt => true
  | _ => false

variable {α : Type}

/-- (time, state) rows to a flat row-major (state, time) buffer: entry `j * nSteps + i` is `y[i][j]`.
    Returns `(nStates, nSteps, flat)`; `nStates` is the length of `y0`, as in the code. -/
def transposeY [Inhabited α] (nStates : Nat) (ys : Array (Array α)) : Nat × Nat × Array α :=
  let nSteps := ys.size
  (nStates, nSteps, Array.ofFn (n := nStates * nSteps) fun idx => (ys[idx.val % nSteps]!)[idx.val / nSteps]!)

/-- `evaluate_array`: flat (point, state) values to flat row-major (state, point) -/
def transposeFlat [Inhabited α] (flat : Array α) (nPoints nStates : Nat) : Array α :=
  Array.ofFn (n := nPoints * nStates) fun idx => flat[(idx.val % nPoints) * nStates + idx.val / nPoints]!

/-- one entry of `y_events`: an empty Python list, or a row-major (k, n) array -/
inductive YEv (α : Type) where
  /-- an event that never fired: `np.empty((0,))`, as SciPy's `np.asarray([])` (a Python list before the repair) -/
  | emptyArr
  | arr (k n : Nat) (flat : Array α)

def yEvent (ye : Array (Array α)) : YEv α :=
  if ye.isEmpty then .emptyArr
  else .arr ye.size (ye[0]!).size (ye.foldl (· ++ ·) #[])

/-- the fields of `OdeResult` that `build_result` computes -/
structure OdeResult (α : Type) where
  t : Array α
  yShape : Nat × Nat
  y : Array α
  tEvents : Option (Array (Array α))
  yEvents : Option (Array (YEv α))
  nfev : Nat
  njev : Nat
  nlu : Nat
  status : Int
  message : String
  success : Bool
  hasSol : Bool

structure Solution (α : Type) where
  t : Array α
  y : Array (Array α)
  tEvents : Array (Array α)
  yEvents : Array (Array (Array α))
  nfev : Nat
  njev : Nat
  nlu : Nat
  status : Status
  dense : Bool

def buildResult [Inhabited α] (n : Nat) (s : Solution α) (hasEvents constJac : Bool) : OdeResult α :=
  let tr := transposeY n s.y
  { t := s.t, yShape := (tr.1, tr.2.1), y := tr.2.2,
    tEvents := if hasEvents then some s.tEvents else none,
    yEvents := if hasEvents then some (s.yEvents.map yEvent) else none,
    nfev := s.nfev, njev := if constJac then 0 else s.njev, nlu := s.nlu,
    status := statusInt s.status, message := s.status.name, success := successFlag s.status, hasSol := s.dense }

/-! ### sparsity -/

/-- `from_python`: column `c` of a CSC matrix holds `indices[indptr[c] .. indptr[c+1]]` -/
def colToRows (n : Nat) (indptr indices : Array Nat) : List (List Nat) :=
  (List.range n).map fun c => (indices.extract (indptr.getD c 0) (indptr.getD (c + 1) 0)).toList

/-- "none of its rows are already used by another column in that group" -/
def canUse (used : List Nat) (rows : List Nat) : Bool := rows.all fun r => !used.contains r

/-- greedy first fit: state is (rows used per group, group of each column so far) -/
def assign (st : List (List Nat) × List Nat) (rows : List Nat) : List (List Nat) × List Nat :=
  match st.1.findIdx? (canUse · rows) with
  | some g => (st.1.modify g (· ++ rows), st.2 ++ [g])
  | none => (st.1 ++ [rows], st.2 ++ [st.1.length])

/-- `group_columns(col_to_rows, n)`: `(groups, n_groups)`; `none` stands for the index panic on a row ≥ n -/
def groupColumns (cols : List (List Nat)) (n : Nat) : Option (List Nat × Nat) :=
  if cols.all (fun rows => rows.all (· < n)) then
    let st := cols.foldl assign ([], [])
    some (st.2, st.1.length)
  else none

/-- `columns_in_group` -/
def columnsInGroup (groups : List Nat) (g : Nat) : List Nat :=
  (List.range groups.length).filter fun c => groups.getD c 0 == g

/-- the state perturbed in all columns of `G` at once: `y[c] + h c` for `c ∈ G` -/
def perturb [Add α] (y : Nat → α) (G : List Nat) (h : Nat → α) : Nat → α :=
  fun c => if c ∈ G then y c + h c else y c

/-- `sparse_jacobian_fd`: entry (row, col) written for `row ∈ rows(col)`, from the group's single evaluation -/
def sparseEntry [Add α] [Sub α] [Div α] (f : (Nat → α) → Nat → α) (y : Nat → α) (h : Nat → α) (groups : List Nat)
    (row col : Nat) : α :=
  (f (perturb y (columnsInGroup groups (groups.getD col 0)) h) row - f y row) / h col

/-- the dense finite-difference entry (`jac_fd`, one column at a time) -/
def denseEntry [Add α] [Sub α] [Div α] (f : (Nat → α) → Nat → α) (y : Nat → α) (h : Nat → α) (row col : Nat) : α :=
  (f (perturb y [col] h) row - f y row) / h col

end Py
