/-
  Rooted trees (Butcher), order, density, elementary weights of a Runge–Kutta tableau,
  all as kernel-evaluable functions over `Nat`/`Int`.  Core Lean only.

  A rooted plane tree is encoded through the Butcher product: `graft c r` is the tree `r` with
  one more child subtree `c` attached to the root (as its first child); `leaf` is the single
  vertex.  Every tree of order > 1 is `graft c r` for a unique first child `c`.
-/

inductive BTree where
  | leaf : BTree
  | graft (c r : BTree) : BTree
deriving DecidableEq, Repr

namespace BTree

/-- number of vertices -/
def order : BTree → Nat
  | leaf => 1
  | graft c r => c.order + r.order

/-- product of the densities of the root's child subtrees -/
def gammaP : BTree → Nat
  | leaf => 1
  | graft c r => (c.order * c.gammaP) * r.gammaP

/-- density γ(t) = |t| · Π γ(children) -/
def gamma (t : BTree) : Nat := t.order * t.gammaP

theorem order_pos (t : BTree) : 0 < t.order := by
  induction t with
  | leaf => simp [order]
  | graft c r ihc ihr => simp [order]; omega

/-- `treeTable n = [trees of order 1, …, trees of order n]` -/
def mkTrees (tbl : List (List BTree)) (n : Nat) : List BTree :=
  (List.range n).flatMap fun k =>
    (tbl.getD k []).flatMap fun c => (tbl.getD (n - 1 - k) []).map fun r => graft c r

def treeTable : Nat → List (List BTree)
  | 0 => []
  | n + 1 => treeTable n ++ [if n = 0 then [leaf] else mkTrees (treeTable n) n]

/-- all trees of order ≤ p (proved complete in `Proofs/TreesLemmas.lean`) -/
def treesUpTo (p : Nat) : List BTree := (treeTable p).flatten

end BTree

/-! ### integer-scaled elementary weights

A tableau with rational entries `a_ij = N_ij / S`, `b_i = M_i / S` (common denominator `S`) is
given by integer tables.  `phiZ N t` is the vector `S^(|t|-1) · Φ_i(t)` — an integer vector — so
every order condition is an integer identity the kernel can evaluate quickly. -/

def idot (u v : List Int) : Int := (List.zipWith (· * ·) u v).foldl (· + ·) 0

def matVecZ (N : List (List Int)) (v : List Int) : List Int := N.map fun row => idot row v

def phiZ (N : List (List Int)) : BTree → List Int
  | .leaf => N.map fun _ => 1
  | .graft c r => List.zipWith (· * ·) (matVecZ N (phiZ N c)) (phiZ N r)

/-- `γ(t) · Σ M_i Z_i(t)`; the order condition `Φ(t) = 1/γ(t)` reads `lhsZ = S^|t|`. -/
def lhsZ (N : List (List Int)) (M : List Int) (t : BTree) : Int :=
  (t.gamma : Int) * idot M (phiZ N t)

/-- exact order condition for one tree -/
def condExact (N : List (List Int)) (M : List Int) (S : Nat) (t : BTree) : Bool :=
  lhsZ N M t == (S : Int) ^ t.order

/-- weights annihilate the tree (embedded error estimators: Σ e_i Φ_i(t) = 0) -/
def condZero (N : List (List Int)) (E : List Int) (t : BTree) : Bool :=
  idot E (phiZ N t) == 0

/-- order condition up to `|Φ(t) − 1/γ(t)| ≤ 1/tolInv` -/
def condApprox (N : List (List Int)) (M : List Int) (S : Nat) (tolInv : Nat) (t : BTree) : Bool :=
  let d := lhsZ N M t - (S : Int) ^ t.order
  decide (d.natAbs * tolInv ≤ t.gamma * S ^ t.order)

/-- `|Σ e_i Φ_i(t)| ≤ 1/tolInv` -/
def condZeroApprox (N : List (List Int)) (E : List Int) (S : Nat) (tolInv : Nat) (t : BTree) : Bool :=
  decide ((idot E (phiZ N t)).natAbs * tolInv ≤ S ^ t.order)

/-- scale a list of rationals `(num, den)` to numerators over the common denominator `S` -/
def scaleRow (S : Nat) (row : List (Int × Nat)) : List Int :=
  row.map fun q => q.1 * ((S / q.2 : Nat) : Int)

def lcmAll (rows : List (List (Int × Nat))) : Nat :=
  rows.foldl (fun acc row => row.foldl (fun a q => Nat.lcm a q.2) acc) 1
