/-
  The numeric kernels of DOPRI5 and DOP853 assembled from the translated regions (`Gen/Dopri5.lean`,
  `Gen/Dop853.lean`), and the controller pieces as `HParams`.  Core Lean only.
-/
import IvpModel.Model.Hairer
import IvpModel.Gen.Common
import IvpModel.Gen.Dopri5
import IvpModel.Gen.Dop853

namespace Ctl
variable {α : Type} [Num α] {n : Nat}

/-! ### DOPRI5 -/

structure D5S (α : Type) (n : Nat) where
  y1 : Vec α n
  k2 : Vec α n
  k3 : Vec α n
  k4 : Vec α n
  k5 : Vec α n
  k6 : Vec α n
  /-- `k4` after "K4 scaled for error estimate" -/
  ek4 : Vec α n
  /-- the stage-6 state, kept for the stiffness detection -/
  ysti : Vec α n

def dopri5Kernel (atol rtol : Vec α n) : HKernel α n where
  S := D5S α n
  SA := D5S α n
  trial f x h last xend y k1 :=
    let o := Gen.Dopri5.stages (f := f) (y := y) (h := h) (k1 := k1) (x := x) (last := last) (xend := xend)
    let e := Gen.Dopri5.errk4 (k1 := k1) (k3 := o.k3) (k4 := o.k4) (k5 := o.k5) (k6 := o.k6) (k2 := o.k2) (h := h)
    (⟨o.y1, o.k2, o.k3, o.k4, o.k5, o.k6, e.k4, o.ysti⟩, o.calls, 6)
  err S y _h := finiteGuard S.y1 (Gen.Dopri5.errnorm (atol := atol) (rtol := rtol) (y := y) (y1 := S.y1) (k4 := S.ek4))
  acceptA _ S _ _ _ _ := (S, #[], 0)
  hlamb S h _ _ old :=
    (Gen.Dopri5.stiff (k2 := S.k2) (k6 := S.k6) (y1 := S.y1) (ysti := S.ysti) (h := h) (hlamb := old)).hlamb
  acceptB _ dense S _ h y k1 :=
    let cont : Array (Vec α n) :=
      if dense then
        let d := Gen.Dopri5.dense (y1 := S.y1) (y := y) (h := h) (k1 := k1) (k2 := S.k2)
        let d4 := Gen.Dopri5.dense4 (h := h) (k1 := k1) (k3 := S.k3) (k4 := S.k4) (k5 := S.k5) (k6 := S.k6) (k2 := S.k2)
        #[d.cont0, d.cont1, d.cont2, d.cont3, d4.cont4]
      else #[]
    (S.y1, S.k2, cont, #[], 0)
  interp cont xold h xi :=
    Gen.Dopri5.interpolate (xi := xi) (xold := xold) (h := h) (cont0 := cont[0]!) (cont1 := cont[1]!) (cont2 := cont[2]!)
      (cont3 := cont[3]!) (cont4 := cont[4]!)

/-! ### DOP853 -/

structure D8S (α : Type) (n : Nat) where
  k1 : Vec α n
  o : Gen.Dop853.StagesOut α n
  /-- `k4 = Σ b_i k_i`, `k5 = y + h k4` -/
  c : Gen.Dop853.CombineOut α n

structure D8SA (α : Type) (n : Nat) where
  s : D8S α n
  /-- `k4 := f(xph, k5)` -/
  k4 : Vec α n

def dop853Kernel (atol rtol : Vec α n) : HKernel α n where
  S := D8S α n
  SA := D8SA α n
  trial f x h last xend y k1 :=
    let o := Gen.Dop853.stages (f := f) (y := y) (h := h) (k1 := k1) (x := x) (last := last) (xend := xend)
    let c := Gen.Dop853.combine (k1 := k1) (k6 := o.k6) (k7 := o.k7) (k8 := o.k8) (k9 := o.k9) (k10 := o.k10) (k2 := o.k2)
      (k3 := o.k3) (y := y) (h := h) (k4 := o.k4)
    (⟨k1, o, c⟩, o.calls, 11)
  err S y h :=
    finiteGuard S.c.k5 (Gen.Dop853.errnorm (atol := atol) (rtol := rtol) (y := y) (k5 := S.c.k5) (k4 := S.c.k4) (k1 := S.k1) (k9 := S.o.k9)
      (k3 := S.o.k3) (k6 := S.o.k6) (k7 := S.o.k7) (k8 := S.o.k8) (k10 := S.o.k10) (k2 := S.o.k2) (h := h))
  acceptA f S x h _ _ :=
    let r := Gen.Dop853.fsal (f := f) (xph := S.o.xph) (k5 := S.c.k5)
    (⟨S, r.k4⟩, r.calls, 1)
  hlamb SA h _ _ old :=
    (Gen.Dop853.stiff (k4 := SA.k4) (k3 := SA.s.o.k3) (k5 := SA.s.c.k5) (y1 := SA.s.o.y1) (h := h) (hlamb := old)).hlamb
  acceptB f dense SA x h y k1 :=
    let o := SA.s.o
    let k5 := SA.s.c.k5
    if dense then
      let d := Gen.Dop853.dense1 (y := y) (k5 := k5) (h := h) (k1 := k1) (k4 := SA.k4) (k6 := o.k6) (k7 := o.k7) (k8 := o.k8)
        (k9 := o.k9) (k10 := o.k10) (k2 := o.k2) (k3 := o.k3)
      let e := Gen.Dop853.extraStages (f := f) (y := y) (h := h) (k1 := k1) (k7 := o.k7) (k8 := o.k8) (k9 := o.k9) (k10 := o.k10)
        (k2 := o.k2) (k3 := o.k3) (k4 := SA.k4) (x := x) (k6 := o.k6)
      let d2 := Gen.Dop853.dense2 (h := h) (cont4 := d.cont4) (k4 := SA.k4) (k10 := e.k10) (k2 := e.k2) (k3 := e.k3)
        (cont5 := d.cont5) (cont6 := d.cont6) (cont7 := d.cont7)
      (k5, SA.k4, #[d.cont0, d.cont1, d.cont2, d.cont3, d2.cont4, d2.cont5, d2.cont6, d2.cont7], e.calls, 3)
    else (k5, SA.k4, #[], #[], 0)
  interp cont xold h xi :=
    Gen.Dop853.interpolate (xi := xi) (xold := xold) (h := h) (cont0 := cont[0]!) (cont1 := cont[1]!) (cont2 := cont[2]!)
      (cont3 := cont[3]!) (cont4 := cont[4]!) (cont5 := cont[5]!) (cont6 := cont[6]!) (cont7 := cont[7]!)

/-! ### controller parameters -/

/-- literals used by the skeleton that are not inside a translated region -/
structure HLits (α : Type) where
  one : α
  quarter : α
  half : α
  threeq : α
  stiffLimit : α

def dopri5Params (L : HLits α) (xend posneg uround safety scaleMin scaleMax beta hmax : α) (nmax nstiff : Nat) (dense : Bool) :
    HParams α n :=
  let facc1 := L.one / scaleMin
  let facc2 := L.one / scaleMax
  let expo1 : α := Gen.Dopri5.expo1 beta
  { xend := xend, posneg := posneg, uround := uround, safety := safety, facc1 := facc1, facc2 := facc2, beta := beta,
    expo1 := expo1, hmax := hmax, nmax := nmax, nstiff := nstiff, dense := dense, stiffLimit := L.stiffLimit,
    one := L.one, quarter := L.quarter, half := L.half, threeq := L.threeq,
    underflow := fun h x u => Gen.Dopri5.underflowGuard h x u, underflowDec := fun _ _ _ => inferInstance,
    lastG := fun x h e p => Gen.Dopri5.lastGuard x h e p, lastDec := fun _ _ _ _ => inferInstance,
    hnewCalc := fun err facold h =>
      let r := Gen.Dopri5.hnewCalc (n := n) (err := err) (expo1 := expo1) (facold := facold) (beta := beta) (facc2 := facc2)
        (facc1 := facc1) (safety_factor := safety) (h := h)
      (r.fac11, r.hnew),
    hReject := fun h fac11 => Gen.Dopri5.hReject (h := h) (facc1 := facc1) (fac11 := fac11) (safety_factor := safety),
    facoldNew := fun err => Gen.Dopri5.facoldNew err }

def dop853Params (L : HLits α) (xend posneg uround safety scaleMin scaleMax beta hmax : α) (nmax nstiff : Nat) (dense : Bool) :
    HParams α n :=
  let facc1 := L.one / scaleMin
  let facc2 := L.one / scaleMax
  let expo1 : α := Gen.Dop853.expo1 beta
  { xend := xend, posneg := posneg, uround := uround, safety := safety, facc1 := facc1, facc2 := facc2, beta := beta,
    expo1 := expo1, hmax := hmax, nmax := nmax, nstiff := nstiff, dense := dense, stiffLimit := L.stiffLimit,
    one := L.one, quarter := L.quarter, half := L.half, threeq := L.threeq,
    underflow := fun h x u => Gen.Dop853.underflowGuard h x u, underflowDec := fun _ _ _ => inferInstance,
    lastG := fun x h e p => Gen.Dop853.lastGuard x h e p, lastDec := fun _ _ _ _ => inferInstance,
    hnewCalc := fun err facold h =>
      let r := Gen.Dop853.hnewCalc (n := n) (err := err) (expo1 := expo1) (facold := facold) (beta := beta) (facc2 := facc2)
        (facc1 := facc1) (safety_factor := safety) (h := h)
      (r.fac11, r.hnew),
    hReject := fun h fac11 => Gen.Dop853.hReject (h := h) (facc1 := facc1) (fac11 := fac11) (safety_factor := safety),
    facoldNew := fun err => Gen.Dop853.facoldNew err }

/-- `hinit(f, x, &y, posneg, &k1, …, iord, hmax.min(|xend − x|), &atol, &rtol)` -/
def hinitCall (atol rtol : Vec α n) (x0 : α) (y0 : Vec α n) (posneg hmaxArg : α) (iord : Nat) :
    Rhs α n → Vec α n → α × Array (α × Vec α n) :=
  fun f k1 => Gen.Common.hinit (f := f) (atol := atol) (rtol := rtol) (y := y0) (f0 := k1) (hmax := hmaxArg) (posneg := posneg)
    (x := x0) (iord := iord)

end Ctl
