/-
  Control skeleton shared by DOPRI5 and DOP853 (Hairer's step-size control with Lund stabilisation, stiffness
  detection, last-step landing), parametric in the numeric kernel.  Mirrors `solve()` of dopri5.rs / dop853.rs
  statement by statement; the literals that differ between the two files are fields of `HParams`.
  The loop body is cut into small named phases so that each invariant is proved phase by phase.
-/
import IvpModel.Model.Ctl

namespace Ctl

variable {α : Type} [Num α] {n : Nat}

/-- numeric kernel of one attempted step -/
structure HKernel (α : Type) (n : Nat) where
  /-- data of one trial (stage vectors, candidate state) -/
  S : Type
  /-- data after the post-acceptance evaluations that precede the stiffness test (DOP853: FSAL call) -/
  SA : Type
  /-- the stages: calls made (time, argument) and the literal added to `evals.ode`; `last`, `xend`: the landing step
      evaluates its last stage at `xend` itself -/
  trial : Rhs α n → (x h : α) → (last : Bool) → (xend : α) → (y k1 : Vec α n) → S × Array (α × Vec α n) × Nat
  err : S → (y : Vec α n) → (h : α) → α
  acceptA : Rhs α n → S → (x h : α) → (y k1 : Vec α n) → SA × Array (α × Vec α n) × Nat
  /-- new `hlamb` of the stiffness test -/
  hlamb : SA → (h : α) → (y k1 : Vec α n) → (old : α) → α
  /-- dense output and state update: new y, new k1, cont blocks, calls, literal -/
  acceptB : Rhs α n → (dense : Bool) → SA → (x h : α) → (y k1 : Vec α n) →
            Vec α n × Vec α n × Array (Vec α n) × Array (α × Vec α n) × Nat
  /-- the interpolation function of the method -/
  interp : Array (Vec α n) → (xold h : α) → α → Vec α n

structure HParams (α : Type) (n : Nat) where
  xend : α
  posneg : α
  uround : α
  safety : α
  facc1 : α
  facc2 : α
  beta : α
  expo1 : α
  hmax : α
  nmax : Nat
  nstiff : Nat
  dense : Bool
  /-- 3.25 (DOPRI5) / 6.1 (DOP853) -/
  stiffLimit : α
  one : α
  quarter : α
  half : α
  threeq : α
  /-- guards and controller pieces (translated expressions) -/
  underflow : α → α → α → Prop     -- underflowGuard h x uround
  underflowDec : ∀ h x u, Decidable (underflow h x u)
  lastG : α → α → α → α → Prop      -- lastGuard x h xend posneg
  lastDec : ∀ x h e p, Decidable (lastG x h e p)
  /-- (fac11, hnew) from err, facold, h -/
  hnewCalc : (err facold h : α) → α × α
  hReject : (h fac11 : α) → α
  facoldNew : α → α

structure HState (σ α : Type) (n : Nat) where
  x : α
  h : α
  y : Vec α n
  k1 : Vec α n
  facold : α
  last : Bool := false
  reject : Bool := false
  nonstiff : Nat := 0
  iasti : Nat := 0
  hlamb : α
  m : Meter α n := {}
  obs : σ

def HState.result {σ : Type} (s : HState σ α n) (st : Status) : Result σ α n :=
  { status := st, h := s.h, x := s.x, y := s.y, m := s.m, obs := s.obs }

instance (P : HParams α n) (h x u : α) : Decidable (P.underflow h x u) := P.underflowDec h x u
instance (P : HParams α n) (x h e p : α) : Decidable (P.lastG x h e p) := P.lastDec x h e p

/-- loop head: step budget, step-size underflow -/
def hGuard {σ : Type} (P : HParams α n) (s : HState σ α n) : Option Status :=
  if s.m.cnt.total > P.nmax then some .needLargerNMax
  else if P.underflow s.h s.x P.uround then some .stepSizeTooSmall
  else none

/-- "Adjust last step to land on xend" -/
def hAdjust {σ : Type} (P : HParams α n) (s : HState σ α n) : α × Bool :=
  if P.lastG s.x s.h P.xend P.posneg then (P.xend - s.x, true) else (s.h, s.last)

structure HTrial (α : Type) (n : Nat) (S : Type) where
  S : S
  m : Meter α n
  err : α
  fac11 : α
  hnew : α

/-- `steps.total += 1`, the stages, the error norm, "Computation of hnew" -/
def hTrial {σ : Type} (P : HParams α n) (Kn : HKernel α n) (f : Rhs α n) (s : HState σ α n) (h : α) (last : Bool) :
    HTrial α n Kn.S :=
  let r := Kn.trial (fun j => f (s.m.ncalls + j)) s.x h last P.xend s.y s.k1
  let err := Kn.err r.1 s.y h
  let c := P.hnewCalc err s.facold h
  { S := r.1, m := s.m.incTotal.bump r.2.1 r.2.2, err := err, fac11 := c.1, hnew := c.2 }

/-- "Step rejected" -/
def hRejected {σ : Type} (P : HParams α n) (s : HState σ α n) (h : α) (m : Meter α n) (fac11 : α) : HState σ α n :=
  { s with h := P.hReject h fac11, reject := true, last := false,
           m := if m.cnt.accepted > 1 then m.incRejected else m }

/-- stiffness bookkeeping: (nonstiff, iasti, stop) -/
def hStiff (hlamb limit : α) (nonstiff iasti : Nat) : Nat × Nat × Bool :=
  if hlamb > limit then (0, iasti + 1, decide (iasti + 1 = 15))
  else (nonstiff + 1, (if nonstiff + 1 = 6 then 0 else iasti), false)

/-- limits on the next step after an accepted, non-final step -/
def hNextStep (P : HParams α n) (hnew h : α) (reject : Bool) : α :=
  let hnew := if Num.abs hnew > Num.abs P.hmax then P.posneg * Num.abs P.hmax else hnew
  if reject then P.posneg * Num.fmin (Num.abs hnew) (Num.abs h) else hnew

/-- `v.iter().any(|c| !c.is_finite())` negated: `c − c` is NaN exactly for the non-finite values of `f64` -/
def vecFinite (v : Vec α n) : Bool := v.toArray.all fun c => !(Num.isNaN (c - c))

/-- `if ynew.iter().any(|v| !v.is_finite()) { err = Float::INFINITY }` (RK23, DOPRI5): a candidate state that is not
    finite is never accepted; `1.0 / 0.0` is `f64::INFINITY` -/
def finiteGuard (ynew : Vec α n) (err : α) : α := if vecFinite ynew then err else Num.one / Num.zero

/-- the time a step ends at: `xph = if last { xend } else { x + h }` -/
def landX (last : Bool) (xend x h : α) : α := if last then xend else x + h

/-- second half of "Step accepted": dense output, state update, callback, exit test, limits on the next step -/
def hFinish {σ : Type} (P : HParams α n) (Kn : HKernel α n) (f : Rhs α n) (ob : Obs σ α n) (s : HState σ α n)
    (h : α) (last : Bool) (hnew facold hlamb : α) (nonstiff iasti : Nat) (sa : Kn.SA) (m : Meter α n) :
    Sum (HState σ α n) (Result σ α n) :=
  let b := Kn.acceptB (fun j => f (m.ncalls + j)) P.dense sa s.x h s.y s.k1
  let ip : Option (α → Vec α n) := if P.dense then some (Kn.interp b.2.2.1 s.x h) else none
  let xn := landX last P.xend s.x h
  let m := (m.bump b.2.2.2.1 b.2.2.2.2).cb s.x xn b.1 (sampleInterp ip s.x xn P.quarter P.half P.threeq)
  match afterCb f ob s.obs m s.x xn b.1 ip b.2.1 with
  | .stop obs y => .inr { status := .userInterrupt, h := h, x := xn, y := y, m := m, obs := obs }
  | .go obs y k1 m =>
    if last then .inr { status := .success, h := hnew, x := xn, y := y, m := m, obs := obs }
    else
      .inl { x := xn, h := hNextStep P hnew h s.reject, y := y, k1 := k1, facold := facold, last := last, reject := false,
             nonstiff := nonstiff, iasti := iasti, hlamb := hlamb, m := m, obs := obs }

/-- stiffness test of an accepted step: new `hlamb` and `(nonstiff, iasti, stop)` -/
def hStiffTest {σ : Type} (P : HParams α n) (Kn : HKernel α n) (s : HState σ α n) (h : α) (sa : Kn.SA) (accepted : Nat) :
    α × Nat × Nat × Bool :=
  if decide (accepted % P.nstiff = 0) || decide (s.iasti > 0) then
    let hlamb := Kn.hlamb sa h s.y s.k1 s.hlamb
    (hlamb, hStiff hlamb P.stiffLimit s.nonstiff s.iasti)
  else (s.hlamb, s.nonstiff, s.iasti, false)

/-- "Step accepted" -/
def hAccepted {σ : Type} (P : HParams α n) (Kn : HKernel α n) (f : Rhs α n) (ob : Obs σ α n) (s : HState σ α n)
    (h : α) (last : Bool) (T : HTrial α n Kn.S) : Sum (HState σ α n) (Result σ α n) :=
  let a := Kn.acceptA (fun j => f (T.m.incAccepted.ncalls + j)) T.S s.x h s.y s.k1
  let m := T.m.incAccepted.bump a.2.1 a.2.2
  let st := hStiffTest P Kn s h a.1 m.cnt.accepted
  if st.2.2.2 then .inr { status := .probablyStiff, h := h, x := s.x, y := s.y, m := m.decAccepted, obs := s.obs }
  else hFinish P Kn f ob s h last T.hnew (P.facoldNew T.err) st.1 st.2.1 st.2.2.1 a.1 m

/-- one pass of `loop { … }` -/
def hIter {σ : Type} (P : HParams α n) (Kn : HKernel α n) (f : Rhs α n) (ob : Obs σ α n) (s : HState σ α n) :
    Sum (HState σ α n) (Result σ α n) :=
  match hGuard P s with
  | some st => .inr (s.result st)
  | none =>
    let a := hAdjust P s
    let T := hTrial P Kn f s a.1 a.2
    if T.err ≤ P.one then hAccepted P Kn f ob s a.1 a.2 T
    else .inl (hRejected P s a.1 T.m T.fac11)

/-- the main loop, with fuel (the real loop has none; termination is C04) -/
def hLoop {σ : Type} (P : HParams α n) (Kn : HKernel α n) (f : Rhs α n) (ob : Obs σ α n) :
    Nat → HState σ α n → Option (Result σ α n)
  | 0, _ => none
  | fuel + 1, s => match hIter P Kn f ob s with
    | .inr r => some r
    | .inl s' => hLoop P Kn f ob fuel s'

/-- initial meter: first derivative, then either the given first step (limited to `hcap` = hmax: `h0.abs().min(h_max) * posneg`)
    or the `hinit` probe -/
def startMeter (f : Rhs α n) (x0 : α) (y0 : Vec α n) (posneg hcap : α) (firstStep : Option α)
    (hinit : Rhs α n → Vec α n → α × Array (α × Vec α n)) : α × Vec α n × Meter α n :=
  let k1 := f 0 x0 y0
  let m : Meter α n := ({} : Meter α n).bump #[(x0, y0)] 1
  match firstStep with
  | some h0 => (Num.fmin (Num.abs h0) hcap * posneg, k1, m)
  | none =>
    let r := hinit (fun j => f (1 + j)) k1
    (r.1, k1, m.bump r.2 1)

/-- initialisation: first derivative, initial step (given or `hinit`), initial callback -/
def hStart {σ : Type} (P : HParams α n) (f : Rhs α n) (ob : Obs σ α n) (obs0 : σ) (x0 : α) (y0 : Vec α n)
    (firstStep : Option α) (hinit : Rhs α n → Vec α n → α × Array (α × Vec α n)) (facold0 hlamb0 : α) :
    Sum (HState σ α n) (Result σ α n) :=
  let i := startMeter f x0 y0 P.posneg P.hmax firstStep hinit
  let m := i.2.2.cb x0 x0 y0 #[]
  match afterCb f ob obs0 m x0 x0 y0 none i.2.1 with
  | .stop obs y => .inr { status := .userInterrupt, h := i.1, x := x0, y := y, m := m, obs := obs }
  | .go obs y k1 m => .inl { x := x0, h := i.1, y := y, k1 := k1, facold := facold0, hlamb := hlamb0, m := m, obs := obs }

def hSolve {σ : Type} (P : HParams α n) (Kn : HKernel α n) (f : Rhs α n) (ob : Obs σ α n) (obs0 : σ) (x0 : α) (y0 : Vec α n)
    (firstStep : Option α) (hinit : Rhs α n → Vec α n → α × Array (α × Vec α n)) (facold0 hlamb0 : α) (fuel : Nat) :
    Option (Result σ α n) :=
  match hStart P f ob obs0 x0 y0 firstStep hinit facold0 hlamb0 with
  | .inr r => some r
  | .inl s => hLoop P Kn f ob fuel s

end Ctl
