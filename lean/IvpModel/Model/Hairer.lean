/-
  Control skeleton shared by DOPRI5 and DOP853 (Hairer's step-size control with Lund stabilisation, stiffness
  detection, last-step landing), parametric in the numeric kernel.  Mirrors `solve()` of dopri5.rs / dop853.rs
  statement by statement; the literals that differ between the two files are fields of `HParams`.
-/
import IvpModel.Model.Ctl

namespace Ctl

variable {α : Type} [Num α] {n : Nat}

/-- numeric kernel of one attempted step -/
structure HKernel (α : Type) (n : Nat) where
  /-- data of one trial (stage vectors, candidate state) -/
  S : Type
  /-- data after the post-acceptance evaluations that precede the stiffness test (DOP853: FSAL call) -/
  SA : Type
  /-- the stages: calls made (time, argument) and the literal added to `evals.ode` -/
  trial : Rhs α n → (x h : α) → (y k1 : Vec α n) → S × Array (α × Vec α n) × Nat
  /-- error norm `err` and `fac11 = err^expo1` inputs are derived by the skeleton; this is `err` -/
  err : S → (y : Vec α n) → (h : α) → α
  acceptA : Rhs α n → S → (x h : α) → (y k1 : Vec α n) → SA × Array (α × Vec α n) × Nat
  /-- new `hlamb` of the stiffness test -/
  hlamb : SA → (h : α) → (y k1 : Vec α n) → (old : α) → α
  /-- dense output and state update: new y, new k1, cont blocks, calls, literal -/
  acceptB : Rhs α n → (dense : Bool) → SA → (x h : α) → (y k1 : Vec α n) →
            Vec α n × Vec α n × Array (Vec α n) × Array (α × Vec α n) × Nat
  /-- the interpolation function of the method -/
  interp : Array (Vec α n) → (xold h : α) → α → Vec α n

structure HParams (α : Type) (n : Nat) where
  xend : α
  posneg : α
  uround : α
  safety : α
  facc1 : α
  facc2 : α
  beta : α
  expo1 : α
  hmax : α
  nmax : Nat
  nstiff : Nat
  dense : Bool
  /-- 3.25 (DOPRI5) / 6.1 (DOP853) -/
  stiffLimit : α
  /-- literals shared by both files -/
  one : α
  facoldMin : α     -- 1.0e-4
  quarter : α
  half : α
  threeq : α
  /-- guards and controller pieces (translated expressions) -/
  underflow : α → α → α → Prop     -- underflowGuard h x uround
  underflowDec : ∀ h x u, Decidable (underflow h x u)
  lastG : α → α → α → α → Prop      -- lastGuard x h xend posneg
  lastDec : ∀ x h e p, Decidable (lastG x h e p)
  /-- (fac11, hnew) from err, facold, h -/
  hnewCalc : (err facold h : α) → α × α
  hReject : (h fac11 : α) → α
  facoldNew : α → α

structure HState (σ α : Type) (n : Nat) where
  x : α
  h : α
  y : Vec α n
  k1 : Vec α n
  facold : α
  last : Bool := false
  reject : Bool := false
  nonstiff : Nat := 0
  iasti : Nat := 0
  hlamb : α
  cnt : Counters := {}
  ncalls : Nat := 0
  obs : σ
  log : Array (Ev α n) := #[]

def HState.result {σ : Type} (s : HState σ α n) (st : Status) : Result σ α n :=
  { status := st, h := s.h, x := s.x, y := s.y, cnt := s.cnt, ncalls := s.ncalls, obs := s.obs, log := s.log }

instance (P : HParams α n) (h x u : α) : Decidable (P.underflow h x u) := P.underflowDec h x u
instance (P : HParams α n) (x h e p : α) : Decidable (P.lastG x h e p) := P.lastDec x h e p

/-- one pass of `loop { … }` -/
def hIter {σ : Type} (P : HParams α n) (Kn : HKernel α n) (f : Rhs α n) (ob : Obs σ α n) (s : HState σ α n) :
    Sum (HState σ α n) (Result σ α n) :=
  -- Check for maximum number of steps
  if s.cnt.total > P.nmax then .inr (s.result .needLargerNMax)
  -- Check for underflow due to machine rounding
  else if P.underflow s.h s.x P.uround then .inr (s.result .stepSizeTooSmall)
  else
    -- Adjust last step to land on xend
    let (h, last) := if P.lastG s.x s.h P.xend P.posneg then (P.xend - s.x, true) else (s.h, s.last)
    let cnt := { s.cnt with total := s.cnt.total + 1 }
    -- the stages
    let fT : Rhs α n := fun j => f (s.ncalls + j)
    let (S, calls, lit) := Kn.trial fT s.x h s.y s.k1
    let log := logCalls s.log s.ncalls calls
    let ncalls := s.ncalls + calls.size
    let cnt := { cnt with ode := cnt.ode + lit }
    let err := Kn.err S s.y h
    let (fac11, hnew) := P.hnewCalc err s.facold h
    if err ≤ P.one then
      -- Step accepted
      let facold := P.facoldNew err
      let cnt := { cnt with accepted := cnt.accepted + 1 }
      let fA : Rhs α n := fun j => f (ncalls + j)
      let (SA, callsA, litA) := Kn.acceptA fA S s.x h s.y s.k1
      let log := logCalls log ncalls callsA
      let ncalls := ncalls + callsA.size
      let cnt := { cnt with ode := cnt.ode + litA }
      -- Stiffness detection
      let doStiff := decide (cnt.accepted % P.nstiff = 0) || decide (s.iasti > 0)
      let hlamb := if doStiff then Kn.hlamb SA h s.y s.k1 s.hlamb else s.hlamb
      let (nonstiff, iasti, stiffStop) :=
        if doStiff then
          if hlamb > P.stiffLimit then (0, s.iasti + 1, decide (s.iasti + 1 = 15))
          else (s.nonstiff + 1, (if s.nonstiff + 1 = 6 then 0 else s.iasti), false)
        else (s.nonstiff, s.iasti, false)
      if stiffStop then
        .inr { status := .probablyStiff, h := h, x := s.x, y := s.y, cnt := cnt, ncalls := ncalls, obs := s.obs, log := log }
      else
        -- dense output, state update
        let fB : Rhs α n := fun j => f (ncalls + j)
        let (ynew, k1new, cont, callsB, litB) := Kn.acceptB fB P.dense SA s.x h s.y s.k1
        let log := logCalls log ncalls callsB
        let ncalls := ncalls + callsB.size
        let cnt := { cnt with ode := cnt.ode + litB }
        let xold := s.x
        let x := s.x + h
        let ip : Option (α → Vec α n) := if P.dense then some (Kn.interp cont xold h) else none
        let log := log.push (Ev.cb xold x ynew (sampleInterp ip xold x P.quarter P.half P.threeq))
        let (obs, flag, ycb) := ob s.obs xold x ynew ip
        match flag with
        | .interrupt =>
          .inr { status := .userInterrupt, h := h, x := x, y := ycb, cnt := cnt, ncalls := ncalls, obs := obs, log := log }
        | _ =>
          -- ModifiedSolution: recompute k1 at the new (x, y)
          let (k1', log, ncalls, cnt) :=
            if flag = .modified then
              (f ncalls x ycb, log.push (Ev.ode ncalls x ycb), ncalls + 1, { cnt with ode := cnt.ode + 1 })
            else (k1new, log, ncalls, cnt)
          if last then
            .inr { status := .success, h := hnew, x := x, y := ycb, cnt := cnt, ncalls := ncalls, obs := obs, log := log }
          else
            -- Check for step size limits
            let hnew := if Num.abs hnew > Num.abs P.hmax then P.posneg * Num.abs P.hmax else hnew
            -- Prevent oscillations due to previous rejected step
            let hnew := if s.reject then P.posneg * Num.fmin (Num.abs hnew) (Num.abs h) else hnew
            .inl { x := x, h := hnew, y := ycb, k1 := k1', facold := facold, last := last, reject := false,
                   nonstiff := nonstiff, iasti := iasti, hlamb := hlamb, cnt := cnt, ncalls := ncalls, obs := obs, log := log }
    else
      -- Step rejected
      let hnew := P.hReject h fac11
      let cnt := if cnt.accepted > 1 then { cnt with rejected := cnt.rejected + 1 } else cnt
      .inl { s with h := hnew, reject := true, last := false, cnt := cnt, ncalls := ncalls, log := log }

/-- the main loop, with fuel (the real loop has none; termination is C04) -/
def hLoop {σ : Type} (P : HParams α n) (Kn : HKernel α n) (f : Rhs α n) (ob : Obs σ α n) :
    Nat → HState σ α n → Option (Result σ α n)
  | 0, _ => none
  | fuel + 1, s => match hIter P Kn f ob s with
    | .inr r => some r
    | .inl s' => hLoop P Kn f ob fuel s'

/-- initialisation: first derivative, initial step (given or `hinit`), initial callback -/
def hStart {σ : Type} (P : HParams α n) (f : Rhs α n) (ob : Obs σ α n) (obs0 : σ) (x0 : α) (y0 : Vec α n)
    (firstStep : Option α) (hinit : Rhs α n → Vec α n → α × Array (α × Vec α n)) (facold0 hlamb0 : α) :
    Sum (HState σ α n) (Result σ α n) :=
  let k1 := f 0 x0 y0
  let log : Array (Ev α n) := #[Ev.ode 0 x0 y0]
  let cnt : Counters := { ode := 1 }
  let (h, log, ncalls, cnt) :=
    match firstStep with
    | some h0 => (Num.abs h0 * P.posneg, log, 1, cnt)
    | none =>
      let r := hinit (fun j => f (1 + j)) k1
      (r.1, logCalls log 1 r.2, 1 + r.2.size, { cnt with ode := cnt.ode + 1 })
  -- Initial SolOut call
  let log := log.push (Ev.cb x0 x0 y0 #[])
  let (obs, flag, ycb) := ob obs0 x0 x0 y0 none
  match flag with
  | .interrupt =>
    .inr { status := .userInterrupt, h := h, x := x0, y := ycb, cnt := cnt, ncalls := ncalls, obs := obs, log := log }
  | _ =>
    let (k1, log, ncalls, cnt) :=
      if flag = .modified then (f ncalls x0 ycb, log.push (Ev.ode ncalls x0 ycb), ncalls + 1, { cnt with ode := cnt.ode + 1 })
      else (k1, log, ncalls, cnt)
    .inl { x := x0, h := h, y := ycb, k1 := k1, facold := facold0, hlamb := hlamb0, cnt := cnt, ncalls := ncalls, obs := obs, log := log }

def hSolve {σ : Type} (P : HParams α n) (Kn : HKernel α n) (f : Rhs α n) (ob : Obs σ α n) (obs0 : σ) (x0 : α) (y0 : Vec α n)
    (firstStep : Option α) (hinit : Rhs α n → Vec α n → α × Array (α × Vec α n)) (facold0 hlamb0 : α) (fuel : Nat) :
    Option (Result σ α n) :=
  match hStart P f ob obs0 x0 y0 firstStep hinit facold0 hlamb0 with
  | .inr r => some r
  | .inl s => hLoop P Kn f ob fuel s

end Ctl
