/-
  Model of the piecewise dense output `ContinuousOutput` (src/solve/cont.rs) and of the range test and error mapping of
  `Solution::sol` / `sol_many` / `sol_span` (src/solve/solution.rs).  Core Lean only.

  Every comparison and literal comes from `Gen/Cont.lean`, regenerated from the source on every run; the list traversal
  ("first segment that contains t wins", "empty → None") is checked structurally by the translator.  A segment is
  `(id, xold, h)`: `id` is its position in the list handed to `from_segments` (the coefficient vector of a segment is the
  solver's; which segment evaluates a query is what the lookup decides).  Tied to the code by the stream X-cont.
-/
import IvpModel.Num
import IvpModel.Gen.Cont

namespace ContM
open Gen.Cont

structure Seg (α : Type) where
  id : Nat
  xold : α
  h : α

variable {α : Type} [Num α]

/-- `from_segments`: zero-length steps are dropped -/
def fromSegments (raw : List (Seg α)) : List (Seg α) :=
  raw.filter fun s => decide (keepSeg s.h)

/-- `constant`: the single segment of the zero-interval / empty-state shortcut -/
def constant (x0 : α) : List (Seg α) := [⟨0, x0, constH⟩]

/-- `t_span` -/
def tSpan (segs : List (Seg α)) : Option (α × α) :=
  match segs.head?, segs.getLast? with
  | some f, some l => some (f.xold, spanEnd l.xold l.h)
  | _, _ => none

/-- the membership test of one segment -/
def hit (t : α) (s : Seg α) : Bool :=
  decide (inSeg t (segLeft s.xold s.h) (segRight s.xold s.h) (segTol (tol (segLeft s.xold s.h)) (tol (segRight s.xold s.h))))

/-- exact containment in the closed interval of one segment -/
def hitExact (t : α) (s : Seg α) : Bool :=
  decide (inSegExact t (segLeft s.xold s.h) (segRight s.xold s.h))

/-- `find_segment`: the first segment whose closed interval contains `t`; failing that, the first one that contains
    it within the slack -/
def findSeg (segs : List (Seg α)) (t : α) : Option (Seg α) :=
  match segs.find? (hitExact t) with
  | some s => some s
  | none => segs.find? (hit t)

/-- `find_segment_extrapolate` -/
def findExtrap (segs : List (Seg α)) (t : α) : Option (Seg α) :=
  match findSeg segs t with
  | some s => some s
  | none =>
    match segs.head?, segs.getLast? with
    | some f, some l =>
      if beforeFirst t (segLeft f.xold f.h) then some f
      else if afterLast t (segRight l.xold l.h) then some l
      else none
    | _, _ => none

inductive Res where
  | ok (id : Nat)
  | outOfRange
  | notEnabled
deriving DecidableEq, Repr

/-- `Solution::sol` (the value returned is the interpolant of segment `id` at `t`) -/
def sol (cs : Option (List (Seg α))) (t : α) : Res :=
  match cs with
  | none => .notEnabled
  | some segs =>
    match tSpan segs with
    | none => .notEnabled
    | some (start, e) =>
      if outside t (spanLo start e) (spanHi start e) (segTol (tol (spanLo start e)) (tol (spanHi start e))) then .outOfRange
      else match findSeg segs t with
        | some s => .ok s.id
        | none => .outOfRange

inductive ManyRes where
  | ok (ids : List Nat)
  | outOfRange
  | notEnabled
  /-- not an outcome of the code any more (it was `opt.unwrap()` on a point inside the range test that no segment contains;
      such a point is OutOfRange now); kept so that the driver's vocabulary is unchanged -/
  | panic
deriving DecidableEq, Repr

/-- `Solution::sol_many` -/
def solMany (cs : Option (List (Seg α))) (ts : List α) : ManyRes :=
  match cs with
  | none => .notEnabled
  | some segs =>
    match tSpan segs with
    | none => .notEnabled
    | some (start, e) =>
      if ts.any (fun t => decide (outside t (spanLo start e) (spanHi start e) (segTol (tol (spanLo start e)) (tol (spanHi start e))))) then .outOfRange
      else match ts.mapM (fun t => (findSeg segs t).map (·.id)) with
        | some ids => .ok ids
        | none => .outOfRange

/-- `Solution::sol_span` -/
def solSpan (cs : Option (List (Seg α))) : Option (α × α) :=
  match cs with
  | none => none
  | some segs => tSpan segs

end ContM
