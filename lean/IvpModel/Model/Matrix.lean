/-
  Model of `ivp::matrix::Matrix` (base.rs, index.rs, add.rs, sub.rs, mul.rs).  Core Lean only.

  `Option` models panics: `none` = the Rust code panics (failed assertion, out-of-bounds `Vec` access,
  write outside the band / into an Identity matrix).  Flat storage and the index maps are as in the code:
  Full: `data[i*m + j]`;  Banded{ml,mu}: `data[(i-j+mu)*m + j]` inside the band, constant 0 outside;
  Identity: `data = [1, 0]`.
  Loops that fill a freshly zeroed buffer are written in closed form (`flat`), see DESIGN.md (tied by the
  exhaustive X-matrix co-simulation).
-/
import IvpModel.Num

inductive Storage where
  | identity
  | full
  | banded (ml mu : Nat)
deriving DecidableEq, Repr

structure Mat (α : Type) where
  n : Nat
  m : Nat
  data : Array α
  storage : Storage

namespace Mat
variable {α : Type} [Num α]

/-- row-major buffer of `rows × cols` entries `g r c` -/
def flat (rows cols : Nat) (g : Nat → Nat → α) : Array α :=
  Array.ofFn (n := rows * cols) fun idx => g (idx.val / cols) (idx.val % cols)

/-- in-band test for entry (i,j): `-mu ≤ i-j ≤ ml` -/
@[reducible] def inBand (ml mu i j : Nat) : Prop := j ≤ i + mu ∧ i ≤ j + ml

/-- `self[(i,j)]` (index.rs `Index`) -/
def get (A : Mat α) (i j : Nat) : Option α :=
  if i < A.n ∧ j < A.m then
    match A.storage with
    | .identity => if i = j then A.data[0]? else A.data[1]?
    | .full => A.data[i * A.m + j]?
    | .banded ml mu => if inBand ml mu i j then A.data[(i + mu - j) * A.m + j]? else some Num.zero
  else none

/-- `self[(i,j)] = v` (index.rs `IndexMut`) -/
def set (A : Mat α) (i j : Nat) (v : α) : Option (Mat α) :=
  if i < A.n ∧ j < A.m then
    match A.storage with
    | .identity => none
    | .full => if i * A.m + j < A.data.size then some { A with data := A.data.setIfInBounds (i * A.m + j) v } else none
    | .banded ml mu =>
        if inBand ml mu i j then
          if (i + mu - j) * A.m + j < A.data.size then
            some { A with data := A.data.setIfInBounds ((i + mu - j) * A.m + j) v } else none
        else none
  else none

/-! ### constructors (base.rs) -/
def identity (n : Nat) : Mat α := ⟨n, n, #[Num.one, Num.zero], .identity⟩
def fromVec (n m : Nat) (data : Array α) : Option (Mat α) :=
  if data.size = n * m then some ⟨n, m, data, .full⟩ else none
def fromStorage (n m : Nat) (s : Storage) : Mat α :=
  match s with
  | .identity => ⟨n, m, #[Num.one, Num.zero], .identity⟩
  | .full => ⟨n, m, Array.replicate (n * m) Num.zero, .full⟩
  | .banded ml mu => ⟨n, m, Array.replicate ((ml + mu + 1) * n) Num.zero, .banded ml mu⟩
def full (n m : Nat) : Mat α := ⟨n, m, Array.replicate (n * m) Num.zero, .full⟩
def zeros (n m : Nat) : Mat α := ⟨n, m, Array.replicate (n * m) Num.zero, .full⟩
/-- `Matrix::square(n)` — `square_len n` is the length of the freshly allocated buffer
    (`Vec::with_capacity(n*n)` has length 0; `vec![0.0; n*n]` has length n*n). -/
def square (n : Nat) (bufLen : Nat) : Mat α := ⟨n, n, Array.replicate bufLen Num.zero, .full⟩
def banded (n ml mu : Nat) : Mat α := ⟨n, n, Array.replicate ((ml + mu + 1) * n) Num.zero, .banded ml mu⟩
def diagonal (diag : Array α) : Mat α := ⟨diag.size, diag.size, diag, .banded 0 0⟩
def lowerTriangular (n : Nat) : Mat α := banded n (n - 1) 0
def upperTriangular (n : Nat) : Mat α := banded n 0 (n - 1)

/-- body of the default `IVP::mass` (src/ivp.rs): writes the unit diagonal, `k` entries done so far -/
def defaultMassLoop (A : Mat α) : Nat → Option (Mat α)
  | 0 => some A
  | k + 1 => match defaultMassLoop A k with
    | some B => B.set k k Num.one
    | none => none

/-- the default `IVP::mass`: `Identity` storage is left alone (it cannot be written), any other storage gets the
    unit diagonal -/
def defaultMass (A : Mat α) : Option (Mat α) :=
  match A.storage with
  | .identity => some A
  | _ => defaultMassLoop A (min A.n A.m)

/-- `is_identity` -/
def isIdentity (A : Mat α) : Option Bool :=
  match A.storage with
  | .identity => some true
  | _ =>
    (List.range A.n).foldl (fun acc i =>
      (List.range A.m).foldl (fun acc j =>
        match acc with
        | none => none
        | some false => some false
        | some true =>
          match A.get i j with
          | none => none
          | some v => if i = j then some (Num.eqb v Num.one) else some (Num.eqb v Num.zero)) acc) (some true)

/-! ### densification helper of add.rs / sub.rs (`to_full`) -/

/-- entry (i,j) read from banded data with column count `n` (no bounds assertion; `none` = Vec panic) -/
def bandEntry (data : Array α) (n ml mu i j : Nat) : Option α :=
  if inBand ml mu i j then data[(i + mu - j) * n + j]? else some Num.zero

def toFullEntry (n : Nat) (data : Array α) (s : Storage) (i j : Nat) : Option α :=
  match s with
  | .full => data[i * n + j]?
  | .identity => some (if i = j then Num.one else Num.zero)
  | .banded ml mu =>
      -- `d[i*n+j] += data[..]` on a zeroed buffer, only for stored (in-band) entries
      if inBand ml mu i j then (data[(i + mu - j) * n + j]?).map (fun v => Num.zero + v) else some Num.zero

/-- a `rows × n` buffer filled from `g`; `none` if any read panics -/
def collectRows (rows n : Nat) (g : Nat → Nat → Option α) : Option (Array α) :=
  if (List.range (rows * n)).all (fun idx => (g (idx / n) (idx % n)).isSome) then
    some (flat rows n fun r c => (g r c).getD Num.zero)
  else none

def collect (n : Nat) (g : Nat → Nat → Option α) : Option (Array α) := collectRows n n g

/-- `to_full`: Full data is passed through unchanged (whatever its length) -/
def toFull (n : Nat) (data : Array α) (s : Storage) : Option (Array α) :=
  match s with
  | .full => some data
  | _ => collect n (toFullEntry n data s)

/-- cell (ro, j) of the widened band of Banded ± Banded: `out[(k+muo)*n + j] = (0 + a[(k+mu)*n + j]) op b[(k+mu2)*n + j]`
    with k = ro − muo, over the stored rows whose i = j + k lies in 0..n -/
def bandedCell (isAdd : Bool) (a b : Array α) (n ml mu ml2 mu2 : Nat) (ro j : Nat) : Option α :=
  let muo := max mu mu2
  if muo ≤ j + ro ∧ j + ro < n + muo then
    let i := j + ro - muo
    let va : Option α := if inBand ml mu i j then a[(i + mu - j) * n + j]? else some Num.zero
    let vb : Option α := if inBand ml2 mu2 i j then b[(i + mu2 - j) * n + j]? else some Num.zero
    match va, vb with
    | some x, some y => some (if isAdd then (Num.zero + x) + y else (Num.zero + x) - y)
    | _, _ => none
  else some Num.zero

/-- Matrix ± Matrix; `op` is `+` or `-`, `idid` the diagonal value of Identity∘Identity (1+1 or: zeros) -/
def addSub (isAdd : Bool) (A B : Mat α) : Option (Mat α) :=
  let op : α → α → α := fun x y => if isAdd then x + y else x - y
  -- add.rs asserts self.n == rhs.n up front; sub.rs asserts in every arm
  if A.n ≠ B.n then none else
  let n := A.n
  match A.storage, B.storage with
  | .identity, .identity =>
      some ⟨n, n, flat n n (fun i j => if i = j then (if isAdd then Num.one + Num.one else Num.zero) else Num.zero), .full⟩
  | .full, .full =>
      -- add.rs collects a zip (truncates to the shorter buffer); sub.rs updates `a` in place over the zip
      if isAdd then some ⟨n, n, Array.zipWith op A.data B.data, .full⟩
      else some ⟨n, n, A.data.mapIdx (fun i a => match B.data[i]? with | some b => a - b | none => a), .full⟩
  | .banded ml mu, .banded ml2 mu2 =>
      let mlo := max ml ml2
      let muo := max mu mu2
      match collectRows (mlo + muo + 1) n (bandedCell isAdd A.data B.data n ml mu ml2 mu2) with
      | some d => some ⟨n, n, d, .banded mlo muo⟩
      | none => none
  | sa, sb =>
      match toFull n A.data sa, toFull n B.data sb with
      | some aa, some bb => some ⟨n, n, Array.zipWith op aa bb, .full⟩
      | _, _ => none

def add (A B : Mat α) : Option (Mat α) := addSub true A B
def sub (A B : Mat α) : Option (Mat α) := addSub false A B

/-- `component_add` / `component_sub` (scalar) -/
def componentAddSub (isAdd : Bool) (A : Mat α) (c : α) : Option (Mat α) :=
  let op : α → α → α := fun x y => if isAdd then x + y else x - y
  let n := A.n
  match A.storage with
  | .identity =>
      some ⟨n, n, flat n n (fun i j => if i = j then (if isAdd then c + Num.one else Num.one - c)
                                        else (if isAdd then c else Num.zero - c)), .full⟩
  | .full => some { A with data := A.data.map (fun v => op v c) }
  | .banded ml mu =>
      if Num.eqb c Num.zero then some A
      else
        match collect n (fun i j =>
          if inBand ml mu i j then (A.data[(i + mu - j) * n + j]?).map (fun v => op v c)
          else some (if isAdd then c else Num.zero - c)) with
        | some d => some ⟨n, n, d, .full⟩
        | none => none

/-- `component_mul` (by value) -/
def componentMul (A : Mat α) (c : α) : Mat α :=
  match A.storage with
  | .identity => diagonal (Array.replicate A.n c)
  | .full => { A with data := A.data.map (· * c) }
  | .banded ml mu => ⟨A.n, A.n, A.data.map (· * c), .banded ml mu⟩

/-- `component_mul_mut` -/
def componentMulMut (A : Mat α) (c : α) : Mat α :=
  match A.storage with
  | .identity => { A with data := Array.replicate A.n c, storage := .banded 0 0 }
  | _ => { A with data := A.data.map (· * c) }

/-- `Matrix::fill(value)`: afterwards every entry of the matrix is `value`.  Full storage keeps its buffer; a banded matrix
    can hold a constant only if it is zero; Identity (and Banded with a non-zero constant) switch to Full storage. -/
def fill (A : Mat α) (v : α) : Mat α :=
  match A.storage with
  | .full => { A with data := A.data.map fun _ => v }
  | .banded ml mu => if Num.eqb v Num.zero then { A with data := A.data.map fun _ => Num.zero }
                     else ⟨A.n, A.m, Array.replicate (A.n * A.m) v, .full⟩
  | .identity => ⟨A.n, A.m, Array.replicate (A.n * A.m) v, .full⟩

end Mat
