/-
  Model of `DefaultSolOut::solout` (src/solve/solout.rs): dense-segment collection, event detection with Brent
  refinement on the step interpolant, chronological processing with terminal events, `t_eval` sampling (mode 1)
  and solver-selected output with first-step enforcement (mode 2).  Core Lean only; executed at `Float` next to
  the real handler (X-solout), reasoned about over ordered fields.

  The statement order of the Rust function is kept (dense collection → events → yold update → output sampling):
  the early returns (terminal event; first-step enforcement) skip exactly what they skip in the code.
-/
import IvpModel.Num

namespace SolOutM

inductive Dir where
  | all | positive | negative
deriving DecidableEq, Repr

inductive Flag where
  | cont | interrupt
deriving DecidableEq, Repr

structure EvCfg where
  dir : Dir
  terminalCount : Option Nat

/-- the per-step interpolant handed to the callback: its own `(xold, h)` and the evaluation function -/
structure Interp (α : Type) where
  xold : α
  h : α
  eval : α → Array α

structure St (α : Type) where
  tEval : Option (Array α)
  nextIdx : Nat := 0
  tol : α
  t : Array α := #[]
  y : Array (Array α) := #[]
  tEvents : Array (Array α)
  yEvents : Array (Array (Array α))
  collectDense : Bool
  /-- collected segments `(xold, h)` (the coefficient vectors are the solver's and not looked at here) -/
  denseSegs : Array (α × α) := #[]
  yold : Array α := #[]
  cfg : Array EvCfg
  prevEvent : Array α
  eventHits : Array Nat
  firstStep : Option α
  x0 : α
  firstOutputDone : Bool := false
  /-- every `(t, y)` at which the event functions were evaluated (observation only; not in the Rust struct) -/
  evalLog : Array α := #[]

variable {α : Type} [Num α]

/-- literals of solout.rs (the translator cross-checks them against the source text, see `Gen/Static.lean`) -/
structure Lits (α : Type) where
  tol : α        -- 1e-12
  xtol : α       -- 2e-12
  rtol : α       -- EPSILON
  half : α       -- 0.5
  two : α
  three : α
  one : α
  zero : α
  maxIter : Nat  -- 100

def init (L : Lits α) (cfg : Array EvCfg) (tEval : Option (Array α)) (collectDense : Bool)
    (firstStep : Option α) (x0 : α) : St α :=
  { tEval := tEval, tol := L.tol, tEvents := cfg.map fun _ => #[], yEvents := cfg.map fun _ => #[],
    collectDense := collectDense, cfg := cfg, prevEvent := cfg.map fun _ => L.zero,
    eventHits := cfg.map fun _ => 0, firstStep := firstStep, x0 := x0 }

/-- `crossed(left, right, dir)` -/
def crossed (L : Lits α) (left right : α) : Dir → Bool
  | .all => (decide (left ≤ L.zero) && decide (right ≥ L.zero)) || (decide (left ≥ L.zero) && decide (right ≤ L.zero))
  | .positive => decide (left < L.zero) && decide (right ≥ L.zero)
  | .negative => decide (left > L.zero) && decide (right ≤ L.zero)

structure Brent (α : Type) where
  a : α
  b : α
  c : α
  fa : α
  fb : α
  fc : α
  d : α
  e : α
  log : Array α

/-- one pass of the `for _ in 0..MAXITER` body; the Boolean is `false` on `break` (the re-bracketing and the swap
    that precede the convergence test are kept, as in the code) -/
def brentStep (L : Lits α) (g : α → α) (s : Brent α) : Brent α × Bool :=
  -- if (fb > 0 && fc > 0) || (fb < 0 && fc < 0) { c = a; fc = fa; d = b - a; e = d }   (same strict sign; the product
  -- `fb * fc` of the first version underflowed for tiny event values)
  let s := if (s.fb > L.zero ∧ s.fc > L.zero) ∨ (s.fb < L.zero ∧ s.fc < L.zero) then { s with c := s.a, fc := s.fa, d := s.b - s.a, e := s.b - s.a } else s
  -- if |fc| < |fb| { a = b; b = c; c = a; fa = fb; fb = fc; fc = fa }
  let s := if Num.abs s.fc < Num.abs s.fb then
      { s with a := s.b, b := s.c, c := s.b, fa := s.fb, fb := s.fc, fc := s.fb } else s
  let tol1 := L.two * L.rtol * Num.abs s.b + L.half * L.xtol
  let xm := L.half * (s.c - s.b)
  if Num.abs xm ≤ tol1 ∨ Num.eqb s.fb L.zero = true then (s, false)
  else
    let (d, e) :=
      if Num.abs s.e ≥ tol1 ∧ Num.abs s.fa > Num.abs s.fb then
        let (p, q) :=
          if Num.eqb s.a s.c = true then
            let sv := s.fb / s.fa
            (L.two * xm * sv, L.one - sv)
          else
            let qv := s.fa / s.fc
            let r := s.fb / s.fc
            let sv := s.fb / s.fa
            (sv * (L.two * xm * qv * (qv - r) - (s.b - s.a) * (r - L.one)), (qv - L.one) * (r - L.one) * (sv - L.one))
        let (p, q) := if p > L.zero then (p, -q) else (-p, q)
        if L.two * p < Num.fmin (L.three * xm * q - Num.abs (tol1 * q)) (Num.abs (s.e * q)) then (p / q, s.d)
        else (xm, xm)
      else (xm, xm)
    let a := s.b
    let fa := s.fb
    let b := if Num.abs d > tol1 then s.b + d else s.b + (if xm > L.zero then tol1 else -tol1)
    let fb := g b
    ({ s with a := a, fa := fa, b := b, fb := fb, d := d, e := e, log := s.log.push b }, true)

def brentLoop (L : Lits α) (g : α → α) : Nat → Brent α → Brent α
  | 0, s => s
  | k + 1, s => match brentStep L g s with
    | (s', false) => s'
    | (s', true) => brentLoop L g k s'

/-- refined event location in `[xold, x]` for one event function: `(t_e, y_e, evaluation times)` -/
def locate (L : Lits α) (ip : Interp α) (gi : α → Array α → α) (xold x : α) (yold y : Array α) (gPrev gCurr : α) :
    α × Array α × Array α :=
  if Num.eqb gPrev L.zero then (xold, yold, #[])
  else if Num.eqb gCurr L.zero then (x, y, #[])
  else
    let s0 : Brent α := { a := xold, b := x, c := xold, fa := gPrev, fb := gCurr, fc := gPrev, d := x - xold, e := x - xold, log := #[] }
    let s := brentLoop L (fun t => gi t (ip.eval t)) L.maxIter s0
    (s.b, ip.eval s.b, s.log)

/-- stable insertion into a list sorted by time (ascending when `fwd`, else descending); `none` = NaN comparison
    (`partial_cmp().unwrap()` panics) -/
def insertEv (fwd : Bool) (e : α × Nat × Array α) : List (α × Nat × Array α) → Option (List (α × Nat × Array α))
  | [] => some [e]
  | x :: xs =>
    if Num.isNaN e.1 || Num.isNaN x.1 then none
    else
      -- stable: `e` (later in the original order) goes after elements that compare equal
      let before := if fwd then decide (e.1 < x.1) else decide (x.1 < e.1)
      if before then some (e :: x :: xs)
      else match insertEv fwd e xs with
        | some r => some (x :: r)
        | none => none

def sortEvs (fwd : Bool) (es : List (α × Nat × Array α)) : Option (List (α × Nat × Array α)) :=
  es.foldl (fun acc e => match acc with | none => none | some l => insertEv fwd e l) (some [])

/-- requested output times of this step that are not beyond the terminal event at `te` (solout.rs, terminal branch) -/
def dueBeforeEvent (fwd : Bool) (xold te : α) (ip : Interp α) (tev : Array α) : Nat → St α → St α
  | 0, s => s
  | f + 1, s =>
    if h : s.nextIdx < tev.size then
      let t := tev[s.nextIdx]
      let due := if fwd then decide (t ≤ te) else decide (t ≥ te)
      if due then
        let inStep := if fwd then decide (t ≥ xold - s.tol) else decide (t ≤ xold + s.tol)
        if inStep then
          dueBeforeEvent fwd xold te ip tev f { s with t := s.t.push t, y := s.y.push (ip.eval t), nextIdx := s.nextIdx + 1 }
        else dueBeforeEvent fwd xold te ip tev f { s with nextIdx := s.nextIdx + 1 }
      else s
    else s

/-- record one located event: time, state, hit count -/
def recordEv (s : St α) (te : α) (i : Nat) (ye : Array α) : St α :=
  { s with tEvents := s.tEvents.modify i (·.push te), yEvents := s.yEvents.modify i (·.push ye),
           eventHits := s.eventHits.modify i (· + 1) }

/-- has event function `i` reached its terminal occurrence count? -/
def fires (s : St α) (i : Nat) : Bool :=
  match (s.cfg.getD i ⟨.all, none⟩).terminalCount with
  | some limit => decide (s.eventHits.getD i 0 ≥ limit)
  | none => false

/-- requested times already reported (with the previous step, up to the tolerance beyond its end) that lie beyond the
    terminal event are taken back: `while let Some(&last) = self.t.last() { … pop … next_idx -= 1 }` -/
def popBeyond (fwd : Bool) (te : α) : Nat → St α → St α
  | 0, s => s
  | f + 1, s =>
    match s.t.back? with
    | some last =>
      let beyond := if fwd then decide (last > te) else decide (last < te)
      if beyond ∧ s.nextIdx ≠ 0 then popBeyond fwd te f { s with t := s.t.pop, y := s.y.pop, nextIdx := s.nextIdx - 1 }
      else s
    | none => s

/-- the `t_eval` samples still due when a terminal event at `te` ends the step (and the pending first output) -/
def terminalSamples (fwd : Bool) (xold x te : α) (ip : Option (Interp α)) (s : St α) : St α :=
  match s.tEval, ip with
  | some tev, some ipv => dueBeforeEvent fwd xold te ipv tev (tev.size + 1) (popBeyond fwd te (s.t.size + 1) s)
  | some _, none => popBeyond fwd te (s.t.size + 1) s
  | none, some ipv =>
    -- without t_eval, a pending first output x0 ± |first_step| that lies before the event is still due
    match s.firstStep with
    | some h0 =>
      if ¬ s.firstOutputDone then
        let direction := Num.signum (x - xold)
        let target := s.x0 + direction * Num.abs h0
        if direction * (te - target) > Num.zero ∧ direction * (target - xold) ≥ Num.zero then
          { s with t := s.t.push target, y := s.y.push (ipv.eval target), firstOutputDone := true }
        else s
      else s
    | none => s
  | _, _ => s

def pushSample (s : St α) (t : α) (y : Array α) : St α := { s with t := s.t.push t, y := s.y.push y }

/-- the terminal event point becomes the final sample unless it already is the last sample -/
def pushTerminal (s : St α) (t : α) (y : Array α) : St α :=
  match s.t.back? with
  | some last => if Num.eqb last t = true then s else pushSample s t y
  | none => pushSample s t y

/-- process the sorted events; returns the state and whether a terminal event fired -/
def processEvs (fwd : Bool) (xold x : α) (ip : Option (Interp α)) (s : St α) : List (α × Nat × Array α) → St α × Bool
  | [] => (s, false)
  | (te, i, ye) :: rest =>
    if fires (recordEv s te i ye) i then
      (pushTerminal (terminalSamples fwd xold x te ip (recordEv s te i ye)) te ye, true)
    else processEvs fwd xold x ip (recordEv s te i ye) rest

/-! ### Mode 1 (`t_eval`) sampling.  The two `while` loops of the code scan `t_eval` from `next_idx` while the entry is
    inside the upper window of the step and push those inside the lower window; written here as
    `takeWhile` / `filter` over the remaining entries (same order, same tests). -/

/-- entries consumed by the initial callback: `while i < len && |t_eval[i] − x| ≤ tol` -/
def takeInitial (tol x : α) (te : Array α) (idx : Nat) : List α :=
  -- `t_eval[i] == *x`: only requested times equal to x0 carry the initial state (any other one, however close, is sampled
  -- through the interpolant of the step that contains it)
  let _ := tol
  (te.toList.drop idx).takeWhile fun t => Num.eqb t x

def sampleInitial (s : St α) (te : Array α) (x : α) (y : Array α) : St α :=
  let taken := takeInitial s.tol x te s.nextIdx
  { s with t := s.t ++ taken.toArray, y := s.y ++ (taken.map fun _ => y).toArray, nextIdx := s.nextIdx + taken.length }

def inUpper (fwd : Bool) (tol x t : α) : Bool := if fwd then decide (t ≤ x + tol) else decide (t ≥ x - tol)
def inLower (fwd : Bool) (tol xold t : α) : Bool := if fwd then decide (t ≥ xold - tol) else decide (t ≤ xold + tol)

/-- entries consumed by a regular step: `while i < len && t_eval[i]` inside the upper window -/
def takeStep (fwd : Bool) (tol x : α) (te : Array α) (idx : Nat) : List α :=
  (te.toList.drop idx).takeWhile (inUpper fwd tol x)

/-- regular accepted step; `none` = `interpolant.unwrap()` panics -/
def sampleStep (s : St α) (te : Array α) (fwd : Bool) (xold x : α) (ip : Option (Interp α)) : Option (St α) :=
  let taken := takeStep fwd s.tol x te s.nextIdx
  let kept := taken.filter (inLower fwd s.tol xold)
  match ip with
  | some ipv =>
    some { s with t := s.t ++ kept.toArray, y := s.y ++ (kept.map ipv.eval).toArray, nextIdx := s.nextIdx + taken.length }
  | none =>
    if kept.isEmpty then some { s with nextIdx := s.nextIdx + taken.length } else none

/-- Dense Output Collection -/
def denseCollect (L : Lits α) (s : St α) (xold x : α) (ip : Option (Interp α)) : St α :=
  match ip with
  | some i => if s.collectDense ∧ Num.eqb x xold = false ∧ Num.eqb i.h L.zero = false
              then { s with denseSegs := s.denseSegs.push (i.xold, i.h) } else s
  | none => s

/-- first pass of the event block: locate every event whose function crossed in this step -/
def locateAll (L : Lits α) (gEv : α → Array α → Array α) (s : St α) (xold x : α) (y gCurr : Array α)
    (ip : Option (Interp α)) : Option (List (α × Nat × Array α) × Array α) :=
  (List.range s.cfg.size).foldl (fun acc i =>
    match acc with
    | none => none
    | some (lst, log) =>
      let gp := s.prevEvent.getD i L.zero
      let gc := gCurr.getD i L.zero
      if crossed L gp gc (s.cfg.getD i ⟨.all, none⟩).dir then
        match ip with
        | some ipv =>
          let r := locate L ipv (fun t yy => (gEv t yy).getD i L.zero) xold x s.yold y gp gc
          some (lst ++ [(r.1, i, r.2.1)], log ++ r.2.2)
        | none =>
          -- `interpolant.unwrap()` is reached only in the Brent branch
          if Num.eqb gp L.zero then some (lst ++ [(xold, i, s.yold)], log)
          else if Num.eqb gc L.zero then some (lst ++ [(x, i, y)], log)
          else none
      else some (lst, log)) (some ([], #[]))

/-- Event Detection; the Boolean says whether a terminal event fired (the callback then returns `Interrupt`
    before the history update and the output sampling); `none` = panic -/
def eventPhase (L : Lits α) (gEv : α → Array α → Array α) (s : St α) (xold x : α) (y : Array α)
    (ip : Option (Interp α)) : Option (St α × Bool) :=
  if s.cfg.size > 0 then
    let gCurr := gEv x y
    let s := { s with evalLog := s.evalLog.push x }
    if s.yold.isEmpty then some ({ s with prevEvent := gCurr }, false)
    else
      match locateAll L gEv s xold x y gCurr ip with
      | none => none
      | some (lst, log) =>
        match sortEvs (decide (x > xold)) lst with
        | none => none
        | some sorted =>
          let r := processEvs (decide (x > xold)) xold x ip { s with evalLog := s.evalLog ++ log } sorted
          some ({ r.1 with prevEvent := gCurr }, r.2)
  else some (s, false)

/-- Mode 2 (solver-selected output): first-step enforcement, then the accepted endpoint unless it duplicates the
    last sample -/
def outputMode2 (s : St α) (xold x : α) (y : Array α) (ip : Option (Interp α)) : St α :=
  let enforce : Option (St α) :=
    match s.firstStep with
    | some h0 =>
      -- every genuine step takes part, however short (`xold != x`; only the initial callback has xold == x)
      if ¬ s.firstOutputDone ∧ Num.eqb xold x = false then
        let direction := Num.signum (x - xold)
        let target := s.x0 + direction * Num.abs h0
        if direction * (x - target) ≥ -s.tol then
          if Num.abs (x - target) ≤ s.tol then
            -- the step ends at the target (to the comparison tolerance): its end point is the first output
            some { s with t := s.t.push x, y := s.y.push y, firstOutputDone := true }
          else
            let s := match ip with
              | some ipv => { s with t := s.t.push target, y := s.y.push (ipv.eval target), firstOutputDone := true }
              | none => s
            some { s with t := s.t.push x, y := s.y.push y }
        else some s
      else none
    | none => none
  match enforce with
  | some s => s
  | none =>
    -- `self.t.last() != Some(&x)` (exact duplicates only)
    let fresh := match s.t.back? with
      | some last => !(Num.eqb last x)
      | none => true
    if fresh then { s with t := s.t.push x, y := s.y.push y } else s

/-- Output Sampling; `none` = panic -/
def outputPhase (s : St α) (xold x : α) (y : Array α) (ip : Option (Interp α)) : Option (St α) :=
  match s.tEval with
  | some te =>
    -- `if xold == x` (the initial callback; a genuine step, however short, is sampled through its interpolant)
    if Num.eqb xold x = true then some (sampleInitial s te x y)
    else sampleStep s te (decide (x > xold)) xold x ip
  | none => some (outputMode2 s xold x y ip)

/-- `solout(xold, x, y, interpolant)`; `gEv t y` are the user's event functions; `none` = panic -/
def step (L : Lits α) (gEv : α → Array α → Array α) (s : St α) (xold x : α) (y : Array α) (ip : Option (Interp α)) :
    Option (St α × Flag) :=
  match eventPhase L gEv (denseCollect L s xold x ip) xold x y ip with
  | none => none
  | some (s, true) => some (s, .interrupt)
  | some (s, false) =>
    -- Update state history, then Output Sampling
    match outputPhase { s with yold := y } xold x y ip with
    | some s => some (s, .cont)
    | none => none

end SolOutM
