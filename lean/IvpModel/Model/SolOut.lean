/-
  Model of `DefaultSolOut::solout` (src/solve/solout.rs): dense-segment collection, event detection with Brent
  refinement on the step interpolant, chronological processing with terminal events, `t_eval` sampling (mode 1)
  and solver-selected output with first-step enforcement (mode 2).  Core Lean only; executed at `Float` next to
  the real handler (X-solout), reasoned about over ordered fields.

  The statement order of the Rust function is kept (dense collection → events → yold update → output sampling):
  the early returns (terminal event; first-step enforcement) skip exactly what they skip in the code.
-/
import IvpModel.Num

namespace SolOutM

inductive Dir where
  | all | positive | negative
deriving DecidableEq, Repr

inductive Flag where
  | cont | interrupt
deriving DecidableEq, Repr

structure EvCfg where
  dir : Dir
  terminalCount : Option Nat

/-- the per-step interpolant handed to the callback: its own `(xold, h)` and the evaluation function -/
structure Interp (α : Type) where
  xold : α
  h : α
  eval : α → Array α

structure St (α : Type) where
  tEval : Option (Array α)
  nextIdx : Nat := 0
  tol : α
  t : Array α := #[]
  y : Array (Array α) := #[]
  tEvents : Array (Array α)
  yEvents : Array (Array (Array α))
  collectDense : Bool
  /-- collected segments `(xold, h)` (the coefficient vectors are the solver's and not looked at here) -/
  denseSegs : Array (α × α) := #[]
  yold : Array α := #[]
  cfg : Array EvCfg
  prevEvent : Array α
  eventHits : Array Nat
  firstStep : Option α
  x0 : α
  firstOutputDone : Bool := false
  /-- every `(t, y)` at which the event functions were evaluated (observation only; not in the Rust struct) -/
  evalLog : Array α := #[]

variable {α : Type} [Num α]

/-- literals of solout.rs (the translator cross-checks them against the source text, see `Gen/Static.lean`) -/
structure Lits (α : Type) where
  tol : α        -- 1e-12
  xtol : α       -- 2e-12
  rtol : α       -- EPSILON
  half : α       -- 0.5
  two : α
  three : α
  one : α
  zero : α
  maxIter : Nat  -- 100

def init (L : Lits α) (cfg : Array EvCfg) (tEval : Option (Array α)) (collectDense : Bool)
    (firstStep : Option α) (x0 : α) : St α :=
  { tEval := tEval, tol := L.tol, tEvents := cfg.map fun _ => #[], yEvents := cfg.map fun _ => #[],
    collectDense := collectDense, cfg := cfg, prevEvent := cfg.map fun _ => L.zero,
    eventHits := cfg.map fun _ => 0, firstStep := firstStep, x0 := x0 }

/-- `crossed(left, right, dir)` -/
def crossed (L : Lits α) (left right : α) : Dir → Bool
  | .all => (decide (left ≤ L.zero) && decide (right ≥ L.zero)) || (decide (left ≥ L.zero) && decide (right ≤ L.zero))
  | .positive => decide (left < L.zero) && decide (right ≥ L.zero)
  | .negative => decide (left > L.zero) && decide (right ≤ L.zero)

structure Brent (α : Type) where
  a : α
  b : α
  c : α
  fa : α
  fb : α
  fc : α
  d : α
  e : α
  log : Array α

/-- one pass of the `for _ in 0..MAXITER` body; `none` = `break` -/
def brentStep (L : Lits α) (g : α → α) (s : Brent α) : Option (Brent α) :=
  -- if fb * fc > 0 { c = a; fc = fa; d = b - a; e = d }
  let s := if s.fb * s.fc > L.zero then { s with c := s.a, fc := s.fa, d := s.b - s.a, e := s.b - s.a } else s
  -- if |fc| < |fb| { a = b; b = c; c = a; fa = fb; fb = fc; fc = fa }
  let s := if Num.abs s.fc < Num.abs s.fb then
      { s with a := s.b, b := s.c, c := s.b, fa := s.fb, fb := s.fc, fc := s.fb } else s
  let tol1 := L.two * L.rtol * Num.abs s.b + L.half * L.xtol
  let xm := L.half * (s.c - s.b)
  if Num.abs xm ≤ tol1 ∨ Num.eqb s.fb L.zero = true then none
  else
    let (d, e) :=
      if Num.abs s.e ≥ tol1 ∧ Num.abs s.fa > Num.abs s.fb then
        let (p, q) :=
          if Num.eqb s.a s.c = true then
            let sv := s.fb / s.fa
            (L.two * xm * sv, L.one - sv)
          else
            let qv := s.fa / s.fc
            let r := s.fb / s.fc
            let sv := s.fb / s.fa
            (sv * (L.two * xm * qv * (qv - r) - (s.b - s.a) * (r - L.one)), (qv - L.one) * (r - L.one) * (sv - L.one))
        let (p, q) := if q > L.zero then (-p, q) else (p, -q)
        if L.two * p < Num.fmin (L.three * xm * q - Num.abs (tol1 * q)) (Num.abs (s.e * q)) then (p / q, s.d)
        else (xm, xm)
      else (xm, xm)
    let a := s.b
    let fa := s.fb
    let b := if Num.abs d > tol1 then s.b + d else s.b + (if xm > L.zero then tol1 else -tol1)
    let fb := g b
    some { s with a := a, fa := fa, b := b, fb := fb, d := d, e := e, log := s.log.push b }

def brentLoop (L : Lits α) (g : α → α) : Nat → Brent α → Brent α
  | 0, s => s
  | k + 1, s => match brentStep L g s with
    | none => s
    | some s' => brentLoop L g k s'

/-- refined event location in `[xold, x]` for one event function: `(t_e, y_e, evaluation times)` -/
def locate (L : Lits α) (ip : Interp α) (gi : α → Array α → α) (xold x : α) (yold y : Array α) (gPrev gCurr : α) :
    α × Array α × Array α :=
  if Num.abs gPrev ≤ L.xtol then (xold, yold, #[])
  else if Num.abs gCurr ≤ L.xtol then (x, y, #[])
  else
    let s0 : Brent α := { a := xold, b := x, c := xold, fa := gPrev, fb := gCurr, fc := gPrev, d := x - xold, e := x - xold, log := #[] }
    let s := brentLoop L (fun t => gi t (ip.eval t)) L.maxIter s0
    (s.b, ip.eval s.b, s.log)

/-- stable insertion into a list sorted by time (ascending when `fwd`, else descending); `none` = NaN comparison
    (`partial_cmp().unwrap()` panics) -/
def insertEv (fwd : Bool) (e : α × Nat × Array α) : List (α × Nat × Array α) → Option (List (α × Nat × Array α))
  | [] => some [e]
  | x :: xs =>
    if Num.isNaN e.1 || Num.isNaN x.1 then none
    else
      -- stable: `e` (later in the original order) goes after elements that compare equal
      let before := if fwd then decide (e.1 < x.1) else decide (x.1 < e.1)
      if before then some (e :: x :: xs)
      else match insertEv fwd e xs with
        | some r => some (x :: r)
        | none => none

def sortEvs (fwd : Bool) (es : List (α × Nat × Array α)) : Option (List (α × Nat × Array α)) :=
  es.foldl (fun acc e => match acc with | none => none | some l => insertEv fwd e l) (some [])

/-- process the sorted events; returns the state and whether a terminal event fired -/
def processEvs (s : St α) : List (α × Nat × Array α) → St α × Bool
  | [] => (s, false)
  | (te, i, ye) :: rest =>
    let s := { s with tEvents := s.tEvents.modify i (·.push te), yEvents := s.yEvents.modify i (·.push ye),
                      eventHits := s.eventHits.modify i (· + 1) }
    let fire := match (s.cfg.getD i ⟨.all, none⟩).terminalCount with
      | some limit => decide (s.eventHits.getD i 0 ≥ limit)
      | none => false
    if fire then ({ s with t := s.t.push te, y := s.y.push ye }, true)
    else processEvs s rest

/-- `solout(xold, x, y, interpolant)`; `gEv t y` are the user's event functions; `none` = panic -/
def step (L : Lits α) (gEv : α → Array α → Array α) (s : St α) (xold x : α) (y : Array α) (ip : Option (Interp α)) :
    Option (St α × Flag) :=
  -- Dense Output Collection
  let s := match ip with
    | some i => if s.collectDense ∧ Num.eqb x xold = false ∧ Num.eqb i.h L.zero = false
                then { s with denseSegs := s.denseSegs.push (i.xold, i.h) } else s
    | none => s
  -- Event Detection
  let nEv := s.cfg.size
  let evRes : Option (St α × Bool) :=
    if nEv > 0 then
      let gCurr := gEv x y
      let s := { s with evalLog := s.evalLog.push x }
      if s.yold.isEmpty then some ({ s with prevEvent := gCurr }, false)
      else
        -- first pass: locate
        let found : Option (List (α × Nat × Array α) × Array α) :=
          (List.range nEv).foldl (fun acc i =>
            match acc with
            | none => none
            | some (lst, log) =>
              let gp := s.prevEvent.getD i L.zero
              let gc := gCurr.getD i L.zero
              if crossed L gp gc (s.cfg.getD i ⟨.all, none⟩).dir then
                match ip with
                | some ipv =>
                  let (te, ye, lg) := locate L ipv (fun t yy => (gEv t yy).getD i L.zero) xold x s.yold y gp gc
                  some (lst ++ [(te, i, ye)], log ++ lg)
                | none =>
                  -- `interpolant.unwrap()` is reached only in the Brent branch
                  if Num.abs gp ≤ L.xtol then some (lst ++ [(xold, i, s.yold)], log)
                  else if Num.abs gc ≤ L.xtol then some (lst ++ [(x, i, y)], log)
                  else none
              else some (lst, log)) (some ([], #[]))
        match found with
        | none => none
        | some (lst, log) =>
          let s := { s with evalLog := s.evalLog ++ log }
          match sortEvs (decide (x > xold)) lst with
          | none => none
          | some sorted =>
            let (s, fired) := processEvs s sorted
            some ({ s with prevEvent := gCurr }, fired)
    else some (s, false)
  match evRes with
  | none => none
  | some (s, true) => some (s, .interrupt)
  | some (s, false) =>
    -- Update state history
    let s := { s with yold := y }
    -- Output Sampling
    match s.tEval with
    | some te =>
      if Num.abs (xold - x) ≤ s.tol then
        -- initial callback: matching t_eval points
        let rec loop0 (fuel i : Nat) (s : St α) : St α :=
          match fuel with
          | 0 => { s with nextIdx := i }
          | f + 1 =>
            if h : i < te.size then
              if Num.abs (te[i] - x) ≤ s.tol then loop0 f (i + 1) { s with t := s.t.push te[i], y := s.y.push y }
              else { s with nextIdx := i }
            else { s with nextIdx := i }
        some (loop0 (te.size + 1) s.nextIdx s, .cont)
      else
        let fwd := decide (x > xold)
        let rec loop1 (fuel i : Nat) (s : St α) : Option (St α) :=
          match fuel with
          | 0 => some { s with nextIdx := i }
          | f + 1 =>
            if h : i < te.size then
              let inUpper := if fwd then decide (te[i] ≤ x + s.tol) else decide (te[i] ≥ x - s.tol)
              if inUpper then
                let inLower := if fwd then decide (te[i] ≥ xold - s.tol) else decide (te[i] ≤ xold + s.tol)
                if inLower then
                  match ip with
                  | some ipv => loop1 f (i + 1) { s with t := s.t.push te[i], y := s.y.push (ipv.eval te[i]) }
                  | none => none
                else loop1 f (i + 1) s
              else some { s with nextIdx := i }
            else some { s with nextIdx := i }
        match loop1 (te.size + 1) s.nextIdx s with
        | some s => some (s, .cont)
        | none => none
    | none =>
      -- Mode 2
      let enforce : Option (St α) :=
        match s.firstStep with
        | some h0 =>
          if ¬ s.firstOutputDone ∧ Num.abs (xold - x) > s.tol then
            let direction := Num.signum (x - xold)
            let target := s.x0 + direction * h0
            if direction * (x - target) ≥ -s.tol then
              let s := match ip with
                | some ipv => { s with t := s.t.push target, y := s.y.push (ipv.eval target), firstOutputDone := true }
                | none => s
              let s := if Num.abs (x - target) > s.tol then { s with t := s.t.push x, y := s.y.push y } else s
              some s
            else some s
          else none
        | none => none
      match enforce with
      | some s => some (s, .cont)
      | none =>
        let dup := match s.t.back? with
          | some last => decide (Num.abs (last - x) > s.tol)
          | none => true
        if dup then some ({ s with t := s.t.push x, y := s.y.push y }, .cont) else some (s, .cont)

end SolOutM
