/-
  Control logic of `RADAU::solve` (src/methods/radau.rs): step-size control, simplified-Newton convergence control,
  Jacobian / LU reuse flags, failure counter, landing on `xend`, counters and status — with the numeric kernel replaced
  by an *oracle*: what a pass of the main loop learns from its linear algebra and right-hand-side evaluations is
  (a) whether each of the two factorisations succeeded, (b) the dynamic norm `dyno` of every Newton increment,
  (c) the error estimate(s), (d) the flag returned by the callback.  Everything the code decides from those scalars is
  modelled here, statement by statement.  Core Lean only.

  Executed at `Float` against the control trace of real runs (hook `verif_hooks::trace`, X-radau: the state at the head
  of every pass and the final result must agree bit for bit) and reasoned about in Proofs/RadauLemmas.lean.
-/
import IvpModel.Num

namespace RadauCtl
variable {α : Type} [Num α]

inductive Status where
  | success | userInterrupt | needLargerNMax | stepSizeTooSmall | singularMatrix
  /-- not a status of the code: the oracle of a pass held fewer `dyno` values than the control logic asked for -/
  | oracleExhausted
deriving DecidableEq, Repr

inductive Flag where
  | cont | interrupt | modified
deriving DecidableEq, Repr

/-- literals of radau.rs that the control logic uses (supplied at the number system in use) -/
structure Lits (α : Type) where
  zero : α
  one : α
  two : α
  four : α
  half : α          -- 0.5
  tenth : α         -- 0.1
  p8 : α            -- 0.8
  p99 : α           -- 0.99
  quarter : α       -- 0.25
  thet : α          -- 0.001
  quot1 : α         -- 1.0
  quot2 : α         -- 1.2
  em4 : α           -- 1e-4
  twenty : α        -- 20.0
  em2 : α           -- 1e-2
  ten : α           -- 10.0
  p03 : α           -- 0.03
  em6 : α           -- 1e-6
  stretch : α       -- 1.01 (last-step stretch)

structure Params (α : Type) where
  xend : α
  posneg : α
  uround : α
  safety : α
  facl : α
  facr : α
  cfac : α
  hmax : α
  hmin : α
  newtonTol : α
  nmax : Nat
  maxNewton : Nat
  predictive : Bool

structure Counters where
  total : Nat := 0
  accepted : Nat := 0
  rejected : Nat := 0
  ode : Nat := 0
  jac : Nat := 0
  lu : Nat := 0
deriving Repr, DecidableEq

structure State (α : Type) where
  x : α
  h : α
  hhfac : α
  callJac : Bool := true
  callDecomp : Bool := true
  first : Bool := true
  reject : Bool := false
  last : Bool
  singular : Nat := 0
  faccon : α
  theta : α
  dynold : α
  thqold : α
  hAcc : α
  errAcc : α
  cnt : Counters

structure Result (α : Type) where
  status : Status
  h : α
  x : α
  cnt : Counters

/-- what one pass of the main loop learns from its numeric kernel -/
structure PassOracle (α : Type) where
  /-- 0: both factorisations succeeded (or were skipped), 1: E1 singular, 2: E2 singular -/
  dec : Nat
  /-- `dyno` of the successive Newton iterations (the model consumes as many as its logic asks for) -/
  dynos : List α
  err : α
  /-- error estimate after the refinement on a first / rejected step (used only if the refinement runs) -/
  err2 : α
  /-- flag returned by the callback of an accepted step -/
  cb : Flag

def clamp (x lo hi : α) : α := if x < lo then lo else if x > hi then hi else x

/-- "Unexpected step rejection - continue with reduced step" and the two singular-factorisation exits:
    after five consecutive failures the run ends, otherwise the step is halved -/
def failure (L : Lits α) (s : State α) (cnt : Counters) (setDecomp : Bool) : Sum (State α) (Result α) :=
  if s.singular + 1 > 5 then .inr { status := .singularMatrix, h := s.h, x := s.x, cnt := cnt }
  else .inl { s with singular := s.singular + 1, h := s.h * L.half, hhfac := L.half, reject := true, last := false,
                     callDecomp := if setDecomp then true else s.callDecomp, cnt := cnt }

/-- outcome of the simplified Newton iteration, as far as control is concerned -/
inductive Newton (α : Type) where
  /-- left through `break 'newton`: converged -/
  | done (newt : Nat) (theta thqold dynold faccon : α) (h hhfac : α) (rejected : Nat) (last : Bool) (ode : Nat)
  /-- convergence predicted too slow: `h` reduced, the step is repeated (`continue 'main`, as RADAU5 does; fix of the
      fall-through into the error test) -/
  | slow (newt : Nat) (theta thqold dynold faccon : α) (h hhfac : α) (rejected : Nat) (ode : Nat)
  /-- iteration limit reached or diverging (`theta ≥ 0.99`) -/
  | failed (newt : Nat) (theta thqold dynold faccon : α) (ode : Nat)
  /-- the oracle ran out of `dyno` values (never the case on a recorded run) -/
  | starved

/-- the `'newton` loop -/
def newtonLoop (L : Lits α) (P : Params α) : Nat → List α → (newt : Nat) → (theta thqold dynold faccon h hhfac : α) →
    (rejected : Nat) → (last : Bool) → (ode : Nat) → Newton α
  | 0, _, _, _, _, _, _, _, _, _, _, _ => .starved
  | fuel + 1, dynos, newt, theta, thqold, dynold, faccon, h, hhfac, rejected, last, ode =>
    if newt ≥ P.maxNewton then .failed newt theta thqold dynold faccon ode
    else match dynos with
      | [] => .starved
      | dyno :: rest =>
        let ode := ode + 3
        let newt := newt + 1
        let continueWith (theta thqold faccon : α) : Newton α :=
          let dynold := Num.fmax dyno P.uround
          if faccon * dyno > P.newtonTol then newtonLoop L P fuel rest newt theta thqold dynold faccon h hhfac rejected last ode
          else .done newt theta thqold dynold faccon h hhfac rejected last ode
        if newt > 1 ∧ newt < P.maxNewton then
          let thq := dyno / dynold
          let theta := if newt = 2 then thq else Num.sqrt (thq * thqold)
          let thqold := thq
          if theta < L.p99 then
            let faccon := theta / (L.one - theta)
            let rem : α := Num.ofNat (P.maxNewton - 1 - newt)
            let dyth := faccon * dyno * Num.pow theta rem / P.newtonTol
            if dyth ≥ L.one then
              let qnewt := Num.fmax L.em4 (Num.fmin L.twenty dyth)
              let hhfac := L.p8 * Num.pow qnewt (-L.one / (L.four + rem))
              .slow newt theta thqold dynold faccon (h * hhfac) hhfac (rejected + 1) ode
            else continueWith theta thqold faccon
          else .failed newt theta thqold dynold faccon ode
        else continueWith theta thqold faccon

/-- "Step accepted": Gustafsson controller, callback, exit test, limits, reuse decision -/
def accepted (L : Lits α) (P : Params α) (s : State α) (o : PassOracle α) (h hhfac theta thqold dynold faccon err : α)
    (newt : Nat) (quot hnew : α) (cnt : Counters) (last : Bool) (xph : α) : Sum (State α) (Result α) :=
  let cnt := { cnt with accepted := cnt.accepted + 1 }
  let g : α × α × α × α :=
    if P.predictive then
      let qh : α × α :=
        if cnt.accepted > 1 then
          let facgus := (s.hAcc / h) * Num.pow (err * err / s.errAcc) L.quarter / P.safety
          let facgus := Num.fmax P.facr (Num.fmin P.facl facgus)
          let quot := Num.fmax quot facgus
          (quot, h / quot)
        else (quot, hnew)
      (qh.1, qh.2, h, Num.fmax err L.em2)
    else (quot, hnew, s.hAcc, s.errAcc)
  let hnew := g.2.1
  let hAcc := g.2.2.1
  let errAcc := g.2.2.2
  let x := xph
  -- new derivative at x + h
  let cnt := { cnt with ode := cnt.ode + 1 }
  let _ := newt
  match o.cb with
  | .interrupt => .inr { status := .userInterrupt, h := h, x := x, cnt := cnt }
  | fl =>
    let cnt := if fl = .modified then { cnt with ode := cnt.ode + 1 } else cnt
    if last then .inr { status := .success, h := hnew, x := x, cnt := cnt }
    else
      -- "Step accepted so we can reset singular counter"
      -- `hnew.abs().max(hmin).min(hmax) * posneg` (the upper limit wins when min_step exceeds it)
      let hnew := Num.fmin (Num.fmax (Num.abs hnew) P.hmin) P.hmax * P.posneg
      let hnew := if s.reject then P.posneg * Num.fmin (Num.abs hnew) (Num.abs h) else hnew
      let base : State α :=
        { s with x := x, first := false, reject := false, singular := 0, theta := theta, thqold := thqold, dynold := dynold,
                 faccon := faccon, hAcc := hAcc, errAcc := errAcc, cnt := cnt, last := last }
      -- "Sophisticated step size control"
      if (x + L.stretch * hnew / L.quot1 - P.xend) * P.posneg ≥ L.zero then
        { base with h := P.xend - x, last := true, hhfac := P.xend - x, callDecomp := true, callJac := decide (theta ≥ L.thet) } |> .inl
      else
        let qt := hnew / h
        if theta < L.thet ∧ qt > L.quot1 ∧ qt < L.quot2 then
          { base with h := h, hhfac := h, callDecomp := false, callJac := false } |> .inl
        else
          { base with h := hnew, hhfac := hnew, callDecomp := true, callJac := decide (theta ≥ L.thet) } |> .inl

/-- Jacobian count and the two factorisations at the head of a pass: either the pass ends here (a singular matrix),
    or the updated counters -/
def decompose (L : Lits α) (s : State α) (o : PassOracle α) : Sum (Sum (State α) (Result α)) Counters :=
  let cnt := if s.callJac then { s.cnt with jac := s.cnt.jac + 1 } else s.cnt
  if s.callDecomp then
    let cnt := { cnt with lu := cnt.lu + 1 }
    if o.dec = 1 then .inl (failure L s cnt false)
    else
      let cnt := { cnt with lu := cnt.lu + 1 }
      if o.dec = 2 then .inl (failure L s cnt false) else .inr cnt
  else .inr cnt

/-- error estimation, "Computation of hnew", and the accepted / rejected branches -/
def finishStep (L : Lits α) (P : Params α) (s : State α) (o : PassOracle α) (newt : Nat) (theta thqold dynold faccon h hhfac : α)
    (last : Bool) (cnt : Counters) (xph : α) : Sum (State α) (Result α) :=
  -- error estimation (one more back-substitution)
  let cnt := { cnt with lu := cnt.lu + 1 }
  let refine := decide (o.err ≥ L.one) && (s.first || s.reject)
  let err := if refine then o.err2 else o.err
  let cnt := if refine then { cnt with ode := cnt.ode + 1 } else cnt
  -- "Computation of hnew"
  let fac := Num.fmin P.safety (P.cfac / (Num.ofNat newt + L.two * Num.ofNat P.maxNewton))
  let quot := Num.fmax P.facr (Num.fmin P.facl (Num.pow err L.quarter / fac))
  let hnew := h / quot
  if err ≤ L.one then accepted L P s o h hhfac theta thqold dynold faccon err newt quot hnew cnt last xph
  else
    -- "Step rejected"
    let base : State α := { s with theta := theta, thqold := thqold, dynold := dynold, faccon := faccon,
                                   reject := true, callDecomp := true, last := false }
    if s.first then .inl { base with h := h * L.tenth, hhfac := L.tenth, cnt := cnt }
    else .inl { base with h := hnew, hhfac := hnew / h, cnt := { cnt with rejected := cnt.rejected + 1 } }

/-- one pass of `'main: loop { … }` -/
def pass (L : Lits α) (P : Params α) (s : State α) (o : PassOracle α) : Sum (State α) (Result α) :=
  match decompose L s o with
  | .inl r => r
  | .inr cnt =>
    let cnt := { cnt with total := cnt.total + 1 }
    if cnt.total > P.nmax then .inr { status := .needLargerNMax, h := s.h, x := s.x, cnt := cnt }
    else if L.tenth * Num.abs s.h ≤ Num.abs s.x * P.uround then .inr { status := .stepSizeTooSmall, h := s.h, x := s.x, cnt := cnt }
    else
      -- `xph = if last { xend } else { x + h }`: the landing step ends at xend itself
      let xph := if s.last then P.xend else s.x + s.h
      let faccon := Num.pow (Num.fmax s.faccon P.uround) L.p8
      let theta := Num.abs L.thet
      match newtonLoop L P (P.maxNewton + 1) o.dynos 0 theta s.thqold s.dynold faccon s.h s.hhfac cnt.rejected s.last cnt.ode with
      | .starved => .inr { status := .oracleExhausted, h := s.h, x := s.x, cnt := cnt }
      | .failed _ theta thqold dynold faccon ode =>
        failure L { s with theta := theta, thqold := thqold, dynold := dynold, faccon := faccon } { cnt with ode := ode } true
      | .slow _ theta thqold dynold faccon h hhfac rejected ode =>
        .inl { s with theta := theta, thqold := thqold, dynold := dynold, faccon := faccon, h := h, hhfac := hhfac,
                      reject := true, last := false, callDecomp := true, cnt := { cnt with ode := ode, rejected := rejected } }
      | .done newt theta thqold dynold faccon h hhfac rejected last ode =>
        finishStep L P s o newt theta thqold dynold faccon h hhfac last { cnt with ode := ode, rejected := rejected } xph

/-- initial step and parameters derived by `solve` before the loop -/
structure Setup (α : Type) where
  x0 : α
  xend : α
  firstStep : Option α
  maxStep : Option α
  minStep : Option α
  nmax : Nat
  maxNewton : Nat
  uround : α
  safety : α
  scaleMin : α
  scaleMax : α
  predictive : Bool
  /-- `rtol[0]` after the tolerance transformation -/
  tolst : α
  /-- a Newton tolerance given by the user -/
  newtonTol : Option α
  /-- flag returned by the initial callback -/
  cb0 : Flag

def params (L : Lits α) (S : Setup α) : Params α :=
  { xend := S.xend, posneg := Num.signum (S.xend - S.x0), uround := S.uround, safety := S.safety,
    facl := L.one / S.scaleMin, facr := L.one / S.scaleMax,
    cfac := S.safety * (L.one + L.two * Num.ofNat S.maxNewton),
    hmax := match S.maxStep with | some m => m | none => Num.abs (S.xend - S.x0),
    hmin := match S.minStep with | some m => m | none => L.zero,
    newtonTol := match S.newtonTol with
      | some v => v
      | none => Num.fmax (L.ten * S.uround / S.tolst) (Num.fmin L.p03 (Num.sqrt S.tolst)),
    nmax := S.nmax, maxNewton := S.maxNewton, predictive := S.predictive }

/-- state at the head of the first pass, or the result of an interrupting initial callback -/
def start (L : Lits α) (S : Setup α) : Sum (State α) (Result α) :=
  let P := params L S
  let h0 := match S.firstStep with | some h0 => Num.abs h0 * P.posneg | none => L.em6 * P.posneg
  let h1 := clamp h0 (-P.hmax) P.hmax
  let lands := decide ((S.x0 + L.stretch * h1 - S.xend) * P.posneg ≥ L.zero)
  let h := if lands then S.xend - S.x0 else h1
  let cnt : Counters := { ode := 1 }
  match S.cb0 with
  | .interrupt => .inr { status := .userInterrupt, h := h, x := S.x0, cnt := cnt }
  | fl =>
    let cnt := if fl = .modified then { cnt with ode := cnt.ode + 1 } else cnt
    .inl { x := S.x0, h := h, hhfac := h, last := lands, faccon := L.one, theta := L.zero, dynold := L.zero, thqold := L.zero,
           hAcc := L.zero, errAcc := L.zero, cnt := cnt }

/-- the run over a list of per-pass oracles -/
def run (L : Lits α) (P : Params α) : List (PassOracle α) → State α → Option (Result α)
  | [], _ => none
  | o :: os, s => match pass L P s o with
    | .inr r => some r
    | .inl s' => run L P os s'

end RadauCtl
