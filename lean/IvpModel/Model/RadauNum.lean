/-
  Full numeric model of `RADAU::solve` (src/methods/radau.rs): Radau IIA(5) with the simplified Newton iteration on the
  transformed system (real factorisation of (U1/h)M − J, complex factorisation of ((ALPH + iBETA)/h)M − J, both with the
  LU routines of `Model/LU.lean`), mass matrix, index-2/3 scaling, error estimate with the optional refinement, Gustafsson
  controller, Jacobian / LU reuse, dense output (`cont`, `interpolate`) and the control flow.  Core Lean only.

  Every method constant is the regenerated `Gen.Radau.*` (same literals as radau.rs on every run).  The right-hand side,
  the Jacobian, the mass matrix and the callback are parameters (`ode j t y` = j-th right-hand-side call, `jac j t y` =
  j-th Jacobian call, row-major n×n; `mass` row-major n×n, whatever storage the solver was given).  Executed at `Float`
  next to the real solver (stream X-radaunum: every call argument, every callback with the interpolant sampled at five
  points, counters and status bit for bit); the pure pieces are reasoned about over ordered fields.
-/
import IvpModel.Num
import IvpModel.Model.LU
import IvpModel.Model.LUF
import IvpModel.Model.RadauCtl
import IvpModel.Gen.Radau

namespace RadauNum
open RadauCtl (Status Flag Counters)
open Gen.Radau

variable {α : Type} [Num α]

/-- literals of radau.rs that are not named constants -/
structure NLits (α : Type) where
  zero : α
  one : α
  two : α
  three : α
  four : α
  half : α
  tenth : α      -- 0.1
  p8 : α         -- 0.8
  p99 : α        -- 0.99
  quarter : α    -- 0.25
  thet : α       -- 0.001
  quot1 : α      -- 1.0
  quot2 : α      -- 1.2
  em4 : α        -- 1e-4
  twenty : α     -- 20.0
  em2 : α        -- 1e-2
  em10 : α       -- 1e-10
  ten : α
  p03 : α        -- 0.03
  em6 : α        -- 1e-6
  stretch : α    -- 1.01
  expm : α       -- 2.0 / 3.0
  inf : α

@[inline] def g (a : Array α) (i : Nat) : α := a.getD i Num.zero

/-- one component of the dense-output polynomial: `c0 + s(c1 + (s − C2M1)(c2 + (s − C1M1) c3))`, `s = (xi − (xold+h))/h` -/
def interpScalar (s c0 c1 c2 c3 : α) : α := c0 + s * (c1 + (s - C2M1) * (c2 + (s - C1M1) * c3))

/-- `RADAU::interpolate` -/
def interpolate (n : Nat) (xi : α) (cont : Array α) (xold h : α) : Array α :=
  let s := (xi - (xold + h)) / h
  (Array.range n).map fun i => interpScalar s (g cont i) (g cont (n + i)) (g cont (2 * n + i)) (g cont (3 * n + i))

/-- the four dense coefficients of one component from the converged stage increments: `(y_new, c1, c2, c3)` -/
def denseCoeffs (yold z1 z2 z3 : α) : α × α × α × α :=
  let ynew := yold + z3
  let ak := (z1 - z2) / C1MC2
  let acont3 := (ak - (z1 / C1)) / C2
  let c1 := (z2 - z3) / C2M1
  let c2 := (ak - c1) / C1M1
  let c3 := c2 - acont3
  (ynew, c1, c2, c3)

/-- starting value of a stage increment: the previous collocation polynomial extrapolated to the new stage time -/
def startZ (cq ak1 ak2 ak3 : α) : α := cq * (ak1 + (cq - C2M1) * (ak2 + (cq - C1M1) * ak3))

/-- `TI · (a1, a2, a3)` -/
def tiApply (a1 a2 a3 : α) : α × α × α :=
  (TI00 * a1 + TI01 * a2 + TI02 * a3, TI10 * a1 + TI11 * a2 + TI12 * a3, TI20 * a1 + TI21 * a2 + TI22 * a3)

/-- `(z1, z2, z3) = T · (f1, f2, f3)` (last row of `T` is `(T20, 1, 0)`) -/
def tApply (f1 f2 f3 : α) : α × α × α :=
  (f1 * T00 + f2 * T01 + f3 * T02, f1 * T10 + f2 * T11 + f3 * T12, f1 * T20 + f2)

/-- `Σ_j mass[i][j] · v[j]`, accumulated by subtraction as in the Newton right-hand side (`sum -= mij * v[j]`) -/
def massDotNeg (L : NLits α) (n : Nat) (mass v : Array α) (i : Nat) : α :=
  (List.range n).foldl (fun s j => s - g mass (i * n + j) * g v j) L.zero

/-- `Σ_j mass[i][j] · v[j]` (`sum += …`) -/
def massDot (L : NLits α) (n : Nat) (mass v : Array α) (i : Nat) : α :=
  (List.range n).foldl (fun s j => s + g mass (i * n + j) * g v j) L.zero

/-- RMS norm used for the error estimate -/
def rmsNorm (L : NLits α) (n : Nat) (v scal : Array α) : α :=
  let s := (List.range n).foldl (fun e i => let r := g v i / g scal i; e + r * r) L.zero
  Num.sqrt (s / Num.ofNat n)

/-- `err = if err.is_nan() { INFINITY } else { err.max(1e-10) }` -/
def errGuard (L : NLits α) (e : α) : α := if Num.isNaN e then L.inf else Num.fmax e L.em10

inductive Ev (α : Type) where
  | ode (j : Nat) (t : α) (y : Array α)
  | jac (j : Nat) (t : α) (y : Array α)
  | cb (xold x : α) (y : Array α) (samples : Array (Array α))

structure Setup (α : Type) where
  x0 : α
  xend : α
  y0 : Array α
  rtol : Array α
  atol : Array α
  mass : Array α
  firstStep : Option α
  maxStep : Option α
  minStep : Option α
  newtonTol : Option α
  nmax : Nat
  maxNewton : Nat
  uround : α
  safety : α
  scaleMin : α
  scaleMax : α
  predictive : Bool
  nind1 : Nat
  nind2 : Nat
  nind3 : Nat
  dense : Bool

structure Out (α : Type) where
  status : Status
  h : α
  cnt : Counters
  log : Array (Ev α)
  starved : Bool := false

def samples (n : Nat) (cont : Array α) (xold x h : α) (thetas : Array α) : Array (Array α) :=
  thetas.map fun th => interpolate n (xold + th * (x - xold)) cont xold h

def clampF (x lo hi : α) : α := if x < lo then lo else if x > hi then hi else x

/-- `RADAU::solve` -/
def solve (L : NLits α) (S : Setup α) (ode jac : Nat → α → Array α → Array α)
    (obs : Nat → α → α → Array α → Flag × Array α) (thetas : Array α) (fuel : Nat) : Out α := Id.run do
  let n := S.y0.size
  let mut cnt : Counters := {}
  let mut log : Array (Ev α) := #[]
  let mut x := S.x0
  let mut y := S.y0
  let xend := S.xend
  let uround := S.uround
  let facl := L.one / S.scaleMin
  let facr := L.one / S.scaleMax
  let hmax := match S.maxStep with | some m => m | none => Num.abs (xend - x)
  let hmin := match S.minStep with | some m => m | none => L.zero
  -- tolerance transformation
  let rtolT : Array α := (Array.range n).map fun i => L.tenth * Num.pow (g S.rtol i) L.expm
  let atolT : Array α := (Array.range n).map fun i => g rtolT i * (g S.atol i / g S.rtol i)
  let newtonTol := match S.newtonTol with
    | some v => v
    | none => let tolst := g rtolT 0; Num.fmax (L.ten * uround / tolst) (Num.fmin L.p03 (Num.sqrt tolst))
  let posneg := Num.signum (xend - x)
  let mut h := match S.firstStep with | some h0 => Num.abs h0 * posneg | none => L.em6 * posneg
  h := clampF h (-hmax) hmax
  let firstLands := decide ((x + L.stretch * h - xend) * posneg ≥ L.zero)
  if firstLands then h := xend - x
  let zeroV : Array α := Array.replicate n L.zero
  let mut z1 := zeroV
  let mut z2 := zeroV
  let mut z3 := zeroV
  let mut f1 := zeroV
  let mut f2 := zeroV
  let mut f3 := zeroV
  let mut scal := zeroV
  let mut e1 : Array α := Array.replicate (n * n) L.zero
  let mut e2r : Array α := Array.replicate (n * n) L.zero
  let mut e2i : Array α := Array.replicate (n * n) L.zero
  let mut ip1 : Array Nat := Array.replicate n 0
  let mut ip2 : Array Nat := Array.replicate n 0
  let mut cont : Array α := Array.replicate (n * 4) L.zero
  let mut jm : Array α := Array.replicate (n * n) L.zero
  let mass := S.mass
  let mut status : Status := .oracleExhausted
  let mut singular := 0
  let mut hold := h
  let mut hnew := h
  let mut hhfac := h
  let mut last := firstLands
  let mut reject := false
  let mut hAcc := L.zero
  let mut errAcc := L.zero
  let cfac := S.safety * (L.one + L.two * Num.ofNat S.maxNewton)
  let mut faccon := L.one
  let mut theta := L.zero
  let mut dynold := L.zero
  let mut thqold := L.zero
  let mut xold := x
  let mut first := true
  let mut callJac := true
  let mut callDecomp := true
  let mut nOde := 0
  let mut nJac := 0
  let mut nCb := 0
  log := log.push (.ode nOde x y)
  let mut f0 := ode nOde x y
  nOde := nOde + 1
  cnt := { cnt with ode := cnt.ode + 1 }
  -- initial callback
  let (fl0, y0') := obs nCb xold x y
  log := log.push (.cb xold x y #[])
  nCb := nCb + 1
  match fl0 with
  | .interrupt => return { status := .userInterrupt, h := h, cnt := cnt, log := log }
  | .modified =>
    y := y0'
    log := log.push (.ode nOde x y)
    f0 := ode nOde x y
    nOde := nOde + 1
    cnt := { cnt with ode := cnt.ode + 1 }
  | .cont => pure ()
  scal := (Array.range n).map fun i => g atolT i + g rtolT i * Num.abs (g y i)
  let mut starved := true
  for _ in [0:fuel] do
    if callJac then
      log := log.push (.jac nJac x y)
      jm := jac nJac x y
      nJac := nJac + 1
      cnt := { cnt with jac := cnt.jac + 1 }
    if callDecomp then
      let fac1 := U1 / h
      let alphn := ALPH / h
      let betan := BETA / h
      e1 := Array.ofFn (n := n * n) fun idx => g mass idx.val * fac1 - g jm idx.val
      e2r := Array.ofFn (n := n * n) fun idx => g mass idx.val * alphn - g jm idx.val
      e2i := Array.ofFn (n := n * n) fun idx => g mass idx.val * betan
      cnt := { cnt with lu := cnt.lu + 1 }
      match LUF.decomp n n n e1 with
      | .error _ =>
        singular := singular + 1
        if singular > 5 then
          status := .singularMatrix; starved := false; break
        h := h * L.half
        hhfac := L.half
        reject := true
        last := false
        continue
      | .ok (a, ip) =>
        e1 := a; ip1 := ip
      cnt := { cnt with lu := cnt.lu + 1 }
      match LU.decompC n n e2r e2i with
      | .error _ =>
        singular := singular + 1
        if singular > 5 then
          status := .singularMatrix; starved := false; break
        h := h * L.half
        hhfac := L.half
        reject := true
        last := false
        continue
      | .ok (ar, ai, ip) =>
        e2r := ar; e2i := ai; ip2 := ip
    cnt := { cnt with total := cnt.total + 1 }
    if cnt.total > S.nmax then
      status := .needLargerNMax; starved := false; break
    if L.tenth * Num.abs h ≤ Num.abs x * uround then
      status := .stepSizeTooSmall; starved := false; break
    if S.nind2 > 0 then
      scal := (Array.range n).map fun i => if S.nind1 ≤ i ∧ i < S.nind1 + S.nind2 then g scal i / hhfac else g scal i
    if S.nind3 > 0 then
      scal := (Array.range n).map fun i =>
        if S.nind1 + S.nind2 ≤ i ∧ i < S.nind1 + S.nind2 + S.nind3 then g scal i / (hhfac * hhfac) else g scal i
    -- the landing step ends at xend itself
    let xph := if last then xend else x + h
    if first then
      z1 := zeroV; z2 := zeroV; z3 := zeroV; f1 := zeroV; f2 := zeroV; f3 := zeroV
    else
      let c3q := h / hold
      let c1q := C1 * c3q
      let c2q := C2 * c3q
      z1 := (Array.range n).map fun i => startZ c1q (g cont (n + i)) (g cont (2 * n + i)) (g cont (3 * n + i))
      z2 := (Array.range n).map fun i => startZ c2q (g cont (n + i)) (g cont (2 * n + i)) (g cont (3 * n + i))
      z3 := (Array.range n).map fun i => startZ c3q (g cont (n + i)) (g cont (2 * n + i)) (g cont (3 * n + i))
      let zz1 := z1; let zz2 := z2; let zz3 := z3
      f1 := (Array.range n).map fun i => g zz1 i * TI00 + g zz2 i * TI01 + g zz3 i * TI02
      f2 := (Array.range n).map fun i => g zz1 i * TI10 + g zz2 i * TI11 + g zz3 i * TI12
      f3 := (Array.range n).map fun i => g zz1 i * TI20 + g zz2 i * TI21 + g zz3 i * TI22
    -- simplified Newton iteration
    faccon := Num.pow (Num.fmax faccon uround) L.p8
    theta := Num.abs L.thet
    let mut newt := 0
    let mut dyno := L.zero
    -- 0: left the loop normally, 1: `continue 'main`, 2: `break 'main`
    let mut exitKind := 0
    for _ in [0:S.maxNewton + 2] do
      if newt ≥ S.maxNewton then
        singular := singular + 1
        if singular > 5 then
          status := .singularMatrix; exitKind := 2; break
        h := h * L.half
        hhfac := L.half
        reject := true
        last := false
        callDecomp := true
        exitKind := 1; break
      -- the stages
      let a1v := (Array.range n).map fun i => g y i + g z1 i
      log := log.push (.ode nOde (x + C1 * h) a1v)
      let r1 := ode nOde (x + C1 * h) a1v
      nOde := nOde + 1
      let a2v := (Array.range n).map fun i => g y i + g z2 i
      log := log.push (.ode nOde (x + C2 * h) a2v)
      let r2 := ode nOde (x + C2 * h) a2v
      nOde := nOde + 1
      let a3v := (Array.range n).map fun i => g y i + g z3 i
      log := log.push (.ode nOde xph a3v)
      let r3 := ode nOde xph a3v
      nOde := nOde + 1
      cont := (Array.range (n * 4)).map fun k => if k < n then g a3v k else g cont k
      cnt := { cnt with ode := cnt.ode + 3 }
      z1 := (Array.range n).map fun i => (tiApply (g r1 i) (g r2 i) (g r3 i)).1
      z2 := (Array.range n).map fun i => (tiApply (g r1 i) (g r2 i) (g r3 i)).2.1
      z3 := (Array.range n).map fun i => (tiApply (g r1 i) (g r2 i) (g r3 i)).2.2
      let fac1 := U1 / h
      let alphn := ALPH / h
      let betan := BETA / h
      let s1 := (Array.range n).map fun i => massDotNeg L n mass f1 i
      let s2 := (Array.range n).map fun i => massDotNeg L n mass f2 i
      let s3 := (Array.range n).map fun i => massDotNeg L n mass f3 i
      let w1 := z1; let w2 := z2; let w3 := z3
      z1 := (Array.range n).map fun i => g w1 i + g s1 i * fac1
      z2 := (Array.range n).map fun i => g w2 i + g s2 i * alphn - g s3 i * betan
      z3 := (Array.range n).map fun i => g w3 i + g s3 i * alphn + g s2 i * betan
      z1 := LUF.solve n e1 ip1 z1
      let zc := LU.solveC n e2r e2i ip2 z2 z3
      z2 := zc.1; z3 := zc.2
      newt := newt + 1
      let zz1 := z1; let zz2 := z2; let zz3 := z3
      let scl := scal
      dyno := (List.range n).foldl (fun d i =>
        let denom := g scl i
        let v1 := g zz1 i / denom
        let v2 := g zz2 i / denom
        let v3 := g zz3 i / denom
        d + (v1 * v1 + v2 * v2 + v3 * v3)) L.zero
      dyno := Num.sqrt (dyno / (L.three * Num.ofNat n))
      if newt > 1 ∧ newt < S.maxNewton then
        let thq := dyno / dynold
        if newt = 2 then theta := thq else theta := Num.sqrt (thq * thqold)
        thqold := thq
        if theta < L.p99 then
          faccon := theta / (L.one - theta)
          let rem : α := Num.ofNat (S.maxNewton - 1 - newt)
          let dyth := faccon * dyno * Num.pow theta rem / newtonTol
          if dyth ≥ L.one then
            let qnewt := Num.fmax L.em4 (Num.fmin L.twenty dyth)
            let exponent := -L.one / (L.four + rem)
            hhfac := L.p8 * Num.pow qnewt exponent
            h := h * hhfac
            cnt := { cnt with rejected := cnt.rejected + 1 }
            -- the step is repeated with the reduced size (`continue 'main`)
            reject := true
            last := false
            callDecomp := true
            exitKind := 1; break
        else
          singular := singular + 1
          if singular > 5 then
            status := .singularMatrix; exitKind := 2; break
          h := h * L.half
          hhfac := L.half
          reject := true
          last := false
          callDecomp := true
          exitKind := 1; break
      dynold := Num.fmax dyno uround
      let ff1 := f1; let ff2 := f2; let ff3 := f3
      f1 := (Array.range n).map fun i => g ff1 i + g zz1 i
      f2 := (Array.range n).map fun i => g ff2 i + g zz2 i
      f3 := (Array.range n).map fun i => g ff3 i + g zz3 i
      let gf1 := f1; let gf2 := f2; let gf3 := f3
      z1 := (Array.range n).map fun i => (tApply (g gf1 i) (g gf2 i) (g gf3 i)).1
      z2 := (Array.range n).map fun i => (tApply (g gf1 i) (g gf2 i) (g gf3 i)).2.1
      z3 := (Array.range n).map fun i => (tApply (g gf1 i) (g gf2 i) (g gf3 i)).2.2
      if faccon * dyno > newtonTol then continue else
        exitKind := 0; break
    if exitKind = 1 then continue
    if exitKind = 2 then
      starved := false; break
    -- error estimation
    let hee1 := DD1 / h
    let hee2 := DD2 / h
    let hee3 := DD3 / h
    let zz1 := z1; let zz2 := z2; let zz3 := z3
    f1 := (Array.range n).map fun i => hee1 * g zz1 i + hee2 * g zz2 i + hee3 * g zz3 i
    let ef1 := f1
    f2 := (Array.range n).map fun i => massDot L n mass ef1 i
    let ef2 := f2
    let ff0 := f0
    let rhsE : Array α := (Array.range n).map fun i => g ef2 i + g ff0 i
    let solE := LUF.solve n e1 ip1 rhsE
    cont := (Array.range (n * 4)).map fun k => if k < n then g solE k else g cont k
    cnt := { cnt with lu := cnt.lu + 1 }
    -- `state_finite`: the new state y + z3 has no non-finite component (`c − c` is NaN exactly for those)
    let yv := y; let zv3 := z3
    let stateFinite : Bool := (List.range n).all fun i => !(Num.isNaN ((g yv i + g zv3 i) - (g yv i + g zv3 i)))
    let mut err := if stateFinite then errGuard L (rmsNorm L n solE scal) else L.inf
    if err ≥ L.one ∧ (first ∨ reject) then
      let cy : Array α := (Array.range n).map fun i => g solE i + g y i
      log := log.push (.ode nOde x cy)
      let fr := ode nOde x cy
      nOde := nOde + 1
      f1 := fr
      cnt := { cnt with ode := cnt.ode + 1 }
      let rhs2 : Array α := (Array.range n).map fun i => g fr i + g ef2 i
      let sol2 := LUF.solve n e1 ip1 rhs2
      cont := (Array.range (n * 4)).map fun k => if k < n then g sol2 k else g cont k
      err := if stateFinite then errGuard L (rmsNorm L n sol2 scal) else L.inf
    -- computation of hnew
    let fac := Num.fmin S.safety (cfac / (Num.ofNat newt + L.two * Num.ofNat S.maxNewton))
    let mut quot := Num.fmax facr (Num.fmin facl (Num.pow err L.quarter / fac))
    hnew := h / quot
    if err ≤ L.one then
      cnt := { cnt with accepted := cnt.accepted + 1 }
      first := false
      if S.predictive then
        if cnt.accepted > 1 then
          let facgus := (hAcc / h) * Num.pow (err * err / errAcc) L.quarter / S.safety
          let facgus := Num.fmax facr (Num.fmin facl facgus)
          quot := Num.fmax quot facgus
          hnew := h / quot
        hAcc := h
        errAcc := Num.fmax err L.em2
      xold := x
      hold := h
      x := xph
      let yo := y
      let dz1 := z1; let dz2 := z2; let dz3 := z3
      y := (Array.range n).map fun i => (denseCoeffs (g yo i) (g dz1 i) (g dz2 i) (g dz3 i)).1
      cont := Array.ofFn (n := n * 4) fun idx =>
        let blk := idx.val / n
        let i := idx.val % n
        let d := denseCoeffs (g yo i) (g dz1 i) (g dz2 i) (g dz3 i)
        if blk = 0 then d.1 else if blk = 1 then d.2.1 else if blk = 2 then d.2.2.1 else d.2.2.2
      log := log.push (.ode nOde x y)
      f0 := ode nOde x y
      nOde := nOde + 1
      cnt := { cnt with ode := cnt.ode + 1 }
      scal := (Array.range n).map fun i => g atolT i + g rtolT i * Num.abs (g y i)
      let (fl, yCb) := obs nCb xold x y
      log := log.push (.cb xold x y (if S.dense then samples n cont xold x h thetas else #[]))
      nCb := nCb + 1
      match fl with
      | .interrupt =>
        status := .userInterrupt; starved := false; break
      | .modified =>
        y := yCb
        log := log.push (.ode nOde x y)
        f0 := ode nOde x y
        nOde := nOde + 1
        cnt := { cnt with ode := cnt.ode + 1 }
        scal := (Array.range n).map fun i => g atolT i + g rtolT i * Num.abs (g y i)
      | .cont => pure ()
      if last then
        h := hnew
        status := .success; starved := false; break
      singular := 0
      hnew := Num.fmin (Num.fmax (Num.abs hnew) hmin) hmax * posneg
      if reject then
        hnew := posneg * Num.fmin (Num.abs hnew) (Num.abs h)
        reject := false
      if (x + L.stretch * hnew / L.quot1 - xend) * posneg ≥ L.zero then
        h := xend - x
        last := true
      else
        let qt := hnew / h
        hhfac := h
        if theta < L.thet ∧ qt > L.quot1 ∧ qt < L.quot2 then
          callDecomp := false
          callJac := false
          continue
        h := hnew
      hhfac := h
      callDecomp := true
      callJac := decide (theta ≥ L.thet)
    else
      reject := true
      callDecomp := true
      last := false
      if first then
        h := h * L.tenth
        hhfac := L.tenth
      else
        cnt := { cnt with rejected := cnt.rejected + 1 }
        hhfac := hnew / h
        h := hnew
  return { status := status, h := h, cnt := cnt, log := log, starved := starved }

end RadauNum
