/-
  C18, `naccpt`: in the DOPRI5 / DOP853 skeleton the counter of accepted steps equals the number of steps handed to the
  callback — for every kernel, right-hand side, observer and fuel, and for every way a run can end (Success,
  UserInterrupt, NeedLargerNMax, StepSizeTooSmall, ProbablyStiff).  The last case is the one repaired in b336ba7: the
  step the stiffness test gives up is not delivered, and is no longer counted.
-/
import IvpModel.Proofs.CtlLemmas

namespace Ctl
variable {α : Type} [Num α] {n : Nat}

@[simp] theorem Meter.acc_bump (m : Meter α n) (calls : Array (α × Vec α n)) (lit : Nat) : (m.bump calls lit).cnt.accepted = m.cnt.accepted := rfl
@[simp] theorem Meter.acc_incTotal (m : Meter α n) : m.incTotal.cnt.accepted = m.cnt.accepted := rfl
@[simp] theorem Meter.acc_incAccepted (m : Meter α n) : m.incAccepted.cnt.accepted = m.cnt.accepted + 1 := rfl
@[simp] theorem Meter.acc_decAccepted (m : Meter α n) : m.decAccepted.cnt.accepted = m.cnt.accepted - 1 := rfl
@[simp] theorem Meter.acc_incRejected (m : Meter α n) : m.incRejected.cnt.accepted = m.cnt.accepted := rfl
@[simp] theorem Meter.acc_cb (m : Meter α n) (xo x : α) (y : Vec α n) (smp : Array (Vec α n)) : (m.cb xo x y smp).cnt.accepted = m.cnt.accepted := rfl
@[simp] theorem Meter.acc_refresh (m : Meter α n) (x : α) (y : Vec α n) : (m.refresh x y).cnt.accepted = m.cnt.accepted := rfl

/-- accepted steps = callbacks after the initial one -/
def AInv (m : Meter α n) : Prop := m.cnt.accepted + 1 = m.pairs.length

theorem afterCb_go_acc {σ : Type} (f : Rhs α n) (ob : Obs σ α n) (obs : σ) (m : Meter α n) (xo x : α) (y : Vec α n)
    (ip : Option (α → Vec α n)) (k : Vec α n) :
    ∀ obs' y' k' m', afterCb f ob obs m xo x y ip k = .go obs' y' k' m' → m'.cnt.accepted = m.cnt.accepted := by
  intro obs' y' k' m' h
  unfold afterCb at h
  dsimp only at h
  split at h
  · cases h
  · injection h with _ _ _ h4; rw [← h4]; simp
  · injection h with _ _ _ h4; rw [← h4]

theorem hFinish_acc {σ : Type} (P : HParams α n) (Kn : HKernel α n) (f : Rhs α n) (ob : Obs σ α n)
    (s : HState σ α n) (h : α) (last : Bool) (hnew facold hlamb : α) (ns ia : Nat) (sa : Kn.SA) (m : Meter α n)
    (hm : m.cnt.accepted = m.pairs.length) :
    Both (fun s' : HState σ α n => AInv s'.m) (fun r : Result σ α n => AInv r.m)
      (hFinish P Kn f ob s h last hnew facold hlamb ns ia sa m) := by
  unfold hFinish
  dsimp only
  split
  · show AInv _
    unfold AInv; simp [hm]
  · rename_i obs' y' k' m' heq
    have hp := (afterCb_go_meter f ob _ _ _ _ _ _ _ obs' y' k' m' heq).1
    have ha := afterCb_go_acc f ob _ _ _ _ _ _ _ obs' y' k' m' heq
    have : AInv m' := by unfold AInv; rw [hp, ha]; simp [hm]
    split <;> exact this

theorem hIter_acc {σ : Type} (P : HParams α n) (Kn : HKernel α n) (f : Rhs α n) (ob : Obs σ α n)
    (s : HState σ α n) (hs : AInv s.m) :
    Both (fun s' : HState σ α n => AInv s'.m) (fun r : Result σ α n => AInv r.m) (hIter P Kn f ob s) := by
  unfold hIter
  cases hg : hGuard P s with
  | some st => exact hs
  | none =>
    dsimp only
    unfold AInv at hs
    split
    · unfold hAccepted
      dsimp only
      split
      · show AInv _
        unfold AInv; simp [hTrial]; omega
      · apply hFinish_acc
        simp [hTrial]; omega
    · unfold hRejected
      show AInv _
      unfold AInv
      dsimp only
      split <;> simpa [hTrial] using hs

theorem hLoop_acc {σ : Type} (P : HParams α n) (Kn : HKernel α n) (f : Rhs α n) (ob : Obs σ α n) :
    ∀ (fuel : Nat) (s : HState σ α n), AInv s.m → ∀ r, hLoop P Kn f ob fuel s = some r → AInv r.m := by
  intro fuel
  induction fuel with
  | zero => intro s _ r h; simp [hLoop] at h
  | succ fuel ih =>
    intro s hs r h
    unfold hLoop at h
    have hi := hIter_acc P Kn f ob s hs
    split at h
    · rename_i r' heq
      rw [heq] at hi
      injection h with h; rw [← h]; exact hi
    · rename_i s' heq
      rw [heq] at hi
      exact ih s' hi r h

theorem startMeter_acc (f : Rhs α n) (x0 : α) (y0 : Vec α n) (posneg hcap : α) (firstStep : Option α)
    (hinit : Rhs α n → Vec α n → α × Array (α × Vec α n)) :
    (startMeter f x0 y0 posneg hcap firstStep hinit).2.2.cnt.accepted = 0 := by
  unfold startMeter
  cases firstStep <;> rfl

/-- **C18 (DOPRI5, DOP853), `naccpt`.**  However a run ends, the number of accepted steps it reports is the number of steps
    it delivered to the callback (the callbacks after the initial one at `x0`). -/
theorem hSolve_naccpt {σ : Type} (P : HParams α n) (Kn : HKernel α n) (f : Rhs α n) (ob : Obs σ α n) (obs0 : σ)
    (x0 : α) (y0 : Vec α n) (firstStep : Option α) (hinit : Rhs α n → Vec α n → α × Array (α × Vec α n))
    (fo hl : α) (fuel : Nat) (r : Result σ α n)
    (h : hSolve P Kn f ob obs0 x0 y0 firstStep hinit fo hl fuel = some r) :
    r.m.cnt.accepted + 1 = r.m.pairs.length := by
  unfold hSolve at h
  have hp := (startMeter_pairs f x0 y0 P.posneg P.hmax firstStep hinit).1
  have ha := startMeter_acc f x0 y0 P.posneg P.hmax firstStep hinit
  have h0 : AInv ((startMeter f x0 y0 P.posneg P.hmax firstStep hinit).2.2.cb x0 x0 y0 #[]) := by
    unfold AInv; rw [Meter.pairs_cb, hp]; simp [ha]
  unfold hStart at h
  dsimp only at h
  split at h
  · rename_i r' heq
    split at heq
    · injection heq with heq; injection h with h; rw [← h, ← heq]; exact h0
    · cases heq
  · rename_i s heq
    split at heq
    · cases heq
    · rename_i obs' y' k' m' hcb
      injection heq with heq
      have hm := (afterCb_go_meter f ob _ _ _ _ _ _ _ obs' y' k' m' hcb).1
      have hacc := afterCb_go_acc f ob _ _ _ _ _ _ _ obs' y' k' m' hcb
      apply hLoop_acc P Kn f ob fuel s _ r h
      rw [← heq]
      show AInv m'
      unfold AInv at h0 ⊢; rw [hm, hacc]; exact h0

end Ctl
