/-
  Facts about the control model of BDF (Model/BdfCtl.lean) for every oracle: corrector iterations are counted once each
  (C18); the current point never passes `xend`, the landing step ends exactly there and `Success` is reported only there
  (C03, exact arithmetic).
-/
import IvpModel.Model.BdfCtl
import IvpModel.Proofs.FieldNum

namespace BdfCtl

section any
variable {α : Type} [Num α]

/-- every corrector iteration that was started is counted exactly once -/
def OdeOK (ode iters : Nat) : Newton → Prop
  | .converged i o' => o' + iters = ode + i + 1 ∧ iters ≤ i
  | .failed o' => ode ≤ o'
  | .starved => True

theorem newtonLoop_ode (L : Lits α) (P : Params α) : ∀ (fuel : Nat) (dys : List α) (iters : Nat) (prev : Option α) (ode : Nat),
    OdeOK ode iters (newtonLoop L P fuel dys iters prev ode) := by
  intro fuel
  induction fuel with
  | zero => intros; simp [newtonLoop, OdeOK]
  | succ fuel ih =>
    intro dys iters prev ode
    unfold newtonLoop
    split
    · cases dys with
      | nil => trivial
      | cons dy rest =>
        dsimp only
        have hrec := ih rest (iters + 1) (some dy) (ode + 1)
        repeat' split
        all_goals first
          | exact ⟨by omega, by omega⟩
          | (show ode ≤ ode + 1; omega)
          | (revert hrec
             cases newtonLoop L P fuel rest (iters + 1) (some dy) (ode + 1) with
             | converged i o' => intro h; exact ⟨by have := h.1; omega, by have := h.2; omega⟩
             | failed o' => intro h; show ode ≤ o'; have : ode + 1 ≤ o' := h; omega
             | starved => intro _; trivial)
    · show ode ≤ ode; omega
end any

noncomputable section
variable {K : Type} [Field K] [LinearOrder K] [IsStrictOrderedRing K] [SqrtPow K]

/-- the current point has not passed `xend` -/
def Inv (P : Params K) (s : State K) : Prop := P.direction * (s.x - P.xend) ≤ 0

def LandOK (P : Params K) : Sum (State K) (Result K) → Prop
  | .inl s' => Inv P s'
  | .inr r => r.status = .success → r.x = P.xend

def LimOK (P : Params K) (s : State K) : Sum (State K × K × K) (Result K) → Prop
  | .inl (s', hS, xN) => s'.x = s.x ∧ xN = s'.x + hS ∧ P.direction * (xN - P.xend) ≤ 0
  | .inr r => r.status = .success → r.x = P.xend

theorem limits_spec (L : Lits K) (P : Params K) (s : State K) (hd : P.direction * P.direction = 1) (hz : L.zero = 0)
    (hst : 1 ≤ L.stretch) (hi : Inv P s) :
    LimOK P s (limits L P s) := by
  unfold limits
  dsimp only
  have hx1 : (if s.h > P.hmax then ({ s with h := P.hmax, nEqual := 0, luCurrent := false } : State K) else s).x = s.x := by split <;> rfl
  generalize hs1 : (if s.h > P.hmax then ({ s with h := P.hmax, nEqual := 0, luCurrent := false } : State K) else s) = s1 at hx1
  have hx2 : (if s1.h < P.hmin ∧ P.hmin > L.zero then ({ s1 with h := P.hmin, nEqual := 0, luCurrent := false } : State K) else s1).x = s.x := by
    split <;> simpa using hx1
  generalize hs2 : (if s1.h < P.hmin ∧ P.hmin > L.zero then ({ s1 with h := P.hmin, nEqual := 0, luCurrent := false } : State K) else s1) = s2 at hx2
  have hinv2 : P.direction * (s2.x - P.xend) ≤ 0 := by rw [hx2]; exact hi
  split
  · -- a retry below min_step: StepSizeTooSmall, never Success
    intro h; simp [result] at h
  split
  · rename_i hov
    split
    · rename_i hz0
      intro _
      have : |P.xend - s2.x| = 0 := by
        have := (num_eqb _ _).mp hz0
        simpa [hz, num_abs] using this
      show s2.x = P.xend
      have := abs_eq_zero.mp this
      linarith
    · -- landing: the step becomes |xend - x| and ends exactly at xend
      refine ⟨hx2, ?_, by simp⟩
      have hov' : P.direction * (s2.x + L.stretch * (P.direction * s2.h) - P.xend) > 0 := by simpa [hz] using hov
      have hexp : P.direction * (s2.x + L.stretch * (P.direction * s2.h) - P.xend)
          = P.direction * (s2.x - P.xend) + L.stretch * s2.h := by
        have : P.direction * (L.stretch * (P.direction * s2.h)) = (P.direction * P.direction) * (L.stretch * s2.h) := by ring
        rw [mul_sub, mul_add, this, hd]; ring
      have hpos : 0 < s2.h := by
        rw [hexp] at hov'
        by_contra hneg
        have : L.stretch * s2.h ≤ 0 := mul_nonpos_of_nonneg_of_nonpos (by linarith) (not_lt.mp hneg)
        linarith
      have habs : |P.xend - s2.x| = P.direction * (P.xend - s2.x) := by
        have h0 : 0 ≤ P.direction * (P.xend - s2.x) := by nlinarith
        rcases abs_cases (P.xend - s2.x) with ⟨h1, h2⟩ | ⟨h1, h2⟩
        · rw [h1]
          have : P.direction = 1 ∨ P.direction = -1 := by
            have : (P.direction - 1) * (P.direction + 1) = 0 := by ring_nf; linarith
            rcases mul_eq_zero.mp this with h | h
            · left; linarith
            · right; linarith
          rcases this with hd1 | hd1
          · rw [hd1]; ring
          · rw [hd1] at h0 ⊢; nlinarith
        · rw [h1]
          have : P.direction = 1 ∨ P.direction = -1 := by
            have : (P.direction - 1) * (P.direction + 1) = 0 := by ring_nf; linarith
            rcases mul_eq_zero.mp this with h | h
            · left; linarith
            · right; linarith
          rcases this with hd1 | hd1
          · rw [hd1] at h0 ⊢; nlinarith
          · rw [hd1]; ring
      have hh : s2.h * (Num.abs (P.xend - s2.x) / s2.h) = |P.xend - s2.x| := by
        rw [num_abs]; field_simp
      show P.xend = s2.x + P.direction * (s2.h * (Num.abs (P.xend - s2.x) / s2.h))
      rw [hh, habs]
      have e : P.direction * (P.direction * (P.xend - s2.x)) = P.xend - s2.x := by rw [← mul_assoc, hd, one_mul]
      rw [e]; ring
  · rename_i hov
    refine ⟨hx2, rfl, ?_⟩
    have hov' : P.direction * (s2.x + L.stretch * (P.direction * s2.h) - P.xend) ≤ 0 := by simpa [hz] using hov
    have hexp : P.direction * (s2.x + L.stretch * (P.direction * s2.h) - P.xend)
        = P.direction * (s2.x - P.xend) + L.stretch * s2.h := by
      have : P.direction * (L.stretch * (P.direction * s2.h)) = (P.direction * P.direction) * (L.stretch * s2.h) := by ring
      rw [mul_sub, mul_add, this, hd]; ring
    have hexp1 : P.direction * (s2.x + P.direction * s2.h - P.xend) = P.direction * (s2.x - P.xend) + s2.h := by
      have : P.direction * (P.direction * s2.h) = (P.direction * P.direction) * s2.h := by ring
      rw [mul_sub, mul_add, this, hd]; ring
    rw [hexp1]
    rw [hexp] at hov'
    by_cases hneg : s2.h ≤ 0
    · linarith
    · have : s2.h ≤ L.stretch * s2.h := by nlinarith [not_le.mp hneg]
      linarith
theorem adapt_x (L : Lits K) (s : State K) (o : PassOracle K) (sf e : K) : (adapt L s o sf e).x = s.x := by
  unfold adapt; split <;> rfl

theorem afterCallback_x (s1 : State K) (fl : Flag) : (afterCallback s1 fl).x = s1.x := by
  unfold afterCallback; split <;> rfl

theorem tail_land (L : Lits K) (P : Params K) (s2 : State K) (o : PassOracle K) (sf xNew : K)
    (hd : P.direction * P.direction = 1) (hz : L.zero = 0) (hx : s2.x = xNew) (hn : P.direction * (xNew - P.xend) ≤ 0) :
    LandOK P (tail L P s2 o sf) := by
  unfold tail
  split
  · rename_i hge
    intro _
    have h1 : P.direction * (xNew - P.xend) ≥ 0 := by rw [← hx]; simpa [hz] using hge
    have h0 : P.direction * (xNew - P.xend) = 0 := le_antisymm hn h1
    have hne : P.direction ≠ 0 := by intro h; rw [h] at hd; simp at hd
    have : xNew - P.xend = 0 := by
      rcases mul_eq_zero.mp h0 with h | h
      · exact absurd h hne
      · exact h
    show s2.x = P.xend
    rw [hx]; linarith
  · show Inv P (adapt L s2 o sf o.errorNorm)
    unfold Inv
    rw [adapt_x, hx]; exact hn

theorem afterNewton_land (L : Lits K) (P : Params K) (s : State K) (o : PassOracle K) (xNew : K) (iters : Nat) (cnt : Counters)
    (hd : P.direction * P.direction = 1) (hz : L.zero = 0) (hi : Inv P s) (hn : P.direction * (xNew - P.xend) ≤ 0) :
    LandOK P (afterNewton L P s o xNew iters cnt) := by
  unfold afterNewton
  dsimp only
  split
  · exact hi
  · split
    · intro h; cases h
    · exact tail_land L P _ o _ xNew hd hz (by rw [afterCallback_x]) hn

/-- **C03 (BDF), one pass.**  The current point never passes `xend`, and a pass that reports `Success` ends at `xend`
    (exact arithmetic), whatever the factorisation, the corrector iteration, the error norms and the callback answer. -/
theorem pass_land (L : Lits K) (P : Params K) (s : State K) (o : PassOracle K)
    (hd : P.direction * P.direction = 1) (hz : L.zero = 0) (hst : 1 ≤ L.stretch) (hi : Inv P s) : LandOK P (pass L P s o) := by
  unfold pass
  split
  · intro h; cases h
  · split
    · intro h; cases h
    · have hl := limits_spec L P s hd hz hst hi
      cases hlim : limits L P s with
      | inr r => rw [hlim] at hl; exact hl
      | inl t =>
        obtain ⟨s', hS, xN⟩ := t
        rw [hlim] at hl
        obtain ⟨hx, hxn, hno⟩ := hl
        have hi' : Inv P s' := by unfold Inv; rw [hx]; exact hi
        dsimp only
        split
        · intro h; cases h
        · split
          · show Inv P (retry s' _ _ _); exact hi'
          · split
            · intro h; cases h
            · show Inv P (retry _ _ _ _)
              unfold retry Inv
              split <;> exact hi'
            · apply afterNewton_land L P _ o xN _ _ hd hz _ hno
              unfold Inv
              split <;> exact hi'

theorem run_success_at_xend (L : Lits K) (P : Params K) (hd : P.direction * P.direction = 1) (hz : L.zero = 0) (hst : 1 ≤ L.stretch) :
    ∀ (os : List (PassOracle K)) (s : State K), Inv P s → ∀ r, run L P os s = some r → r.status = .success → r.x = P.xend := by
  intro os
  induction os with
  | nil => intro s _ r h; simp [run] at h
  | cons o os ih =>
    intro s hinv r h hs
    unfold run at h
    have hp := pass_land L P s o hd hz hst hinv
    split at h
    · rename_i r' heq
      injection h with h
      rw [heq] at hp
      rw [← h]; exact hp (by rw [h]; exact hs)
    · rename_i s' heq
      rw [heq] at hp
      exact ih s' hp r h hs

/-- the set-up satisfies the hypotheses of the landing theorems -/
theorem params_direction (S : Setup K) : (params S).direction * (params S).direction = 1 := by
  show Num.signum (S.xend - S.x0) * Num.signum (S.xend - S.x0) = 1
  show (if 0 ≤ S.xend - S.x0 then (1 : K) else -1) * (if 0 ≤ S.xend - S.x0 then (1 : K) else -1) = 1
  split <;> ring

theorem start_inv (L : Lits K) (S : Setup K) (s : State K) (h : start L S = .inl s) : Inv (params S) s := by
  have hx : s.x = S.x0 := by
    unfold start at h
    dsimp only at h
    split at h
    · cases h
    · injection h with h; rw [← h]
    · injection h with h; rw [← h]
  unfold Inv
  rw [hx]
  show Num.signum (S.xend - S.x0) * (S.x0 - S.xend) ≤ 0
  show (if 0 ≤ S.xend - S.x0 then (1 : K) else -1) * (S.x0 - S.xend) ≤ 0
  split
  · linarith
  · rename_i hneg; push_neg at hneg; linarith

end
end BdfCtl

/-! ### C11: the step of every pass is at most `h_max`, apart from the ≤ 1 % stretch of the landing step -/
namespace BdfCtl
noncomputable section
variable {K : Type} [Field K] [LinearOrder K] [IsStrictOrderedRing K] [SqrtPow K]

/-- the step `limits` hands to the pass: `x_new − x = h_signed`, `|h_signed| ≤ h_max` unless the step was stretched /
    shortened to land on `xend`, and then `|h_signed| = |xend − x| < stretch · h_max` -/
theorem limits_le_hmax (L : Lits K) (P : Params K) (s : State K) (hd : P.direction * P.direction = 1) (hz : L.zero = 0)
    (hst : 1 ≤ L.stretch) (hi : Inv P s) (hh : 0 < s.h) (hmm : P.hmin ≤ P.hmax) (hmax : 0 < P.hmax)
    (s' : State K) (hS xN : K) (hl : limits L P s = .inl (s', hS, xN)) :
    xN = s.x + hS ∧ |hS| ≤ L.stretch * P.hmax ∧ (|hS| ≤ P.hmax ∨ xN = P.xend) := by
  have habs : ∀ a : K, |P.direction * a| = |a| := by
    intro a
    have hd1 : P.direction = 1 ∨ P.direction = -1 := by
      have : (P.direction - 1) * (P.direction + 1) = 0 := by ring_nf; linarith
      rcases mul_eq_zero.mp this with h | h
      · left; linarith
      · right; linarith
    rcases hd1 with h | h <;> simp [h]
  unfold limits at hl
  dsimp only at hl
  -- the clamped step size
  generalize hs1 : (if s.h > P.hmax then ({ s with h := P.hmax, nEqual := 0, luCurrent := false } : State K) else s) = s1 at hl
  have h1x : s1.x = s.x := by rw [← hs1]; split <;> rfl
  have h1h : 0 < s1.h ∧ s1.h ≤ P.hmax := by
    rw [← hs1]; split
    · exact ⟨hmax, le_refl _⟩
    · rename_i hgt; exact ⟨hh, not_lt.mp hgt⟩
  split at hl
  · cases hl
  generalize hs2 : (if s1.h < P.hmin ∧ P.hmin > L.zero then ({ s1 with h := P.hmin, nEqual := 0, luCurrent := false } : State K) else s1) = s2 at hl
  have h2x : s2.x = s.x := by rw [← hs2]; split <;> simpa using h1x
  have h2h : 0 < s2.h ∧ s2.h ≤ P.hmax := by
    rw [← hs2]; split
    · rename_i hc; rw [hz] at hc; exact ⟨hc.2, hmm⟩
    · exact h1h
  split at hl
  · rename_i hov
    split at hl
    · cases hl
    · -- landing
      injection hl with hl
      have e1 : s' = { s2 with h := s2.h * (Num.abs (P.xend - s2.x) / s2.h), nEqual := 0, luCurrent := false } := by
        have := congrArg Prod.fst hl; exact this.symm
      have e2 : hS = P.direction * (s2.h * (Num.abs (P.xend - s2.x) / s2.h)) := by
        have := congrArg (fun t => t.2.1) hl; exact this.symm
      have e3 : xN = P.xend := by
        have := congrArg (fun t => t.2.2) hl; exact this.symm
      have hne : s2.h ≠ 0 := ne_of_gt h2h.1
      have hmul : s2.h * (Num.abs (P.xend - s2.x) / s2.h) = |P.xend - s2.x| := by rw [num_abs]; field_simp
      have hov' : P.direction * (s2.x + L.stretch * (P.direction * s2.h) - P.xend) > 0 := by simpa [hz] using hov
      have hexp : P.direction * (s2.x + L.stretch * (P.direction * s2.h) - P.xend)
          = P.direction * (s2.x - P.xend) + L.stretch * s2.h := by
        have : P.direction * (L.stretch * (P.direction * s2.h)) = (P.direction * P.direction) * (L.stretch * s2.h) := by ring
        rw [mul_sub, mul_add, this, hd]; ring
      have hinv2 : P.direction * (s2.x - P.xend) ≤ 0 := by rw [h2x]; exact hi
      -- |xend − x| = direction · (xend − x) < stretch · h
      have hdist : |P.xend - s2.x| = P.direction * (P.xend - s2.x) := by
        have h0 : 0 ≤ P.direction * (P.xend - s2.x) := by nlinarith
        have : |P.direction * (P.xend - s2.x)| = |P.xend - s2.x| := habs _
        rw [← this, abs_of_nonneg h0]
      have hlt : |P.xend - s2.x| < L.stretch * s2.h := by
        rw [hdist]; rw [hexp] at hov'; nlinarith
      refine ⟨?_, ?_, Or.inr e3⟩
      · rw [e3, e2, hmul, hdist, ← h2x]
        have e : P.direction * (P.direction * (P.xend - s2.x)) = P.xend - s2.x := by rw [← mul_assoc, hd, one_mul]
        rw [e]; ring
      · rw [e2, habs, hmul, abs_abs]
        have : L.stretch * s2.h ≤ L.stretch * P.hmax := mul_le_mul_of_nonneg_left h2h.2 (by linarith)
        exact le_of_lt (lt_of_lt_of_le hlt this)
  · injection hl with hl
    have e2 : hS = P.direction * s2.h := by have := congrArg (fun t => t.2.1) hl; exact this.symm
    have e3 : xN = s2.x + P.direction * s2.h := by have := congrArg (fun t => t.2.2) hl; exact this.symm
    have hle : |hS| ≤ P.hmax := by rw [e2, habs, abs_of_pos h2h.1]; exact h2h.2
    refine ⟨by rw [e3, e2, h2x], ?_, Or.inl hle⟩
    have : P.hmax ≤ L.stretch * P.hmax := by nlinarith
    exact le_trans hle this

end
end BdfCtl
