import IvpModel.Proofs.ScaleDop853
import IvpModel.Proofs.ReflectRk23
set_option linter.unusedSectionVars false
set_option linter.unusedSimpArgs false
set_option linter.unusedTactic false
set_option linter.unnecessarySeqFocus false
set_option linter.unusedVariables false

/-!
  C13, whole runs of RK23 under a scaling of state and absolute tolerance by `c > 0`: the run of `z' = c·f(t, z/c)` from `c·y0`
  with tolerances `(c·atol, rtol)` has the step points, step sizes, error estimates, statuses and counters of the run of
  `y' = f(t, y)` from `y0` with `(atol, rtol)`; states, derivatives, call arguments and interpolant samples are scaled.
-/
namespace Ctl
noncomputable section
variable {K : Type} [Field K] [LinearOrder K] [IsStrictOrderedRing K] [SqrtPow K] {n : Nat}

def sP23 (c : K) (P : R23Params K n) : R23Params K n := { P with atol := vsmul c P.atol }
def sS23 {σ : Type} (c : K) (s : R23State σ K n) : R23State σ K n := { s with y := vsmul c s.y, k1 := vsmul c s.k1, m := sMeter c s.m }
def sOut23 {σ : Type} (c : K) : Sum (R23State σ K n) (Result σ K n) → Sum (R23State σ K n) (Result σ K n)
  | .inl s => .inl (sS23 c s)
  | .inr r => .inr (sResult c r)

section regions
open Gen.Rk23
theorem l1_scale (c : K) (y k1 : Vector K n) (h : K) : stages_loop1 (y := vsmul c y) (h := h) (k1 := vsmul c k1) = vsmul c (stages_loop1 (y := y) (h := h) (k1 := k1)) := by
  ext i hi; simp [stages_loop1, vsmul]; ring
theorem l2_scale (c : K) (y k2 : Vector K n) (h : K) : stages_loop2 (y := vsmul c y) (h := h) (k2 := vsmul c k2) = vsmul c (stages_loop2 (y := y) (h := h) (k2 := k2)) := by
  ext i hi; simp [stages_loop2, vsmul]; ring
theorem l3_scale (c : K) (y k1 k2 k3 : Vector K n) (h : K) :
    stages_loop3 (y := vsmul c y) (h := h) (k1 := vsmul c k1) (k2 := vsmul c k2) (k3 := vsmul c k3) = vsmul c (stages_loop3 (y := y) (h := h) (k1 := k1) (k2 := k2) (k3 := k3)) := by
  ext i hi; simp [stages_loop3, vsmul]; ring

def sStages (c : K) (o : StagesOut K n) : StagesOut K n :=
  { yt := vsmul c o.yt, k2 := vsmul c o.k2, calls := o.calls.map (scl c), k3 := vsmul c o.k3, xph := o.xph, k4 := vsmul c o.k4 }

theorem stages23_scale_off (c : K) (hc : c ≠ 0) (F : Rhs K n) (c0 : Nat) (y k1 : Vector K n) (x h : K) (last : Bool) (xend : K) :
    stages (f := fun j => sRhs c F (c0 + j)) (y := vsmul c y) (h := h) (k1 := vsmul c k1) (x := x) (last := last) (xend := xend)
      = sStages c (stages (f := fun j => F (c0 + j)) (y := y) (h := h) (k1 := k1) (x := x) (last := last) (xend := xend)) := by
  simp only [stages, sStages, sRhs, l1_scale, l2_scale, l3_scale, vsmul_inv c hc]
  simp [scl]

theorem errvec_scale (c : K) (k1 k2 k3 k4 : Vector K n) (h : K) :
    (errvec (h := h) (k1 := vsmul c k1) (k2 := vsmul c k2) (k3 := vsmul c k3) (k4 := vsmul c k4)).ye
      = vsmul c (errvec (h := h) (k1 := k1) (k2 := k2) (k3 := k3) (k4 := k4)).ye := by
  ext i hi; simp [errvec, errvec_loop1, vsmul]; ring

theorem errnorm23_scale (c : K) (hc : 0 < c) (atol rtol yt y ye : Vector K n) :
    errnorm (atol := vsmul c atol) (rtol := rtol) (yt := vsmul c yt) (y := vsmul c y) (ye := vsmul c ye)
      = errnorm (atol := atol) (rtol := rtol) (yt := yt) (y := y) (ye := ye) := by
  simp only [errnorm, errnorm_loop1, vsmul_get, num_abs, num_fmax, ratio_max_scale c hc]

theorem dense23_scale (c : K) (ye k1 k2 k3 k4 : Vector K n) :
    let d := dense (ye := ye) (k1 := k1) (k2 := k2) (k3 := k3) (k4 := k4)
    let d' := dense (ye := vsmul c ye) (k1 := vsmul c k1) (k2 := vsmul c k2) (k3 := vsmul c k3) (k4 := vsmul c k4)
    d'.cont0 = vsmul c d.cont0 ∧ d'.cont1 = vsmul c d.cont1 ∧ d'.cont2 = vsmul c d.cont2 ∧ d'.cont3 = vsmul c d.cont3 := by
  intro d d'
  refine ⟨rfl, ?_, ?_, ?_⟩ <;> (ext i hi; simp [d, d', dense, dense_loop1, vsmul]; try ring)

theorem interp23_scale (c : K) (c0 c1 c2 c3 : Vector K n) (xold h xi : K) :
    interpolate (xi := xi) (xold := xold) (h := h) (cont0 := vsmul c c0) (cont1 := vsmul c c1) (cont2 := vsmul c c2) (cont3 := vsmul c c3)
      = vsmul c (interpolate (xi := xi) (xold := xold) (h := h) (cont0 := c0) (cont1 := c1) (cont2 := c2) (cont3 := c3)) := by
  simp only [interpolate, interpolate_loop1]
  generalize (xi - xold) / h = t
  ext i hi
  simp [vsmul]
  ring
end regions

theorem ip23_scale (c : K) (dn : Bool) (y0 k1 k2 k3 k4 : Vec K n) (x h : K) :
    (if dn = true then
        some fun xi => Gen.Rk23.interpolate (xi := xi) (xold := x) (h := h)
          (cont0 := (Gen.Rk23.dense (ye := vsmul c y0) (k1 := vsmul c k1) (k2 := vsmul c k2) (k3 := vsmul c k3) (k4 := vsmul c k4)).cont0)
          (cont1 := (Gen.Rk23.dense (ye := vsmul c y0) (k1 := vsmul c k1) (k2 := vsmul c k2) (k3 := vsmul c k3) (k4 := vsmul c k4)).cont1)
          (cont2 := (Gen.Rk23.dense (ye := vsmul c y0) (k1 := vsmul c k1) (k2 := vsmul c k2) (k3 := vsmul c k3) (k4 := vsmul c k4)).cont2)
          (cont3 := (Gen.Rk23.dense (ye := vsmul c y0) (k1 := vsmul c k1) (k2 := vsmul c k2) (k3 := vsmul c k3) (k4 := vsmul c k4)).cont3)
      else none)
    = sIp c (if dn = true then
        some fun xi => Gen.Rk23.interpolate (xi := xi) (xold := x) (h := h)
          (cont0 := (Gen.Rk23.dense (ye := y0) (k1 := k1) (k2 := k2) (k3 := k3) (k4 := k4)).cont0)
          (cont1 := (Gen.Rk23.dense (ye := y0) (k1 := k1) (k2 := k2) (k3 := k3) (k4 := k4)).cont1)
          (cont2 := (Gen.Rk23.dense (ye := y0) (k1 := k1) (k2 := k2) (k3 := k3) (k4 := k4)).cont2)
          (cont3 := (Gen.Rk23.dense (ye := y0) (k1 := k1) (k2 := k2) (k3 := k3) (k4 := k4)).cont3)
      else none) := by
  obtain ⟨d0, d1, d2, d3⟩ := dense23_scale c y0 k1 k2 k3 k4
  cases dn with
  | false => rfl
  | true =>
    simp only [if_true, sIp, Option.map]
    congr 1
    funext xi
    rw [d0, d1, d2, d3]
    exact interp23_scale c _ _ _ _ x h xi

def sTrial (c : K) (T : R23Trial K n) : R23Trial K n := { o := sStages c T.o, m := sMeter c T.m, err := T.err }

theorem rk23Trial_scale {σ : Type} (c : K) (hc : 0 < c) (P : R23Params K n) (f : Rhs K n) (s : R23State σ K n) (h : K) (L : Bool) :
    rk23Trial (sP23 c P) (sRhs c f) (sS23 c s) h L = sTrial c (rk23Trial P f s h L) := by
  unfold rk23Trial sTrial
  dsimp only [sS23, sP23]
  simp only [sMeter_ncalls, stages23_scale_off c hc.ne']
  congr 1
  · simp only [sStages, sMeter_bump]
  · simp only [sStages, errvec_scale, finiteGuard, vecFinite_field, if_true, errnorm23_scale c hc]

theorem rk23Accepted_scale {σ : Type} (c : K) (hc : c ≠ 0) (P : R23Params K n) (f : Rhs K n) (ob : Obs σ K n) (x hs : K) (y k1 : Vec K n)
    (m : Meter K n) (obs : σ) (h : K) (L : Bool) (T : R23Trial K n) :
    rk23Accepted (sP23 c P) (sRhs c f) (sObs c ob) (sS23 c { x := x, h := hs, y := y, k1 := k1, m := m, obs := obs }) h L (sTrial c T)
      = sOut23 c (rk23Accepted P f ob { x := x, h := hs, y := y, k1 := k1, m := m, obs := obs } h L T) := by
  obtain ⟨xend, posneg, safety, smin, smax, hmax, nmax, dns, atol, rtol, one, q1, q2, q3⟩ := P
  obtain ⟨⟨oyt, ok2, ocalls, ok3, oxph, ok4⟩, tm, terr⟩ := T
  unfold rk23Accepted
  dsimp (config := { instances := true }) only [sS23, sP23, sTrial, sStages]
  rw [ip23_scale]
  generalize (if dns = true then
      some fun xi => Gen.Rk23.interpolate (xi := xi) (xold := x) (h := h)
        (cont0 := (Gen.Rk23.dense (ye := y) (k1 := k1) (k2 := ok2) (k3 := ok3) (k4 := ok4)).cont0)
        (cont1 := (Gen.Rk23.dense (ye := y) (k1 := k1) (k2 := ok2) (k3 := ok3) (k4 := ok4)).cont1)
        (cont2 := (Gen.Rk23.dense (ye := y) (k1 := k1) (k2 := ok2) (k3 := ok3) (k4 := ok4)).cont2)
        (cont3 := (Gen.Rk23.dense (ye := y) (k1 := k1) (k2 := ok2) (k3 := ok3) (k4 := ok4)).cont3)
    else none) = IP
  rw [sampleInterp_scale, ← sMeter_incTotal, ← sMeter_incAccepted, ← sMeter_cb, afterCb_scale c hc]
  cases afterCb f ob obs (tm.incTotal.incAccepted.cb x (landX L xend x h) oyt (sampleInterp IP x (landX L xend x h) q1 q2 q3)) x (landX L xend x h) oyt IP ok4 with
  | stop o yy => rfl
  | go o yy kk mm =>
    simp only [sAfter]
    by_cases hx : (L || Num.eqb (landX L xend x h) xend) = true
    · rw [if_pos hx, if_pos hx]; rfl
    · rw [if_neg hx, if_neg hx]; rfl

theorem rk23Pass_scale {σ : Type} (c : K) (hc : 0 < c) (P : R23Params K n) (f : Rhs K n) (ob : Obs σ K n) (x hs : K) (y k1 : Vec K n)
    (m : Meter K n) (obs : σ) (h : K) (L : Bool) :
    rk23Pass (sP23 c P) (sRhs c f) (sObs c ob) (sS23 c { x := x, h := hs, y := y, k1 := k1, m := m, obs := obs }) h L
      = sOut23 c (rk23Pass P f ob { x := x, h := hs, y := y, k1 := k1, m := m, obs := obs } h L) := by
  unfold rk23Pass
  rw [rk23Trial_scale c hc]
  generalize rk23Trial P f { x := x, h := hs, y := y, k1 := k1, m := m, obs := obs } h L = T
  have he : (sTrial c T).err = T.err := rfl
  have ho : (sP23 c P).one = P.one := rfl
  dsimp only
  rw [he, ho]
  by_cases hacc : T.err ≤ P.one
  · rw [if_pos hacc, if_pos hacc]
    exact rk23Accepted_scale c hc.ne' P f ob x hs y k1 m obs h L T
  · rw [if_neg hacc, if_neg hacc]
    rfl

theorem rk23Iter_scale {σ : Type} (c : K) (hc : 0 < c) (P : R23Params K n) (f : Rhs K n) (ob : Obs σ K n) (s : R23State σ K n) :
    rk23Iter (sP23 c P) (sRhs c f) (sObs c ob) (sS23 c s) = sOut23 c (rk23Iter P f ob s) := by
  rw [rk23Iter_eq_pass, rk23Iter_eq_pass]
  have hg : rk23Guard (sP23 c P) (sS23 c s) = rk23Guard P s := rfl
  have ha : rk23Adjust (sP23 c P) (sS23 c s) = rk23Adjust P s := rfl
  have hl : rk23Last (sP23 c P) (sS23 c s) = rk23Last P s := rfl
  rw [hg]
  cases hgq : rk23Guard P s with
  | some st => rfl
  | none =>
    dsimp only
    rw [ha, hl]
    obtain ⟨x, hs, y, k1, m, obs⟩ := s
    exact rk23Pass_scale c hc P f ob x hs y k1 m obs _ _

theorem rk23Loop_scale {σ : Type} (c : K) (hc : 0 < c) (P : R23Params K n) (f : Rhs K n) (ob : Obs σ K n) :
    ∀ (fuel : Nat) (s : R23State σ K n),
      rk23Loop (sP23 c P) (sRhs c f) (sObs c ob) fuel (sS23 c s) = (rk23Loop P f ob fuel s).map (sResult c) := by
  intro fuel
  induction fuel with
  | zero => intro s; rfl
  | succ fuel ih =>
    intro s
    unfold rk23Loop
    rw [rk23Iter_scale c hc P f ob s]
    cases hq : rk23Iter P f ob s with
    | inr r => rfl
    | inl s' => exact ih s'

theorem rk23Start_scale {σ : Type} (c : K) (hc : 0 < c) (P : R23Params K n) (f : Rhs K n) (ob : Obs σ K n) (obs0 : σ) (x0 : K) (y0 : Vec K n)
    (firstStep : Option K) (hmaxArg : K) :
    rk23Start (sP23 c P) (sRhs c f) (sObs c ob) obs0 x0 (vsmul c y0) firstStep hmaxArg = sOut23 c (rk23Start P f ob obs0 x0 y0 firstStep hmaxArg) := by
  unfold rk23Start startMeter
  have hk : sRhs c f 0 x0 (vsmul c y0) = vsmul c (f 0 x0 y0) := by simp [sRhs, vsmul_inv c hc.ne']
  have hm0 : (({} : Meter K n).bump #[(x0, vsmul c y0)] 1) = sMeter c (({} : Meter K n).bump #[(x0, y0)] 1) := by
    rw [sMeter_bump]; simp [sMeter, scl]
  have hcb : ∀ M : Meter K n, (sMeter c M).cb x0 x0 (vsmul c y0) #[] = sMeter c (M.cb x0 x0 y0 #[]) := by
    intro M; rw [sMeter_cb]; simp
  cases firstStep with
  | some h0 =>
    dsimp only [sP23]
    rw [hk, hm0, hcb]
    have ha := afterCb_scale c hc.ne' f ob obs0 ((({} : Meter K n).bump #[(x0, y0)] 1).cb x0 x0 y0 #[]) x0 x0 y0 none (f 0 x0 y0)
    rw [show sIp c (none : Option (K → Vec K n)) = none from rfl] at ha
    rw [ha]
    cases afterCb f ob obs0 ((({} : Meter K n).bump #[(x0, y0)] 1).cb x0 x0 y0 #[]) x0 x0 y0 none (f 0 x0 y0) with
    | stop o yy => rfl
    | go o yy kk mm => rfl
  | none =>
    dsimp only [sP23]
    obtain ⟨g1, g2⟩ := hinit_scale_gen c hc (fun j => f (1 + j)) P.atol P.rtol y0 (f 0 x0 y0) hmaxArg P.posneg x0 Gen.Static.rk23_hinitOrder
    rw [hk, hm0]
    have e1 : (Gen.Common.hinit (f := fun j => sRhs c f (1 + j)) (atol := vsmul c P.atol) (rtol := P.rtol) (y := vsmul c y0) (f0 := vsmul c (f 0 x0 y0)) (hmax := hmaxArg)
        (posneg := P.posneg) (x := x0) (iord := Gen.Static.rk23_hinitOrder)).1 = _ := g1
    have e2 : (Gen.Common.hinit (f := fun j => sRhs c f (1 + j)) (atol := vsmul c P.atol) (rtol := P.rtol) (y := vsmul c y0) (f0 := vsmul c (f 0 x0 y0)) (hmax := hmaxArg)
        (posneg := P.posneg) (x := x0) (iord := Gen.Static.rk23_hinitOrder)).2 = _ := g2
    rw [e1, e2, ← sMeter_bump, hcb]
    have ha := afterCb_scale c hc.ne' f ob obs0 (((({} : Meter K n).bump #[(x0, y0)] 1).bump
      (Gen.Common.hinit (f := fun j => f (1 + j)) (atol := P.atol) (rtol := P.rtol) (y := y0) (f0 := f 0 x0 y0) (hmax := hmaxArg)
        (posneg := P.posneg) (x := x0) (iord := Gen.Static.rk23_hinitOrder)).2 1).cb x0 x0 y0 #[]) x0 x0 y0 none (f 0 x0 y0)
    rw [show sIp c (none : Option (K → Vec K n)) = none from rfl] at ha
    rw [ha]
    cases afterCb f ob obs0 (((({} : Meter K n).bump #[(x0, y0)] 1).bump
      (Gen.Common.hinit (f := fun j => f (1 + j)) (atol := P.atol) (rtol := P.rtol) (y := y0) (f0 := f 0 x0 y0) (hmax := hmaxArg)
        (posneg := P.posneg) (x := x0) (iord := Gen.Static.rk23_hinitOrder)).2 1).cb x0 x0 y0 #[]) x0 x0 y0 none (f 0 x0 y0) with
    | stop o yy => rfl
    | go o yy kk mm => rfl

/-- **C13 (RK23, whole run under a scaling of state and atol by `c > 0`, automatic or given first step).** -/
theorem rk23Solve_scale {σ : Type} (c : K) (hc : 0 < c) (P : R23Params K n) (f : Rhs K n) (ob : Obs σ K n) (obs0 : σ) (x0 : K) (y0 : Vec K n)
    (firstStep : Option K) (hmaxArg : K) (fuel : Nat) :
    rk23Solve (sP23 c P) (sRhs c f) (sObs c ob) obs0 x0 (vsmul c y0) firstStep hmaxArg fuel
      = (rk23Solve P f ob obs0 x0 y0 firstStep hmaxArg fuel).map (sResult c) := by
  unfold rk23Solve
  rw [rk23Start_scale c hc P f ob obs0 x0 y0 firstStep hmaxArg]
  cases hq : rk23Start P f ob obs0 x0 y0 firstStep hmaxArg with
  | inr r => rfl
  | inl s => exact rk23Loop_scale c hc P f ob fuel s

end
end Ctl
