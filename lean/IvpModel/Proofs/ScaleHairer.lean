import IvpModel.Proofs.ScaleBase
import IvpModel.Model.Kernels
set_option linter.unusedSectionVars false
set_option linter.unusedSimpArgs false
set_option linter.unusedTactic false
set_option linter.unnecessarySeqFocus false
set_option linter.unusedVariables false

/-!
  C13, whole runs of the DOPRI5 / DOP853 skeleton under a scaling of the state, for ANY pair of numeric kernels `Kn`, `Kn'`
  related by the scaling laws `KScale` (think: the same method with tolerances `atol` and `c·atol`).  The times, step sizes,
  error estimates, accept / reject decisions and counters of the scaled problem are those of the problem; states,
  derivatives, interpolant samples and call arguments are scaled.  Induction over the loop of Model/Hairer.lean.
-/
namespace Ctl
noncomputable section
variable {K : Type} [Field K] [LinearOrder K] [IsStrictOrderedRing K] [SqrtPow K] {n : Nat}

/-- scaling laws relating two numeric kernels -/
structure KScale (c : K) (Kn Kn' : HKernel K n) where
  sS : Kn.S → Kn'.S
  sSA : Kn.SA → Kn'.SA
  trial : ∀ (F : Rhs K n) (c0 : Nat) (x h : K) (last : Bool) (xend : K) (y k1 : Vec K n),
    Kn'.trial (fun j => sRhs c F (c0 + j)) x h last xend (vsmul c y) (vsmul c k1)
      = (sS (Kn.trial (fun j => F (c0 + j)) x h last xend y k1).1, (Kn.trial (fun j => F (c0 + j)) x h last xend y k1).2.1.map (scl c),
         (Kn.trial (fun j => F (c0 + j)) x h last xend y k1).2.2)
  err : ∀ (s : Kn.S) (y : Vec K n) (h : K), Kn'.err (sS s) (vsmul c y) h = Kn.err s y h
  acceptA : ∀ (F : Rhs K n) (c0 : Nat) (s : Kn.S) (x h : K) (y k1 : Vec K n),
    Kn'.acceptA (fun j => sRhs c F (c0 + j)) (sS s) x h (vsmul c y) (vsmul c k1)
      = (sSA (Kn.acceptA (fun j => F (c0 + j)) s x h y k1).1, (Kn.acceptA (fun j => F (c0 + j)) s x h y k1).2.1.map (scl c),
         (Kn.acceptA (fun j => F (c0 + j)) s x h y k1).2.2)
  hlamb : ∀ (a : Kn.SA) (h : K) (y k1 : Vec K n) (old : K), Kn'.hlamb (sSA a) h (vsmul c y) (vsmul c k1) old = Kn.hlamb a h y k1 old
  acceptB : ∀ (F : Rhs K n) (c0 : Nat) (d : Bool) (a : Kn.SA) (x h : K) (y k1 : Vec K n),
    Kn'.acceptB (fun j => sRhs c F (c0 + j)) d (sSA a) x h (vsmul c y) (vsmul c k1)
      = (vsmul c (Kn.acceptB (fun j => F (c0 + j)) d a x h y k1).1, vsmul c (Kn.acceptB (fun j => F (c0 + j)) d a x h y k1).2.1,
         (Kn.acceptB (fun j => F (c0 + j)) d a x h y k1).2.2.1.map (vsmul c), (Kn.acceptB (fun j => F (c0 + j)) d a x h y k1).2.2.2.1.map (scl c),
         (Kn.acceptB (fun j => F (c0 + j)) d a x h y k1).2.2.2.2)
  /-- for the cont blocks the kernel itself builds (`getElem!` on an array of another size would bring `default` in) -/
  interp : ∀ (F : Rhs K n) (c0 : Nat) (a : Kn.SA) (x h : K) (y k1 : Vec K n) (xold hh t : K),
    Kn'.interp ((Kn.acceptB (fun j => F (c0 + j)) true a x h y k1).2.2.1.map (vsmul c)) xold hh t
      = vsmul c (Kn.interp (Kn.acceptB (fun j => F (c0 + j)) true a x h y k1).2.2.1 xold hh t)

def sHS {σ : Type} (c : K) (s : HState σ K n) : HState σ K n := { s with y := vsmul c s.y, k1 := vsmul c s.k1, m := sMeter c s.m }
def sOutH {σ : Type} (c : K) : Sum (HState σ K n) (Result σ K n) → Sum (HState σ K n) (Result σ K n)
  | .inl s => .inl (sHS c s)
  | .inr r => .inr (sResult c r)

theorem hGuard_scale {σ : Type} (c : K) (P : HParams K n) (s : HState σ K n) : hGuard P (sHS c s) = hGuard P s := rfl
theorem hAdjust_scale {σ : Type} (c : K) (P : HParams K n) (s : HState σ K n) : hAdjust P (sHS c s) = hAdjust P s := rfl

def sHT {c : K} {Kn Kn' : HKernel K n} (KS : KScale c Kn Kn') (T : HTrial K n Kn.S) : HTrial K n Kn'.S :=
  { S := KS.sS T.S, m := sMeter c T.m, err := T.err, fac11 := T.fac11, hnew := T.hnew }

theorem hTrial_scale {σ : Type} (c : K) (P : HParams K n) (Kn Kn' : HKernel K n) (KS : KScale c Kn Kn') (f : Rhs K n) (s : HState σ K n)
    (h : K) (L : Bool) :
    hTrial P Kn' (sRhs c f) (sHS c s) h L = sHT KS (hTrial P Kn f s h L) := by
  unfold hTrial sHT
  dsimp only [sHS]
  simp only [sMeter_ncalls, KS.trial, KS.err]
  congr 1
  rw [sMeter_bump]
  rfl

theorem hRejected_scale {σ : Type} (c : K) (P : HParams K n) (s : HState σ K n) (h : K) (m : Meter K n) (fac11 : K) :
    hRejected P (sHS c s) h (sMeter c m) fac11 = sHS c (hRejected P s h m fac11) := by
  unfold hRejected
  simp only [sHS, sMeter_cnt]
  congr 1
  by_cases hc : m.cnt.accepted > 1
  · simp only [hc, if_true, sMeter_incRejected]
  · simp only [hc, if_false]

theorem hStiffTest_scale {σ : Type} (c : K) (P : HParams K n) (Kn Kn' : HKernel K n) (KS : KScale c Kn Kn') (s : HState σ K n) (h : K)
    (sa : Kn.SA) (acc : Nat) :
    hStiffTest P Kn' (sHS c s) h (KS.sSA sa) acc = hStiffTest P Kn s h sa acc := by
  unfold hStiffTest
  dsimp only [sHS]
  simp only [KS.hlamb]
  rfl

theorem hFinish_scale {σ : Type} (c : K) (hc : c ≠ 0) (P : HParams K n) (Kn Kn' : HKernel K n) (KS : KScale c Kn Kn') (f : Rhs K n)
    (ob : Obs σ K n) (s : HState σ K n) (h : K) (last : Bool) (hnew facold hlamb : K) (nonstiff iasti : Nat) (sa : Kn.SA) (m : Meter K n) :
    hFinish P Kn' (sRhs c f) (sObs c ob) (sHS c s) h last hnew facold hlamb nonstiff iasti (KS.sSA sa) (sMeter c m)
      = sOutH c (hFinish P Kn f ob s h last hnew facold hlamb nonstiff iasti sa m) := by
  obtain ⟨xend, posneg, uround, safety, facc1, facc2, beta, expo1, hmax, nmax, nstiff, dns, stiffLimit, one, q1, q2, q3, uf, ufd, lg, lgd, hcalc, hr, fo⟩ := P
  obtain ⟨x, hs, y, k1, facold0, last0, reject, nonstiff0, iasti0, hlamb0, m0, obs⟩ := s
  unfold hFinish
  dsimp (config := { instances := true }) only [sHS]
  simp only [sMeter_ncalls, KS.acceptB]
  have hip : (if dns = true then some (Kn'.interp ((Kn.acceptB (fun j => f (m.ncalls + j)) dns sa x h y k1).2.2.1.map (vsmul c)) x h) else none)
      = sIp c (if dns = true then some (Kn.interp (Kn.acceptB (fun j => f (m.ncalls + j)) dns sa x h y k1).2.2.1 x h) else none) := by
    cases dns with
    | false => rfl
    | true =>
      simp only [if_true, sIp, Option.map]
      congr 1
      funext t
      exact KS.interp f m.ncalls sa x h y k1 x h t
  generalize Kn.acceptB (fun j => f (m.ncalls + j)) dns sa x h y k1 = B at hip ⊢
  obtain ⟨b1, b2, b3, b4, b5⟩ := B
  dsimp only at hip ⊢
  rw [hip]
  generalize (if dns = true then some (Kn.interp b3 x h) else none) = IP
  rw [sampleInterp_scale, ← sMeter_bump, ← sMeter_cb, afterCb_scale c hc]
  cases afterCb f ob obs ((m.bump b4 b5).cb x (landX last xend x h) b1 (sampleInterp IP x (landX last xend x h) q1 q2 q3)) x (landX last xend x h) b1 IP b2 with
  | stop o yy => rfl
  | go o yy kk mm =>
    simp only [sAfter]
    cases last with
    | true => rfl
    | false => rfl

theorem hAccepted_scale {σ : Type} (c : K) (hc : c ≠ 0) (P : HParams K n) (Kn Kn' : HKernel K n) (KS : KScale c Kn Kn') (f : Rhs K n)
    (ob : Obs σ K n) (s : HState σ K n) (h : K) (last : Bool) (T : HTrial K n Kn.S) :
    hAccepted P Kn' (sRhs c f) (sObs c ob) (sHS c s) h last (sHT KS T) = sOutH c (hAccepted P Kn f ob s h last T) := by
  unfold hAccepted
  have hA := KS.acceptA f T.m.incAccepted.ncalls T.S s.x h s.y s.k1
  have e0 : (sHT KS T).m.incAccepted.ncalls = T.m.incAccepted.ncalls := rfl
  have e1 : (sHT KS T).S = KS.sS T.S := rfl
  have e2 : (sHT KS T).m.incAccepted = sMeter c T.m.incAccepted := rfl
  have e3 : (sHT KS T).hnew = T.hnew := rfl
  have e4 : (sHT KS T).err = T.err := rfl
  have ex : (sHS c s).x = s.x := rfl
  have ey : (sHS c s).y = vsmul c s.y := rfl
  have ek : (sHS c s).k1 = vsmul c s.k1 := rfl
  simp only [e0, e1, e2, e3, e4, ex, ey, ek, sMeter_ncalls, hA, ← sMeter_bump, hStiffTest_scale, sMeter_cnt]
  generalize Kn.acceptA (fun j => f (T.m.incAccepted.ncalls + j)) T.S s.x h s.y s.k1 = A
  obtain ⟨a1, a2, a3⟩ := A
  dsimp only
  generalize hStiffTest P Kn s h a1 (T.m.incAccepted.bump a2 a3).cnt.accepted = ST
  obtain ⟨st1, st2, st3, st4⟩ := ST
  dsimp only
  cases st4 with
  | true => rfl
  | false =>
    simp only [Bool.false_eq_true, if_false]
    exact hFinish_scale c hc P Kn Kn' KS f ob s h last T.hnew (P.facoldNew T.err) st1 st2 st3 a1 (T.m.incAccepted.bump a2 a3)

/-- **C13, one pass of the DOPRI5 / DOP853 loop under a scaling of the state.** -/
theorem hIter_scale {σ : Type} (c : K) (hc : c ≠ 0) (P : HParams K n) (Kn Kn' : HKernel K n) (KS : KScale c Kn Kn') (f : Rhs K n)
    (ob : Obs σ K n) (s : HState σ K n) :
    hIter P Kn' (sRhs c f) (sObs c ob) (sHS c s) = sOutH c (hIter P Kn f ob s) := by
  unfold hIter
  rw [hGuard_scale c P s]
  cases hg : hGuard P s with
  | some st => rfl
  | none =>
    dsimp only
    rw [hAdjust_scale c P s]
    rw [hTrial_scale c P Kn Kn' KS f s]
    generalize hTrial P Kn f s (hAdjust P s).1 (hAdjust P s).2 = T
    have he : (sHT KS T).err = T.err := rfl
    rw [he]
    by_cases hacc : T.err ≤ P.one
    · rw [if_pos hacc, if_pos hacc]
      exact hAccepted_scale c hc P Kn Kn' KS f ob s _ _ T
    · rw [if_neg hacc, if_neg hacc]
      show Sum.inl _ = Sum.inl _
      congr 1
      exact hRejected_scale c P s _ T.m T.fac11

theorem hLoop_scale {σ : Type} (c : K) (hc : c ≠ 0) (P : HParams K n) (Kn Kn' : HKernel K n) (KS : KScale c Kn Kn') (f : Rhs K n)
    (ob : Obs σ K n) :
    ∀ (fuel : Nat) (s : HState σ K n),
      hLoop P Kn' (sRhs c f) (sObs c ob) fuel (sHS c s) = (hLoop P Kn f ob fuel s).map (sResult c) := by
  intro fuel
  induction fuel with
  | zero => intro s; rfl
  | succ fuel ih =>
    intro s
    unfold hLoop
    rw [hIter_scale c hc P Kn Kn' KS f ob s]
    cases hq : hIter P Kn f ob s with
    | inr r => rfl
    | inl s' => exact ih s'

/-- scaling law of the initial-step routine handed to `hStart` -/
def HinitScale (c : K) (hinit hinit' : Rhs K n → Vec K n → K × Array (K × Vec K n)) : Prop :=
  ∀ (F : Rhs K n) (k1 : Vec K n), (hinit' (fun j => sRhs c F (1 + j)) (vsmul c k1)).1 = (hinit (fun j => F (1 + j)) k1).1
    ∧ (hinit' (fun j => sRhs c F (1 + j)) (vsmul c k1)).2 = (hinit (fun j => F (1 + j)) k1).2.map (scl c)

theorem hStart_scale {σ : Type} (c : K) (hc : c ≠ 0) (P : HParams K n) (f : Rhs K n) (ob : Obs σ K n) (obs0 : σ) (x0 : K) (y0 : Vec K n)
    (firstStep : Option K) (hinit hinit' : Rhs K n → Vec K n → K × Array (K × Vec K n)) (hH : HinitScale c hinit hinit') (fo hl : K) :
    hStart P (sRhs c f) (sObs c ob) obs0 x0 (vsmul c y0) firstStep hinit' fo hl = sOutH c (hStart P f ob obs0 x0 y0 firstStep hinit fo hl) := by
  unfold hStart startMeter
  have hk : sRhs c f 0 x0 (vsmul c y0) = vsmul c (f 0 x0 y0) := by simp [sRhs, vsmul_inv c hc]
  have hm0 : (({} : Meter K n).bump #[(x0, vsmul c y0)] 1) = sMeter c (({} : Meter K n).bump #[(x0, y0)] 1) := by
    rw [sMeter_bump]; simp [sMeter, scl]
  cases firstStep with
  | some h0 =>
    dsimp only
    rw [hk, hm0]
    have hcb : (sMeter c (({} : Meter K n).bump #[(x0, y0)] 1)).cb x0 x0 (vsmul c y0) #[] = sMeter c ((({} : Meter K n).bump #[(x0, y0)] 1).cb x0 x0 y0 #[]) := by
      rw [sMeter_cb]; simp
    rw [hcb]
    have ha := afterCb_scale c hc f ob obs0 ((({} : Meter K n).bump #[(x0, y0)] 1).cb x0 x0 y0 #[]) x0 x0 y0 none (f 0 x0 y0)
    rw [show sIp c (none : Option (K → Vec K n)) = none from rfl] at ha
    rw [ha]
    cases afterCb f ob obs0 ((({} : Meter K n).bump #[(x0, y0)] 1).cb x0 x0 y0 #[]) x0 x0 y0 none (f 0 x0 y0) with
    | stop o yy => rfl
    | go o yy kk mm => rfl
  | none =>
    dsimp only
    obtain ⟨g1, g2⟩ := hH f (f 0 x0 y0)
    rw [hk, hm0, g1, g2, ← sMeter_bump]
    have hcb : ∀ M : Meter K n, (sMeter c M).cb x0 x0 (vsmul c y0) #[] = sMeter c (M.cb x0 x0 y0 #[]) := by
      intro M; rw [sMeter_cb]; simp
    rw [hcb]
    have ha := afterCb_scale c hc f ob obs0 (((({} : Meter K n).bump #[(x0, y0)] 1).bump (hinit (fun j => f (1 + j)) (f 0 x0 y0)).2 1).cb x0 x0 y0 #[]) x0 x0 y0 none (f 0 x0 y0)
    rw [show sIp c (none : Option (K → Vec K n)) = none from rfl] at ha
    rw [ha]
    cases afterCb f ob obs0 (((({} : Meter K n).bump #[(x0, y0)] 1).bump (hinit (fun j => f (1 + j)) (f 0 x0 y0)).2 1).cb x0 x0 y0 #[]) x0 x0 y0 none (f 0 x0 y0) with
    | stop o yy => rfl
    | go o yy kk mm => rfl

/-- **C13, whole runs of the DOPRI5 / DOP853 skeleton under a scaling of the state**: for kernels related by the scaling
    laws, `solve` on the scaled problem (scaled right-hand side, observer that sees the unscaled state, scaled initial
    state) is the scaled image of `solve` on the problem: same times, steps, statuses and counters. -/
theorem hSolve_scale {σ : Type} (c : K) (hc : c ≠ 0) (P : HParams K n) (Kn Kn' : HKernel K n) (KS : KScale c Kn Kn') (f : Rhs K n)
    (ob : Obs σ K n) (obs0 : σ) (x0 : K) (y0 : Vec K n) (firstStep : Option K)
    (hinit hinit' : Rhs K n → Vec K n → K × Array (K × Vec K n)) (hH : HinitScale c hinit hinit') (fo hl : K) (fuel : Nat) :
    hSolve P Kn' (sRhs c f) (sObs c ob) obs0 x0 (vsmul c y0) firstStep hinit' fo hl fuel
      = (hSolve P Kn f ob obs0 x0 y0 firstStep hinit fo hl fuel).map (sResult c) := by
  unfold hSolve
  rw [hStart_scale c hc P f ob obs0 x0 y0 firstStep hinit hinit' hH fo hl]
  cases hq : hStart P f ob obs0 x0 y0 firstStep hinit fo hl with
  | inr r => rfl
  | inl s => exact hLoop_scale c hc P Kn Kn' KS f ob fuel s

end
end Ctl
