/-
  Facts about the Python-layer model (Model/PyLayer.lean): status map, SciPy layout for every shape, soundness of the
  greedy column grouping for every pattern, and grouped = one-column-at-a-time finite differences for every
  right-hand side that respects the pattern (any number system: no arithmetic law is used).
-/
import IvpModel.Model.PyLayer
namespace Py

/-! ### status -/
theorem statusInt_values (st : Status) : statusInt st = 0 ∨ statusInt st = 1 ∨ statusInt st = -1 := by
  cases st <;> simp [statusInt]
theorem statusInt_zero_iff (st : Status) : statusInt st = 0 ↔ st = .success := by cases st <;> simp [statusInt]
theorem statusInt_one_iff (st : Status) : statusInt st = 1 ↔ st = .userInterrupt := by cases st <;> simp [statusInt]
theorem success_iff (st : Status) : successFlag st = true ↔ statusInt st ≥ 0 := by simp [successFlag]
theorem success_eq_rust (st : Status) : successFlag st = rustIsSuccess st := by
  cases st <;> simp [successFlag, statusInt, rustIsSuccess]
theorem ofName_name (st : Status) : Status.ofName st.name = some st := by cases st <;> decide

/-! ### layout -/
theorem transposeY_spec [Inhabited α] (n : Nat) (ys : Array (Array α)) :
    let r := transposeY n ys
    r.1 = n ∧ r.2.1 = ys.size ∧ r.2.2.size = n * ys.size ∧
    ∀ i j, i < ys.size → j < n → r.2.2[j * ys.size + i]! = (ys[i]!)[j]! := by
  intro r
  refine ⟨rfl, rfl, by simp [r, transposeY], ?_⟩
  intro i j hi hj
  have hm : 0 < ys.size := by omega
  have hlt : j * ys.size + i < n * ys.size := by
    calc j * ys.size + i < j * ys.size + ys.size := by omega
      _ = (j + 1) * ys.size := by rw [Nat.add_mul, Nat.one_mul]
      _ ≤ n * ys.size := Nat.mul_le_mul_right _ hj
  have h1 : (j * ys.size + i) % ys.size = i := by
    rw [Nat.add_comm, Nat.add_mul_mod_self_right, Nat.mod_eq_of_lt hi]
  have h2 : (j * ys.size + i) / ys.size = j := by
    rw [Nat.add_comm, Nat.add_mul_div_right _ _ hm, Nat.div_eq_of_lt hi, Nat.zero_add]
  show (transposeY n ys).2.2[j * ys.size + i]! = _
  simp only [transposeY]
  rw [getElem!_pos _ _ (by simpa using hlt)]
  simp [h1, h2]

theorem transposeFlat_spec [Inhabited α] (flat : Array α) (k n : Nat) :
    (transposeFlat flat k n).size = k * n ∧
    ∀ i j, i < k → j < n → (transposeFlat flat k n)[j * k + i]! = flat[i * n + j]! := by
  refine ⟨by simp [transposeFlat], ?_⟩
  intro i j hi hj
  have hm : 0 < k := by omega
  have hlt : j * k + i < k * n := by
    calc j * k + i < j * k + k := by omega
      _ = (j + 1) * k := by rw [Nat.add_mul, Nat.one_mul]
      _ ≤ n * k := Nat.mul_le_mul_right _ hj
      _ = k * n := Nat.mul_comm _ _
  have h1 : (j * k + i) % k = i := by rw [Nat.add_comm, Nat.add_mul_mod_self_right, Nat.mod_eq_of_lt hi]
  have h2 : (j * k + i) / k = j := by rw [Nat.add_comm, Nat.add_mul_div_right _ _ hm, Nat.div_eq_of_lt hi, Nat.zero_add]
  simp only [transposeFlat]
  rw [getElem!_pos _ _ (by simpa using hlt)]
  simp [h1, h2]

/-! ### column grouping -/

structure Inv (cols : List (List Nat)) (st : List (List Nat) × List Nat) : Prop where
  len : st.2.length = cols.length
  bound : ∀ c, c < cols.length → st.2.getD c 0 < st.1.length
  covers : ∀ c, c < cols.length → ∀ r ∈ cols.getD c [], r ∈ st.1.getD (st.2.getD c 0) []
  sound : ∀ c1 c2, c1 < c2 → c2 < cols.length → st.2.getD c1 0 = st.2.getD c2 0 →
            ∀ r ∈ cols.getD c1 [], r ∉ cols.getD c2 []

theorem inv_nil : Inv [] ([], []) := ⟨rfl, by simp, by simp, by simp⟩

theorem canUse_spec {used rows : List Nat} (h : canUse used rows = true) : ∀ r ∈ rows, r ∉ used := by
  intro r hr
  simp [canUse, List.all_eq_true] at h
  exact h r hr

theorem inv_step (pre : List (List Nat)) (st : List (List Nat) × List Nat) (rows : List Nat) (h : Inv pre st) :
    Inv (pre ++ [rows]) (assign st rows) := by
  obtain ⟨hl, hb, hc, hs⟩ := h
  unfold assign
  split
  · rename_i g hg
    rw [List.findIdx?_eq_some_iff_getElem] at hg
    obtain ⟨hgl, hcan, _⟩ := hg
    have hfree := canUse_spec hcan
    refine ⟨by simp [hl], ?_, ?_, ?_⟩
    · intro c hc'
      simp only [List.length_append, List.length_singleton] at hc'
      simp only [List.length_modify]
      by_cases hlt : c < pre.length
      · have := hb c hlt
        simpa [List.getD_eq_getElem?_getD, List.getElem?_append_left, hl, hlt] using this
      · have : c = pre.length := by omega
        subst this
        simpa [List.getD_eq_getElem?_getD, ← hl] using hgl
    · intro c hc' r hr
      simp only [List.length_append, List.length_singleton] at hc'
      by_cases hlt : c < pre.length
      · have h1 := hc c hlt r (by simpa [List.getD_eq_getElem?_getD, List.getElem?_append_left, hlt] using hr)
        have hbb := hb c hlt
        simp only [List.getD_eq_getElem?_getD, List.getElem?_append_left, hl, hlt] at h1 hbb ⊢
        rw [List.getElem?_modify]
        rw [List.getElem?_eq_getElem hbb] at h1 ⊢
        simp only [Option.map_some, Option.getD_some] at h1 ⊢
        split
        · exact List.mem_append_left _ h1
        · exact h1
      · have : c = pre.length := by omega
        subst this
        have hr' : r ∈ rows := by simpa [List.getD_eq_getElem?_getD] using hr
        simp only [List.getD_eq_getElem?_getD, ← hl, List.getElem?_append_right (Nat.le_refl _), Nat.sub_self,
          List.getElem?_cons_zero, Option.getD_some]
        rw [List.getElem?_modify, List.getElem?_eq_getElem hgl]
        simp [hr']
    · intro c1 c2 h12 h2 heq r hr
      simp only [List.length_append, List.length_singleton] at h2
      by_cases hlt : c2 < pre.length
      · have := hs c1 c2 h12 hlt
        simp only [List.getD_eq_getElem?_getD, List.getElem?_append_left, hl, hlt, (by omega : c1 < pre.length)] at this heq hr ⊢
        exact this heq r hr
      · have : c2 = pre.length := by omega
        subst this
        have h1lt : c1 < pre.length := h12
        have hcov := hc c1 h1lt r (by simpa [List.getD_eq_getElem?_getD, List.getElem?_append_left, h1lt] using hr)
        have e1 : (st.2 ++ [g]).getD c1 0 = st.2.getD c1 0 := by
          simp [List.getD_eq_getElem?_getD, List.getElem?_append_left, hl, h1lt]
        have e2 : (st.2 ++ [g]).getD pre.length 0 = g := by rw [← hl]; simp [List.getD_eq_getElem?_getD]
        have hg1 : st.2.getD c1 0 = g := e1.symm.trans (heq.trans e2)
        rw [hg1] at hcov
        have : r ∈ st.1[g] := by simpa [List.getD_eq_getElem?_getD, List.getElem?_eq_getElem hgl] using hcov
        intro hr2
        have hr2' : r ∈ rows := by simpa [List.getD_eq_getElem?_getD] using hr2
        exact hfree r hr2' this
  · rename_i hnone
    refine ⟨by simp [hl], ?_, ?_, ?_⟩
    · intro c hc'
      simp only [List.length_append, List.length_singleton] at hc' ⊢
      by_cases hlt : c < pre.length
      · have := hb c hlt
        simp only [List.getD_eq_getElem?_getD, List.getElem?_append_left, hl, hlt] at this ⊢
        omega
      · have : c = pre.length := by omega
        subst this
        simp [List.getD_eq_getElem?_getD, ← hl]
    · intro c hc' r hr
      simp only [List.length_append, List.length_singleton] at hc'
      by_cases hlt : c < pre.length
      · have h1 := hc c hlt r (by simpa [List.getD_eq_getElem?_getD, List.getElem?_append_left, hlt] using hr)
        have hbb := hb c hlt
        simp only [List.getD_eq_getElem?_getD, List.getElem?_append_left, hl, hlt] at h1 hbb ⊢
        rw [List.getElem?_append_left hbb]
        exact h1
      · have : c = pre.length := by omega
        subst this
        have hr' : r ∈ rows := by simpa [List.getD_eq_getElem?_getD] using hr
        simp [List.getD_eq_getElem?_getD, ← hl, hr']
    · intro c1 c2 h12 h2 heq r hr
      simp only [List.length_append, List.length_singleton] at h2
      by_cases hlt : c2 < pre.length
      · have := hs c1 c2 h12 hlt
        simp only [List.getD_eq_getElem?_getD, List.getElem?_append_left, hl, hlt, (by omega : c1 < pre.length)] at this heq hr ⊢
        exact this heq r hr
      · have : c2 = pre.length := by omega
        subst this
        have h1lt : c1 < pre.length := h12
        have hbb := hb c1 h1lt
        have e1 : (st.2 ++ [st.1.length]).getD c1 0 = st.2.getD c1 0 := by
          simp [List.getD_eq_getElem?_getD, List.getElem?_append_left, hl, h1lt]
        have e2 : (st.2 ++ [st.1.length]).getD pre.length 0 = st.1.length := by rw [← hl]; simp [List.getD_eq_getElem?_getD]
        have : st.2.getD c1 0 = st.1.length := e1.symm.trans (heq.trans e2)
        omega

theorem inv_fold (rest pre : List (List Nat)) (st : List (List Nat) × List Nat) (h : Inv pre st) :
    Inv (pre ++ rest) (rest.foldl assign st) := by
  induction rest generalizing pre st with
  | nil => simpa using h
  | cons rows rest ih =>
    have := ih (pre ++ [rows]) (assign st rows) (inv_step pre st rows h)
    simpa using this

/-- **C20, grouping.**  Whenever `group_columns` returns (i.e. every row index is < n), every column has a group below
    `n_groups`, and two different columns of one group share no row. -/
theorem groupColumns_sound (cols : List (List Nat)) (n : Nat) (groups : List Nat) (k : Nat)
    (h : groupColumns cols n = some (groups, k)) :
    groups.length = cols.length ∧ (∀ c, c < cols.length → groups.getD c 0 < k) ∧
    ∀ c1 c2, c1 < cols.length → c2 < cols.length → c1 ≠ c2 → groups.getD c1 0 = groups.getD c2 0 →
      ∀ r, r ∈ cols.getD c1 [] → r ∉ cols.getD c2 [] := by
  unfold groupColumns at h
  split at h
  · have hi := inv_fold cols [] ([], []) inv_nil
    simp only [List.nil_append] at hi
    injection h with h
    injection h with hg hk
    subst hg; subst hk
    refine ⟨hi.len, hi.bound, ?_⟩
    intro c1 c2 h1 h2 hne heq r hr hr2
    rcases Nat.lt_or_gt_of_ne hne with hlt | hgt
    · exact hi.sound c1 c2 hlt h2 heq r hr hr2
    · exact hi.sound c2 c1 hgt h1 heq.symm r hr2 hr
  · cases h

/-- the index panic of the Rust code is exactly "some row index ≥ n" -/
theorem groupColumns_none_iff (cols : List (List Nat)) (n : Nat) :
    groupColumns cols n = none ↔ ∃ rows ∈ cols, ∃ r ∈ rows, n ≤ r := by
  unfold groupColumns
  split
  · rename_i h
    simp only [List.all_eq_true, decide_eq_true_eq] at h
    constructor
    · intro h'; cases h'
    · rintro ⟨rows, hr, r, hrr, hn⟩
      have := h rows hr r hrr
      omega
  · rename_i h
    simp only [List.all_eq_true, decide_eq_true_eq, Classical.not_forall, Classical.not_imp, Nat.not_lt] at h
    obtain ⟨rows, hr, r, hrr, hn⟩ := h
    exact ⟨fun _ => ⟨rows, hr, r, hrr, by omega⟩, fun _ => rfl⟩

theorem mem_columnsInGroup (groups : List Nat) (g c : Nat) :
    c ∈ columnsInGroup groups g ↔ c < groups.length ∧ groups.getD c 0 = g := by
  simp [columnsInGroup]

/-! ### grouped finite differences -/

/-- component `r` of the right-hand side reads only the columns whose pattern contains `r` -/
def Respects (f : (Nat → α) → Nat → α) (cols : List (List Nat)) : Prop :=
  ∀ y y' r, (∀ c, r ∈ cols.getD c [] → y c = y' c) → f y r = f y' r

/-- **C20, sparsity changes only the number of evaluations.**  For a right-hand side that respects the pattern, every
    entry `sparse_jacobian_fd` writes is the entry the dense loop computes — the same expression on the same values, so
    also bit for bit in floating point.  No property of `+ − /` is used. -/
theorem sparseEntry_eq_dense [Add α] [Sub α] [Div α] (f : (Nat → α) → Nat → α) (cols : List (List Nat)) (n : Nat)
    (groups : List Nat) (k : Nat) (hg : groupColumns cols n = some (groups, k)) (hf : Respects f cols)
    (y h : Nat → α) (row col : Nat) (hcol : col < cols.length) (hrow : row ∈ cols.getD col []) :
    sparseEntry f y h groups row col = denseEntry f y h row col := by
  obtain ⟨hlen, _, hs⟩ := groupColumns_sound cols n groups k hg
  unfold sparseEntry denseEntry
  congr 2
  apply hf
  intro c hc
  unfold perturb
  by_cases hcc : c = col
  · subst hcc
    have : c ∈ columnsInGroup groups (groups.getD c 0) := by
      rw [mem_columnsInGroup]; exact ⟨by omega, rfl⟩
    rw [if_pos this, if_pos (List.mem_singleton.mpr rfl)]
  · have h1 : c ∉ columnsInGroup groups (groups.getD col 0) := by
      rw [mem_columnsInGroup]
      rintro ⟨hcl, hgc⟩
      exact hs c col (by omega) hcol hcc hgc row hc hrow
    rw [if_neg h1, if_neg (by simpa using hcc)]

/-! ### CSC columns -/
theorem colToRows_length (n : Nat) (indptr indices : Array Nat) : (colToRows n indptr indices).length = n := by
  simp [colToRows]

theorem colToRows_getD (n : Nat) (indptr indices : Array Nat) (c : Nat) (hc : c < n) :
    (colToRows n indptr indices).getD c [] = (indices.extract (indptr.getD c 0) (indptr.getD (c + 1) 0)).toList := by
  simp [colToRows, List.getD_eq_getElem?_getD, hc]

end Py
