/-
  The handler's dense-segment list is written by the collection rule at the head of the callback and by nothing else.
-/
import IvpModel.Proofs.SolOutPhases

namespace SolOutM
noncomputable section
variable {K : Type} [Field K] [LinearOrder K] [IsStrictOrderedRing K] [SqrtPow K]

theorem dueBeforeEvent_denseSegs (fwd : Bool) (xold te : K) (ip : Interp K) (tev : Array K) :
    ∀ (f : Nat) (s : St K), (dueBeforeEvent fwd xold te ip tev f s).denseSegs = s.denseSegs := by
  intro f
  induction f with
  | zero => intro s; rfl
  | succ f ih =>
    intro s
    unfold dueBeforeEvent
    cases fwd <;> simp only [Bool.false_eq_true, if_false, if_true] <;> split_ifs <;> simp [ih]

theorem popBeyond_denseSegs (fwd : Bool) (te : K) : ∀ (f : Nat) (s : St K), (popBeyond fwd te f s).denseSegs = s.denseSegs := by
  intro f
  induction f with
  | zero => intro s; rfl
  | succ f ih =>
    intro s
    unfold popBeyond
    split
    · dsimp only
      split_ifs <;> first | rfl | rw [ih]
    · rfl

theorem terminalSamples_denseSegs (fwd : Bool) (xold x te : K) (ip : Option (Interp K)) (s : St K) :
    (terminalSamples fwd xold x te ip s).denseSegs = s.denseSegs := by
  unfold terminalSamples
  split
  · rw [dueBeforeEvent_denseSegs, popBeyond_denseSegs]
  · exact popBeyond_denseSegs ..
  · split
    · dsimp only; split_ifs <;> rfl
    · rfl
  · rfl

theorem pushTerminal_denseSegs (s : St K) (t : K) (y : Array K) : (pushTerminal s t y).denseSegs = s.denseSegs := by
  unfold pushTerminal pushSample
  split
  · split <;> rfl
  · rfl

theorem processEvs_denseSegs (fwd : Bool) (xold x : K) (ip : Option (Interp K)) :
    ∀ (evs : List (K × Nat × Array K)) (s : St K), (processEvs fwd xold x ip s evs).1.denseSegs = s.denseSegs := by
  intro evs
  induction evs with
  | nil => intro s; rfl
  | cons e rest ih =>
    intro s
    obtain ⟨te, i, ye⟩ := e
    unfold processEvs
    split
    · simp only [pushTerminal_denseSegs, terminalSamples_denseSegs]; rfl
    · rw [ih]; rfl

theorem eventPhase_denseSegs (L : Lits K) (gEv : K → Array K → Array K) (s : St K) (xold x : K) (y : Array K)
    (ip : Option (Interp K)) (s' : St K) (b : Bool)
    (h : eventPhase L gEv s xold x y ip = some (s', b)) : s'.denseSegs = s.denseSegs := by
  unfold eventPhase at h
  by_cases hn : 0 < s.cfg.size
  · simp only [gt_iff_lt, hn, if_true] at h
    split at h
    · injection h with h; injection h with h1 _; rw [← h1]
    · split at h
      · cases h
      · split at h
        · cases h
        · injection h with h; injection h with h1 _; rw [← h1]
          simp only [processEvs_denseSegs]
  · simp only [gt_iff_lt, hn, if_false] at h
    injection h with h; injection h with h1 _; rw [← h1]

theorem sampleStep_denseSegs (s : St K) (te : Array K) (fwd : Bool) (xold x : K) (ip : Option (Interp K)) (s' : St K)
    (h : sampleStep s te fwd xold x ip = some s') : s'.denseSegs = s.denseSegs := by
  unfold sampleStep at h
  cases ip with
  | some ipv => injection h with h; rw [← h]
  | none =>
    simp only at h
    split at h
    · injection h with h; rw [← h]
    · cases h

theorem outputMode2_denseSegs (s : St K) (xold x : K) (y : Array K) (ip : Option (Interp K)) :
    (outputMode2 s xold x y ip).denseSegs = s.denseSegs := by
  unfold outputMode2
  cases hf : s.firstStep with
  | none =>
    simp only
    split <;> split_ifs <;> rfl
  | some h0 =>
    cases ip with
    | none => simp only; split_ifs <;> (try rfl) <;> (split <;> split_ifs <;> rfl)
    | some ipv => simp only; split_ifs <;> (try rfl) <;> (split <;> split_ifs <;> rfl)

theorem outputPhase_denseSegs (s : St K) (xold x : K) (y : Array K) (ip : Option (Interp K)) (s' : St K)
    (h : outputPhase s xold x y ip = some s') : s'.denseSegs = s.denseSegs := by
  unfold outputPhase at h
  split at h
  · split at h
    · injection h with h; rw [← h]; rfl
    · exact sampleStep_denseSegs _ _ _ _ _ _ _ h
  · injection h with h; rw [← h]; exact outputMode2_denseSegs ..

end
end SolOutM
