/-
  The pure pieces of the Radau numeric model over ordered fields: the dense output is the collocation polynomial
  (through the old state and the three stage values), mass products are dense matrix–vector products, a NaN error
  estimate becomes +∞ (hence a rejection).
-/
import IvpModel.Proofs.FieldNum
import IvpModel.Model.RadauNum
import Mathlib.Tactic.NormNum

namespace RadauNum
open Gen.Radau
noncomputable section
variable {K : Type} [Field K] [LinearOrder K] [IsStrictOrderedRing K] [SqrtPow K]

/-- the node constants of radau.rs are consistent as exact decimals: C1M1 = C1 − 1, C2M1 = C2 − 1, C1MC2 = C1 − C2 -/
theorem node_identities : (C1M1 : K) = C1 - 1 ∧ (C2M1 : K) = C2 - 1 ∧ (C1MC2 : K) = C1 - C2 := by
  simp only [C1M1, C2M1, C1MC2, C1, C2, num_lit]
  refine ⟨?_, ?_, ?_⟩ <;> norm_num

theorem nodes_nonzero : (C1 : K) ≠ 0 ∧ (C2 : K) ≠ 0 ∧ (C1M1 : K) ≠ 0 ∧ (C2M1 : K) ≠ 0 ∧ (C1MC2 : K) ≠ 0 := by
  simp only [C1M1, C2M1, C1MC2, C1, C2, num_lit]
  refine ⟨?_, ?_, ?_, ?_, ?_⟩ <;> norm_num

/-- **the dense output is the collocation polynomial.**  With the coefficients built from the converged stage increments
    `z1, z2, z3` the interpolant takes the value `y_old` at `s = −1` (`xi = xold`), `y_old + z1` at `s = C1 − 1`
    (`xi = xold + C1·h`), `y_old + z2` at `s = C2 − 1`, and `y_old + z3 = y_new` at `s = 0` (`xi = xold + h`) -/
theorem interp_collocation (yold z1 z2 z3 : K) :
    let d := denseCoeffs yold z1 z2 z3
    interpScalar (-1) d.1 d.2.1 d.2.2.1 d.2.2.2 = yold ∧
    interpScalar (C1 - 1) d.1 d.2.1 d.2.2.1 d.2.2.2 = yold + z1 ∧
    interpScalar (C2 - 1) d.1 d.2.1 d.2.2.1 d.2.2.2 = yold + z2 ∧
    interpScalar 0 d.1 d.2.1 d.2.2.1 d.2.2.2 = yold + z3 ∧ d.1 = yold + z3 := by
  intro d
  simp only [d, denseCoeffs, interpScalar, C1M1, C2M1, C1MC2, C1, C2, num_lit]
  refine ⟨?_, ?_, ?_, ?_, trivial⟩ <;> (norm_num; try ring)

/-- the interpolant as a function of the evaluation point: `s = (xi − (xold + h))/h` maps `xold ↦ −1`,
    `xold + c·h ↦ c − 1`, `xold + h ↦ 0` -/
theorem s_of_xi (xold h c : K) (hh : h ≠ 0) : ((xold + c * h) - (xold + h)) / h = c - 1 := by
  field_simp; ring

/-- a NaN error estimate is replaced by +∞ (so `err ≤ 1` fails and the step is rejected), in every number system -/
theorem errGuard_nan {α : Type} [Num α] (L : NLits α) (e : α) (h : Num.isNaN e = true) : errGuard L e = L.inf := by
  unfold errGuard; simp [h]

/-- the mass product of the error estimate is the dense matrix–vector product -/
theorem massDot_spec (L : NLits K) (hz : L.zero = 0) (n : Nat) (mass v : Array K) (i : Nat) :
    massDot L n mass v i = ((List.range n).map fun j => g mass (i * n + j) * g v j).sum := by
  unfold massDot
  have : ∀ (l : List Nat) (a : K), l.foldl (fun s j => s + g mass (i * n + j) * g v j) a
      = a + (l.map fun j => g mass (i * n + j) * g v j).sum := by
    intro l; induction l with
    | nil => intro a; simp
    | cons j l ih => intro a; rw [List.foldl_cons, ih, List.map_cons, List.sum_cons]; ring
  rw [this, hz, zero_add]

/-- … and the one in the Newton right-hand side is its negative -/
theorem massDotNeg_spec (L : NLits K) (hz : L.zero = 0) (n : Nat) (mass v : Array K) (i : Nat) :
    massDotNeg L n mass v i = -((List.range n).map fun j => g mass (i * n + j) * g v j).sum := by
  unfold massDotNeg
  have : ∀ (l : List Nat) (a : K), l.foldl (fun s j => s - g mass (i * n + j) * g v j) a
      = a - (l.map fun j => g mass (i * n + j) * g v j).sum := by
    intro l; induction l with
    | nil => intro a; simp
    | cons j l ih => intro a; rw [List.foldl_cons, ih, List.map_cons, List.sum_cons]; ring
  rw [this, hz, zero_sub]

/-- `T · (TI · a) = a` up to the rounding of the printed constants: each entry of `T·TI − I` is below 1e-14 (kernel
    arithmetic on the exact decimal values; the last row of `T` is `(T20, 1, 0)`) -/
theorem T_TI_inverse :
    let q (p : Int × Nat) : ℚ := (p.1 : ℚ) / (p.2 : ℚ)
    |q T00_q * q TI00_q + q T01_q * q TI10_q + q T02_q * q TI20_q - 1| ≤ 1 / 10 ^ 14 ∧
    |q T00_q * q TI01_q + q T01_q * q TI11_q + q T02_q * q TI21_q| ≤ 1 / 10 ^ 14 ∧
    |q T00_q * q TI02_q + q T01_q * q TI12_q + q T02_q * q TI22_q| ≤ 1 / 10 ^ 14 ∧
    |q T10_q * q TI00_q + q T11_q * q TI10_q + q T12_q * q TI20_q| ≤ 1 / 10 ^ 14 ∧
    |q T10_q * q TI01_q + q T11_q * q TI11_q + q T12_q * q TI21_q - 1| ≤ 1 / 10 ^ 14 ∧
    |q T10_q * q TI02_q + q T11_q * q TI12_q + q T12_q * q TI22_q| ≤ 1 / 10 ^ 14 ∧
    |q T20_q * q TI00_q + q TI10_q| ≤ 1 / 10 ^ 14 ∧
    |q T20_q * q TI01_q + q TI11_q| ≤ 1 / 10 ^ 14 ∧
    |q T20_q * q TI02_q + q TI12_q - 1| ≤ 1 / 10 ^ 14 := by
  intro q
  simp only [q]
  refine ⟨?_, ?_, ?_, ?_, ?_, ?_, ?_, ?_, ?_⟩ <;> (rw [abs_le]; constructor <;> norm_num)

end
end RadauNum
