import IvpModel.Proofs.RadauLemmas
set_option linter.unusedSectionVars false
set_option linter.unusedVariables false

/-!
  C11 / C03 for Radau's step-size control: for every answer of the numeric kernel (factorisations, Newton increments,
  error estimates) and of the callback, the step of every pass
    * has the direction of integration,
    * does not carry `x` past `xend`,
    * is at most `h_max` unless it is the landing step, and at most `stretch · h_max` (1 %) if it is.
  The only facts used about `powf` are its sign and monotonicity at base ≥ 1 (`PowOK`); they are recorded in the trusted base.
-/
namespace RadauCtl
noncomputable section
variable {K : Type} [Field K] [LinearOrder K] [IsStrictOrderedRing K] [SqrtPow K]

/-- what is assumed of `powf` (holds for the IEEE function wherever the result is not NaN) -/
structure PowOK (K : Type) [Field K] [LinearOrder K] [SqrtPow K] : Prop where
  ge_one : ∀ a b : K, 1 ≤ a → 0 ≤ b → 1 ≤ SqrtPow.pow a b
  le_one : ∀ a b : K, 1 ≤ a → b ≤ 0 → 0 ≤ SqrtPow.pow a b ∧ SqrtPow.pow a b ≤ 1

/-- the literals of radau.rs, as far as this argument needs them (all true of the values in the source) -/
structure LitsOK (L : Lits K) : Prop where
  zero : L.zero = 0
  one : L.one = 1
  quot1 : L.quot1 = 1
  stretch1 : 1 ≤ L.stretch
  half0 : 0 ≤ L.half
  halfS : L.stretch * L.half ≤ 1
  tenth0 : 0 ≤ L.tenth
  tenthS : L.stretch * L.tenth ≤ 1
  p80 : 0 ≤ L.p8
  p8S : L.stretch * L.p8 ≤ 1
  four0 : 0 < L.four
  twenty1 : 1 ≤ L.twenty
  two0 : 0 < L.two
  quarter0 : 0 ≤ L.quarter
  em60 : 0 ≤ L.em6

/-- the derived parameters, as far as this argument needs them (true after `validate` with the default safety 0.9,
    scale_min 0.2) -/
structure ParamsOK (L : Lits K) (P : Params K) : Prop where
  dir : P.posneg = 1 ∨ P.posneg = -1
  hmax0 : 0 ≤ P.hmax
  safety0 : 0 < P.safety
  safetyS : L.stretch * P.safety ≤ 1
  faclS : L.stretch ≤ P.facl
  cfac0 : 0 < P.cfac
  newton1 : 1 ≤ P.maxNewton

/-- invariant of the state at the head of a pass -/
structure RInv (L : Lits K) (P : Params K) (s : State K) : Prop where
  short : s.last = false → |s.h| ≤ P.hmax
  bound : |s.h| ≤ L.stretch * P.hmax
  dir : 0 ≤ s.h * P.posneg
  room : 0 ≤ (P.xend - (s.x + s.h)) * P.posneg

def ROK (L : Lits K) (P : Params K) : Sum (State K) (Result K) → Prop
  | .inl s' => RInv L P s'
  | .inr _ => True

/-- a repeated step `h·c` with `0 ≤ c ≤ 1/stretch` keeps the invariant and is not a landing step -/
theorem RInv.shrink {L : Lits K} {P : Params K} {s : State K} (hL : LitsOK L) (hP : ParamsOK L P) (hi : RInv L P s)
    (c : K) (hc0 : 0 ≤ c) (hcS : L.stretch * c ≤ 1) (s' : State K) (hx : s'.x = s.x) (hh : s'.h = s.h * c) :
    RInv L P s' := by
  have hc1 : c ≤ 1 := by
    have := hL.stretch1
    nlinarith
  have habs : |s'.h| ≤ P.hmax := by
    rw [hh, abs_mul, abs_of_nonneg hc0]
    calc |s.h| * c ≤ (L.stretch * P.hmax) * c := mul_le_mul_of_nonneg_right hi.bound hc0
      _ = P.hmax * (L.stretch * c) := by ring
      _ ≤ P.hmax * 1 := mul_le_mul_of_nonneg_left hcS hP.hmax0
      _ = P.hmax := by ring
  refine ⟨fun _ => habs, ?_, ?_, ?_⟩
  · have : P.hmax ≤ L.stretch * P.hmax := by nlinarith [hL.stretch1, hP.hmax0]
    linarith
  · rw [hh]
    have : s.h * c * P.posneg = (s.h * P.posneg) * c := by ring
    rw [this]; exact mul_nonneg hi.dir hc0
  · rw [hx, hh]
    have : (P.xend - (s.x + s.h * c)) * P.posneg = (P.xend - (s.x + s.h)) * P.posneg + (1 - c) * (s.h * P.posneg) := by ring
    rw [this]
    have := mul_nonneg (sub_nonneg.mpr hc1) hi.dir
    linarith [hi.room]

theorem ROK_failure (L : Lits K) (P : Params K) (hL : LitsOK L) (hP : ParamsOK L P) (s s0 : State K) (cnt : Counters) (d : Bool)
    (hi : RInv L P s0) (hx : s.x = s0.x) (hh : s.h = s0.h) : ROK L P (failure L s cnt d) := by
  unfold failure
  split
  · trivial
  · exact RInv.shrink hL hP hi L.half hL.half0 hL.halfS _ hx (by show s.h * L.half = _; rw [hh])

/-- what the Newton loop does to the step: untouched when it converges, reduced by a factor in `[0, 0.8]` when it predicts
    slow convergence -/
def HOK (L : Lits K) (h : K) (last : Bool) : Newton K → Prop
  | .done _ _ _ _ _ h' _ _ last' _ => h' = h ∧ last' = last
  | .slow _ _ _ _ _ h' _ _ _ => ∃ c, 0 ≤ c ∧ c ≤ L.p8 ∧ h' = h * c
  | _ => True

theorem slow_factor (L : Lits K) (hL : LitsOK L) (hpow : PowOK K) (dyth : K) (rem : Nat) (hd : dyth ≥ L.one) :
    0 ≤ L.p8 * Num.pow (Num.fmax L.em4 (Num.fmin L.twenty dyth)) (-L.one / (L.four + Num.ofNat rem))
      ∧ L.p8 * Num.pow (Num.fmax L.em4 (Num.fmin L.twenty dyth)) (-L.one / (L.four + Num.ofNat rem)) ≤ L.p8 := by
  have hq : (1 : K) ≤ Num.fmax L.em4 (Num.fmin L.twenty dyth) := by
    rw [num_fmax, num_fmin]
    refine le_max_of_le_right (le_min hL.twenty1 ?_)
    rw [← hL.one]; exact hd
  have he : -L.one / (L.four + Num.ofNat rem) ≤ (0 : K) := by
    rw [hL.one, num_ofNat]
    have : (0 : K) < L.four + (rem : K) := by
      have := hL.four0
      have h2 : (0 : K) ≤ (rem : K) := Nat.cast_nonneg _
      linarith
    exact div_nonpos_of_nonpos_of_nonneg (by norm_num) this.le
  obtain ⟨p0, p1⟩ := hpow.le_one _ _ hq he
  rw [num_pow]
  refine ⟨mul_nonneg hL.p80 p0, ?_⟩
  calc L.p8 * _ ≤ L.p8 * 1 := mul_le_mul_of_nonneg_left p1 hL.p80
    _ = L.p8 := by ring

theorem newtonLoop_h (L : Lits K) (P : Params K) (hL : LitsOK L) (hpow : PowOK K) :
    ∀ (fuel : Nat) (dynos : List K) (newt : Nat) (th tq dy fc h hh : K) (rej : Nat) (last : Bool) (ode : Nat),
      HOK L h last (newtonLoop L P fuel dynos newt th tq dy fc h hh rej last ode) := by
  intro fuel
  induction fuel with
  | zero => intros; simp [newtonLoop, HOK]
  | succ fuel ih =>
    intro dynos newt th tq dy fc h hh rej last ode
    unfold newtonLoop
    split
    · trivial
    · cases dynos with
      | nil => trivial
      | cons dyno rest =>
        dsimp only
        repeat' split
        all_goals first
          | exact ih _ _ _ _ _ _ _ _ _ _ _
          | trivial
          | exact ⟨rfl, rfl⟩
          | (rename_i hdyth
             exact ⟨_, (slow_factor L hL hpow _ _ hdyth).1, (slow_factor L hL hpow _ _ hdyth).2, rfl⟩)

/-- the clamped proposal `min(max(|hnew|, hmin), hmax)·posneg`, optionally cut back to `|h|` after a rejection -/
theorem clamp_ok (L : Lits K) (P : Params K) (hP : ParamsOK L P) (hnew h : K) (rj : Bool) :
    let c0 := Num.fmin (Num.fmax (Num.abs hnew) P.hmin) P.hmax * P.posneg
    let c := if rj then P.posneg * Num.fmin (Num.abs c0) (Num.abs h) else c0
    |c| ≤ P.hmax ∧ 0 ≤ c * P.posneg := by
  intro c0 c
  have hpp : P.posneg * P.posneg = 1 := by rcases hP.dir with h | h <;> rw [h] <;> norm_num
  have hpa : |P.posneg| = 1 := by rcases hP.dir with h | h <;> rw [h] <;> norm_num
  have hm0 : 0 ≤ min (max |hnew| P.hmin) P.hmax := le_min (le_max_of_le_left (abs_nonneg _)) hP.hmax0
  have h0 : |c0| ≤ P.hmax ∧ 0 ≤ c0 * P.posneg := by
    show |min (max |hnew| P.hmin) P.hmax * P.posneg| ≤ P.hmax ∧ 0 ≤ min (max |hnew| P.hmin) P.hmax * P.posneg * P.posneg
    rw [abs_mul, hpa, mul_one, abs_of_nonneg hm0, mul_assoc, hpp, mul_one]
    exact ⟨min_le_right _ _, hm0⟩
  show |if rj then P.posneg * min |c0| |h| else c0| ≤ P.hmax ∧ 0 ≤ (if rj then P.posneg * min |c0| |h| else c0) * P.posneg
  cases rj with
  | false => simpa using h0
  | true =>
    simp only [if_true]
    have hmn : 0 ≤ min |c0| |h| := le_min (abs_nonneg _) (abs_nonneg _)
    rw [abs_mul, hpa, one_mul, abs_of_nonneg hmn]
    refine ⟨le_trans (min_le_left _ _) h0.1, ?_⟩
    have : P.posneg * min |c0| |h| * P.posneg = (P.posneg * P.posneg) * min |c0| |h| := by ring
    rw [this, hpp, one_mul]; exact hmn

/-- after an accepted step to `x' = x + h`: the proposal overshoots `xend` — the landing step -/
theorem land_case {L : Lits K} {P : Params K} {s : State K} (hL : LitsOK L) (hP : ParamsOK L P) (hi : RInv L P s) (c : K)
    (hc : |c| ≤ P.hmax) (hcd : 0 ≤ c * P.posneg)
    (ht : (s.x + s.h + L.stretch * c / L.quot1 - P.xend) * P.posneg ≥ L.zero)
    (s' : State K) (hx : s'.x = s.x + s.h) (hh : s'.h = P.xend - (s.x + s.h)) (hl : s'.last = true) : RInv L P s' := by
  have hpa : |P.posneg| = 1 := by rcases hP.dir with h | h <;> rw [h] <;> norm_num
  have hpp : P.posneg * P.posneg = 1 := by rcases hP.dir with h | h <;> rw [h] <;> norm_num
  rw [hL.zero, hL.quot1, div_one] at ht
  have hroom := hi.room
  have habs : |P.xend - (s.x + s.h)| = (P.xend - (s.x + s.h)) * P.posneg := by
    rw [← abs_of_nonneg hroom, abs_mul, hpa, mul_one]
  have hcabs : c * P.posneg = |c| := by
    rw [← abs_of_nonneg hcd, abs_mul, hpa, mul_one]
  have hb : |s'.h| ≤ L.stretch * P.hmax := by
    rw [hh, habs]
    have : (P.xend - (s.x + s.h)) * P.posneg ≤ L.stretch * (c * P.posneg) := by nlinarith
    rw [hcabs] at this
    have h2 : L.stretch * |c| ≤ L.stretch * P.hmax := mul_le_mul_of_nonneg_left hc (by linarith [hL.stretch1])
    linarith
  refine ⟨fun _ => ?_, hb, ?_, ?_⟩
  · rename_i hf; rw [hl] at hf; cases hf
  · rw [hh]; exact hroom
  · rw [hx, hh]; simp

/-- … the proposal stays short of `xend` and replaces the step -/
theorem new_case {L : Lits K} {P : Params K} {s : State K} (hL : LitsOK L) (hP : ParamsOK L P) (hi : RInv L P s) (c : K)
    (hc : |c| ≤ P.hmax) (hcd : 0 ≤ c * P.posneg)
    (ht : ¬ (s.x + s.h + L.stretch * c / L.quot1 - P.xend) * P.posneg ≥ L.zero)
    (s' : State K) (hx : s'.x = s.x + s.h) (hh : s'.h = c) : RInv L P s' := by
  rw [hL.zero, hL.quot1, div_one, not_le] at ht
  refine ⟨fun _ => by rw [hh]; exact hc, ?_, by rw [hh]; exact hcd, ?_⟩
  · rw [hh]
    have : P.hmax ≤ L.stretch * P.hmax := by nlinarith [hL.stretch1, hP.hmax0]
    linarith
  · rw [hx, hh]
    have : (L.stretch - 1) * (c * P.posneg) ≥ 0 := mul_nonneg (by linarith [hL.stretch1]) hcd
    nlinarith

/-- … the proposal is within (1, 1.2) of the old step, which is kept -/
theorem keep_case {L : Lits K} {P : Params K} {s : State K} (hL : LitsOK L) (hP : ParamsOK L P) (hi : RInv L P s) (c : K)
    (hcd : 0 ≤ c * P.posneg) (hsl : s.last = false)
    (ht : ¬ (s.x + s.h + L.stretch * c / L.quot1 - P.xend) * P.posneg ≥ L.zero) (hq : c / s.h > L.quot1)
    (s' : State K) (hx : s'.x = s.x + s.h) (hh : s'.h = s.h) : RInv L P s' := by
  rw [hL.zero, hL.quot1, div_one, not_le] at ht
  rw [hL.quot1] at hq
  have hne : s.h ≠ 0 := by
    intro h0; rw [h0, div_zero] at hq; linarith
  have hle : s.h * P.posneg ≤ c * P.posneg := by
    rcases hP.dir with hp | hp
    · rw [hp] at hcd ⊢
      have hpos : 0 < s.h := lt_of_le_of_ne (by have := hi.dir; rw [hp] at this; linarith) (Ne.symm hne)
      rw [gt_iff_lt, lt_div_iff₀ hpos] at hq
      linarith
    · rw [hp] at hcd ⊢
      have hneg : s.h < 0 := lt_of_le_of_ne (by have := hi.dir; rw [hp] at this; linarith) hne
      rw [gt_iff_lt, lt_div_iff_of_neg hneg] at hq
      linarith
  refine ⟨fun _ => by rw [hh]; exact hi.short hsl, by rw [hh]; exact hi.bound, by rw [hh]; exact hi.dir, ?_⟩
  rw [hx, hh]
  have : (L.stretch - 1) * (c * P.posneg) ≥ 0 := mul_nonneg (by linarith [hL.stretch1]) hcd
  nlinarith

theorem ROK_accepted (L : Lits K) (P : Params K) (hL : LitsOK L) (hP : ParamsOK L P) (s : State K) (o : PassOracle K)
    (h hhfac theta thqold dynold faccon err : K) (newt : Nat) (quot hnew : K) (cnt : Counters) (last : Bool) (xph : K)
    (hi : RInv L P s) (hh : h = s.h) (hl : last = s.last) (hx : last = false → xph = s.x + s.h) :
    ROK L P (accepted L P s o h hhfac theta thqold dynold faccon err newt quot hnew cnt last xph) := by
  unfold accepted
  dsimp only
  split
  · trivial
  · split
    · trivial
    · rename_i hlast
      have hf : last = false := by cases last <;> simp_all
      have hsl : s.last = false := by rw [← hl]; exact hf
      have hxe := hx hf
      subst hh
      subst hxe
      generalize hc : (if s.reject = true then P.posneg * Num.fmin (Num.abs (Num.fmin (Num.fmax (Num.abs _) P.hmin) P.hmax * P.posneg)) (Num.abs s.h) else _) = c
      have hcl : |c| ≤ P.hmax ∧ 0 ≤ c * P.posneg := by rw [← hc]; exact clamp_ok L P hP _ s.h s.reject
      split
      · rename_i ht
        exact land_case hL hP hi c hcl.1 hcl.2 ht _ rfl rfl rfl
      · rename_i ht
        split
        · rename_i hq
          exact keep_case hL hP hi c hcl.2 hsl ht hq.2.1 _ rfl rfl
        · exact new_case hL hP hi c hcl.1 hcl.2 ht _ rfl rfl

/-- on a rejection (`err > 1`) the divisor of the step is at least `stretch`: the repeated step is shorter than `h/1.01` -/
theorem quot_ge (L : Lits K) (P : Params K) (hL : LitsOK L) (hP : ParamsOK L P) (hpow : PowOK K) (err : K) (newt : Nat)
    (he : ¬ err ≤ L.one) :
    L.stretch ≤ Num.fmax P.facr (Num.fmin P.facl (Num.pow err L.quarter /
      Num.fmin P.safety (P.cfac / (Num.ofNat newt + L.two * Num.ofNat P.maxNewton)))) := by
  rw [hL.one, not_le] at he
  have hp : 1 ≤ SqrtPow.pow err L.quarter := hpow.ge_one _ _ he.le hL.quarter0
  have hden : (0 : K) < (newt : K) + L.two * (P.maxNewton : K) := by
    have h1 : (0 : K) ≤ (newt : K) := Nat.cast_nonneg _
    have h2 : (1 : K) ≤ (P.maxNewton : K) := by exact_mod_cast hP.newton1
    have := mul_pos hL.two0 (lt_of_lt_of_le one_pos h2)
    linarith
  have hfac0 : 0 < min P.safety (P.cfac / ((newt : K) + L.two * (P.maxNewton : K))) :=
    lt_min hP.safety0 (div_pos hP.cfac0 hden)
  have hfacS : min P.safety (P.cfac / ((newt : K) + L.two * (P.maxNewton : K))) ≤ P.safety := min_le_left _ _
  rw [num_fmax, num_fmin, num_fmin, num_pow, num_ofNat, num_ofNat]
  refine le_max_of_le_right (le_min hP.faclS ?_)
  rw [le_div_iff₀ hfac0]
  have hs0 : 0 ≤ L.stretch := by linarith [hL.stretch1]
  calc L.stretch * min P.safety _ ≤ L.stretch * P.safety := mul_le_mul_of_nonneg_left hfacS hs0
    _ ≤ 1 := hP.safetyS
    _ ≤ _ := hp

theorem ROK_finishStep (L : Lits K) (P : Params K) (hL : LitsOK L) (hP : ParamsOK L P) (hpow : PowOK K) (s : State K)
    (o : PassOracle K) (newt : Nat) (theta thqold dynold faccon h hhfac : K) (last : Bool) (cnt : Counters) (xph : K)
    (hi : RInv L P s) (hh : h = s.h) (hl : last = s.last) (hx : last = false → xph = s.x + s.h) :
    ROK L P (finishStep L P s o newt theta thqold dynold faccon h hhfac last cnt xph) := by
  unfold finishStep
  dsimp only
  generalize (if (decide (o.err ≥ L.one) && (s.first || s.reject)) = true then o.err2 else o.err) = e
  split
  · exact ROK_accepted L P hL hP s o _ _ _ _ _ _ _ _ _ _ _ _ _ hi hh hl hx
  · rename_i he
    subst hh
    split
    · exact RInv.shrink hL hP hi L.tenth hL.tenth0 hL.tenthS _ rfl rfl
    · have hq := quot_ge L P hL hP hpow e newt he
      have hs0 : 0 < L.stretch := by linarith [hL.stretch1]
      have hq0 := lt_of_lt_of_le hs0 hq
      refine RInv.shrink hL hP hi (1 / _) (by positivity) ?_ _ rfl (by show s.h / _ = s.h * (1 / _); ring)
      rw [mul_one_div, div_le_one hq0]; exact hq

theorem ROK_decompose (L : Lits K) (P : Params K) (hL : LitsOK L) (hP : ParamsOK L P) (s : State K) (o : PassOracle K)
    (r : Sum (State K) (Result K)) (hi : RInv L P s) (h : decompose L s o = .inl r) : ROK L P r := by
  unfold decompose at h
  dsimp only at h
  split at h
  · split at h
    · injection h with h; rw [← h]; exact ROK_failure L P hL hP s s _ _ hi rfl rfl
    · split at h
      · injection h with h; rw [← h]; exact ROK_failure L P hL hP s s _ _ hi rfl rfl
      · cases h
  · cases h

/-- **C11 / C03 (Radau), one pass**: the invariant `RInv` is kept by every pass, whatever the numeric kernel answers. -/
theorem pass_rinv (L : Lits K) (P : Params K) (hL : LitsOK L) (hP : ParamsOK L P) (hpow : PowOK K) (s : State K)
    (o : PassOracle K) (hi : RInv L P s) : ROK L P (pass L P s o) := by
  unfold pass
  cases hd : decompose L s o with
  | inl r => exact ROK_decompose L P hL hP s o r hi hd
  | inr cnt =>
    dsimp only
    split
    · trivial
    · split
      · trivial
      · have hN := newtonLoop_h L P hL hpow (P.maxNewton + 1) o.dynos 0 (Num.abs L.thet) s.thqold s.dynold
          (Num.pow (Num.fmax s.faccon P.uround) L.p8) s.h s.hhfac cnt.rejected s.last cnt.ode
        split
        · trivial
        · exact ROK_failure L P hL hP _ s _ _ hi rfl rfl
        · rename_i heq
          rw [heq] at hN
          obtain ⟨c, hc0, hc8, hc⟩ := hN
          refine RInv.shrink hL hP hi c hc0 ?_ _ rfl hc
          have hs0 : 0 ≤ L.stretch := by linarith [hL.stretch1]
          exact le_trans (mul_le_mul_of_nonneg_left hc8 hs0) hL.p8S
        · rename_i heq
          rw [heq] at hN
          obtain ⟨h1, h2⟩ := hN
          refine ROK_finishStep L P hL hP hpow s o _ _ _ _ _ _ _ _ _ _ hi h1 h2 ?_
          intro hf
          rw [h2] at hf
          simp [hf]

/-- **C11 / C03 (Radau), whole run**: every state at the head of a pass satisfies `RInv`. -/
def runStates (L : Lits K) (P : Params K) : List (PassOracle K) → State K → List (State K)
  | [], s => [s]
  | o :: os, s => s :: match pass L P s o with
    | .inr _ => []
    | .inl s' => runStates L P os s'

theorem run_rinv (L : Lits K) (P : Params K) (hL : LitsOK L) (hP : ParamsOK L P) (hpow : PowOK K) :
    ∀ (os : List (PassOracle K)) (s : State K), RInv L P s → ∀ s' ∈ runStates L P os s, RInv L P s' := by
  intro os
  induction os with
  | nil => intro s hi s' hm; simp [runStates] at hm; rw [hm]; exact hi
  | cons o os ih =>
    intro s hi s' hm
    unfold runStates at hm
    rcases List.mem_cons.mp hm with h | h
    · rw [h]; exact hi
    · have hp := pass_rinv L P hL hP hpow s o hi
      split at h
      · simp at h
      · rename_i s1 heq
        rw [heq] at hp
        exact ih s1 hp s' h

/-- the literals of radau.rs as rationals -/
def ratLits : Lits K :=
  { zero := 0, one := 1, two := 2, four := 4, half := 1 / 2, tenth := 1 / 10, p8 := 4 / 5, p99 := 99 / 100, quarter := 1 / 4,
    thet := 1 / 1000, quot1 := 1, quot2 := 6 / 5, em4 := 1 / 10000, twenty := 20, em2 := 1 / 100, ten := 10, p03 := 3 / 100,
    em6 := 1 / 1000000, stretch := 101 / 100 }

theorem ratLits_ok : LitsOK (ratLits : Lits K) := by
  constructor <;> simp only [ratLits] <;> norm_num

theorem params_ok (L : Lits K) (hL : LitsOK L) (S : Setup K) (hs : 0 < S.safety) (hsS : L.stretch * S.safety ≤ 1)
    (hmin : 0 < S.scaleMin) (hminS : L.stretch * S.scaleMin ≤ 1) (hN : 1 ≤ S.maxNewton)
    (hM : ∀ m, S.maxStep = some m → 0 ≤ m) : ParamsOK L (params L S) := by
  refine ⟨?_, ?_, hs, hsS, ?_, ?_, hN⟩
  · show Num.signum (S.xend - S.x0) = 1 ∨ Num.signum (S.xend - S.x0) = -1
    rw [num_signum]; split <;> simp
  · show 0 ≤ (match S.maxStep with | some m => m | none => Num.abs (S.xend - S.x0))
    cases hm : S.maxStep with
    | none => exact abs_nonneg _
    | some m => exact hM m hm
  · show L.stretch ≤ L.one / S.scaleMin
    rw [hL.one, le_div_iff₀ hmin]; exact hminS
  · show 0 < S.safety * (L.one + L.two * Num.ofNat S.maxNewton)
    rw [hL.one, num_ofNat]
    have h2 : (0 : K) ≤ (S.maxNewton : K) := Nat.cast_nonneg _
    have := mul_nonneg hL.two0.le h2
    exact mul_pos hs (by linarith)

theorem start_core (L : Lits K) (hL : LitsOK L) (S : Setup K) (hP : ParamsOK L (params L S)) (a : K) (ha0 : 0 ≤ a)
    (s : State K) (hx : s.x = S.x0)
    (hh : s.h = if decide ((S.x0 + L.stretch * clamp (a * (params L S).posneg) (-(params L S).hmax) (params L S).hmax - S.xend)
        * (params L S).posneg ≥ L.zero) = true then S.xend - S.x0 else clamp (a * (params L S).posneg) (-(params L S).hmax) (params L S).hmax)
    (hl : s.last = decide ((S.x0 + L.stretch * clamp (a * (params L S).posneg) (-(params L S).hmax) (params L S).hmax - S.xend)
        * (params L S).posneg ≥ L.zero)) : RInv L (params L S) s := by
  have hpdef : (params L S).posneg = Num.signum (S.xend - S.x0) := rfl
  have hxe : (params L S).xend = S.xend := rfl
  set P := params L S with hPdef
  have hpp : P.posneg * P.posneg = 1 := by rcases hP.dir with h | h <;> rw [h] <;> norm_num
  have hcl : |clamp (a * P.posneg) (-P.hmax) P.hmax| ≤ P.hmax ∧ 0 ≤ clamp (a * P.posneg) (-P.hmax) P.hmax * P.posneg := by
    unfold clamp
    have hm := hP.hmax0
    rcases hP.dir with hp | hp <;> rw [hp] <;> split_ifs with h1 h2 <;> constructor <;>
      first
        | (rw [abs_neg, abs_of_nonneg hm])
        | (rw [abs_of_nonneg hm])
        | (rw [abs_le]; constructor <;> linarith)
        | nlinarith
        | linarith
  have hdist : (S.xend - S.x0) * P.posneg = |S.xend - S.x0| := by
    rw [hpdef, num_signum]
    split
    · rename_i h0; rw [abs_of_nonneg h0]; ring
    · rename_i h0; rw [abs_of_neg (not_le.mp h0)]; ring
  by_cases hl' : (S.x0 + L.stretch * clamp (a * P.posneg) (-P.hmax) P.hmax - S.xend) * P.posneg ≥ L.zero
  · simp only [hl', decide_true, if_true] at hh hl
    rw [hL.zero] at hl'
    refine ⟨fun hf => (by rw [hl] at hf; cases hf), ?_, ?_, ?_⟩
    · rw [hh, ← hdist]
      have hs0 : 0 ≤ L.stretch := by linarith [hL.stretch1]
      have h3 : clamp (a * P.posneg) (-P.hmax) P.hmax * P.posneg ≤ P.hmax := by
        have := le_abs_self (clamp (a * P.posneg) (-P.hmax) P.hmax * P.posneg)
        rw [abs_mul] at this
        have hpa : |P.posneg| = 1 := by rcases hP.dir with h | h <;> rw [h] <;> norm_num
        rw [hpa, mul_one] at this
        linarith [hcl.1]
      nlinarith
    · rw [hh, hdist]; exact abs_nonneg _
    · rw [hx, hh, hxe]; simp
  · simp only [hl', decide_false, if_false, Bool.false_eq_true] at hh hl
    rw [hL.zero, not_le] at hl'
    refine ⟨fun _ => (by rw [hh]; exact hcl.1), ?_, (by rw [hh]; exact hcl.2), ?_⟩
    · have : P.hmax ≤ L.stretch * P.hmax := by nlinarith [hL.stretch1, hP.hmax0]
      rw [hh]; exact le_trans hcl.1 this
    · rw [hx, hh, hxe]
      have : (L.stretch - 1) * (clamp (a * P.posneg) (-P.hmax) P.hmax * P.posneg) ≥ 0 :=
        mul_nonneg (by linarith [hL.stretch1]) hcl.2
      nlinarith

/-- the state at the head of the first pass satisfies the invariant (given or default first step, any `max_step ≥ 0`) -/
theorem start_rinv (L : Lits K) (hL : LitsOK L) (S : Setup K) (hP : ParamsOK L (params L S)) (s : State K)
    (h : start L S = .inl s) : RInv L (params L S) s := by
  unfold start at h
  cases hfs : S.firstStep with
  | none =>
    rw [hfs] at h
    dsimp only at h
    split at h
    · cases h
    · injection h with h
      rw [← h]
      exact start_core L hL S hP L.em6 hL.em60 _ rfl rfl rfl
  | some h0 =>
    rw [hfs] at h
    dsimp only at h
    split at h
    · cases h
    · injection h with h
      rw [← h]
      exact start_core L hL S hP |h0| (abs_nonneg _) _ rfl rfl rfl

end
end RadauCtl
