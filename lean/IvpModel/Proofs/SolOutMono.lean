import IvpModel.Proofs.SolOutLemmas

/-!
  C03 at the output handler, solver-selected output (no `t_eval`): the reported sample times start at `x0`, move strictly
  toward `xend` and never pass the right end of the last callback — for every chain of callbacks, every `first_step`
  (tiny, larger than the interval, …) and whatever the interpolant returns.  The defect repaired in 3991143 — a tiny
  first step produced `[0, 1e-13, 1.1e-12, 1e-13, …]` — is exactly a failure of this invariant.
-/
namespace SolOutM
noncomputable section
variable {K : Type} [Field K] [LinearOrder K] [IsStrictOrderedRing K] [SqrtPow K]

/-- strictly increasing list of times -/
def Incr : List K → Prop
  | [] => True
  | [_] => True
  | a :: b :: r => a < b ∧ Incr (b :: r)

theorem incr_append_one (l : List K) (last x : K) (hl : Incr l) (hlast : l.getLast? = some last) (h : last < x) :
    Incr (l ++ [x]) := by
  induction l with
  | nil => simp at hlast
  | cons a r ih =>
    cases r with
    | nil =>
      simp at hlast
      subst hlast
      exact ⟨h, trivial⟩
    | cons b r' =>
      obtain ⟨hab, hr⟩ := hl
      have hlast' : (b :: r').getLast? = some last := by simpa [List.getLast?_cons_cons] using hlast
      exact ⟨hab, ih hr hlast'⟩

/-- forward invariant of the sample list against the current abscissa `xc` -/
structure FInv (s : St K) (xc : K) : Prop where
  incr : Incr s.t.toList
  head : s.t.toList.head? = some s.x0
  last_le : ∀ l, s.t.toList.getLast? = some l → l ≤ xc
  x0_le : s.x0 ≤ xc
  /-- until the first-output rule has fired, only the initial sample has been recorded -/
  pending : s.firstStep.isSome = true → s.firstOutputDone = false → s.t.toList = [s.x0]

theorem FInv.push (s : St K) (xold x : K) (y : Array K) (done : Bool) (hinv : FInv s xold) (hstep : xold < x)
    (hp : s.firstStep.isSome = true → done = true) :
    FInv { s with t := s.t.push x, y := s.y.push y, firstOutputDone := done } x := by
  obtain ⟨l, hl⟩ : ∃ l, s.t.toList.getLast? = some l := by
    cases h : s.t.toList.getLast? with
    | some l => exact ⟨l, rfl⟩
    | none =>
      have := List.getLast?_eq_none_iff.mp h
      have hh := hinv.head
      rw [this] at hh; simp at hh
  have hlx : l < x := lt_of_le_of_lt (hinv.last_le l hl) hstep
  refine ⟨?_, ?_, ?_, le_trans hinv.x0_le hstep.le, ?_⟩
  · simpa using incr_append_one s.t.toList l x hinv.incr hl hlx
  · have hh := hinv.head
    cases hs : s.t.toList with
    | nil => rw [hs] at hh; simp at hh
    | cons a r => rw [hs] at hh; simpa [hs] using hh
  · intro l' h'; simp at h'; rw [← h']
  · intro hs hd
    exact absurd (hp hs) (by simp [show done = false from hd])

theorem FInv.mono (s : St K) (xold x : K) (hinv : FInv s xold) (hstep : xold ≤ x) : FInv s x :=
  ⟨hinv.incr, hinv.head, fun l h => le_trans (hinv.last_le l h) hstep, le_trans hinv.x0_le hstep, hinv.pending⟩

/-- one accepted step in mode 2, forward: the invariant is kept and the list now ends at or before `x` -/
theorem outputMode2_forward (s : St K) (xold x : K) (y : Array K) (ipv : Interp K)
    (hinv : FInv s xold) (hstep : xold < x) (htol : 0 ≤ s.tol) (hh0 : ∀ h0, s.firstStep = some h0 → h0 ≠ 0) :
    FInv (outputMode2 s xold x y (some ipv)) x := by
  have hne : (Num.eqb xold x = false) := by
    cases hb : Num.eqb xold x with
    | false => rfl
    | true => exact absurd ((num_eqb _ _).mp hb) (ne_of_lt hstep)
  obtain ⟨l, hl⟩ : ∃ l, s.t.toList.getLast? = some l := by
    cases h : s.t.toList.getLast? with
    | some l => exact ⟨l, rfl⟩
    | none =>
      have := List.getLast?_eq_none_iff.mp h
      have hh := hinv.head
      rw [this] at hh; simp at hh
  have hlx : l < x := lt_of_le_of_lt (hinv.last_le l hl) hstep
  have hback : s.t.back? = some l := by
    have : s.t = s.t.toList.toArray := by simp
    rw [this, List.back?_toArray]; exact hl
  have hfresh2 : (!Num.eqb l x) = true := by
    cases hb : Num.eqb l x with
    | false => rfl
    | true => exact absurd ((num_eqb _ _).mp hb) (ne_of_lt hlx)
  unfold outputMode2
  cases hfs : s.firstStep with
  | none =>
    dsimp only
    rw [hback]
    dsimp only
    rw [if_pos hfresh2]
    have h := FInv.push s xold x y s.firstOutputDone hinv hstep (by simp [hfs])
    simpa only [hfs] using h
  | some h0 =>
    by_cases hd : s.firstOutputDone = true
    · simp only [hd, not_true_eq_false, false_and, if_false]
      rw [hback]
      dsimp only
      rw [if_pos hfresh2]
      have h := FInv.push s xold x y true hinv hstep (fun _ => rfl)
      simpa only [hfs, hd] using h
    · have hdf : s.firstOutputDone = false := by cases h : s.firstOutputDone <;> simp_all
      have hpend := hinv.pending (by simp [hfs]) hdf
      have hdir : Num.signum (x - xold) = (1 : K) := by
        rw [num_signum, if_pos (by linarith)]
      simp only [hdf, hne, hdir, one_mul, num_abs, Bool.false_eq_true, not_false_eq_true, and_self, if_true]
      have hpos : 0 < |h0| := abs_pos.mpr (hh0 h0 hfs)
      by_cases hr : x - (s.x0 + |h0|) ≥ -s.tol
      · simp only [hr, if_true]
        by_cases hc : |x - (s.x0 + |h0|)| ≤ s.tol
        · simp only [hc, if_true]
          have h := FInv.push s xold x y true hinv hstep (fun _ => rfl)
          simpa only [hfs] using h
        · simp only [hc, if_false]
          have hgt : s.tol < x - (s.x0 + |h0|) := by
            rw [not_le] at hc
            rcases abs_cases (x - (s.x0 + |h0|)) with ⟨h1, _⟩ | ⟨h1, h2⟩
            · rw [h1] at hc; exact hc
            · rw [h1] at hc; linarith
          have htx : s.x0 + |h0| < x := by linarith
          -- the list is [x0]; it becomes [x0, target, x]
          refine ⟨?_, ?_, ?_, le_trans hinv.x0_le hstep.le, ?_⟩
          · have e : ((s.t.push (s.x0 + |h0|)).push x).toList = [s.x0, s.x0 + |h0|, x] := by simp [hpend]
            show Incr ((s.t.push (s.x0 + |h0|)).push x).toList
            rw [e]
            exact ⟨by linarith, htx, trivial⟩
          · have e : ((s.t.push (s.x0 + |h0|)).push x).toList = [s.x0, s.x0 + |h0|, x] := by simp [hpend]
            show ((s.t.push (s.x0 + |h0|)).push x).toList.head? = some s.x0
            rw [e]; rfl
          · intro l' h'
            have e : ((s.t.push (s.x0 + |h0|)).push x).toList = [s.x0, s.x0 + |h0|, x] := by simp [hpend]
            change ((s.t.push (s.x0 + |h0|)).push x).toList.getLast? = some l' at h'
            rw [e] at h'; simp at h'; rw [← h']
          · intro _ hd'; simp at hd'
      · simp only [hr, if_false]
        exact FInv.mono s xold x hinv hstep.le


/-- the initial callback (`xold = x = x0`, no interpolant) on a fresh handler records `x0` -/
theorem outputMode2_initial (s : St K) (y : Array K) (ht : s.t = #[]) (hd : s.firstOutputDone = false) :
    FInv (outputMode2 s s.x0 s.x0 y none) s.x0 := by
  have he : Num.eqb s.x0 s.x0 = true := (num_eqb _ _).mpr rfl
  unfold outputMode2
  cases hfs : s.firstStep with
  | none =>
    simp only [ht]
    refine ⟨by simp [Incr], by simp, ?_, le_refl _, ?_⟩
    · intro l h; simp at h; rw [← h]
    · intro h; simp [hfs] at h
  | some h0 =>
    simp only [he, Bool.true_eq_false, and_false, if_false, ht]
    refine ⟨by simp [Incr], by simp, ?_, le_refl _, ?_⟩
    · intro l h; simp at h; rw [← h]
    · intro _ _; simp

/-- accepted steps `x0 → x₁ → x₂ → …` fed to the output phase one after the other -/
def runMode2 (s : St K) : K → List (K × Array K × Interp K) → St K
  | _, [] => s
  | xold, (x, y, ipv) :: rest => runMode2 (outputMode2 s xold x y (some ipv)) x rest

theorem outputMode2_keeps (s : St K) (xold x : K) (y : Array K) (ip : Option (Interp K)) :
    (outputMode2 s xold x y ip).x0 = s.x0 ∧ (outputMode2 s xold x y ip).firstStep = s.firstStep ∧
      (outputMode2 s xold x y ip).tol = s.tol := by
  unfold outputMode2
  cases hfs : s.firstStep with
  | none =>
    dsimp only
    split_ifs <;> exact ⟨rfl, hfs.symm ▸ rfl, rfl⟩
  | some h0 =>
    cases ip with
    | none => dsimp only; split_ifs <;> exact ⟨rfl, hfs.symm ▸ rfl, rfl⟩
    | some ipv => dsimp only; split_ifs <;> exact ⟨rfl, hfs.symm ▸ rfl, rfl⟩

/-- **C03 at the handler (mode 2, forward).**  For every strictly increasing chain of accepted steps, every `first_step`
    (non-zero) and every interpolant, the recorded sample times are strictly increasing, start at `x0` and do not pass the
    end of the last step. -/
theorem runMode2_forward : ∀ (steps : List (K × Array K × Interp K)) (s : St K) (xold : K),
    FInv s xold → 0 ≤ s.tol → (∀ h0, s.firstStep = some h0 → h0 ≠ 0) →
    List.IsChain (· < ·) (xold :: steps.map (·.1)) →
    ∃ xlast, FInv (runMode2 s xold steps) xlast ∧ (xold :: steps.map (·.1)).getLast? = some xlast := by
  intro steps
  induction steps with
  | nil => intro s xold hinv _ _ _; exact ⟨xold, hinv, rfl⟩
  | cons st rest ih =>
    intro s xold hinv htol hh0 hc
    obtain ⟨x, y, ipv⟩ := st
    have hlt : xold < x := by
      cases hc with
      | cons_cons h _ => exact h
    have hc' : List.IsChain (· < ·) (x :: rest.map (·.1)) := by
      cases hc with
      | cons_cons _ h => exact h
    have hstep := outputMode2_forward s xold x y ipv hinv hlt htol hh0
    obtain ⟨k0, k1, k2⟩ := outputMode2_keeps s xold x y (some ipv)
    obtain ⟨xl, hfin, hlast⟩ := ih (outputMode2 s xold x y (some ipv)) x hstep (by rw [k2]; exact htol)
      (fun h0 hf => hh0 h0 (by rw [← k1]; exact hf)) hc'
    refine ⟨xl, hfin, ?_⟩
    simp only [List.map_cons] at hlast ⊢
    rw [List.getLast?_cons_cons]; exact hlast

end
end SolOutM
