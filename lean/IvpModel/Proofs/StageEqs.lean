/-
  The translated stage code *is* the explicit Runge–Kutta scheme with the tableaux of
  `Model/Tableaux.lean`: whatever values the right-hand-side calls return (`Kc j` for the j-th
  call of the region), the argument of every call is `x + c_j h`, `y + h Σ_l a_jl K_l`, and the
  propagated state is `y + h Σ_l b_l K_l`.  Exact arithmetic (any ordered field), every
  dimension `n`, every `x h y k1`.
-/
import IvpModel.Proofs.FieldNum
import IvpModel.Model.Tableaux

noncomputable section
variable {K : Type} [Field K] [LinearOrder K] [IsStrictOrderedRing K] [SqrtPow K]

/-- `Σ_l a_l · (Kv l)[i]` for a tableau row -/
def rowDot {n : Nat} (row : List QQ) (Kv : Nat → Vector K n) (i : Fin n) : K :=
  (row.zipIdx.map fun p => qval p.1 * (Kv p.2)[i]).sum

/-- what an explicit RK scheme with tableau `T` passes to stage `j` -/
def rkArg {n : Nat} (T : QTableau) (x h : K) (y : Vector K n) (Kv : Nat → Vector K n) (j : Nat) :
    K × Vector K n :=
  (x + qval (T.c.getD j z) * h, Vector.ofFn fun i => y[i] + h * rowDot (T.A.getD j []) Kv i)

/-- the propagated state of the scheme -/
def rkNew {n : Nat} (T : QTableau) (h : K) (y : Vector K n) (Kv : Nat → Vector K n) : Vector K n :=
  Vector.ofFn fun i => y[i] + h * rowDot T.b Kv i

/-- stage derivative seen by the scheme: `K_0 = k1` (FSAL/first evaluation), `K_{l+1}` = value
    returned by the `l`-th call of the region -/
def kOf {n : Nat} (k1 : Vector K n) (Kc : Nat → Vector K n) (l : Nat) : Vector K n :=
  if l = 0 then k1 else Kc (l - 1)

/-- the oracle that ignores its arguments and returns the `j`-th prescribed value -/
def openF {n : Nat} (Kc : Nat → Vector K n) : Nat → K → Vector K n → Vector K n := fun j _ _ => Kc j

/-- finish: split conjunctions left by `simp`, then componentwise `ring` -/
macro "stage_finish" : tactic =>
  `(tactic| all_goals ((try (repeat' apply And.intro)) <;> (try ext i hi) <;>
      (first | (simp only [Vector.getElem_ofFn, Fin.getElem_fin]; ring) | (simp; done) | (simp; ring))))

section rk4
open Gen.Rk4
theorem rk4_stage_eqs {n : Nat} (Kc : Nat → Vector K n) (y k1 : Vector K n) (x h : K) (last : Bool) (xend : K)
    (hl : last = true → xend = x + h) :
    (stages (f := openF Kc) (y := y) (h := h) (k1 := k1) (x := x) (last := last) (xend := xend)).calls
      = #[rkArg rk4Tab x h y (kOf k1 Kc) 1, rkArg rk4Tab x h y (kOf k1 Kc) 2, rkArg rk4Tab x h y (kOf k1 Kc) 3] := by
  have hx : (if last = true then xend else x + h) = x + h := by cases last <;> simp_all
  simp [stages, hx, stages_loop1, stages_loop2, stages_loop3, rkArg, rowDot, rk4Tab, openF, kOf, num_lit, qval, z, List.zipIdx]
  stage_finish

theorem rk4_update_eq {n : Nat} (F : Nat → K → Vector K n → Vector K n) (y k1 k2 k3 k4 : Vector K n) (xph h : K) :
    (update (f := F) (xph := xph) (h := h) (y := y) (k1 := k1) (k2 := k2) (k3 := k3) (k4 := k4)).y
      = rkNew rk4Tab h y (fun l => if l = 0 then k1 else if l = 1 then k2 else if l = 2 then k3 else k4) := by
  simp [update, update_loop1, rkNew, rowDot, rk4Tab, num_lit, qval, List.zipIdx]
  stage_finish
end rk4

section rk23
open Gen.Rk23
/-- RK23: the three calls of the stage region are stages 2, 3 and the FSAL stage, whose argument
    is the propagated state itself -/
theorem rk23_stage_eqs {n : Nat} (Kc : Nat → Vector K n) (y k1 : Vector K n) (x h : K) (last : Bool) (xend : K)
    (hl : last = true → xend = x + h) :
    (stages (f := openF Kc) (y := y) (h := h) (k1 := k1) (x := x) (last := last) (xend := xend)).calls
      = #[rkArg rk23Tab x h y (kOf k1 Kc) 1, rkArg rk23Tab x h y (kOf k1 Kc) 2, rkArg rk23Tab x h y (kOf k1 Kc) 3] := by
  have hx : (if last = true then xend else x + h) = x + h := by cases last <;> simp_all
  simp [stages, hx, stages_loop1, stages_loop2, stages_loop3, rkArg, rowDot, rk23Tab, openF, kOf, num_lit, qval, z, one_q, List.zipIdx]
  stage_finish

theorem rk23_new_state {n : Nat} (Kc : Nat → Vector K n) (y k1 : Vector K n) (x h : K) (last : Bool) (xend : K) :
    (stages (f := openF Kc) (y := y) (h := h) (k1 := k1) (x := x) (last := last) (xend := xend)).yt = rkNew rk23Tab h y (kOf k1 Kc) := by
  simp [stages, stages_loop1, stages_loop2, stages_loop3, rkNew, rowDot, rk23Tab, openF, kOf, num_lit, qval, z, List.zipIdx]
  stage_finish

/-- the error vector is `h · Σ E_l K_l` -/
theorem rk23_err_eq {n : Nat} (k1 k2 k3 k4 : Vector K n) (h : K) :
    (errvec (h := h) (k1 := k1) (k2 := k2) (k3 := k3) (k4 := k4)).ye
      = Vector.ofFn fun i => h * rowDot rk23E (fun l => if l = 0 then k1 else if l = 1 then k2 else if l = 2 then k3 else k4) i := by
  simp [errvec, errvec_loop1, rowDot, rk23E, num_lit, qval, List.zipIdx]
  stage_finish
end rk23

section dopri5
open Gen.Dopri5
theorem dopri5_stage_eqs {n : Nat} (Kc : Nat → Vector K n) (y k1 : Vector K n) (x h : K) (last : Bool) (xend : K)
    (hl : last = true → xend = x + h) :
    (stages (f := openF Kc) (y := y) (h := h) (k1 := k1) (x := x) (last := last) (xend := xend)).calls
      = #[rkArg dopri5Tab x h y (kOf k1 Kc) 1, rkArg dopri5Tab x h y (kOf k1 Kc) 2,
          rkArg dopri5Tab x h y (kOf k1 Kc) 3, rkArg dopri5Tab x h y (kOf k1 Kc) 4,
          rkArg dopri5Tab x h y (kOf k1 Kc) 5, rkArg dopri5Tab x h y (kOf k1 Kc) 6] := by
  have hx : (if last = true then xend else x + h) = x + h := by cases last <;> simp_all
  simp [stages, hx, stages_loop1, stages_loop2, stages_loop3, stages_loop4, stages_loop5, stages_loop6, rkArg, rowDot, dopri5Tab, openF, kOf, num_lit, qval, z, one_q, List.zipIdx]
  stage_finish

theorem dopri5_new_state {n : Nat} (Kc : Nat → Vector K n) (y k1 : Vector K n) (x h : K) (last : Bool) (xend : K)
    (hl : last = true → xend = x + h) :
    (stages (f := openF Kc) (y := y) (h := h) (k1 := k1) (x := x) (last := last) (xend := xend)).y1 = rkNew dopri5Tab h y (kOf k1 Kc) := by
  have hx : (if last = true then xend else x + h) = x + h := by cases last <;> simp_all
  simp [stages, hx, stages_loop1, stages_loop2, stages_loop3, stages_loop4, stages_loop5, stages_loop6, rkNew, rowDot, dopri5Tab, openF, kOf, num_lit, qval, z, List.zipIdx]
  stage_finish

/-- outputs of the stage region are the six returned values in the buffers the later code reads -/
theorem dopri5_stage_buffers {n : Nat} (Kc : Nat → Vector K n) (y k1 : Vector K n) (x h : K) (last : Bool) (xend : K)
    (hl : last = true → xend = x + h) :
    let o := stages (f := openF Kc) (y := y) (h := h) (k1 := k1) (x := x) (last := last) (xend := xend)
    o.k3 = Kc 1 ∧ o.k4 = Kc 2 ∧ o.k5 = Kc 3 ∧ o.k6 = Kc 4 ∧ o.k2 = Kc 5 ∧ o.xph = x + h := by
  have hx : (if last = true then xend else x + h) = x + h := by cases last <;> simp_all
  simp [stages, hx, openF]

/-- the error vector (stored in `k4`) is `h · Σ E_l K_l` with `k2` holding the seventh stage -/
theorem dopri5_err_eq {n : Nat} (k1 k2 k3 k4 k5 k6 : Vector K n) (h : K) :
    (errk4 (h := h) (k1 := k1) (k2 := k2) (k3 := k3) (k4 := k4) (k5 := k5) (k6 := k6)).k4
      = Vector.ofFn fun i => h * rowDot dopri5E
          (fun l => if l = 0 then k1 else if l = 2 then k3 else if l = 3 then k4 else if l = 4 then k5
                    else if l = 5 then k6 else k2) i := by
  simp [errk4, errk4_loop1, rowDot, dopri5E, num_lit, qval, z, List.zipIdx]
  stage_finish
end dopri5

end
