import IvpModel.Proofs.ReflectHairer
set_option linter.unusedSectionVars false
set_option linter.unusedSimpArgs false
set_option linter.unusedTactic false
set_option linter.unnecessarySeqFocus false
set_option linter.unusedVariables false

/-!
  C13, whole runs of DOPRI5 under time reflection: the translated regions of dopri5.rs (stages, error vector, stiffness quotient,
  dense output, interpolant), its guards and step-size formulas and the shared `hinit` obey the mirror laws of
  `Proofs/ReflectHairer.lean`, so `hSolve` on the mirrored problem is the mirror image of `hSolve` on the problem.
  (Before the repair of the stiffness detector — it rebuilt the stage-6 state from buffers already overwritten by the seventh
  stage and the error vector — the law `hlamb` failed and this file could not be written.)
-/
namespace Ctl
noncomputable section
variable {K : Type} [Field K] [LinearOrder K] [IsStrictOrderedRing K] [SqrtPow K] {n : Nat}

section regions
open Gen.Dopri5

theorem d5l1_reflect (y k1 : Vector K n) (h : K) :
    stages_loop1 (y := y) (h := -h) (k1 := vneg k1) = stages_loop1 (y := y) (h := h) (k1 := k1) := by
  ext i hi; simp [stages_loop1, vneg]
theorem d5l2_reflect (y k1 k2 : Vector K n) (h : K) :
    stages_loop2 (y := y) (h := -h) (k1 := vneg k1) (k2 := vneg k2) = stages_loop2 (y := y) (h := h) (k1 := k1) (k2 := k2) := by
  ext i hi; simp [stages_loop2, vneg]; ring
theorem d5l3_reflect (y k1 k2 k3 : Vector K n) (h : K) :
    stages_loop3 (y := y) (h := -h) (k1 := vneg k1) (k2 := vneg k2) (k3 := vneg k3) = stages_loop3 (y := y) (h := h) (k1 := k1) (k2 := k2) (k3 := k3) := by
  ext i hi; simp [stages_loop3, vneg]; ring
theorem d5l4_reflect (y k1 k2 k3 k4 : Vector K n) (h : K) :
    stages_loop4 (y := y) (h := -h) (k1 := vneg k1) (k2 := vneg k2) (k3 := vneg k3) (k4 := vneg k4)
      = stages_loop4 (y := y) (h := h) (k1 := k1) (k2 := k2) (k3 := k3) (k4 := k4) := by
  ext i hi; simp [stages_loop4, vneg]; ring
theorem d5l5_reflect (y k1 k2 k3 k4 k5 : Vector K n) (h : K) :
    stages_loop5 (y := y) (h := -h) (k1 := vneg k1) (k2 := vneg k2) (k3 := vneg k3) (k4 := vneg k4) (k5 := vneg k5)
      = stages_loop5 (y := y) (h := h) (k1 := k1) (k2 := k2) (k3 := k3) (k4 := k4) (k5 := k5) := by
  ext i hi; simp [stages_loop5, vneg]; ring
theorem d5l6_reflect (y k1 k3 k4 k5 k6 : Vector K n) (h : K) :
    stages_loop6 (y := y) (h := -h) (k1 := vneg k1) (k3 := vneg k3) (k4 := vneg k4) (k5 := vneg k5) (k6 := vneg k6)
      = stages_loop6 (y := y) (h := h) (k1 := k1) (k3 := k3) (k4 := k4) (k5 := k5) (k6 := k6) := by
  ext i hi; simp [stages_loop6, vneg]; ring

theorem stages5_reflect_off (F : Rhs K n) (c : Nat) (y k1 : Vector K n) (x h : K) (last : Bool) (xend : K) :
    let o := stages (f := fun j => F (c + j)) (y := y) (h := h) (k1 := k1) (x := x) (last := last) (xend := xend)
    let o' := stages (f := fun j => rRhs F (c + j)) (y := y) (h := -h) (k1 := vneg k1) (x := -x) (last := last) (xend := -xend)
    o'.y1 = o.y1 ∧ o'.ysti = o.ysti ∧ o'.k2 = vneg o.k2 ∧ o'.k3 = vneg o.k3 ∧ o'.k4 = vneg o.k4 ∧ o'.k5 = vneg o.k5 ∧ o'.k6 = vneg o.k6
      ∧ o'.xph = -o.xph ∧ o'.calls = o.calls.map mirror := by
  intro o o'
  have t1 : -(-x + (C2 : K) * -h) = x + C2 * h := by ring
  have t2 : -(-x + (C3 : K) * -h) = x + C3 * h := by ring
  have t3 : -(-x + (C4 : K) * -h) = x + C4 * h := by ring
  have t4 : -(-x + (C5 : K) * -h) = x + C5 * h := by ring
  have t5 : (if last = true then -xend else -x + -h) = -(if last = true then xend else x + h) := by
    cases last <;> simp; ring
  simp only [o, o', stages, rRhs, d5l1_reflect, t1, d5l2_reflect, t2, d5l3_reflect, t3, d5l4_reflect, t4, d5l5_reflect, t5, d5l6_reflect, neg_neg]
  simp [mirror]
  refine ⟨?_, ?_, ?_, ?_⟩ <;> ring

theorem errk4_reflect (k1 k2 k3 k4 k5 k6 : Vector K n) (h : K) :
    (errk4 (k1 := vneg k1) (k3 := vneg k3) (k4 := vneg k4) (k5 := vneg k5) (k6 := vneg k6) (k2 := vneg k2) (h := -h)).k4
      = (errk4 (k1 := k1) (k3 := k3) (k4 := k4) (k5 := k5) (k6 := k6) (k2 := k2) (h := h)).k4 := by
  ext i hi; simp [errk4, errk4_loop1, vneg]; ring

theorem dense5_reflect (y1 y k1 k2 : Vector K n) (h : K) :
    dense (y1 := y1) (y := y) (h := -h) (k1 := vneg k1) (k2 := vneg k2) = dense (y1 := y1) (y := y) (h := h) (k1 := k1) (k2 := k2) := by
  simp only [dense, dense_loop1, vneg, Vector.getElem_ofFn, Fin.getElem_fin, neg_neg, mul_neg, neg_mul]

theorem dense45_reflect (k1 k2 k3 k4 k5 k6 : Vector K n) (h : K) :
    dense4 (h := -h) (k1 := vneg k1) (k3 := vneg k3) (k4 := vneg k4) (k5 := vneg k5) (k6 := vneg k6) (k2 := vneg k2)
      = dense4 (h := h) (k1 := k1) (k3 := k3) (k4 := k4) (k5 := k5) (k6 := k6) (k2 := k2) := by
  have : dense4_loop1 (h := -h) (k1 := vneg k1) (k3 := vneg k3) (k4 := vneg k4) (k5 := vneg k5) (k6 := vneg k6) (k2 := vneg k2)
      = dense4_loop1 (h := h) (k1 := k1) (k3 := k3) (k4 := k4) (k5 := k5) (k6 := k6) (k2 := k2) := by
    ext i hi; simp [dense4_loop1, vneg]; ring
  simp only [dense4, this]

theorem interp5_reflect (c0 c1 c2 c3 c4 : Vector K n) (xold h xi : K) :
    interpolate (xi := -xi) (xold := -xold) (h := -h) (cont0 := c0) (cont1 := c1) (cont2 := c2) (cont3 := c3) (cont4 := c4)
      = interpolate (xi := xi) (xold := xold) (h := h) (cont0 := c0) (cont1 := c1) (cont2 := c2) (cont3 := c3) (cont4 := c4) := by
  have ht : (-xi - -xold) / -h = (xi - xold) / h := by
    rw [show -xi - -xold = -(xi - xold) by ring, neg_div_neg_eq]
  simp only [interpolate, ht]
end regions

/-- the mirror image of DOPRI5's stage data: the derivative vectors change sign; the candidate state, the stage-6 state and the
    error vector do not -/
def rD5S (S : D5S K n) : D5S K n :=
  { S with k2 := vneg S.k2, k3 := vneg S.k3, k4 := vneg S.k4, k5 := vneg S.k5, k6 := vneg S.k6 }

/-- **DOPRI5's numeric kernel obeys the mirror laws.** -/
def dopri5KRefl (atol rtol : Vec K n) : KRefl (dopri5Kernel (α := K) atol rtol) where
  rS := rD5S
  rSA := rD5S
  rC := id
  trial := by
    intro F c x h last xend y k1
    obtain ⟨e1, e2, e3, e4, e5, e6, e7, e8, e9⟩ := stages5_reflect_off F c y k1 x h last xend
    simp only [dopri5Kernel, rD5S, e1, e2, e3, e4, e5, e6, e7, e9, errk4_reflect]
  err := by
    intro s y h
    rfl
  acceptA := by
    intro F c s x h y k1
    simp [dopri5Kernel]
  hlamb := by
    intro a h y k1 old
    exact dopri5_stiff_reflect a.k2 a.k6 a.y1 a.ysti h old
  acceptB := by
    intro F c d a x h y k1
    cases d <;> simp [dopri5Kernel, rD5S, dense5_reflect, dense45_reflect]
  interp := by
    intro c xold h t
    exact interp5_reflect _ _ _ _ _ xold h t

theorem dopri5Params_mirror (L : HLits K) (xend posneg uround safety scaleMin scaleMax beta hmax : K) (nmax nstiff : Nat) (dense : Bool) :
    rHP (dopri5Params (n := n) L xend posneg uround safety scaleMin scaleMax beta hmax nmax nstiff dense)
      = dopri5Params L (-xend) (-posneg) uround safety scaleMin scaleMax beta hmax nmax nstiff dense := rfl

theorem dopri5Params_refl (L : HLits K) (xend posneg uround safety scaleMin scaleMax beta hmax : K) (nmax nstiff : Nat) (dense : Bool) :
    PRefl (dopri5Params (n := n) L xend posneg uround safety scaleMin scaleMax beta hmax nmax nstiff dense) where
  underflow := fun h x u => dopri5_underflow_reflect h x u
  lastG := fun x h e p => dopri5_lastGuard_reflect x h e p
  hnewCalc := by
    intro err facold h
    simp only [dopri5Params, Gen.Dopri5.hnewCalc, neg_div]
  hReject := by
    intro h fac11
    simp only [dopri5Params, Gen.Dopri5.hReject, neg_div]

theorem hinitCall_refl (atol rtol : Vec K n) (x0 : K) (y0 : Vec K n) (posneg hmaxArg : K) (iord : Nat) (hp : posneg ≠ 0) :
    HinitRefl (hinitCall atol rtol x0 y0 posneg hmaxArg iord) (hinitCall atol rtol (-x0) y0 (-posneg) hmaxArg iord) := by
  intro F k1
  exact hinit_reflect_gen (fun j => F (1 + j)) atol rtol y0 k1 hmaxArg posneg x0 iord hp

theorem dop853Params_mirror (L : HLits K) (xend posneg uround safety scaleMin scaleMax beta hmax : K) (nmax nstiff : Nat) (dense : Bool) :
    rHP (dop853Params (n := n) L xend posneg uround safety scaleMin scaleMax beta hmax nmax nstiff dense)
      = dop853Params L (-xend) (-posneg) uround safety scaleMin scaleMax beta hmax nmax nstiff dense := rfl

theorem dop853Params_refl (L : HLits K) (xend posneg uround safety scaleMin scaleMax beta hmax : K) (nmax nstiff : Nat) (dense : Bool) :
    PRefl (dop853Params (n := n) L xend posneg uround safety scaleMin scaleMax beta hmax nmax nstiff dense) where
  underflow := fun h x u => dop853_underflow_reflect h x u
  lastG := fun x h e p => dop853_lastGuard_reflect x h e p
  hnewCalc := by
    intro err facold h
    simp only [dop853Params, Gen.Dop853.hnewCalc, neg_div]
  hReject := by
    intro h fac11
    simp only [dop853Params, Gen.Dop853.hReject, neg_div]

/-- **Whole runs of DOPRI5 under time reflection** (given or automatic first step, accepted and rejected trials, stiffness
    detection, dense output and observer replies): the run of the mirrored problem is the mirror image of the run. -/
theorem dopri5Solve_reflect {σ : Type} (L : HLits K) (xend posneg uround safety scaleMin scaleMax beta hmax : K) (nmax nstiff : Nat)
    (dense : Bool) (atol rtol : Vec K n) (f : Rhs K n) (ob : Obs σ K n) (obs0 : σ) (x0 : K) (y0 : Vec K n) (firstStep : Option K)
    (hmaxArg : K) (iord : Nat) (fo hl : K) (hp : posneg ≠ 0) (fuel : Nat) :
    hSolve (dopri5Params L (-xend) (-posneg) uround safety scaleMin scaleMax beta hmax nmax nstiff dense) (dopri5Kernel atol rtol)
        (rRhs f) (rObs ob) obs0 (-x0) y0 firstStep (hinitCall atol rtol (-x0) y0 (-posneg) hmaxArg iord) fo hl fuel
      = (hSolve (dopri5Params L xend posneg uround safety scaleMin scaleMax beta hmax nmax nstiff dense) (dopri5Kernel atol rtol)
        f ob obs0 x0 y0 firstStep (hinitCall atol rtol x0 y0 posneg hmaxArg iord) fo hl fuel).map rResult := by
  rw [← dopri5Params_mirror]
  exact hSolve_reflect _ (dopri5Params_refl L xend posneg uround safety scaleMin scaleMax beta hmax nmax nstiff dense) _
    (dopri5KRefl atol rtol) f ob obs0 x0 y0 firstStep _ _ (hinitCall_refl atol rtol x0 y0 posneg hmaxArg iord hp) fo hl fuel

end
end Ctl
