import IvpModel.Proofs.DupRk4
import IvpModel.Proofs.ScaleDop853
set_option linter.unusedSectionVars false
set_option linter.unusedSimpArgs false
set_option linter.unusedTactic false
set_option linter.unnecessarySeqFocus false
set_option linter.unusedVariables false

/-!
  C13, whole runs of DOP853 on `m` stacked copies of a system (given first step).  DOP853's error estimate is
  `|h| · err · sqrt(1 / (n · deno))` with `err`, `deno` sums over the components, so the value on `m` copies equals the value on
  one copy only through `sqrt(a / m²) = sqrt(a) / m` — a law of the real square root that the abstract `SqrtPow` does not carry
  and that is therefore a hypothesis here (`SqrtDiv`); in binary64 it holds up to rounding, which is the property's
  "up to rounding in the error norm".
-/
namespace Ctl
noncomputable section
variable {K : Type} [Field K] [LinearOrder K] [IsStrictOrderedRing K] [SqrtPow K] {n : Nat}

/-- `sqrt(a / b²) = sqrt(a) / b` for `b > 0` -/
def SqrtDiv (K : Type) [Field K] [LinearOrder K] [SqrtPow K] : Prop := ∀ a b : K, 0 < b → SqrtPow.sqrt (a / (b * b)) = SqrtPow.sqrt a / b

theorem dop853_norm_copies (hsq : SqrtDiv K) (A B c one habs : K) (m n : Nat) (hm : 0 < m) (hn : 0 < n) (hA : 0 ≤ A) (hB : 0 ≤ B) (hc : 0 < c) :
    habs * ((m : K) * A) * Num.sqrt (one / (Num.ofNat (m * n) * (if (m : K) * A + c * ((m : K) * B) ≤ 0 then one else (m : K) * A + c * ((m : K) * B))))
      = habs * A * Num.sqrt (one / (Num.ofNat n * (if A + c * B ≤ 0 then one else A + c * B))) := by
  have hq : (0 : K) < (m : K) := by exact_mod_cast hm
  have hnK : (0 : K) < (n : K) := by exact_mod_cast hn
  have e1 : (m : K) * A + c * ((m : K) * B) = (m : K) * (A + c * B) := by ring
  have hcast : (Num.ofNat (m * n) : K) = (m : K) * (n : K) := by simp [Num.ofNat]
  have hcastn : (Num.ofNat n : K) = (n : K) := by simp [Num.ofNat]
  rw [e1, hcast, hcastn]
  have hD : 0 ≤ A + c * B := add_nonneg hA (mul_nonneg hc.le hB)
  by_cases hz : A + c * B ≤ 0
  · have hD0 : A + c * B = 0 := le_antisymm hz hD
    have hA0 : A = 0 := by nlinarith [mul_nonneg hc.le hB]
    rw [hA0]; simp
  · have hpos : 0 < A + c * B := lt_of_not_ge hz
    have hz' : ¬ ((m : K) * (A + c * B) ≤ 0) := not_le.mpr (mul_pos hq hpos)
    rw [if_neg hz, if_neg hz']
    have e2 : one / ((m : K) * (n : K) * ((m : K) * (A + c * B))) = (one / ((n : K) * (A + c * B))) / ((m : K) * (m : K)) := by
      field_simp
    rw [e2]
    show habs * ((m : K) * A) * SqrtPow.sqrt _ = habs * A * SqrtPow.sqrt _
    rw [hsq _ _ hq]
    field_simp

variable (m : Nat) (hn : 0 < n)

section regions
open Gen.Dop853

theorem d8l1_dup (y k1 : Vector K n) (h : K) :
    stages_loop1 (y := dupV m hn y) (h := h) (k1 := dupV m hn k1) = dupV m hn (stages_loop1 (y := y) (h := h) (k1 := k1)) := by
  ext i hi; simp [stages_loop1, dupV]

theorem d8l2_dup (y k1 k2 : Vector K n) (h : K) :
    stages_loop2 (y := dupV m hn y) (h := h) (k1 := dupV m hn k1) (k2 := dupV m hn k2) = dupV m hn (stages_loop2 (y := y) (h := h) (k1 := k1) (k2 := k2)) := by
  ext i hi; simp [stages_loop2, dupV]

theorem d8l3_dup (y k1 k3 : Vector K n) (h : K) :
    stages_loop3 (y := dupV m hn y) (h := h) (k1 := dupV m hn k1) (k3 := dupV m hn k3) = dupV m hn (stages_loop3 (y := y) (h := h) (k1 := k1) (k3 := k3)) := by
  ext i hi; simp [stages_loop3, dupV]

theorem d8l4_dup (y k1 k3 k4 : Vector K n) (h : K) :
    stages_loop4 (y := dupV m hn y) (h := h) (k1 := dupV m hn k1) (k3 := dupV m hn k3) (k4 := dupV m hn k4) = dupV m hn (stages_loop4 (y := y) (h := h) (k1 := k1) (k3 := k3) (k4 := k4)) := by
  ext i hi; simp [stages_loop4, dupV]

theorem d8l5_dup (y k1 k4 k5 : Vector K n) (h : K) :
    stages_loop5 (y := dupV m hn y) (h := h) (k1 := dupV m hn k1) (k4 := dupV m hn k4) (k5 := dupV m hn k5) = dupV m hn (stages_loop5 (y := y) (h := h) (k1 := k1) (k4 := k4) (k5 := k5)) := by
  ext i hi; simp [stages_loop5, dupV]

theorem d8l6_dup (y k1 k4 k5 k6 : Vector K n) (h : K) :
    stages_loop6 (y := dupV m hn y) (h := h) (k1 := dupV m hn k1) (k4 := dupV m hn k4) (k5 := dupV m hn k5) (k6 := dupV m hn k6) = dupV m hn (stages_loop6 (y := y) (h := h) (k1 := k1) (k4 := k4) (k5 := k5) (k6 := k6)) := by
  ext i hi; simp [stages_loop6, dupV]

theorem d8l7_dup (y k1 k4 k5 k6 k7 : Vector K n) (h : K) :
    stages_loop7 (y := dupV m hn y) (h := h) (k1 := dupV m hn k1) (k4 := dupV m hn k4) (k5 := dupV m hn k5) (k6 := dupV m hn k6) (k7 := dupV m hn k7) = dupV m hn (stages_loop7 (y := y) (h := h) (k1 := k1) (k4 := k4) (k5 := k5) (k6 := k6) (k7 := k7)) := by
  ext i hi; simp [stages_loop7, dupV]

theorem d8l8_dup (y k1 k4 k5 k6 k7 k8 : Vector K n) (h : K) :
    stages_loop8 (y := dupV m hn y) (h := h) (k1 := dupV m hn k1) (k4 := dupV m hn k4) (k5 := dupV m hn k5) (k6 := dupV m hn k6) (k7 := dupV m hn k7) (k8 := dupV m hn k8) = dupV m hn (stages_loop8 (y := y) (h := h) (k1 := k1) (k4 := k4) (k5 := k5) (k6 := k6) (k7 := k7) (k8 := k8)) := by
  ext i hi; simp [stages_loop8, dupV]

theorem d8l9_dup (y k1 k4 k5 k6 k7 k8 k9 : Vector K n) (h : K) :
    stages_loop9 (y := dupV m hn y) (h := h) (k1 := dupV m hn k1) (k4 := dupV m hn k4) (k5 := dupV m hn k5) (k6 := dupV m hn k6) (k7 := dupV m hn k7) (k8 := dupV m hn k8) (k9 := dupV m hn k9) = dupV m hn (stages_loop9 (y := y) (h := h) (k1 := k1) (k4 := k4) (k5 := k5) (k6 := k6) (k7 := k7) (k8 := k8) (k9 := k9)) := by
  ext i hi; simp [stages_loop9, dupV]

theorem d8l10_dup (y k1 k4 k5 k6 k7 k8 k9 k10 : Vector K n) (h : K) :
    stages_loop10 (y := dupV m hn y) (h := h) (k1 := dupV m hn k1) (k4 := dupV m hn k4) (k5 := dupV m hn k5) (k6 := dupV m hn k6) (k7 := dupV m hn k7) (k8 := dupV m hn k8) (k9 := dupV m hn k9) (k10 := dupV m hn k10) = dupV m hn (stages_loop10 (y := y) (h := h) (k1 := k1) (k4 := k4) (k5 := k5) (k6 := k6) (k7 := k7) (k8 := k8) (k9 := k9) (k10 := k10)) := by
  ext i hi; simp [stages_loop10, dupV]

theorem d8l11_dup (y k1 k4 k5 k6 k7 k8 k9 k10 k2 : Vector K n) (h : K) :
    stages_loop11 (y := dupV m hn y) (h := h) (k1 := dupV m hn k1) (k4 := dupV m hn k4) (k5 := dupV m hn k5) (k6 := dupV m hn k6) (k7 := dupV m hn k7) (k8 := dupV m hn k8) (k9 := dupV m hn k9) (k10 := dupV m hn k10) (k2 := dupV m hn k2) = dupV m hn (stages_loop11 (y := y) (h := h) (k1 := k1) (k4 := k4) (k5 := k5) (k6 := k6) (k7 := k7) (k8 := k8) (k9 := k9) (k10 := k10) (k2 := k2)) := by
  ext i hi; simp [stages_loop11, dupV]

theorem d8x1_dup (y k1 k7 k8 k9 k10 k2 k3 k4 : Vector K n) (h : K) :
    extraStages_loop1 (y := dupV m hn y) (h := h) (k1 := dupV m hn k1) (k7 := dupV m hn k7) (k8 := dupV m hn k8) (k9 := dupV m hn k9) (k10 := dupV m hn k10) (k2 := dupV m hn k2) (k3 := dupV m hn k3) (k4 := dupV m hn k4) = dupV m hn (extraStages_loop1 (y := y) (h := h) (k1 := k1) (k7 := k7) (k8 := k8) (k9 := k9) (k10 := k10) (k2 := k2) (k3 := k3) (k4 := k4)) := by
  ext i hi; simp [extraStages_loop1, dupV]

theorem d8x2_dup (y k1 k6 k7 k8 k2 k3 k4 k10 : Vector K n) (h : K) :
    extraStages_loop2 (y := dupV m hn y) (h := h) (k1 := dupV m hn k1) (k6 := dupV m hn k6) (k7 := dupV m hn k7) (k8 := dupV m hn k8) (k2 := dupV m hn k2) (k3 := dupV m hn k3) (k4 := dupV m hn k4) (k10 := dupV m hn k10) = dupV m hn (extraStages_loop2 (y := y) (h := h) (k1 := k1) (k6 := k6) (k7 := k7) (k8 := k8) (k2 := k2) (k3 := k3) (k4 := k4) (k10 := k10)) := by
  ext i hi; simp [extraStages_loop2, dupV]

theorem d8x3_dup (y k1 k6 k7 k8 k9 k4 k10 k2 : Vector K n) (h : K) :
    extraStages_loop3 (y := dupV m hn y) (h := h) (k1 := dupV m hn k1) (k6 := dupV m hn k6) (k7 := dupV m hn k7) (k8 := dupV m hn k8) (k9 := dupV m hn k9) (k4 := dupV m hn k4) (k10 := dupV m hn k10) (k2 := dupV m hn k2) = dupV m hn (extraStages_loop3 (y := y) (h := h) (k1 := k1) (k6 := k6) (k7 := k7) (k8 := k8) (k9 := k9) (k4 := k4) (k10 := k10) (k2 := k2)) := by
  ext i hi; simp [extraStages_loop3, dupV]

def dStages8 (o : StagesOut K n) : StagesOut K (m * n) :=
  { y1 := dupV m hn o.y1, k2 := dupV m hn o.k2, calls := o.calls.map (dcl m hn), k3 := dupV m hn o.k3, k4 := dupV m hn o.k4, k5 := dupV m hn o.k5,
    k6 := dupV m hn o.k6, k7 := dupV m hn o.k7, k8 := dupV m hn o.k8, k9 := dupV m hn o.k9, k10 := dupV m hn o.k10, xph := o.xph }

theorem stages8_dup (F : Rhs K (m * n)) (f : Rhs K n) (hF : DupRhs m hn F f) (y k1 : Vector K n) (x h : K) (last : Bool) (xend : K) :
    stages (f := F) (y := dupV m hn y) (h := h) (k1 := dupV m hn k1) (x := x) (last := last) (xend := xend)
      = dStages8 m hn (stages (f := f) (y := y) (h := h) (k1 := k1) (x := x) (last := last) (xend := xend)) := by
  simp only [stages, dStages8, d8l1_dup, d8l2_dup, d8l3_dup, d8l4_dup, d8l5_dup, d8l6_dup, d8l7_dup,
    d8l8_dup, d8l9_dup, d8l10_dup, d8l11_dup, hF _ _ _]
  simp [dcl]

theorem combine8_dup (k1 k6 k7 k8 k9 k10 k2 k3 y k4 : Vector K n) (h : K) :
    combine (k1 := dupV m hn k1) (k6 := dupV m hn k6) (k7 := dupV m hn k7) (k8 := dupV m hn k8) (k9 := dupV m hn k9) (k10 := dupV m hn k10) (k2 := dupV m hn k2)
        (k3 := dupV m hn k3) (y := dupV m hn y) (h := h) (k4 := dupV m hn k4)
      = { k4 := dupV m hn (combine (k1 := k1) (k6 := k6) (k7 := k7) (k8 := k8) (k9 := k9) (k10 := k10) (k2 := k2) (k3 := k3) (y := y) (h := h) (k4 := k4)).k4,
          k5 := dupV m hn (combine (k1 := k1) (k6 := k6) (k7 := k7) (k8 := k8) (k9 := k9) (k10 := k10) (k2 := k2) (k3 := k3) (y := y) (h := h) (k4 := k4)).k5 } := by
  simp only [combine, combine_loop1]
  congr 1
  · ext i hi; simp [dupV]
  · ext i hi; simp [dupV]

theorem errnorm8_dup (hsq : SqrtDiv K) (hm : 0 < m) (atol rtol y k5 k4 k1 k9 k3 k6 k7 k8 k10 k2 : Vector K n) (h : K) :
    errnorm (atol := dupV m hn atol) (rtol := dupV m hn rtol) (y := dupV m hn y) (k5 := dupV m hn k5) (k4 := dupV m hn k4) (k1 := dupV m hn k1) (k9 := dupV m hn k9)
        (k3 := dupV m hn k3) (k6 := dupV m hn k6) (k7 := dupV m hn k7) (k8 := dupV m hn k8) (k10 := dupV m hn k10) (k2 := dupV m hn k2) (h := h)
      = errnorm (atol := atol) (rtol := rtol) (y := y) (k5 := k5) (k4 := k4) (k1 := k1) (k9 := k9) (k3 := k3) (k6 := k6)
        (k7 := k7) (k8 := k8) (k10 := k10) (k2 := k2) (h := h) := by
  have hq : (0 : K) < (m : K) := by exact_mod_cast hm
  have hnK : (0 : K) < (n : K) := by exact_mod_cast hn
  -- the two sums, as functions of the component
  let g2 : Fin n → K := fun i => ((k4[i] - BH1 * k1[i] - BH2 * k9[i] - BH3 * k3[i]) / (atol[i] + rtol[i] * max |y[i]| |k5[i]|)) *
      ((k4[i] - BH1 * k1[i] - BH2 * k9[i] - BH3 * k3[i]) / (atol[i] + rtol[i] * max |y[i]| |k5[i]|))
  let g1 : Fin n → K := fun i => ((ER1 * k1[i] + ER6 * k6[i] + ER7 * k7[i] + ER8 * k8[i] + ER9 * k9[i] + ER10 * k10[i] + ER11 * k2[i] + ER12 * k3[i]) /
      (atol[i] + rtol[i] * max |y[i]| |k5[i]|)) *
      ((ER1 * k1[i] + ER6 * k6[i] + ER7 * k7[i] + ER8 * k8[i] + ER9 * k9[i] + ER10 * k10[i] + ER11 * k2[i] + ER12 * k3[i]) / (atol[i] + rtol[i] * max |y[i]| |k5[i]|))
  have hg1 : ∀ i, 0 ≤ g1 i := fun i => mul_self_nonneg _
  have hg2 : ∀ i, 0 ≤ g2 i := fun i => mul_self_nonneg _
  have hz : (Num.lit (0) 1 0x0000000000000000 : K) = 0 := by simp [num_lit]
  have hc100 : (0 : K) < Num.lit (1) 100 0x3F847AE147AE147B := by simp only [num_lit]; norm_num
  simp only [errnorm, errnorm_loop1, dupV_get, num_abs, num_fmax, hz]
  have k1' := foldl_pair_eq_sums (m * n) (fun i => g2 ⟨i.val % n, Nat.mod_lt _ hn⟩) (fun i => g1 ⟨i.val % n, Nat.mod_lt _ hn⟩) (0 : K) 0
  have k2' := foldl_pair_eq_sums n g2 g1 (0 : K) 0
  have s1 := sum_copies m n g1 hn
  have s2 := sum_copies m n g2 hn
  have hA : 0 ≤ ∑ j : Fin n, g1 j := Finset.sum_nonneg fun i _ => hg1 i
  have hB : 0 ≤ ∑ j : Fin n, g2 j := Finset.sum_nonneg fun i _ => hg2 i
  simp only [g1, g2, Fin.getElem_fin] at k1' k2' s1 s2 hA hB ⊢
  rw [k1', k2', s1, s2]
  simp only [zero_add]
  exact dop853_norm_copies hsq _ _ _ _ _ m n hm hn hA hB hc100

theorem stiff8_dup (hm : 0 < m) (k4 k3 k5 y1 : Vector K n) (h hl : K) :
    (stiff (k4 := dupV m hn k4) (k3 := dupV m hn k3) (k5 := dupV m hn k5) (y1 := dupV m hn y1) (h := h) (hlamb := hl)).hlamb
      = (stiff (k4 := k4) (k3 := k3) (k5 := k5) (y1 := y1) (h := h) (hlamb := hl)).hlamb := by
  have hq : (0 : K) < (m : K) := by exact_mod_cast hm
  simp only [stiff, stiff_loop1, dupV_get, num_lit, Int.cast_zero, zero_div]
  have k1' := foldl_pair_eq_sums (m * n) (fun i => (k4[i.val % n]'(Nat.mod_lt _ hn) - k3[i.val % n]'(Nat.mod_lt _ hn)) * (k4[i.val % n]'(Nat.mod_lt _ hn) - k3[i.val % n]'(Nat.mod_lt _ hn)))
    (fun i => (k5[i.val % n]'(Nat.mod_lt _ hn) - y1[i.val % n]'(Nat.mod_lt _ hn)) * (k5[i.val % n]'(Nat.mod_lt _ hn) - y1[i.val % n]'(Nat.mod_lt _ hn))) (0 : K) 0
  have k2' := foldl_pair_eq_sums n (fun i => (k4[i] - k3[i]) * (k4[i] - k3[i])) (fun i => (k5[i] - y1[i]) * (k5[i] - y1[i])) (0 : K) 0
  have s1 := sum_copies m n (fun j : Fin n => (k4[j] - k3[j]) * (k4[j] - k3[j])) hn
  have s2 := sum_copies m n (fun j : Fin n => (k5[j] - y1[j]) * (k5[j] - y1[j])) hn
  simp only [Fin.getElem_fin] at k1' k2' s1 s2 ⊢
  rw [k1', k2', s1, s2]
  simp only [zero_add]
  generalize (∑ j : Fin n, (k4[j.val] - k3[j.val]) * (k4[j.val] - k3[j.val])) = A
  generalize (∑ j : Fin n, (k5[j.val] - y1[j.val]) * (k5[j.val] - y1[j.val])) = B
  rw [mul_div_mul_left _ _ hq.ne']
  by_cases hB : B > 0
  · rw [if_pos hB, if_pos (mul_pos hq hB)]
  · have hB' : ¬ ((m : K) * B > 0) := fun h' => hB ((mul_pos_iff_of_pos_left hq).mp h')
    rw [if_neg hB, if_neg hB']

theorem dense18_dup (y k5 k1 k4 k6 k7 k8 k9 k10 k2 k3 : Vector K n) (h : K) :
    let d := dense1 (y := y) (k5 := k5) (h := h) (k1 := k1) (k4 := k4) (k6 := k6) (k7 := k7) (k8 := k8) (k9 := k9) (k10 := k10) (k2 := k2) (k3 := k3)
    let d' := dense1 (y := dupV m hn y) (k5 := dupV m hn k5) (h := h) (k1 := dupV m hn k1) (k4 := dupV m hn k4) (k6 := dupV m hn k6) (k7 := dupV m hn k7)
      (k8 := dupV m hn k8) (k9 := dupV m hn k9) (k10 := dupV m hn k10) (k2 := dupV m hn k2) (k3 := dupV m hn k3)
    d'.cont0 = dupV m hn d.cont0 ∧ d'.cont1 = dupV m hn d.cont1 ∧ d'.cont2 = dupV m hn d.cont2 ∧ d'.cont3 = dupV m hn d.cont3 ∧ d'.cont4 = dupV m hn d.cont4
      ∧ d'.cont5 = dupV m hn d.cont5 ∧ d'.cont6 = dupV m hn d.cont6 ∧ d'.cont7 = dupV m hn d.cont7 := by
  intro d d'
  refine ⟨?_, ?_, ?_, ?_, ?_, ?_, ?_, ?_⟩ <;> (ext i hi; simp [d, d', dense1, dense1_loop1, dupV])

theorem dense28_dup (c4 k4 k10 k2 k3 c5 c6 c7 : Vector K n) (h : K) :
    let d := dense2 (h := h) (cont4 := c4) (k4 := k4) (k10 := k10) (k2 := k2) (k3 := k3) (cont5 := c5) (cont6 := c6) (cont7 := c7)
    let d' := dense2 (h := h) (cont4 := dupV m hn c4) (k4 := dupV m hn k4) (k10 := dupV m hn k10) (k2 := dupV m hn k2) (k3 := dupV m hn k3)
      (cont5 := dupV m hn c5) (cont6 := dupV m hn c6) (cont7 := dupV m hn c7)
    d'.cont4 = dupV m hn d.cont4 ∧ d'.cont5 = dupV m hn d.cont5 ∧ d'.cont6 = dupV m hn d.cont6 ∧ d'.cont7 = dupV m hn d.cont7 := by
  intro d d'
  refine ⟨?_, ?_, ?_, ?_⟩ <;> (ext i hi; simp [d, d', dense2, dense2_loop1, dupV])

theorem extra8_dup (F : Rhs K (m * n)) (f : Rhs K n) (hF : DupRhs m hn F f) (y k1 k7 k8 k9 k10 k2 k3 k4 k6 : Vector K n) (x h : K) :
    let e := extraStages (f := f) (y := y) (h := h) (k1 := k1) (k7 := k7) (k8 := k8) (k9 := k9) (k10 := k10) (k2 := k2) (k3 := k3) (k4 := k4) (x := x) (k6 := k6)
    let e' := extraStages (f := F) (y := dupV m hn y) (h := h) (k1 := dupV m hn k1) (k7 := dupV m hn k7) (k8 := dupV m hn k8)
      (k9 := dupV m hn k9) (k10 := dupV m hn k10) (k2 := dupV m hn k2) (k3 := dupV m hn k3) (k4 := dupV m hn k4) (x := x) (k6 := dupV m hn k6)
    e'.k10 = dupV m hn e.k10 ∧ e'.k2 = dupV m hn e.k2 ∧ e'.k3 = dupV m hn e.k3 ∧ e'.calls = e.calls.map (dcl m hn) := by
  intro e e'
  simp only [e, e', extraStages, d8x1_dup, d8x2_dup, d8x3_dup, hF _ _ _]
  simp [dcl]

theorem interp8_dup (c4 c5 c6 c7 c0 c1 c2 c3 : Vector K n) (xold h xi : K) :
    interpolate (xi := xi) (xold := xold) (h := h) (cont4 := dupV m hn c4) (cont5 := dupV m hn c5) (cont6 := dupV m hn c6) (cont7 := dupV m hn c7)
        (cont0 := dupV m hn c0) (cont1 := dupV m hn c1) (cont2 := dupV m hn c2) (cont3 := dupV m hn c3)
      = dupV m hn (interpolate (xi := xi) (xold := xold) (h := h) (cont4 := c4) (cont5 := c5) (cont6 := c6) (cont7 := c7) (cont0 := c0) (cont1 := c1)
        (cont2 := c2) (cont3 := c3)) := by
  ext i hi; simp [interpolate, interpolate_loop1, dupV]
end regions

def dD8S (S : D8S K n) : D8S K (m * n) :=
  { k1 := dupV m hn S.k1, o := dStages8 m hn S.o, c := { k4 := dupV m hn S.c.k4, k5 := dupV m hn S.c.k5 } }
def dD8SA (a : D8SA K n) : D8SA K (m * n) := { s := dD8S m hn a.s, k4 := dupV m hn a.k4 }

/-- **DOP853's kernels in dimension `n` and `m·n` (stacked tolerances) are related by the duplication laws**, given
    `sqrt(a / b²) = sqrt(a) / b`. -/
def dop853KDup (hsq : SqrtDiv K) (hm : 0 < m) (atol rtol : Vec K n) :
    KDup m hn (dop853Kernel (α := K) atol rtol) (dop853Kernel (α := K) (dupV m hn atol) (dupV m hn rtol)) where
  dS := dD8S m hn
  dSA := dD8SA m hn
  trial := by
    intro F f hF x h last xend y k1
    simp only [dop853Kernel, dD8S, stages8_dup m hn F f hF]
    simp only [dStages8, combine8_dup]
  err := by
    intro s y h
    simp only [dop853Kernel, dD8S, dStages8, finiteGuard, vecFinite_field, if_true, errnorm8_dup m hn hsq hm]
  acceptA := by
    intro F f hF s x h y k1
    simp [dop853Kernel, dD8S, dD8SA, dStages8, Gen.Dop853.fsal, hF _ _ _, dcl]
  hlamb := by
    intro a h y k1 old
    exact stiff8_dup m hn hm a.k4 a.s.o.k3 a.s.c.k5 a.s.o.y1 h old
  acceptB := by
    intro F f hF d a x h y k1
    cases d
    · simp [dop853Kernel, dD8SA, dD8S]
    · obtain ⟨d0, d1, d2, d3, d4, d5, d6, d7⟩ := dense18_dup m hn y a.s.c.k5 k1 a.k4 a.s.o.k6 a.s.o.k7 a.s.o.k8 a.s.o.k9 a.s.o.k10 a.s.o.k2 a.s.o.k3 h
      obtain ⟨x1, x2, x3, x4⟩ := extra8_dup m hn F f hF y k1 a.s.o.k7 a.s.o.k8 a.s.o.k9 a.s.o.k10 a.s.o.k2 a.s.o.k3 a.k4 a.s.o.k6 x h
      simp only [dop853Kernel, dD8SA, dD8S, dStages8, if_true, d0, d1, d2, d3, d4, d5, d6, d7, x1, x2, x3, x4]
      obtain ⟨f4, f5, f6, f7⟩ := dense28_dup m hn
        (Gen.Dop853.dense1 (y := y) (k5 := a.s.c.k5) (h := h) (k1 := k1) (k4 := a.k4) (k6 := a.s.o.k6) (k7 := a.s.o.k7) (k8 := a.s.o.k8) (k9 := a.s.o.k9) (k10 := a.s.o.k10) (k2 := a.s.o.k2) (k3 := a.s.o.k3)).cont4
        a.k4
        (Gen.Dop853.extraStages (f := f) (y := y) (h := h) (k1 := k1) (k7 := a.s.o.k7) (k8 := a.s.o.k8) (k9 := a.s.o.k9) (k10 := a.s.o.k10) (k2 := a.s.o.k2) (k3 := a.s.o.k3) (k4 := a.k4) (x := x) (k6 := a.s.o.k6)).k10
        (Gen.Dop853.extraStages (f := f) (y := y) (h := h) (k1 := k1) (k7 := a.s.o.k7) (k8 := a.s.o.k8) (k9 := a.s.o.k9) (k10 := a.s.o.k10) (k2 := a.s.o.k2) (k3 := a.s.o.k3) (k4 := a.k4) (x := x) (k6 := a.s.o.k6)).k2
        (Gen.Dop853.extraStages (f := f) (y := y) (h := h) (k1 := k1) (k7 := a.s.o.k7) (k8 := a.s.o.k8) (k9 := a.s.o.k9) (k10 := a.s.o.k10) (k2 := a.s.o.k2) (k3 := a.s.o.k3) (k4 := a.k4) (x := x) (k6 := a.s.o.k6)).k3
        (Gen.Dop853.dense1 (y := y) (k5 := a.s.c.k5) (h := h) (k1 := k1) (k4 := a.k4) (k6 := a.s.o.k6) (k7 := a.s.o.k7) (k8 := a.s.o.k8) (k9 := a.s.o.k9) (k10 := a.s.o.k10) (k2 := a.s.o.k2) (k3 := a.s.o.k3)).cont5
        (Gen.Dop853.dense1 (y := y) (k5 := a.s.c.k5) (h := h) (k1 := k1) (k4 := a.k4) (k6 := a.s.o.k6) (k7 := a.s.o.k7) (k8 := a.s.o.k8) (k9 := a.s.o.k9) (k10 := a.s.o.k10) (k2 := a.s.o.k2) (k3 := a.s.o.k3)).cont6
        (Gen.Dop853.dense1 (y := y) (k5 := a.s.c.k5) (h := h) (k1 := k1) (k4 := a.k4) (k6 := a.s.o.k6) (k7 := a.s.o.k7) (k8 := a.s.o.k8) (k9 := a.s.o.k9) (k10 := a.s.o.k10) (k2 := a.s.o.k2) (k3 := a.s.o.k3)).cont7
        h
      simp only [f4, f5, f6, f7]
      simp
  interp := by
    intro f a x h y k1 xold hh t
    simp [dop853Kernel, interp8_dup]

theorem dop853Params_cast (L : HLits K) (xend posneg uround safety scaleMin scaleMax beta hmax : K) (nmax nstiff : Nat) (dense : Bool) :
    castP m (dop853Params (n := n) L xend posneg uround safety scaleMin scaleMax beta hmax nmax nstiff dense)
      = dop853Params (n := m * n) L xend posneg uround safety scaleMin scaleMax beta hmax nmax nstiff dense := rfl

/-- **Whole runs of DOP853 on `m ≥ 1` stacked copies of a system, given first step**, for a square root with
    `sqrt(a / b²) = sqrt(a) / b`. -/
theorem dop853Solve_dup {σ : Type} (hsq : SqrtDiv K) (hm : 0 < m) (L : HLits K) (xend posneg uround safety scaleMin scaleMax beta hmax : K)
    (nmax nstiff : Nat) (dense : Bool) (atol rtol : Vec K n) (F : Rhs K (m * n)) (f : Rhs K n) (hF : DupRhs m hn F f) (Ob : Obs σ K (m * n))
    (ob : Obs σ K n) (hOb : DupObs m hn Ob ob) (obs0 : σ) (x0 : K) (y0 : Vec K n) (h0 : K)
    (hinit : Rhs K n → Vec K n → K × Array (K × Vec K n)) (hinit' : Rhs K (m * n) → Vec K (m * n) → K × Array (K × Vec K (m * n)))
    (fo hl : K) (fuel : Nat) :
    hSolve (dop853Params L xend posneg uround safety scaleMin scaleMax beta hmax nmax nstiff dense) (dop853Kernel (dupV m hn atol) (dupV m hn rtol))
        F Ob obs0 x0 (dupV m hn y0) (some h0) hinit' fo hl fuel
      = (hSolve (dop853Params L xend posneg uround safety scaleMin scaleMax beta hmax nmax nstiff dense) (dop853Kernel atol rtol)
        f ob obs0 x0 y0 (some h0) hinit fo hl fuel).map (dResult m hn) := by
  rw [← dop853Params_cast m]
  exact hSolve_dup m hn _ _ _ (dop853KDup m hn hsq hm atol rtol) F f hF Ob ob hOb obs0 x0 y0 h0 hinit hinit' fo hl fuel

end
end Ctl
