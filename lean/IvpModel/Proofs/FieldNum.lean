/-
  `Num` instance for ordered fields: the "exact arithmetic" reading of the model.
  `sqrt` and `pow` are supplied by a separate class so that theorems which do not use their
  properties hold for arbitrary such functions (and ℝ gets the real ones).
-/
import IvpModel.Num
import Mathlib.Algebra.Order.Field.Basic
import Mathlib.Tactic.Ring
import Mathlib.Tactic.FieldSimp
import Mathlib.Tactic.Linarith
import Mathlib.Tactic.Positivity

class SqrtPow (K : Type) where
  sqrt : K → K
  pow  : K → K → K

noncomputable section
variable {K : Type} [Field K] [LinearOrder K] [IsStrictOrderedRing K] [SqrtPow K]

instance fieldNum : Num K where
  lit n d _ := (n : K) / (d : K)
  ofNat k := (k : K)
  abs a := |a|
  sqrt := SqrtPow.sqrt
  fmax := max
  fmin := min
  pow := SqrtPow.pow
  signum a := if 0 ≤ a then 1 else -1
  eqb a b := decide (a = b)
  isNaN _ := false
  toNat _ := 0
  decLt _ _ := inferInstance
  decLe _ _ := inferInstance

theorem num_lit (n : Int) (d : Nat) (b : UInt64) : (Num.lit n d b : K) = (n : K) / (d : K) := rfl
@[simp] theorem num_ofNat (k : Nat) : (Num.ofNat k : K) = (k : K) := rfl
@[simp] theorem num_abs (a : K) : Num.abs a = |a| := rfl
@[simp] theorem num_fmax (a b : K) : Num.fmax a b = max a b := rfl
@[simp] theorem num_fmin (a b : K) : Num.fmin a b = min a b := rfl
@[simp] theorem num_sqrt (a : K) : Num.sqrt a = SqrtPow.sqrt a := rfl
@[simp] theorem num_pow (a b : K) : Num.pow a b = SqrtPow.pow a b := rfl
@[simp] theorem num_signum (a : K) : Num.signum a = if 0 ≤ a then 1 else -1 := rfl
@[simp] theorem num_eqb (a b : K) : (Num.eqb a b = true) ↔ a = b := by
  show decide (a = b) = true ↔ a = b
  simp
@[simp] theorem num_isNaN (a : K) : Num.isNaN a = false := rfl

/-- value of a generated rational constant `(num, den)` in `K` -/
def qval (q : Int × Nat) : K := (q.1 : K) / (q.2 : K)

/-- a generated literal is the value of its `(num, den)` pair (used to keep big literals opaque) -/
theorem num_lit_qval (n : Int) (d : Nat) (b : UInt64) : (Num.lit n d b : K) = qval (n, d) := rfl
@[simp] theorem qval_zero (d : Nat) : (qval ((0 : Int), d) : K) = 0 := by simp [qval]
@[simp] theorem qval_one : (qval ((1 : Int), (1 : Nat)) : K) = 1 := by simp [qval]

end
