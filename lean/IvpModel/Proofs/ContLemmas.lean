/-
  Lemmas about the segment lookup model (`Model/Cont.lean`) over ordered fields.
  A run's segments form a chain: each starts where the previous one ended, all steps have the sign of the direction.
-/
import IvpModel.Proofs.FieldNum
import IvpModel.Model.Cont

namespace ContM
open Gen.Cont
noncomputable section
variable {K : Type} [Field K] [LinearOrder K] [IsStrictOrderedRing K] [SqrtPow K]

/-- strict sign of a step in the direction of integration -/
def stepPos (fwd : Bool) (h : K) : Prop := if fwd then 0 < h else h < 0
/-- weak sign (zero-length steps allowed, as the handler may see them) -/
def stepNonneg (fwd : Bool) (h : K) : Prop := if fwd then 0 ≤ h else h ≤ 0

/-- the segments of a run that starts at `x`: contiguous, every step strictly in the direction -/
def Chain (fwd : Bool) : K → List (Seg K) → Prop
  | _, [] => True
  | x, s :: r => s.xold = x ∧ stepPos fwd s.h ∧ Chain fwd (s.xold + s.h) r

/-- the same with zero-length steps allowed -/
def WeakChain (fwd : Bool) : K → List (Seg K) → Prop
  | _, [] => True
  | x, s :: r => s.xold = x ∧ stepNonneg fwd s.h ∧ WeakChain fwd (s.xold + s.h) r

/-- where a chain that starts at `x` ends -/
def endOf : K → List (Seg K) → K
  | x, [] => x
  | _, s :: r => endOf (s.xold + s.h) r

theorem tol_pos (a : K) : (0 : K) < (tol a : K) := by
  unfold tol
  simp only [num_lit, num_fmax]
  exact lt_of_lt_of_le (by positivity) (le_max_right _ _)

theorem keepSeg_iff (h : K) : keepSeg h ↔ h ≠ 0 := by
  unfold keepSeg
  rw [num_lit]
  constructor
  · intro hk he
    have : Num.eqb h ((0 : Int) / (1 : Nat) : K) = true := by rw [num_eqb]; simp [he]
    rw [this] at hk; exact absurd hk (by decide)
  · intro hne
    by_contra hc
    have : Num.eqb h ((0 : Int) / (1 : Nat) : K) = true := by
      cases hb : Num.eqb h ((0 : Int) / (1 : Nat) : K) with
      | true => rfl
      | false => exact absurd hb hc
    rw [num_eqb] at this
    exact hne (by simpa using this)

/-- the slack of a segment: the larger of the slacks at its two ends (`xold + h` carries the rounding error of the larger end) -/
def segSlack (s : Seg K) : K := max (tol (min s.xold (s.xold + s.h))) (tol (max s.xold (s.xold + s.h)))

theorem hit_iff (t : K) (s : Seg K) :
    hit t s = true ↔ min s.xold (s.xold + s.h) - segSlack s ≤ t ∧ t ≤ max s.xold (s.xold + s.h) + segSlack s := by
  unfold hit inSeg segLeft segRight segSlack segTol
  simp [ge_iff_le, num_fmax]

/-- a point within the slack of either end (each end with its own slack) is found -/
theorem hit_of_ends {t : K} {s : Seg K} (h1 : min s.xold (s.xold + s.h) - tol (min s.xold (s.xold + s.h)) ≤ t)
    (h2 : t ≤ max s.xold (s.xold + s.h) + tol (max s.xold (s.xold + s.h))) : hit t s = true := by
  rw [hit_iff]
  have a1 : tol (min s.xold (s.xold + s.h)) ≤ segSlack s := le_max_left _ _
  have a2 : tol (max s.xold (s.xold + s.h)) ≤ segSlack s := le_max_right _ _
  constructor <;> linarith

/-- a point of the closed step interval is found in that step -/
theorem hit_of_mem {t : K} {s : Seg K} (h1 : min s.xold (s.xold + s.h) ≤ t) (h2 : t ≤ max s.xold (s.xold + s.h)) :
    hit t s = true := by
  apply hit_of_ends
  · have := tol_pos (min s.xold (s.xold + s.h)); linarith
  · have := tol_pos (max s.xold (s.xold + s.h)); linarith

theorem hitExact_iff (t : K) (s : Seg K) :
    hitExact t s = true ↔ min s.xold (s.xold + s.h) ≤ t ∧ t ≤ max s.xold (s.xold + s.h) := by
  unfold hitExact inSegExact segLeft segRight
  simp [ge_iff_le]

theorem hit_of_hitExact {t : K} {s : Seg K} (h : hitExact t s = true) : hit t s = true := by
  rw [hitExact_iff] at h; exact hit_of_mem h.1 h.2

/-- what `find_segment` returns is a segment of the list that contains `t` within the slack -/
theorem findSeg_sound (segs : List (Seg K)) (t : K) (s : Seg K) (h : findSeg segs t = some s) : s ∈ segs ∧ hit t s = true := by
  unfold findSeg at h
  split at h
  · rename_i s' hf
    injection h with h; subst h
    exact ⟨List.mem_of_find?_eq_some hf, hit_of_hitExact (List.find?_some hf)⟩
  · exact ⟨List.mem_of_find?_eq_some h, List.find?_some h⟩

/-- it finds one whenever some segment contains `t` within the slack -/
theorem findSeg_complete (segs : List (Seg K)) (t : K) (hex : ∃ a ∈ segs, hit t a = true) : ∃ s, findSeg segs t = some s := by
  unfold findSeg
  split
  · exact ⟨_, rfl⟩
  · exact Option.isSome_iff_exists.mp (List.find?_isSome.mpr hex)

theorem endOf_ge (fwd : Bool) (x : K) (segs : List (Seg K)) (hc : Chain fwd x segs) :
    if fwd then x ≤ endOf x segs else endOf x segs ≤ x := by
  induction segs generalizing x with
  | nil => cases fwd <;> simp [endOf]
  | cons s r ih =>
    obtain ⟨hx, hp, hr⟩ := hc
    have := ih _ hr
    cases fwd <;> simp only [stepPos, endOf, if_true, if_false, Bool.false_eq_true] at * <;> linarith

theorem endOf_strict (fwd : Bool) (x : K) (s : Seg K) (r : List (Seg K)) (hc : Chain fwd x (s :: r)) :
    if fwd then x < endOf x (s :: r) else endOf x (s :: r) < x := by
  obtain ⟨hx, hp, hr⟩ := hc
  have := endOf_ge fwd _ r hr
  cases fwd <;> simp only [stepPos, endOf, if_true, if_false, Bool.false_eq_true] at * <;> linarith

theorem getLast_endOf (fwd : Bool) (x : K) (s : Seg K) (r : List (Seg K)) :
    ∃ l, (s :: r).getLast? = some l ∧ l ∈ s :: r ∧ l.xold + l.h = endOf x (s :: r) := by
  induction r generalizing x s with
  | nil => exact ⟨s, rfl, by simp, rfl⟩
  | cons s' r ih =>
    obtain ⟨l, hl, hm, he⟩ := ih (s.xold + s.h) s'
    refine ⟨l, ?_, List.mem_cons_of_mem _ hm, ?_⟩
    · rw [List.getLast?_cons_cons]; exact hl
    · simpa [endOf] using he

/-- the span of a chain is (start, end) -/
theorem tSpan_chain (fwd : Bool) (x : K) (s : Seg K) (r : List (Seg K)) (hc : Chain fwd x (s :: r)) :
    tSpan (s :: r) = some (x, endOf x (s :: r)) := by
  obtain ⟨l, hl, _, he⟩ := getLast_endOf fwd x s r
  unfold tSpan
  rw [hl]
  simp only [List.head?_cons, spanEnd]
  rw [he, hc.1]

/-- every point between the start and the end of a chain lies in the closed interval of one of its steps -/
theorem chain_cover (fwd : Bool) (x : K) (segs : List (Seg K)) (hc : Chain fwd x segs) (hne : segs ≠ []) (t : K)
    (ht : if fwd then x ≤ t ∧ t ≤ endOf x segs else endOf x segs ≤ t ∧ t ≤ x) :
    ∃ s ∈ segs, min s.xold (s.xold + s.h) ≤ t ∧ t ≤ max s.xold (s.xold + s.h) := by
  induction segs generalizing x with
  | nil => exact absurd rfl hne
  | cons s r ih =>
    obtain ⟨hx, hp, hr⟩ := hc
    by_cases hin : min s.xold (s.xold + s.h) ≤ t ∧ t ≤ max s.xold (s.xold + s.h)
    · exact ⟨s, by simp, hin⟩
    · cases r with
      | nil =>
        exfalso; apply hin
        cases fwd <;> simp only [stepPos, endOf, if_true, if_false, Bool.false_eq_true] at * <;>
          constructor <;> simp [min_def, max_def] <;> split <;> linarith
      | cons s' r' =>
        have hne' : (s' :: r') ≠ [] := by simp
        have : if fwd then s.xold + s.h ≤ t ∧ t ≤ endOf (s.xold + s.h) (s' :: r')
               else endOf (s.xold + s.h) (s' :: r') ≤ t ∧ t ≤ s.xold + s.h := by
          cases fwd
          · simp only [stepPos, if_false, Bool.false_eq_true] at *
            refine ⟨by simpa [endOf] using ht.1, ?_⟩
            by_contra hlt
            apply hin
            constructor
            · rw [min_eq_right (by linarith)]; linarith
            · rw [max_eq_left (by linarith)]; linarith [ht.2]
          · simp only [stepPos, if_true] at *
            refine ⟨?_, by simpa [endOf] using ht.2⟩
            by_contra hlt
            apply hin
            constructor
            · rw [min_eq_left (by linarith)]; linarith [ht.1]
            · rw [max_eq_right (by linarith)]; linarith
        obtain ⟨s'', hm, hs⟩ := ih _ hr hne' this
        exact ⟨s'', List.mem_cons_of_mem _ hm, hs⟩

/-- the first segment of a chain starts at the lower end of the span (forward) / upper end (backward), the last one ends
    at the other end -/
theorem chain_ends (fwd : Bool) (x : K) (s : Seg K) (r : List (Seg K)) (hc : Chain fwd x (s :: r)) :
    (∃ a ∈ s :: r, min a.xold (a.xold + a.h) = min x (endOf x (s :: r))) ∧
    (∃ a ∈ s :: r, max a.xold (a.xold + a.h) = max x (endOf x (s :: r))) := by
  have hstrict := endOf_strict fwd x s r hc
  obtain ⟨l, _, hlm, hle⟩ := getLast_endOf fwd x s r
  -- every step has the sign of the direction
  have hsign : ∀ (segs : List (Seg K)) (y : K), Chain fwd y segs → ∀ a ∈ segs, stepPos fwd a.h := by
    intro segs
    induction segs with
    | nil => intro y _ a ha; cases ha
    | cons b rest ih =>
      intro y hcb a ha
      obtain ⟨_, hp, hr⟩ := hcb
      rcases List.mem_cons.mp ha with rfl | ha'
      · exact hp
      · exact ih _ hr a ha'
  have hs := hsign _ _ hc s (by simp)
  have hl := hsign _ _ hc l hlm
  have hx : s.xold = x := hc.1
  cases fwd <;> simp only [stepPos, if_true, if_false, Bool.false_eq_true] at hstrict hs hl
  · -- backward: the first segment carries the upper end, the last one the lower end
    refine ⟨⟨l, hlm, ?_⟩, ⟨s, by simp, ?_⟩⟩
    · rw [min_eq_right (by linarith), min_eq_right hstrict.le, hle]
    · rw [max_eq_left (by linarith), max_eq_left hstrict.le, hx]
  · refine ⟨⟨s, by simp, ?_⟩, ⟨l, hlm, ?_⟩⟩
    · rw [min_eq_left (by linarith), min_eq_left hstrict.le, hx]
    · rw [max_eq_right (by linarith), max_eq_right hstrict.le, hle]

/-- every point of the span, widened at each end by the slack of that end, is found in one of the steps (the range test of
    `Solution::sol` and the segment lookup use the same slack `time_tol` at the same end points) -/
theorem chain_cover_tol (fwd : Bool) (x : K) (s : Seg K) (r : List (Seg K)) (hc : Chain fwd x (s :: r)) (t : K)
    (h1 : min x (endOf x (s :: r)) - tol (min x (endOf x (s :: r))) ≤ t)
    (h2 : t ≤ max x (endOf x (s :: r)) + tol (max x (endOf x (s :: r)))) :
    ∃ a ∈ s :: r, hit t a = true := by
  have hstrict := endOf_strict fwd x s r hc
  obtain ⟨⟨a1, ha1, he1⟩, ⟨a2, ha2, he2⟩⟩ := chain_ends fwd x s r hc
  have hmm : ∀ a : Seg K, min a.xold (a.xold + a.h) ≤ max a.xold (a.xold + a.h) := fun a => le_trans (min_le_left _ _) (le_max_left _ _)
  by_cases hlow : t < min x (endOf x (s :: r))
  · -- below the span: the segment that carries the lower end
    refine ⟨a1, ha1, ?_⟩
    apply hit_of_ends
    · rw [he1]; exact h1
    · have := tol_pos (max a1.xold (a1.xold + a1.h))
      have := hmm a1
      rw [he1] at this
      linarith
  · by_cases hhigh : max x (endOf x (s :: r)) < t
    · refine ⟨a2, ha2, ?_⟩
      apply hit_of_ends
      · have := tol_pos (min a2.xold (a2.xold + a2.h))
        have := hmm a2
        rw [he2] at this
        linarith
      · rw [he2]; exact h2
    · push_neg at hlow hhigh
      have hin : if fwd then x ≤ t ∧ t ≤ endOf x (s :: r) else endOf x (s :: r) ≤ t ∧ t ≤ x := by
        cases fwd <;> simp only [if_true, if_false, Bool.false_eq_true] at hstrict ⊢
        · rw [min_eq_right hstrict.le] at hlow; rw [max_eq_left hstrict.le] at hhigh; exact ⟨hlow, hhigh⟩
        · rw [min_eq_left hstrict.le] at hlow; rw [max_eq_right hstrict.le] at hhigh; exact ⟨hlow, hhigh⟩
      obtain ⟨a, hm, hl, hr⟩ := chain_cover fwd x (s :: r) hc (by simp) t hin
      exact ⟨a, hm, hit_of_mem hl hr⟩

/-- `from_segments` turns the handler's list (zero-length steps possible) into a strict chain with the same ends -/
theorem fromSegments_chain (fwd : Bool) (x : K) (raw : List (Seg K)) (hw : WeakChain fwd x raw) :
    Chain fwd x (fromSegments raw) ∧ endOf x (fromSegments raw) = endOf x raw := by
  induction raw generalizing x with
  | nil => exact ⟨trivial, rfl⟩
  | cons s r ih =>
    obtain ⟨hx, hp, hr⟩ := hw
    obtain ⟨ihc, ihe⟩ := ih _ hr
    unfold fromSegments at *
    by_cases hz : s.h = 0
    · have hk : decide (keepSeg s.h) = false := by
        rw [decide_eq_false_iff_not, keepSeg_iff]; simpa using hz
      rw [List.filter_cons_of_neg (by simpa using hk)]
      have hxx : s.xold + s.h = x := by rw [hz, hx]; simp
      rw [hxx] at ihc ihe
      exact ⟨ihc, by rw [ihe]; simp [endOf, hxx]⟩
    · have hk : decide (keepSeg s.h) = true := by
        rw [decide_eq_true_iff, keepSeg_iff]; exact hz
      have hf : List.filter (fun s : Seg K => decide (keepSeg s.h)) (s :: r) = s :: List.filter (fun s : Seg K => decide (keepSeg s.h)) r := by
        rw [List.filter_cons]; simp only [hk, if_true]
      rw [hf]
      refine ⟨⟨hx, ?_, ihc⟩, by simpa [endOf] using ihe⟩
      cases fwd <;> simp only [stepPos, stepNonneg, if_true, if_false, Bool.false_eq_true] at *
      · exact lt_of_le_of_ne hp hz
      · exact lt_of_le_of_ne hp (Ne.symm hz)

/-- `mapM` over `Option` succeeds when every element does -/
theorem mapM_some {β γ : Type} (f : β → Option γ) (l : List β) (h : ∀ b ∈ l, ∃ c, f b = some c) :
    ∃ cs, l.mapM f = some cs ∧ cs.length = l.length := by
  induction l with
  | nil => exact ⟨[], rfl, rfl⟩
  | cons b l ih =>
    obtain ⟨c, hc⟩ := h b (by simp)
    obtain ⟨cs, hcs, hlen⟩ := ih (fun b' hb' => h b' (List.mem_cons_of_mem _ hb'))
    exact ⟨c :: cs, by simp [List.mapM_cons, hc, hcs], by simp [hlen]⟩

end
end ContM
