/-
  Lemmas about the segment lookup model (`Model/Cont.lean`) over ordered fields.
  A run's segments form a chain: each starts where the previous one ended, all steps have the sign of the direction.
-/
import IvpModel.Proofs.FieldNum
import IvpModel.Model.Cont

namespace ContM
open Gen.Cont
noncomputable section
variable {K : Type} [Field K] [LinearOrder K] [IsStrictOrderedRing K] [SqrtPow K]

/-- strict sign of a step in the direction of integration -/
def stepPos (fwd : Bool) (h : K) : Prop := if fwd then 0 < h else h < 0
/-- weak sign (zero-length steps allowed, as the handler may see them) -/
def stepNonneg (fwd : Bool) (h : K) : Prop := if fwd then 0 ≤ h else h ≤ 0

/-- the segments of a run that starts at `x`: contiguous, every step strictly in the direction -/
def Chain (fwd : Bool) : K → List (Seg K) → Prop
  | _, [] => True
  | x, s :: r => s.xold = x ∧ stepPos fwd s.h ∧ Chain fwd (s.xold + s.h) r

/-- the same with zero-length steps allowed -/
def WeakChain (fwd : Bool) : K → List (Seg K) → Prop
  | _, [] => True
  | x, s :: r => s.xold = x ∧ stepNonneg fwd s.h ∧ WeakChain fwd (s.xold + s.h) r

/-- where a chain that starts at `x` ends -/
def endOf : K → List (Seg K) → K
  | x, [] => x
  | _, s :: r => endOf (s.xold + s.h) r

theorem tol_pos : (0 : K) < (tol : K) := by
  unfold tol; rw [num_lit]; positivity

theorem keepSeg_iff (h : K) : keepSeg h ↔ h ≠ 0 := by
  unfold keepSeg
  rw [num_lit]
  constructor
  · intro hk he
    have : Num.eqb h ((0 : Int) / (1 : Nat) : K) = true := by rw [num_eqb]; simp [he]
    rw [this] at hk; exact absurd hk (by decide)
  · intro hne
    by_contra hc
    have : Num.eqb h ((0 : Int) / (1 : Nat) : K) = true := by
      cases hb : Num.eqb h ((0 : Int) / (1 : Nat) : K) with
      | true => rfl
      | false => exact absurd hb hc
    rw [num_eqb] at this
    exact hne (by simpa using this)

theorem hit_iff (t : K) (s : Seg K) :
    hit t s = true ↔ min s.xold (s.xold + s.h) - tol ≤ t ∧ t ≤ max s.xold (s.xold + s.h) + tol := by
  unfold hit inSeg segLeft segRight
  simp [ge_iff_le]

/-- a point of the closed step interval is found in that step -/
theorem hit_of_mem {t : K} {s : Seg K} (h1 : min s.xold (s.xold + s.h) ≤ t) (h2 : t ≤ max s.xold (s.xold + s.h)) :
    hit t s = true := by
  rw [hit_iff]
  have := tol_pos (K := K)
  constructor <;> linarith

theorem endOf_ge (fwd : Bool) (x : K) (segs : List (Seg K)) (hc : Chain fwd x segs) :
    if fwd then x ≤ endOf x segs else endOf x segs ≤ x := by
  induction segs generalizing x with
  | nil => cases fwd <;> simp [endOf]
  | cons s r ih =>
    obtain ⟨hx, hp, hr⟩ := hc
    have := ih _ hr
    cases fwd <;> simp only [stepPos, endOf, if_true, if_false, Bool.false_eq_true] at * <;> linarith

theorem endOf_strict (fwd : Bool) (x : K) (s : Seg K) (r : List (Seg K)) (hc : Chain fwd x (s :: r)) :
    if fwd then x < endOf x (s :: r) else endOf x (s :: r) < x := by
  obtain ⟨hx, hp, hr⟩ := hc
  have := endOf_ge fwd _ r hr
  cases fwd <;> simp only [stepPos, endOf, if_true, if_false, Bool.false_eq_true] at * <;> linarith

theorem getLast_endOf (fwd : Bool) (x : K) (s : Seg K) (r : List (Seg K)) :
    ∃ l, (s :: r).getLast? = some l ∧ l ∈ s :: r ∧ l.xold + l.h = endOf x (s :: r) := by
  induction r generalizing x s with
  | nil => exact ⟨s, rfl, by simp, rfl⟩
  | cons s' r ih =>
    obtain ⟨l, hl, hm, he⟩ := ih (s.xold + s.h) s'
    refine ⟨l, ?_, List.mem_cons_of_mem _ hm, ?_⟩
    · rw [List.getLast?_cons_cons]; exact hl
    · simpa [endOf] using he

/-- the span of a chain is (start, end) -/
theorem tSpan_chain (fwd : Bool) (x : K) (s : Seg K) (r : List (Seg K)) (hc : Chain fwd x (s :: r)) :
    tSpan (s :: r) = some (x, endOf x (s :: r)) := by
  obtain ⟨l, hl, _, he⟩ := getLast_endOf fwd x s r
  unfold tSpan
  rw [hl]
  simp only [List.head?_cons, spanEnd]
  rw [he, hc.1]

/-- every point between the start and the end of a chain lies in the closed interval of one of its steps -/
theorem chain_cover (fwd : Bool) (x : K) (segs : List (Seg K)) (hc : Chain fwd x segs) (hne : segs ≠ []) (t : K)
    (ht : if fwd then x ≤ t ∧ t ≤ endOf x segs else endOf x segs ≤ t ∧ t ≤ x) :
    ∃ s ∈ segs, min s.xold (s.xold + s.h) ≤ t ∧ t ≤ max s.xold (s.xold + s.h) := by
  induction segs generalizing x with
  | nil => exact absurd rfl hne
  | cons s r ih =>
    obtain ⟨hx, hp, hr⟩ := hc
    by_cases hin : min s.xold (s.xold + s.h) ≤ t ∧ t ≤ max s.xold (s.xold + s.h)
    · exact ⟨s, by simp, hin⟩
    · cases r with
      | nil =>
        exfalso; apply hin
        cases fwd <;> simp only [stepPos, endOf, if_true, if_false, Bool.false_eq_true] at * <;>
          constructor <;> simp [min_def, max_def] <;> split <;> linarith
      | cons s' r' =>
        have hne' : (s' :: r') ≠ [] := by simp
        have : if fwd then s.xold + s.h ≤ t ∧ t ≤ endOf (s.xold + s.h) (s' :: r')
               else endOf (s.xold + s.h) (s' :: r') ≤ t ∧ t ≤ s.xold + s.h := by
          cases fwd
          · simp only [stepPos, if_false, Bool.false_eq_true] at *
            refine ⟨by simpa [endOf] using ht.1, ?_⟩
            by_contra hlt
            apply hin
            constructor
            · rw [min_eq_right (by linarith)]; linarith
            · rw [max_eq_left (by linarith)]; linarith [ht.2]
          · simp only [stepPos, if_true] at *
            refine ⟨?_, by simpa [endOf] using ht.2⟩
            by_contra hlt
            apply hin
            constructor
            · rw [min_eq_left (by linarith)]; linarith [ht.1]
            · rw [max_eq_right (by linarith)]; linarith
        obtain ⟨s'', hm, hs⟩ := ih _ hr hne' this
        exact ⟨s'', List.mem_cons_of_mem _ hm, hs⟩

/-- `from_segments` turns the handler's list (zero-length steps possible) into a strict chain with the same ends -/
theorem fromSegments_chain (fwd : Bool) (x : K) (raw : List (Seg K)) (hw : WeakChain fwd x raw) :
    Chain fwd x (fromSegments raw) ∧ endOf x (fromSegments raw) = endOf x raw := by
  induction raw generalizing x with
  | nil => exact ⟨trivial, rfl⟩
  | cons s r ih =>
    obtain ⟨hx, hp, hr⟩ := hw
    obtain ⟨ihc, ihe⟩ := ih _ hr
    unfold fromSegments at *
    by_cases hz : s.h = 0
    · have hk : decide (keepSeg s.h) = false := by
        rw [decide_eq_false_iff_not, keepSeg_iff]; simpa using hz
      rw [List.filter_cons_of_neg (by simpa using hk)]
      have hxx : s.xold + s.h = x := by rw [hz, hx]; simp
      rw [hxx] at ihc ihe
      exact ⟨ihc, by rw [ihe]; simp [endOf, hxx]⟩
    · have hk : decide (keepSeg s.h) = true := by
        rw [decide_eq_true_iff, keepSeg_iff]; exact hz
      have hf : List.filter (fun s : Seg K => decide (keepSeg s.h)) (s :: r) = s :: List.filter (fun s : Seg K => decide (keepSeg s.h)) r := by
        rw [List.filter_cons]; simp only [hk, if_true]
      rw [hf]
      refine ⟨⟨hx, ?_, ihc⟩, by simpa [endOf] using ihe⟩
      cases fwd <;> simp only [stepPos, stepNonneg, if_true, if_false, Bool.false_eq_true] at *
      · exact lt_of_le_of_ne hp hz
      · exact lt_of_le_of_ne hp (Ne.symm hz)

/-- `mapM` over `Option` succeeds when every element does -/
theorem mapM_some {β γ : Type} (f : β → Option γ) (l : List β) (h : ∀ b ∈ l, ∃ c, f b = some c) :
    ∃ cs, l.mapM f = some cs ∧ cs.length = l.length := by
  induction l with
  | nil => exact ⟨[], rfl, rfl⟩
  | cons b l ih =>
    obtain ⟨c, hc⟩ := h b (by simp)
    obtain ⟨cs, hcs, hlen⟩ := ih (fun b' hb' => h b' (List.mem_cons_of_mem _ hb'))
    exact ⟨c :: cs, by simp [List.mapM_cons, hc, hcs], by simp [hlen]⟩

end
end ContM
