import IvpModel.Proofs.DensePassive
set_option linter.unusedSectionVars false
set_option linter.unusedSimpArgs false
set_option linter.unusedTactic false
set_option linter.unnecessarySeqFocus false
set_option linter.unusedVariables false

/-!
  C19, "an unchanged state is a no-op" (DOPRI5 / DOP853 skeleton): for a right-hand side that does not depend on the call number
  (a function of (t, y), as every real right-hand side is), the loop reads its meter only through the counters `total` and
  `accepted`; two states that agree in everything but the log, the call count and the evaluation counter run in lock step.  A
  `ModifiedSolution` that leaves the state unchanged re-evaluates the derivative at the same point — which reproduces the FSAL
  derivative — and adds one to the call count and to `evals.ode`: exactly such a pair of states.
-/
namespace Ctl
noncomputable section
variable {K : Type} [Field K] [LinearOrder K] [IsStrictOrderedRing K] [SqrtPow K] {n : Nat}

/-- the right-hand side is a function of (t, y) -/
def PureRhs (f : Rhs K n) : Prop := ∀ j j', f j = f j'
/-- two meters the loop cannot tell apart -/
def MEq (m m' : Meter K n) : Prop := m.cnt.total = m'.cnt.total ∧ m.cnt.accepted = m'.cnt.accepted ∧ m.cnt.rejected = m'.cnt.rejected
/-- two loop states that differ in the meter only, indistinguishably -/
def SEq {σ : Type} (s s' : HState σ K n) : Prop := s' = { s with m := s'.m } ∧ MEq s.m s'.m
/-- two results that differ in the meter only, indistinguishably -/
def REq {σ : Type} (r r' : Result σ K n) : Prop := r' = { r with m := r'.m } ∧ MEq r.m r'.m
def OEq {σ : Type} : Sum (HState σ K n) (Result σ K n) → Sum (HState σ K n) (Result σ K n) → Prop
  | .inl s, .inl s' => SEq s s'
  | .inr r, .inr r' => REq r r'
  | _, _ => False

theorem pure_shift (f : Rhs K n) (hf : PureRhs f) (a b : Nat) : (fun j => f (a + j)) = (fun j => f (b + j)) := by
  funext j; exact hf _ _

theorem MEq.bump {m m' : Meter K n} (h : MEq m m') (c c' : Array (K × Vec K n)) (l l' : Nat) : MEq (m.bump c l) (m'.bump c' l') := h
theorem MEq.cb {m m' : Meter K n} (h : MEq m m') (a b : K) (y : Vec K n) (s s' : Array (Vec K n)) : MEq (m.cb a b y s) (m'.cb a b y s') := h
theorem MEq.refresh {m m' : Meter K n} (h : MEq m m') (x : K) (y : Vec K n) : MEq (m.refresh x y) (m'.refresh x y) := h
theorem MEq.incTotal {m m' : Meter K n} (h : MEq m m') : MEq m.incTotal m'.incTotal := by
  obtain ⟨h1, h2, h3⟩ := h; exact ⟨by simp [Meter.incTotal, h1], h2, h3⟩
theorem MEq.incAccepted {m m' : Meter K n} (h : MEq m m') : MEq m.incAccepted m'.incAccepted := by
  obtain ⟨h1, h2, h3⟩ := h; exact ⟨h1, by simp [Meter.incAccepted, h2], h3⟩
theorem MEq.decAccepted {m m' : Meter K n} (h : MEq m m') : MEq m.decAccepted m'.decAccepted := by
  obtain ⟨h1, h2, h3⟩ := h; exact ⟨h1, by simp [Meter.decAccepted, h2], h3⟩
theorem MEq.incRejected {m m' : Meter K n} (h : MEq m m') : MEq m.incRejected m'.incRejected := by
  obtain ⟨h1, h2, h3⟩ := h; exact ⟨h1, h2, by simp [Meter.incRejected, h3]⟩


def AEq {σ : Type} : AfterCb σ K n → AfterCb σ K n → Prop
  | .stop o y, .stop o' y' => o = o' ∧ y = y'
  | .go o y k m, .go o' y' k' m' => o = o' ∧ y = y' ∧ k = k' ∧ MEq m m'
  | _, _ => False

theorem afterCb_meq {σ : Type} (f : Rhs K n) (hf : PureRhs f) (ob : Obs σ K n) (obs : σ) (m m' : Meter K n) (hm : MEq m m') (xold x : K) (y : Vec K n)
    (ip : Option (K → Vec K n)) (kNext : Vec K n) :
    AEq (afterCb f ob obs m xold x y ip kNext) (afterCb f ob obs m' xold x y ip kNext) := by
  unfold afterCb
  generalize ob obs xold x y ip = r
  obtain ⟨r1, r2, r3⟩ := r
  cases r2
  · exact ⟨rfl, rfl, rfl, hm⟩
  · exact ⟨rfl, rfl⟩
  · exact ⟨rfl, rfl, by rw [hf m.ncalls m'.ncalls], hm.refresh x r3⟩

theorem hFinish_meq {σ : Type} (P : HParams K n) (Kn : HKernel K n) (f : Rhs K n) (hf : PureRhs f) (ob : Obs σ K n)
    (s s' : HState σ K n) (hs : SEq s s') (h : K) (last : Bool) (hnew facold hlamb : K) (nonstiff iasti : Nat) (sa : Kn.SA) (m m' : Meter K n) (hm : MEq m m') :
    OEq (hFinish P Kn f ob s h last hnew facold hlamb nonstiff iasti sa m) (hFinish P Kn f ob s' h last hnew facold hlamb nonstiff iasti sa m') := by
  obtain ⟨hs1, hs2⟩ := hs
  rw [hs1]
  unfold hFinish
  dsimp only
  rw [pure_shift f hf m'.ncalls m.ncalls]
  generalize Kn.acceptB (fun j => f (m.ncalls + j)) P.dense sa s.x h s.y s.k1 = B
  obtain ⟨b1, b2, b3, b4, b5⟩ := B
  dsimp only
  generalize (if P.dense = true then some (Kn.interp b3 s.x h) else none) = IP
  have ha := afterCb_meq f hf ob s.obs ((m.bump b4 b5).cb s.x (landX last P.xend s.x h) b1 (sampleInterp IP s.x (landX last P.xend s.x h) P.quarter P.half P.threeq))
    ((m'.bump b4 b5).cb s.x (landX last P.xend s.x h) b1 (sampleInterp IP s.x (landX last P.xend s.x h) P.quarter P.half P.threeq))
    ((hm.bump b4 b4 b5 b5).cb _ _ _ _ _) s.x (landX last P.xend s.x h) b1 IP b2
  generalize afterCb f ob s.obs ((m.bump b4 b5).cb s.x (landX last P.xend s.x h) b1 (sampleInterp IP s.x (landX last P.xend s.x h) P.quarter P.half P.threeq)) s.x (landX last P.xend s.x h) b1 IP b2 = A at ha
  generalize afterCb f ob s.obs ((m'.bump b4 b5).cb s.x (landX last P.xend s.x h) b1 (sampleInterp IP s.x (landX last P.xend s.x h) P.quarter P.half P.threeq)) s.x (landX last P.xend s.x h) b1 IP b2 = A' at ha
  cases A with
  | stop o yy =>
    cases A' with
    | stop o' yy' =>
      obtain ⟨e1, e2⟩ := ha; subst e1 e2
      exact ⟨rfl, (hm.bump b4 b4 b5 b5).cb _ _ _ _ _⟩
    | go o' yy' kk' mm' => exact absurd ha (by simp [AEq])
  | go o yy kk mm =>
    cases A' with
    | stop o' yy' => exact absurd ha (by simp [AEq])
    | go o' yy' kk' mm' =>
      obtain ⟨e1, e2, e3, e4⟩ := ha; subst e1 e2 e3
      cases last with
      | true => exact ⟨rfl, e4⟩
      | false => exact ⟨rfl, e4⟩


theorem hIter_meq {σ : Type} (P : HParams K n) (Kn : HKernel K n) (f : Rhs K n) (hf : PureRhs f) (ob : Obs σ K n)
    (s s' : HState σ K n) (hs : SEq s s') : OEq (hIter P Kn f ob s) (hIter P Kn f ob s') := by
  obtain ⟨hs1, hm⟩ := hs
  obtain ⟨ht, hacc, hrej⟩ := hm
  unfold hIter
  have hg : hGuard P s' = hGuard P s := by
    rw [hs1]; unfold hGuard; dsimp only; rw [← ht]
  have ha : hAdjust P s' = hAdjust P s := by rw [hs1]; rfl
  rw [hg, ha]
  cases hgq : hGuard P s with
  | some st =>
    dsimp only
    rw [hs1]
    exact ⟨rfl, ⟨ht, hacc, hrej⟩⟩
  | none =>
    dsimp only
    -- the two trials: same kernel outputs, meters indistinguishable
    have hT : hTrial P Kn f s' (hAdjust P s).1 (hAdjust P s).2
        = { hTrial P Kn f s (hAdjust P s).1 (hAdjust P s).2 with m := (hTrial P Kn f s' (hAdjust P s).1 (hAdjust P s).2).m } := by
      rw [hs1]; unfold hTrial; dsimp only
      rw [pure_shift f hf s'.m.ncalls s.m.ncalls]
    have hTm : MEq (hTrial P Kn f s (hAdjust P s).1 (hAdjust P s).2).m (hTrial P Kn f s' (hAdjust P s).1 (hAdjust P s).2).m := by
      unfold hTrial; dsimp only
      exact (MEq.incTotal ⟨ht, hacc, hrej⟩).bump _ _ _ _
    generalize hTrial P Kn f s (hAdjust P s).1 (hAdjust P s).2 = T at hT hTm
    generalize hTrial P Kn f s' (hAdjust P s).1 (hAdjust P s).2 = T' at hT hTm
    obtain ⟨tS, tm, terr, tf, th⟩ := T
    obtain ⟨tS', tm', terr', tf', th'⟩ := T'
    simp only [HTrial.mk.injEq] at hT
    obtain ⟨e1, _, e3, e4, e5⟩ := hT
    subst e1 e3 e4 e5
    dsimp only
    by_cases hok : terr' ≤ P.one
    · rw [if_pos hok, if_pos hok]
      -- accepted
      unfold hAccepted
      dsimp only
      have hx : s'.x = s.x := by rw [hs1]
      have hy : s'.y = s.y := by rw [hs1]
      have hk : s'.k1 = s.k1 := by rw [hs1]
      have ho : s'.obs = s.obs := by rw [hs1]
      have hst : ∀ (a : Kn.SA) (acc : Nat), hStiffTest P Kn s' (hAdjust P s).1 a acc = hStiffTest P Kn s (hAdjust P s).1 a acc := by
        intro a acc; rw [hs1]; rfl
      rw [hx, hy, hk, ho, pure_shift f hf tm'.incAccepted.ncalls tm.incAccepted.ncalls]
      simp only [hst]
      generalize Kn.acceptA (fun j => f (tm.incAccepted.ncalls + j)) tS' s.x (hAdjust P s).1 s.y s.k1 = A
      obtain ⟨a1, a2, a3⟩ := A
      dsimp only
      have hacc' : (tm.incAccepted.bump a2 a3).cnt.accepted = (tm'.incAccepted.bump a2 a3).cnt.accepted := (hTm.incAccepted.bump a2 a2 a3 a3).2.1
      rw [← hacc']
      generalize hStiffTest P Kn s (hAdjust P s).1 a1 (tm.incAccepted.bump a2 a3).cnt.accepted = ST
      obtain ⟨st1, st2, st3, st4⟩ := ST
      dsimp only
      cases st4 with
      | true =>
        simp only [if_true]
        exact ⟨rfl, (hTm.incAccepted.bump a2 a2 a3 a3).decAccepted⟩
      | false =>
        simp only [Bool.false_eq_true, if_false]
        exact hFinish_meq P Kn f hf ob s s' ⟨hs1, ht, hacc, hrej⟩ _ _ _ _ _ _ _ _ _ _ (hTm.incAccepted.bump a2 a2 a3 a3)
    · rw [if_neg hok, if_neg hok]
      unfold hRejected
      have hacc2 : tm.cnt.accepted = tm'.cnt.accepted := hTm.2.1
      refine ⟨?_, ?_⟩
      · rw [hs1]
      · dsimp only
        rw [hacc2]
        by_cases hc : tm'.cnt.accepted > 1
        · rw [if_pos hc, if_pos hc]; exact hTm.incRejected
        · rw [if_neg hc, if_neg hc]; exact hTm


def OptREq {σ : Type} : Option (Result σ K n) → Option (Result σ K n) → Prop
  | some r, some r' => REq r r'
  | none, none => True
  | _, _ => False

/-- two states the loop cannot tell apart run in lock step: same statuses, step points, states, step sizes, and the same
    `total` / `accepted` / `rejected` counters, at every fuel -/
theorem hLoop_meq {σ : Type} (P : HParams K n) (Kn : HKernel K n) (f : Rhs K n) (hf : PureRhs f) (ob : Obs σ K n) :
    ∀ (fuel : Nat) (s s' : HState σ K n), SEq s s' → OptREq (hLoop P Kn f ob fuel s) (hLoop P Kn f ob fuel s') := by
  intro fuel
  induction fuel with
  | zero => intro s s' _; exact trivial
  | succ fuel ih =>
    intro s s' hs
    unfold hLoop
    have h := hIter_meq P Kn f hf ob s s' hs
    cases hq : hIter P Kn f ob s with
    | inr r =>
      cases hq' : hIter P Kn f ob s' with
      | inr r' => rw [hq, hq'] at h; exact h
      | inl t' => rw [hq, hq'] at h; exact absurd h (by simp [OEq])
    | inl t =>
      cases hq' : hIter P Kn f ob s' with
      | inr r' => rw [hq, hq'] at h; exact absurd h (by simp [OEq])
      | inl t' => rw [hq, hq'] at h; exact ih t t' h

/-- **C19, an unchanged state is a no-op.**  After a callback that answers `ModifiedSolution` without changing the state, the loop
    continues from the state with the derivative re-evaluated at the same point and one more evaluation on the meter; for a
    right-hand side that is a function of (t, y), whose FSAL derivative is that very value, the rest of the run is the rest of the
    run after `Continue`: same statuses, step points, states, step sizes and step counters. -/
theorem noop_modified {σ : Type} (P : HParams K n) (Kn : HKernel K n) (f : Rhs K n) (hf : PureRhs f) (ob : Obs σ K n)
    (s : HState σ K n) (hk : s.k1 = f 0 s.x s.y) (fuel : Nat) :
    OptREq (hLoop P Kn f ob fuel s) (hLoop P Kn f ob fuel { s with k1 := f s.m.ncalls s.x s.y, m := s.m.refresh s.x s.y }) := by
  apply hLoop_meq P Kn f hf ob fuel
  refine ⟨?_, rfl, rfl, rfl⟩
  have : f s.m.ncalls s.x s.y = s.k1 := by rw [hk, hf s.m.ncalls 0]
  rw [this]

end
end Ctl
