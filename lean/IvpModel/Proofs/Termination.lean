/-
  C04 for a finite step budget: in every arithmetic (NaN and infinities included) the DOPRI5 / DOP853 loop and the RK4
  loop return after a bounded number of passes — every pass either ends the run or uses one unit of `max_steps`.
-/
import IvpModel.Proofs.CtlLemmas

namespace Ctl
variable {α : Type} [Num α] {n : Nat}

/-- a pass that continues has used one unit of the step budget, and the budget test had let it through -/
theorem hIter_total {σ : Type} (P : HParams α n) (Kn : HKernel α n) (f : Rhs α n) (ob : Obs σ α n)
    (s s' : HState σ α n) (h : hIter P Kn f ob s = .inl s') :
    s.m.cnt.total ≤ P.nmax ∧ s'.m.cnt.total = s.m.cnt.total + 1 := by
  unfold hIter at h
  cases hg : hGuard P s with
  | some st => rw [hg] at h; cases h
  | none =>
    rw [hg] at h
    dsimp only at h
    have htot : s.m.cnt.total ≤ P.nmax := by
      unfold hGuard at hg
      split at hg
      · cases hg
      · omega
    refine ⟨htot, ?_⟩
    split at h
    · unfold hAccepted at h
      dsimp only at h
      split at h
      · cases h
      · unfold hFinish at h
        dsimp only at h
        split at h
        · cases h
        · rename_i obs' y' k' m' heq
          have hm := (afterCb_go_meter f ob _ _ _ _ _ _ _ obs' y' k' m' heq).2
          split at h
          · cases h
          · injection h with h
            rw [← h]
            show m'.cnt.total = _
            rw [hm]; simp [hTrial]
    · injection h with h
      rw [← h]
      unfold hRejected
      dsimp only
      split <;> simp [hTrial]

/-- **C04, finite `max_steps`.**  In every arithmetic (NaN and infinities included) the DOPRI5 / DOP853 loop returns within
    `max_steps + 2 − (attempts so far)` passes: every pass either ends the run or uses one unit of the budget. -/
theorem hLoop_terminates {σ : Type} (P : HParams α n) (Kn : HKernel α n) (f : Rhs α n) (ob : Obs σ α n) :
    ∀ (fuel : Nat) (s : HState σ α n), s.m.cnt.total ≤ P.nmax + 1 → P.nmax + 2 ≤ fuel + s.m.cnt.total →
      ∃ r, hLoop P Kn f ob fuel s = some r := by
  intro fuel
  induction fuel with
  | zero => intro s h1 h2; omega
  | succ fuel ih =>
    intro s h1 h2
    unfold hLoop
    cases hi : hIter P Kn f ob s with
    | inr r => exact ⟨r, rfl⟩
    | inl s' =>
      have ht := hIter_total P Kn f ob s s' hi
      exact ih s' (by omega) (by omega)

/-- the whole call: with `fuel = max_steps + 2` the model run always returns -/
theorem hSolve_terminates {σ : Type} (P : HParams α n) (Kn : HKernel α n) (f : Rhs α n) (ob : Obs σ α n) (obs0 : σ)
    (x0 : α) (y0 : Vec α n) (firstStep : Option α) (hinit : Rhs α n → Vec α n → α × Array (α × Vec α n))
    (fo hl : α) : ∃ r, hSolve P Kn f ob obs0 x0 y0 firstStep hinit fo hl (P.nmax + 2) = some r := by
  unfold hSolve
  cases hs : hStart P f ob obs0 x0 y0 firstStep hinit fo hl with
  | inr r => exact ⟨r, rfl⟩
  | inl s =>
    have hp := (startMeter_pairs f x0 y0 P.posneg P.hmax firstStep hinit).2
    have h0 : s.m.cnt.total = 0 := by
      unfold hStart at hs
      dsimp only at hs
      split at hs
      · cases hs
      · rename_i obs' y' k' m' hcb
        injection hs with hs
        have hm := (afterCb_go_meter f ob _ _ _ _ _ _ _ obs' y' k' m' hcb).2
        rw [← hs]
        show m'.cnt.total = 0
        rw [hm]; simp [hp]
    exact hLoop_terminates P Kn f ob (P.nmax + 2) s (by omega) (by omega)

end Ctl

namespace Ctl
variable {α : Type} [Num α] {n : Nat}

theorem rk4Iter_total {σ : Type} (P : R4Params α) (f : Rhs α n) (ob : Obs σ α n) (s s' : R4State σ α n)
    (h : rk4Iter P f ob s = .inl s') : s.m.cnt.total < P.nmax ∧ s'.m.cnt.total = s.m.cnt.total + 1 := by
  unfold rk4Iter at h
  by_cases hg : s.m.cnt.total ≥ P.nmax
  · rw [if_pos hg] at h; cases h
  · rw [if_neg hg] at h
    dsimp only at h
    refine ⟨by omega, ?_⟩
    split at h
    · cases h
    split at h
    · cases h
    · rename_i obs' y' k' m' heq
      have hm := (afterCb_go_meter f ob _ _ _ _ _ _ _ obs' y' k' m' heq).2
      split at h
      · cases h
      · injection h with h
        rw [← h]
        show m'.cnt.total = _
        rw [hm]; simp

/-- **C04, RK4 (fixed step): bounded work.**  The loop returns within `max_steps + 1 − (steps so far)` passes. -/
theorem rk4Loop_terminates {σ : Type} (P : R4Params α) (f : Rhs α n) (ob : Obs σ α n) :
    ∀ (fuel : Nat) (s : R4State σ α n), s.m.cnt.total ≤ P.nmax → P.nmax + 1 ≤ fuel + s.m.cnt.total →
      ∃ r, rk4Loop P f ob fuel s = some r := by
  intro fuel
  induction fuel with
  | zero => intro s h1 h2; omega
  | succ fuel ih =>
    intro s h1 h2
    unfold rk4Loop
    cases hi : rk4Iter P f ob s with
    | inr r => exact ⟨r, rfl⟩
    | inl s' =>
      have ht := rk4Iter_total P f ob s s' hi
      exact ih s' (by omega) (by omega)

end Ctl
