/-
  Landing and "Success only at xend" for the RK23 and RK4 skeletons (exact time arithmetic), the counterparts of
  CtlField.lean for the two loops that are not of Hairer's shape.
-/
import IvpModel.Proofs.CtlField
import IvpModel.Proofs.CtlRk

namespace Ctl
noncomputable section
variable {K : Type} [Field K] [LinearOrder K] [IsStrictOrderedRing K] [SqrtPow K] {n : Nat}

theorem rk23_lastGuard_iff (x h xend posneg : K) :
    Gen.Rk23.lastGuard x h xend posneg ↔ 0 < (x + h - xend) * posneg := by
  unfold Gen.Rk23.lastGuard
  simp [num_lit]

/-- **C03, RK23, one step.**  After "Check for last step adjustment" the trial step ends at or before `xend`, exactly
    at `xend` when the landing flag is raised, and still points toward `xend`. -/
theorem rk23Adjust_lands {σ : Type} (P : R23Params K n) (s : R23State σ K n)
    (hh : 0 < s.h * P.posneg) (hx : 0 ≤ (P.xend - s.x) * P.posneg) :
    0 ≤ (P.xend - (s.x + rk23Adjust P s)) * P.posneg
    ∧ (rk23Last P s = true → s.x + rk23Adjust P s = P.xend)
    ∧ 0 ≤ rk23Adjust P s * P.posneg := by
  unfold rk23Adjust rk23Last
  by_cases hc : Gen.Rk23.lastGuard s.x s.h P.xend P.posneg
  · rw [if_pos hc]
    refine ⟨by simp, fun _ => by ring, hx⟩
  · rw [if_neg hc]
    have hc' := (not_congr (rk23_lastGuard_iff s.x s.h P.xend P.posneg)).mp hc
    push_neg at hc'
    refine ⟨by nlinarith, ?_, le_of_lt hh⟩
    intro h
    simp [hc] at h

/-- **C03, RK23.**  `Success` is reported only at `xend` (exact arithmetic), for every right-hand side and observer. -/
theorem rk23Iter_success_at_xend {σ : Type} (P : R23Params K n) (f : Rhs K n) (ob : Obs σ K n)
    (s : R23State σ K n) (r : Result σ K n) (h : rk23Iter P f ob s = .inr r) (hs : r.status = .success) :
    r.x = P.xend := by
  unfold rk23Iter at h
  cases hg : rk23Guard P s with
  | some st =>
    rw [hg] at h
    injection h with h
    rw [← h] at hs
    unfold rk23Guard at hg
    split at hg
    · injection hg with hg; rw [← hg] at hs; cases hs
    · split at hg
      · injection hg with hg; rw [← hg] at hs; cases hs
      · cases hg
  | none =>
    rw [hg] at h
    dsimp only at h
    split at h
    · unfold rk23Accepted at h
      dsimp only at h
      split at h
      · injection h with h; rw [← h] at hs; cases hs
      · split at h
        · rename_i hex
          injection h with h
          rw [← h]
          show landX (rk23Last P s) P.xend s.x (rk23Adjust P s) = P.xend
          rcases Bool.or_eq_true _ _ ▸ hex with hl | he
          · simp [landX, hl]
          · exact (num_eqb _ _).mp he
        · cases h
    · cases h

theorem rk23Loop_success_at_xend {σ : Type} (P : R23Params K n) (f : Rhs K n) (ob : Obs σ K n) :
    ∀ (fuel : Nat) (s : R23State σ K n) (r : Result σ K n), rk23Loop P f ob fuel s = some r → r.status = .success →
      r.x = P.xend := by
  intro fuel
  induction fuel with
  | zero => intro s r h; simp [rk23Loop] at h
  | succ fuel ih =>
    intro s r h hs
    unfold rk23Loop at h
    split at h
    · rename_i r' heq
      injection h with h
      rw [← h] at hs ⊢
      exact rk23Iter_success_at_xend P f ob s r' heq hs
    · rename_i s' heq
      exact ih s' r h hs

/-! ### RK4 -/
theorem rk4_update_x (f g : Nat → K → Vector K n → Vector K n) (y y' k1 k1' k2 k3 k4 : Vector K n) (x h : K) (l : Bool) (e : K) :
    (Gen.Rk4.update (f := f) (xph := (Gen.Rk4.stages (f := g) (y := y') (h := h) (k1 := k1') (x := x) (last := l) (xend := e)).xph)
      (h := h) (k1 := k1) (k2 := k2) (k3 := k3) (k4 := k4) (y := y)).x
      = landX l e x h := by
  simp [Gen.Rk4.update, Gen.Rk4.stages, landX, num_lit]

/-- **C03, RK4.**  `Success` is reported only at `xend` (exact arithmetic): the last step is `xend − x`. -/
theorem rk4Iter_success_at_xend {σ : Type} (P : R4Params K) (f : Rhs K n) (ob : Obs σ K n)
    (s : R4State σ K n) (r : Result σ K n) (h : rk4Iter P f ob s = .inr r) (hs : r.status = .success) :
    r.x = P.xend := by
  unfold rk4Iter at h
  split at h
  · injection h with h; rw [← h] at hs; cases hs
  · dsimp only at h
    split at h
    · injection h with h; rw [← h] at hs; cases hs
    split at h
    · injection h with h; rw [← h] at hs; cases hs
    · split at h
      · rename_i hl
        injection h with h
        rw [← h]
        rw [rk4_update_x]
        simp [landX, hl]
      · cases h

theorem rk4Loop_success_at_xend {σ : Type} (P : R4Params K) (f : Rhs K n) (ob : Obs σ K n) :
    ∀ (fuel : Nat) (s : R4State σ K n) (r : Result σ K n), rk4Loop P f ob fuel s = some r → r.status = .success →
      r.x = P.xend := by
  intro fuel
  induction fuel with
  | zero => intro s r h; simp [rk4Loop] at h
  | succ fuel ih =>
    intro s r h hs
    unfold rk4Loop at h
    split at h
    · rename_i r' heq
      injection h with h
      rw [← h] at hs ⊢
      exact rk4Iter_success_at_xend P f ob s r' heq hs
    · rename_i s' heq
      exact ih s' r h hs
end
end Ctl

/-! ### the same without arithmetic: `Success` only at `xend` itself, for every instance of `Num` -/
namespace Ctl
section
variable {α : Type} [Num α] {n : Nat}

/-- **C03, RK23, every arithmetic.**  `Success` is reported only after the landing step, which ends at `xend` itself, or
    when a step end compares equal to `xend` (`x == xend`, IEEE equality at `Float`). -/
theorem rk23Iter_success_exact {σ : Type} (P : R23Params α n) (f : Rhs α n) (ob : Obs σ α n)
    (s : R23State σ α n) (r : Result σ α n) (h : rk23Iter P f ob s = .inr r) (hs : r.status = .success) :
    r.x = P.xend ∨ Num.eqb r.x P.xend = true := by
  unfold rk23Iter at h
  cases hg : rk23Guard P s with
  | some st =>
    rw [hg] at h
    injection h with h
    rw [← h] at hs
    unfold rk23Guard at hg
    split at hg
    · injection hg with hg; rw [← hg] at hs; cases hs
    · split at hg
      · injection hg with hg; rw [← hg] at hs; cases hs
      · cases hg
  | none =>
    rw [hg] at h
    dsimp only at h
    split at h
    · unfold rk23Accepted at h
      dsimp only at h
      split at h
      · injection h with h; rw [← h] at hs; cases hs
      · split at h
        · rename_i hex
          injection h with h
          rw [← h]
          show landX (rk23Last P s) P.xend s.x (rk23Adjust P s) = P.xend ∨ Num.eqb (landX (rk23Last P s) P.xend s.x (rk23Adjust P s)) P.xend = true
          rcases Bool.or_eq_true _ _ ▸ hex with hl | he
          · left; simp [landX, hl]
          · right; exact he
        · cases h
    · cases h

theorem rk23Loop_success_exact {σ : Type} (P : R23Params α n) (f : Rhs α n) (ob : Obs σ α n) :
    ∀ (fuel : Nat) (s : R23State σ α n) (r : Result σ α n), rk23Loop P f ob fuel s = some r → r.status = .success →
      r.x = P.xend ∨ Num.eqb r.x P.xend = true := by
  intro fuel
  induction fuel with
  | zero => intro s r h; simp [rk23Loop] at h
  | succ fuel ih =>
    intro s r h hs
    unfold rk23Loop at h
    split at h
    · rename_i r' heq
      injection h with h
      rw [← h] at hs ⊢
      exact rk23Iter_success_exact P f ob s r' heq hs
    · rename_i s' heq
      exact ih s' r h hs


/-- the new time of an RK4 step is the time of its last stage: `xend` itself on the landing step -/
theorem rk4_update_x' (f g : Nat → α → Vector α n → Vector α n) (y y' k1 k1' k2 k3 k4 : Vector α n) (x h : α) (l : Bool) (e : α) :
    (Gen.Rk4.update (f := f) (xph := (Gen.Rk4.stages (f := g) (y := y') (h := h) (k1 := k1') (x := x) (last := l) (xend := e)).xph)
      (h := h) (k1 := k1) (k2 := k2) (k3 := k3) (k4 := k4) (y := y)).x
      = if l then e else x + Gen.Rk4.C4 * h := by
  simp [Gen.Rk4.update, Gen.Rk4.stages]

/-- **C03, RK4, every arithmetic.**  `Success` is reported only at `xend` itself. -/
theorem rk4Iter_success_exact {σ : Type} (P : R4Params α) (f : Rhs α n) (ob : Obs σ α n)
    (s : R4State σ α n) (r : Result σ α n) (h : rk4Iter P f ob s = .inr r) (hs : r.status = .success) :
    r.x = P.xend := by
  unfold rk4Iter at h
  split at h
  · injection h with h; rw [← h] at hs; cases hs
  · dsimp only at h
    split at h
    · injection h with h; rw [← h] at hs; cases hs
    split at h
    · injection h with h; rw [← h] at hs; cases hs
    · split at h
      · rename_i hl
        injection h with h
        rw [← h]
        rw [rk4_update_x']
        simp [hl]
      · cases h

theorem rk4Loop_success_exact {σ : Type} (P : R4Params α) (f : Rhs α n) (ob : Obs σ α n) :
    ∀ (fuel : Nat) (s : R4State σ α n) (r : Result σ α n), rk4Loop P f ob fuel s = some r → r.status = .success →
      r.x = P.xend := by
  intro fuel
  induction fuel with
  | zero => intro s r h; simp [rk4Loop] at h
  | succ fuel ih =>
    intro s r h hs
    unfold rk4Loop at h
    split at h
    · rename_i r' heq
      injection h with h
      rw [← h] at hs ⊢
      exact rk4Iter_success_exact P f ob s r' heq hs
    · rename_i s' heq
      exact ih s' r h hs
end
end Ctl
