/-
  C05: the `t_eval` bookkeeping of the handler reports exactly the requested times.
  List-level run (`runTimes`) + the connection to the model's `sampleInitial` / `sampleStep`.
-/
import IvpModel.Proofs.SolOutLemmas
import Mathlib.Data.List.Sort

namespace SolOutM
noncomputable section
variable {K : Type} [Field K] [LinearOrder K] [IsStrictOrderedRing K] [SqrtPow K]

/-- what one regular step reports and what remains, for the still-unreported requests `rem` -/
def stepKept (fwd : Bool) (tol xold x : K) (rem : List K) : List K :=
  (rem.takeWhile (inUpper fwd tol x)).filter (inLower fwd tol xold)
def stepRest (fwd : Bool) (tol x : K) (rem : List K) : List K := rem.dropWhile (inUpper fwd tol x)

/-- times reported over a history of accepted steps `xprev → x₁ → x₂ → …` -/
def runTimes (fwd : Bool) (tol : K) : List K → K → List K → List K
  | _, _, [] => []
  | rem, xprev, x :: xs => stepKept fwd tol xprev x rem ++ runTimes fwd tol (stepRest fwd tol x rem) x xs

/-- what is still unreported at the end of the history -/
def runRest (fwd : Bool) (tol : K) : List K → List K → List K
  | rem, [] => rem
  | rem, x :: xs => runRest fwd tol (stepRest fwd tol x rem) xs

theorem drop_takeWhile_length (p : K → Bool) : ∀ l : List K, l.drop (l.takeWhile p).length = l.dropWhile p := by
  intro l
  induction l with
  | nil => rfl
  | cons a l ih =>
    by_cases h : p a = true
    · simp [List.takeWhile_cons_of_pos h, List.dropWhile_cons_of_pos h, ih]
    · simp [List.takeWhile_cons_of_neg h, List.dropWhile_cons_of_neg h]

theorem dropWhile_nil_of_all (p : K → Bool) : ∀ l : List K, (∀ t ∈ l, p t = true) → l.dropWhile p = [] := by
  intro l
  induction l with
  | nil => intro _; rfl
  | cons a l ih =>
    intro h
    rw [List.dropWhile_cons_of_pos (h a (by simp))]
    exact ih (fun t ht => h t (by simp [ht]))

theorem dropWhile_all_gt {tol x : K} {rem : List K} (hs : rem.Pairwise (· ≤ ·)) :
    ∀ t ∈ rem.dropWhile (inUpper true tol x), x + tol < t := by
  induction rem with
  | nil => simp
  | cons a l ih =>
    rw [List.pairwise_cons] at hs
    by_cases ha : inUpper true tol x a = true
    · rw [List.dropWhile_cons_of_pos ha]; exact ih hs.2
    · rw [List.dropWhile_cons_of_neg ha]
      have hgt : x + tol < a := by simpa [inUpper] using ha
      intro t ht
      rcases List.mem_cons.mp ht with rfl | ht
      · exact hgt
      · exact lt_of_lt_of_le hgt (hs.1 t ht)

theorem pairwise_dropWhile {p : K → Bool} {rem : List K} (hs : rem.Pairwise (· ≤ ·)) :
    (rem.dropWhile p).Pairwise (· ≤ ·) :=
  hs.sublist (List.dropWhile_sublist p)

/-- forward run: if the unreported requests are sorted and all strictly beyond the previous endpoint's window, every
    step reports exactly the requests inside its window and nothing is skipped -/
theorem runTimes_forward {tol : K} (htol : 0 ≤ tol) :
    ∀ (xs : List K) (rem : List K) (xprev : K), rem.Pairwise (· ≤ ·) → (∀ t ∈ rem, xprev + tol < t) →
      (List.IsChain (· < ·) (xprev :: xs)) →
      runTimes true tol rem xprev xs ++ runRest true tol rem xs = rem := by
  intro xs
  induction xs with
  | nil => intro rem xprev _ _ _; simp [runTimes, runRest]
  | cons x xs ih =>
    intro rem xprev hs hgt hc
    simp only [runTimes, runRest]
    have hkept : stepKept true tol xprev x rem = rem.takeWhile (inUpper true tol x) := by
      unfold stepKept
      apply List.filter_eq_self.mpr
      intro t ht
      have htm : t ∈ rem := (List.takeWhile_sublist _).subset ht
      have := hgt t htm
      simp only [inLower, if_true, decide_eq_true_eq, ge_iff_le]
      linarith
    have hc' : List.IsChain (· < ·) (x :: xs) := by
      cases hc with
      | cons_cons _ h => exact h
    rw [hkept, List.append_assoc, ih (stepRest true tol x rem) x (pairwise_dropWhile hs) (dropWhile_all_gt hs) hc']
    exact List.takeWhile_append_dropWhile

/-- … and if the last step reaches a point whose window contains every request, nothing remains -/
theorem runRest_nil_of_last {tol : K} :
    ∀ (xs : List K) (rem : List K) (xlast : K), xs.getLast? = some xlast → (∀ t ∈ rem, t ≤ xlast + tol) →
      runRest true tol rem xs = [] := by
  intro xs
  induction xs with
  | nil => intro rem xlast h; simp at h
  | cons x xs ih =>
    intro rem xlast hl hle
    simp only [runRest]
    cases xs with
    | nil =>
      simp only [List.getLast?_singleton, Option.some.injEq] at hl
      subst hl
      simp only [runRest, stepRest]
      apply dropWhile_nil_of_all
      intro t ht
      simpa [inUpper] using hle t ht
    | cons x2 xs2 =>
      apply ih _ xlast (by simpa using hl)
      intro t ht
      exact hle t ((List.dropWhile_sublist _).subset ht)

/-- **C05, exact times (forward).**  Requests sorted ascending, all strictly beyond the window of `x0` (those inside
    it are taken by the initial callback), none beyond the window of the final accepted point: the steps report
    exactly the requested list, in order, duplicates included. -/
theorem teval_exact_times_forward {tol : K} (htol : 0 ≤ tol) (rem : List K) (x0 : K) (xs : List K) (xlast : K)
    (hs : rem.Pairwise (· ≤ ·)) (hgt : ∀ t ∈ rem, x0 + tol < t) (hc : List.IsChain (· < ·) (x0 :: xs))
    (hl : xs.getLast? = some xlast) (hle : ∀ t ∈ rem, t ≤ xlast + tol) :
    runTimes true tol rem x0 xs = rem := by
  have h := runTimes_forward htol xs rem x0 hs hgt hc
  rw [runRest_nil_of_last xs rem xlast hl hle, List.append_nil] at h
  exact h

/-- early stop (forward): whatever prefix of the history was executed, what has been reported so far is exactly the
    requests inside the windows passed so far — a prefix of the request list — and everything unreported lies strictly
    beyond the last accepted point's window -/
theorem teval_early_stop_forward {tol : K} (htol : 0 ≤ tol) (rem : List K) (x0 : K) (xs : List K)
    (hs : rem.Pairwise (· ≤ ·)) (hgt : ∀ t ∈ rem, x0 + tol < t) (hc : List.IsChain (· < ·) (x0 :: xs)) :
    runTimes true tol rem x0 xs ++ runRest true tol rem xs = rem :=
  runTimes_forward htol xs rem x0 hs hgt hc

/-! ### connection to the model functions -/

theorem sampleStep_spec (s : St K) (te : Array K) (fwd : Bool) (xold x : K) (ipv : Interp K) :
    ∃ s', sampleStep s te fwd xold x (some ipv) = some s'
      ∧ s'.t.toList = s.t.toList ++ stepKept fwd s.tol xold x (te.toList.drop s.nextIdx)
      ∧ te.toList.drop s'.nextIdx = stepRest fwd s.tol x (te.toList.drop s.nextIdx)
      ∧ s'.y.toList = s.y.toList ++ (stepKept fwd s.tol xold x (te.toList.drop s.nextIdx)).map ipv.eval
      ∧ s'.tol = s.tol := by
  refine ⟨_, rfl, ?_, ?_, ?_, rfl⟩
  · simp [stepKept, takeStep]
  · simp only [stepRest, takeStep]
    rw [← List.drop_drop, drop_takeWhile_length]
  · simp [stepKept, takeStep]

/-- values reported for requested times are the step interpolant evaluated there, and `t`, `y` stay aligned -/
theorem sampleStep_lengths (s : St K) (te : Array K) (fwd : Bool) (xold x : K) (ipv : Interp K) (h : s.t.size = s.y.size) :
    ∀ s', sampleStep s te fwd xold x (some ipv) = some s' → s'.t.size = s'.y.size := by
  intro s' hs
  simp only [sampleStep] at hs
  injection hs with hs
  rw [← hs]
  simp [h]

/-! ### backward runs: the mirror image of forward runs on the negated times -/
theorem inUpper_mirror (tol x t : K) : inUpper false tol x t = inUpper true tol (-x) (-t) := by
  simp only [inUpper, if_true, Bool.false_eq_true, if_false]
  apply decide_eq_decide.mpr
  constructor <;> intro h <;> linarith

theorem inLower_mirror (tol x t : K) : inLower false tol x t = inLower true tol (-x) (-t) := by
  simp only [inLower, if_true, Bool.false_eq_true, if_false]
  apply decide_eq_decide.mpr
  constructor <;> intro h <;> linarith

theorem takeWhile_map_neg (p : K → Bool) (l : List K) :
    (l.map Neg.neg).takeWhile p = (l.takeWhile (fun t => p (-t))).map Neg.neg := by
  induction l with
  | nil => rfl
  | cons a l ih => simp only [List.map_cons, List.takeWhile_cons]; split <;> simp [ih]

theorem dropWhile_map_neg (p : K → Bool) (l : List K) :
    (l.map Neg.neg).dropWhile p = (l.dropWhile (fun t => p (-t))).map Neg.neg := by
  induction l with
  | nil => rfl
  | cons a l ih => simp only [List.map_cons, List.dropWhile_cons]; split <;> simp [ih]

theorem filter_map_neg (p : K → Bool) (l : List K) :
    (l.map Neg.neg).filter p = (l.filter (fun t => p (-t))).map Neg.neg := by
  induction l with
  | nil => rfl
  | cons a l ih => simp only [List.map_cons, List.filter_cons]; split <;> simp [ih]

theorem stepKept_mirror (tol xold x : K) (rem : List K) :
    stepKept false tol xold x rem = (stepKept true tol (-xold) (-x) (rem.map Neg.neg)).map Neg.neg := by
  unfold stepKept
  rw [takeWhile_map_neg, filter_map_neg, List.map_map]
  have : (Neg.neg ∘ Neg.neg : K → K) = id := by funext t; simp
  rw [this, List.map_id]
  congr 1
  · funext t; exact inLower_mirror tol xold t
  · congr 1; funext t; exact inUpper_mirror tol x t

theorem stepRest_mirror (tol x : K) (rem : List K) :
    (stepRest false tol x rem).map Neg.neg = stepRest true tol (-x) (rem.map Neg.neg) := by
  unfold stepRest
  rw [dropWhile_map_neg]
  congr 2
  funext t; exact inUpper_mirror tol x t

/-- a backward run is the mirror image of a forward run on the negated times -/
theorem runTimes_mirror (tol : K) : ∀ (xs rem : List K) (xprev : K),
    runTimes false tol rem xprev xs = (runTimes true tol (rem.map Neg.neg) (-xprev) (xs.map Neg.neg)).map Neg.neg := by
  intro xs
  induction xs with
  | nil => intro rem xprev; simp [runTimes]
  | cons x xs ih =>
    intro rem xprev
    simp only [runTimes, List.map_cons, List.map_append]
    rw [stepKept_mirror, ih, stepRest_mirror]

theorem runRest_mirror (tol : K) : ∀ (xs rem : List K),
    (runRest false tol rem xs).map Neg.neg = runRest true tol (rem.map Neg.neg) (xs.map Neg.neg) := by
  intro xs
  induction xs with
  | nil => intro rem; simp [runRest]
  | cons x xs ih =>
    intro rem
    simp only [runRest, List.map_cons]
    rw [ih, stepRest_mirror]

/-- **C05, exact times (backward).**  Requests sorted descending, all strictly beyond the window of `x0`, none beyond
    the window of the final accepted point: the steps report exactly the requested list, in order. -/
theorem teval_exact_times_backward {tol : K} (htol : 0 ≤ tol) (rem : List K) (x0 : K) (xs : List K) (xlast : K)
    (hs : rem.Pairwise (· ≥ ·)) (hgt : ∀ t ∈ rem, t < x0 - tol) (hc : List.IsChain (· > ·) (x0 :: xs))
    (hl : xs.getLast? = some xlast) (hle : ∀ t ∈ rem, xlast - tol ≤ t) :
    runTimes false tol rem x0 xs = rem := by
  rw [runTimes_mirror]
  have h := teval_exact_times_forward htol (rem.map Neg.neg) (-x0) (xs.map Neg.neg) (-xlast)
    (by rw [List.pairwise_map]; exact hs.imp (fun h => neg_le_neg h))
    (by intro t ht; obtain ⟨u, hu, rfl⟩ := List.mem_map.mp ht; have := hgt u hu; linarith)
    (by
      have : List.IsChain (· < ·) ((x0 :: xs).map Neg.neg) := by
        rw [List.isChain_map]; exact hc.imp (by intro a b h; exact neg_lt_neg h)
      simpa using this)
    (by simp [List.getLast?_map, hl])
    (by intro t ht; obtain ⟨u, hu, rfl⟩ := List.mem_map.mp ht; have := hle u hu; linarith)
  rw [h, List.map_map]
  have : (Neg.neg ∘ Neg.neg : K → K) = id := by funext t; simp
  rw [this, List.map_id]

end
end SolOutM
