import IvpModel.Proofs.DupDopri5
import IvpModel.Proofs.ScaleRk23
set_option linter.unusedSectionVars false
set_option linter.unusedSimpArgs false
set_option linter.unusedTactic false
set_option linter.unnecessarySeqFocus false
set_option linter.unusedVariables false

/-!
  C13, whole runs of RK23 on `m` stacked copies of a system (given first step): the step points, step sizes, error estimates,
  statuses and counters of the single system; every state is the stacked state.
-/
namespace Ctl
noncomputable section
variable {K : Type} [Field K] [LinearOrder K] [IsStrictOrderedRing K] [SqrtPow K] {n : Nat}
variable (m : Nat) (hn : 0 < n)

/-- the same controller in dimension `m·n`, with stacked tolerances -/
def dP23 (P : R23Params K n) : R23Params K (m * n) :=
  { xend := P.xend, posneg := P.posneg, safety := P.safety, scaleMin := P.scaleMin, scaleMax := P.scaleMax, hmax := P.hmax, nmax := P.nmax,
    dense := P.dense, atol := dupV m hn P.atol, rtol := dupV m hn P.rtol, one := P.one, quarter := P.quarter, half := P.half, threeq := P.threeq }
def dS23 {σ : Type} (s : R23State σ K n) : R23State σ K (m * n) :=
  { x := s.x, h := s.h, y := dupV m hn s.y, k1 := dupV m hn s.k1, m := dMeter m hn s.m, obs := s.obs }
def dOut23 {σ : Type} : Sum (R23State σ K n) (Result σ K n) → Sum (R23State σ K (m * n)) (Result σ K (m * n))
  | .inl s => .inl (dS23 m hn s)
  | .inr r => .inr (dResult m hn r)

section regions
open Gen.Rk23
theorem l1_dup (y k1 : Vector K n) (h : K) : stages_loop1 (y := dupV m hn y) (h := h) (k1 := dupV m hn k1) = dupV m hn (stages_loop1 (y := y) (h := h) (k1 := k1)) := by
  ext i hi; simp [stages_loop1, dupV]
theorem l2_dup (y k2 : Vector K n) (h : K) : stages_loop2 (y := dupV m hn y) (h := h) (k2 := dupV m hn k2) = dupV m hn (stages_loop2 (y := y) (h := h) (k2 := k2)) := by
  ext i hi; simp [stages_loop2, dupV]
theorem l3_dup (y k1 k2 k3 : Vector K n) (h : K) :
    stages_loop3 (y := dupV m hn y) (h := h) (k1 := dupV m hn k1) (k2 := dupV m hn k2) (k3 := dupV m hn k3) = dupV m hn (stages_loop3 (y := y) (h := h) (k1 := k1) (k2 := k2) (k3 := k3)) := by
  ext i hi; simp [stages_loop3, dupV]

def dStages (o : StagesOut K n) : StagesOut K (m * n) :=
  { yt := dupV m hn o.yt, k2 := dupV m hn o.k2, calls := o.calls.map (dcl m hn), k3 := dupV m hn o.k3, xph := o.xph, k4 := dupV m hn o.k4 }

theorem stages23_dup (F : Rhs K (m * n)) (f : Rhs K n) (hF : DupRhs m hn F f) (y k1 : Vector K n) (x h : K) (last : Bool) (xend : K) :
    stages (f := F) (y := dupV m hn y) (h := h) (k1 := dupV m hn k1) (x := x) (last := last) (xend := xend)
      = dStages m hn (stages (f := f) (y := y) (h := h) (k1 := k1) (x := x) (last := last) (xend := xend)) := by
  simp only [stages, dStages, l1_dup, l2_dup, l3_dup, hF _ _ _]
  simp [dcl]

theorem errvec_dup (k1 k2 k3 k4 : Vector K n) (h : K) :
    (errvec (h := h) (k1 := dupV m hn k1) (k2 := dupV m hn k2) (k3 := dupV m hn k3) (k4 := dupV m hn k4)).ye
      = dupV m hn (errvec (h := h) (k1 := k1) (k2 := k2) (k3 := k3) (k4 := k4)).ye := by
  ext i hi; simp [errvec, errvec_loop1, dupV]

theorem errnorm23_dup (hm : 0 < m) (atol rtol yt y ye : Vector K n) :
    errnorm (atol := dupV m hn atol) (rtol := dupV m hn rtol) (yt := dupV m hn yt) (y := dupV m hn y) (ye := dupV m hn ye)
      = errnorm (atol := atol) (rtol := rtol) (yt := yt) (y := y) (ye := ye) := by
  rw [rk23_errnorm_spec, rk23_errnorm_spec]
  congr 1
  have h1 : (fun i : Fin (m * n) => (dupV m hn ye)[i]) = fun i => (fun j : Fin n => ye[j]) ⟨i.val % n, Nat.mod_lt _ hn⟩ := by
    funext i; simp [dupV]
  have h2 : skMax (dupV m hn atol) (dupV m hn rtol) (dupV m hn yt) (dupV m hn y)
      = fun i : Fin (m * n) => skMax atol rtol yt y ⟨i.val % n, Nat.mod_lt _ hn⟩ := by
    funext i; simp [skMax, dupV]
  rw [h1, h2]
  exact errSum_copies m n hm hn (fun j => ye[j]) (skMax atol rtol yt y)

theorem dense23_dup (ye k1 k2 k3 k4 : Vector K n) :
    let d := dense (ye := ye) (k1 := k1) (k2 := k2) (k3 := k3) (k4 := k4)
    let d' := dense (ye := dupV m hn ye) (k1 := dupV m hn k1) (k2 := dupV m hn k2) (k3 := dupV m hn k3) (k4 := dupV m hn k4)
    d'.cont0 = dupV m hn d.cont0 ∧ d'.cont1 = dupV m hn d.cont1 ∧ d'.cont2 = dupV m hn d.cont2 ∧ d'.cont3 = dupV m hn d.cont3 := by
  intro d d'
  refine ⟨rfl, ?_, ?_, ?_⟩ <;> (ext i hi; simp [d, d', dense, dense_loop1, dupV])

theorem interp23_dup (c0 c1 c2 c3 : Vector K n) (xold h xi : K) :
    interpolate (xi := xi) (xold := xold) (h := h) (cont0 := dupV m hn c0) (cont1 := dupV m hn c1) (cont2 := dupV m hn c2) (cont3 := dupV m hn c3)
      = dupV m hn (interpolate (xi := xi) (xold := xold) (h := h) (cont0 := c0) (cont1 := c1) (cont2 := c2) (cont3 := c3)) := by
  ext i hi; simp [interpolate, interpolate_loop1, dupV]
end regions

theorem ip23_dup (dn : Bool) (y0 k1 k2 k3 k4 : Vec K n) (x h : K) :
    (if dn = true then
        some fun xi => Gen.Rk23.interpolate (xi := xi) (xold := x) (h := h)
          (cont0 := (Gen.Rk23.dense (ye := dupV m hn y0) (k1 := dupV m hn k1) (k2 := dupV m hn k2) (k3 := dupV m hn k3) (k4 := dupV m hn k4)).cont0)
          (cont1 := (Gen.Rk23.dense (ye := dupV m hn y0) (k1 := dupV m hn k1) (k2 := dupV m hn k2) (k3 := dupV m hn k3) (k4 := dupV m hn k4)).cont1)
          (cont2 := (Gen.Rk23.dense (ye := dupV m hn y0) (k1 := dupV m hn k1) (k2 := dupV m hn k2) (k3 := dupV m hn k3) (k4 := dupV m hn k4)).cont2)
          (cont3 := (Gen.Rk23.dense (ye := dupV m hn y0) (k1 := dupV m hn k1) (k2 := dupV m hn k2) (k3 := dupV m hn k3) (k4 := dupV m hn k4)).cont3)
      else none)
    = dIp m hn (if dn = true then
        some fun xi => Gen.Rk23.interpolate (xi := xi) (xold := x) (h := h)
          (cont0 := (Gen.Rk23.dense (ye := y0) (k1 := k1) (k2 := k2) (k3 := k3) (k4 := k4)).cont0)
          (cont1 := (Gen.Rk23.dense (ye := y0) (k1 := k1) (k2 := k2) (k3 := k3) (k4 := k4)).cont1)
          (cont2 := (Gen.Rk23.dense (ye := y0) (k1 := k1) (k2 := k2) (k3 := k3) (k4 := k4)).cont2)
          (cont3 := (Gen.Rk23.dense (ye := y0) (k1 := k1) (k2 := k2) (k3 := k3) (k4 := k4)).cont3)
      else none) := by
  obtain ⟨d0, d1, d2, d3⟩ := dense23_dup m hn y0 k1 k2 k3 k4
  cases dn with
  | false => rfl
  | true =>
    simp only [if_true, dIp, Option.map]
    congr 1
    funext xi
    rw [d0, d1, d2, d3]
    exact interp23_dup m hn _ _ _ _ x h xi

def dTrial (T : R23Trial K n) : R23Trial K (m * n) := { o := dStages m hn T.o, m := dMeter m hn T.m, err := T.err }

theorem rk23Trial_dup {σ : Type} (hm : 0 < m) (P : R23Params K n) (F : Rhs K (m * n)) (f : Rhs K n) (hF : DupRhs m hn F f)
    (s : R23State σ K n) (h : K) (L : Bool) :
    rk23Trial (dP23 m hn P) F (dS23 m hn s) h L = dTrial m hn (rk23Trial P f s h L) := by
  unfold rk23Trial dTrial
  dsimp only [dS23, dP23]
  simp only [dMeter_ncalls, stages23_dup m hn _ _ (hF.shift m hn s.m.ncalls)]
  congr 1
  · simp only [dStages, dMeter_bump]
  · simp only [dStages, errvec_dup, finiteGuard, vecFinite_field, if_true, errnorm23_dup m hn hm]

theorem rk23Accepted_dup {σ : Type} (P : R23Params K n) (F : Rhs K (m * n)) (f : Rhs K n) (hF : DupRhs m hn F f) (Ob : Obs σ K (m * n))
    (ob : Obs σ K n) (hOb : DupObs m hn Ob ob) (x hs : K) (y k1 : Vec K n) (M : Meter K n) (obs : σ) (h : K) (L : Bool) (T : R23Trial K n) :
    rk23Accepted (dP23 m hn P) F Ob (dS23 m hn { x := x, h := hs, y := y, k1 := k1, m := M, obs := obs }) h L (dTrial m hn T)
      = dOut23 m hn (rk23Accepted P f ob { x := x, h := hs, y := y, k1 := k1, m := M, obs := obs } h L T) := by
  obtain ⟨xend, posneg, safety, smin, smax, hmax, nmax, dns, atol, rtol, one, q1, q2, q3⟩ := P
  obtain ⟨⟨oyt, ok2, ocalls, ok3, oxph, ok4⟩, tm, terr⟩ := T
  unfold rk23Accepted
  dsimp (config := { instances := true }) only [dS23, dP23, dTrial, dStages]
  rw [ip23_dup]
  generalize (if dns = true then
      some fun xi => Gen.Rk23.interpolate (xi := xi) (xold := x) (h := h)
        (cont0 := (Gen.Rk23.dense (ye := y) (k1 := k1) (k2 := ok2) (k3 := ok3) (k4 := ok4)).cont0)
        (cont1 := (Gen.Rk23.dense (ye := y) (k1 := k1) (k2 := ok2) (k3 := ok3) (k4 := ok4)).cont1)
        (cont2 := (Gen.Rk23.dense (ye := y) (k1 := k1) (k2 := ok2) (k3 := ok3) (k4 := ok4)).cont2)
        (cont3 := (Gen.Rk23.dense (ye := y) (k1 := k1) (k2 := ok2) (k3 := ok3) (k4 := ok4)).cont3)
    else none) = IP
  rw [sampleInterp_dup, ← dMeter_incTotal, ← dMeter_incAccepted, ← dMeter_cb, afterCb_dup m hn F f hF Ob ob hOb]
  cases afterCb f ob obs (tm.incTotal.incAccepted.cb x (landX L xend x h) oyt (sampleInterp IP x (landX L xend x h) q1 q2 q3)) x (landX L xend x h) oyt IP ok4 with
  | stop o yy => rfl
  | go o yy kk mm =>
    simp only [dAfter]
    by_cases hx : (L || Num.eqb (landX L xend x h) xend) = true
    · rw [if_pos hx, if_pos hx]; rfl
    · rw [if_neg hx, if_neg hx]; rfl

theorem rk23Pass_dup {σ : Type} (hm : 0 < m) (P : R23Params K n) (F : Rhs K (m * n)) (f : Rhs K n) (hF : DupRhs m hn F f) (Ob : Obs σ K (m * n))
    (ob : Obs σ K n) (hOb : DupObs m hn Ob ob) (x hs : K) (y k1 : Vec K n) (M : Meter K n) (obs : σ) (h : K) (L : Bool) :
    rk23Pass (dP23 m hn P) F Ob (dS23 m hn { x := x, h := hs, y := y, k1 := k1, m := M, obs := obs }) h L
      = dOut23 m hn (rk23Pass P f ob { x := x, h := hs, y := y, k1 := k1, m := M, obs := obs } h L) := by
  unfold rk23Pass
  rw [rk23Trial_dup m hn hm P F f hF]
  generalize rk23Trial P f { x := x, h := hs, y := y, k1 := k1, m := M, obs := obs } h L = T
  have he : (dTrial m hn T).err = T.err := rfl
  have ho : (dP23 m hn P).one = P.one := rfl
  dsimp only
  rw [he, ho]
  by_cases hacc : T.err ≤ P.one
  · rw [if_pos hacc, if_pos hacc]
    exact rk23Accepted_dup m hn P F f hF Ob ob hOb x hs y k1 M obs h L T
  · rw [if_neg hacc, if_neg hacc]
    rfl

theorem rk23Iter_dup {σ : Type} (hm : 0 < m) (P : R23Params K n) (F : Rhs K (m * n)) (f : Rhs K n) (hF : DupRhs m hn F f) (Ob : Obs σ K (m * n))
    (ob : Obs σ K n) (hOb : DupObs m hn Ob ob) (s : R23State σ K n) :
    rk23Iter (dP23 m hn P) F Ob (dS23 m hn s) = dOut23 m hn (rk23Iter P f ob s) := by
  rw [rk23Iter_eq_pass, rk23Iter_eq_pass]
  have hg : rk23Guard (dP23 m hn P) (dS23 m hn s) = rk23Guard P s := rfl
  have ha : rk23Adjust (dP23 m hn P) (dS23 m hn s) = rk23Adjust P s := rfl
  have hl : rk23Last (dP23 m hn P) (dS23 m hn s) = rk23Last P s := rfl
  rw [hg]
  cases hgq : rk23Guard P s with
  | some st => rfl
  | none =>
    dsimp only
    rw [ha, hl]
    obtain ⟨x, hs, y, k1, M, obs⟩ := s
    exact rk23Pass_dup m hn hm P F f hF Ob ob hOb x hs y k1 M obs _ _

theorem rk23Loop_dup {σ : Type} (hm : 0 < m) (P : R23Params K n) (F : Rhs K (m * n)) (f : Rhs K n) (hF : DupRhs m hn F f) (Ob : Obs σ K (m * n))
    (ob : Obs σ K n) (hOb : DupObs m hn Ob ob) :
    ∀ (fuel : Nat) (s : R23State σ K n),
      rk23Loop (dP23 m hn P) F Ob fuel (dS23 m hn s) = (rk23Loop P f ob fuel s).map (dResult m hn) := by
  intro fuel
  induction fuel with
  | zero => intro s; rfl
  | succ fuel ih =>
    intro s
    unfold rk23Loop
    rw [rk23Iter_dup m hn hm P F f hF Ob ob hOb s]
    cases hq : rk23Iter P f ob s with
    | inr r => rfl
    | inl s' => exact ih s'

theorem rk23Start_dup {σ : Type} (P : R23Params K n) (F : Rhs K (m * n)) (f : Rhs K n) (hF : DupRhs m hn F f) (Ob : Obs σ K (m * n))
    (ob : Obs σ K n) (hOb : DupObs m hn Ob ob) (obs0 : σ) (x0 : K) (y0 : Vec K n) (h0 hmaxArg : K) :
    rk23Start (dP23 m hn P) F Ob obs0 x0 (dupV m hn y0) (some h0) hmaxArg = dOut23 m hn (rk23Start P f ob obs0 x0 y0 (some h0) hmaxArg) := by
  unfold rk23Start startMeter
  have hk : F 0 x0 (dupV m hn y0) = dupV m hn (f 0 x0 y0) := hF 0 x0 y0
  have hm0 : (({} : Meter K (m * n)).bump #[(x0, dupV m hn y0)] 1) = dMeter m hn (({} : Meter K n).bump #[(x0, y0)] 1) := by
    rw [dMeter_bump]; simp [dMeter, dcl]
  have hcb : ∀ M : Meter K n, (dMeter m hn M).cb x0 x0 (dupV m hn y0) #[] = dMeter m hn (M.cb x0 x0 y0 #[]) := by
    intro M; rw [dMeter_cb]; simp
  dsimp only [dP23]
  rw [hk, hm0, hcb]
  have ha := afterCb_dup m hn F f hF Ob ob hOb obs0 ((({} : Meter K n).bump #[(x0, y0)] 1).cb x0 x0 y0 #[]) x0 x0 y0 none (f 0 x0 y0)
  rw [show dIp m hn (none : Option (K → Vec K n)) = none from rfl] at ha
  rw [ha]
  cases afterCb f ob obs0 ((({} : Meter K n).bump #[(x0, y0)] 1).cb x0 x0 y0 #[]) x0 x0 y0 none (f 0 x0 y0) with
  | stop o yy => rfl
  | go o yy kk mm => rfl

/-- **C13 (RK23, whole run on `m ≥ 1` stacked copies, given first step).** -/
theorem rk23Solve_dup {σ : Type} (hm : 0 < m) (P : R23Params K n) (F : Rhs K (m * n)) (f : Rhs K n) (hF : DupRhs m hn F f) (Ob : Obs σ K (m * n))
    (ob : Obs σ K n) (hOb : DupObs m hn Ob ob) (obs0 : σ) (x0 : K) (y0 : Vec K n) (h0 hmaxArg : K) (fuel : Nat) :
    rk23Solve (dP23 m hn P) F Ob obs0 x0 (dupV m hn y0) (some h0) hmaxArg fuel
      = (rk23Solve P f ob obs0 x0 y0 (some h0) hmaxArg fuel).map (dResult m hn) := by
  unfold rk23Solve
  rw [rk23Start_dup m hn P F f hF Ob ob hOb obs0 x0 y0 h0 hmaxArg]
  cases hq : rk23Start P f ob obs0 x0 y0 (some h0) hmaxArg with
  | inr r => rfl
  | inl s => exact rk23Loop_dup m hn hm P F f hF Ob ob hOb fuel s

end
end Ctl
