/-
  DOP853 part of the stage equations.  `stages` is first unfolded *definitionally* (`rfl`) into the
  eleven (time, argument) pairs expressed through the hoisted loop definitions — this records which
  buffer feeds which stage (k2, k3 are reused for stages 11 and 12) — and every loop is then shown
  to be the corresponding row of `dop853Tab`.
-/
import IvpModel.Proofs.StageEqs

noncomputable section
variable {K : Type} [Field K] [LinearOrder K] [IsStrictOrderedRing K] [SqrtPow K]
open Gen.Dop853

theorem dop853_calls_unfold {n : Nat} (Kc : Nat → Vector K n) (y k1 : Vector K n) (x h : K) (last : Bool) (xend : K) :
    (stages (f := openF Kc) (y := y) (h := h) (k1 := k1) (x := x) (last := last) (xend := xend)).calls
      = #[(x + C2 * h, stages_loop1 (y := y) (h := h) (k1 := k1) ),
          (x + C3 * h, stages_loop2 (y := y) (h := h) (k1 := k1) (k2 := Kc 0)),
          (x + C4 * h, stages_loop3 (y := y) (h := h) (k1 := k1) (k3 := Kc 1)),
          (x + C5 * h, stages_loop4 (y := y) (h := h) (k1 := k1) (k3 := Kc 1) (k4 := Kc 2)),
          (x + C6 * h, stages_loop5 (y := y) (h := h) (k1 := k1) (k4 := Kc 2) (k5 := Kc 3)),
          (x + C7 * h, stages_loop6 (y := y) (h := h) (k1 := k1) (k4 := Kc 2) (k5 := Kc 3) (k6 := Kc 4)),
          (x + C8 * h, stages_loop7 (y := y) (h := h) (k1 := k1) (k4 := Kc 2) (k5 := Kc 3) (k6 := Kc 4) (k7 := Kc 5)),
          (x + C9 * h, stages_loop8 (y := y) (h := h) (k1 := k1) (k4 := Kc 2) (k5 := Kc 3) (k6 := Kc 4) (k7 := Kc 5) (k8 := Kc 6)),
          (x + C10 * h, stages_loop9 (y := y) (h := h) (k1 := k1) (k4 := Kc 2) (k5 := Kc 3) (k6 := Kc 4) (k7 := Kc 5) (k8 := Kc 6) (k9 := Kc 7)),
          (x + C11 * h, stages_loop10 (y := y) (h := h) (k1 := k1) (k4 := Kc 2) (k5 := Kc 3) (k6 := Kc 4) (k7 := Kc 5) (k8 := Kc 6) (k9 := Kc 7) (k10 := Kc 8)),
          ((if last then xend else x + h), stages_loop11 (y := y) (h := h) (k1 := k1) (k4 := Kc 2) (k5 := Kc 3) (k6 := Kc 4) (k7 := Kc 5) (k8 := Kc 6) (k9 := Kc 7) (k10 := Kc 8) (k2 := Kc 9))] := by
  rfl

theorem dop853_row1 {n : Nat} (Kc : Nat → Vector K n) (y k1 : Vector K n) (x h : K) :
    (x + C2 * h, stages_loop1 (y := y) (h := h) (k1 := k1) ) = rkArg dop853Tab x h y (kOf k1 Kc) 1 := by
  simp [stages_loop1, rkArg, rowDot, dop853Tab, kOf, num_lit, qval, z, one_q, List.zipIdx]
  stage_finish

theorem dop853_row2 {n : Nat} (Kc : Nat → Vector K n) (y k1 : Vector K n) (x h : K) :
    (x + C3 * h, stages_loop2 (y := y) (h := h) (k1 := k1) (k2 := Kc 0)) = rkArg dop853Tab x h y (kOf k1 Kc) 2 := by
  simp [stages_loop2, rkArg, rowDot, dop853Tab, kOf, num_lit, qval, z, one_q, List.zipIdx]
  stage_finish

theorem dop853_row3 {n : Nat} (Kc : Nat → Vector K n) (y k1 : Vector K n) (x h : K) :
    (x + C4 * h, stages_loop3 (y := y) (h := h) (k1 := k1) (k3 := Kc 1)) = rkArg dop853Tab x h y (kOf k1 Kc) 3 := by
  simp [stages_loop3, rkArg, rowDot, dop853Tab, kOf, num_lit, qval, z, one_q, List.zipIdx]
  stage_finish

theorem dop853_row4 {n : Nat} (Kc : Nat → Vector K n) (y k1 : Vector K n) (x h : K) :
    (x + C5 * h, stages_loop4 (y := y) (h := h) (k1 := k1) (k3 := Kc 1) (k4 := Kc 2)) = rkArg dop853Tab x h y (kOf k1 Kc) 4 := by
  simp [stages_loop4, rkArg, rowDot, dop853Tab, kOf, num_lit, qval, z, one_q, List.zipIdx]
  stage_finish

theorem dop853_row5 {n : Nat} (Kc : Nat → Vector K n) (y k1 : Vector K n) (x h : K) :
    (x + C6 * h, stages_loop5 (y := y) (h := h) (k1 := k1) (k4 := Kc 2) (k5 := Kc 3)) = rkArg dop853Tab x h y (kOf k1 Kc) 5 := by
  simp [stages_loop5, rkArg, rowDot, dop853Tab, kOf, num_lit, qval, z, one_q, List.zipIdx]
  stage_finish

theorem dop853_row6 {n : Nat} (Kc : Nat → Vector K n) (y k1 : Vector K n) (x h : K) :
    (x + C7 * h, stages_loop6 (y := y) (h := h) (k1 := k1) (k4 := Kc 2) (k5 := Kc 3) (k6 := Kc 4)) = rkArg dop853Tab x h y (kOf k1 Kc) 6 := by
  simp [stages_loop6, rkArg, rowDot, dop853Tab, kOf, num_lit, qval, z, one_q, List.zipIdx]
  stage_finish

theorem dop853_row7 {n : Nat} (Kc : Nat → Vector K n) (y k1 : Vector K n) (x h : K) :
    (x + C8 * h, stages_loop7 (y := y) (h := h) (k1 := k1) (k4 := Kc 2) (k5 := Kc 3) (k6 := Kc 4) (k7 := Kc 5)) = rkArg dop853Tab x h y (kOf k1 Kc) 7 := by
  simp [stages_loop7, rkArg, rowDot, dop853Tab, kOf, num_lit, qval, z, one_q, List.zipIdx]
  stage_finish

theorem dop853_row8 {n : Nat} (Kc : Nat → Vector K n) (y k1 : Vector K n) (x h : K) :
    (x + C9 * h, stages_loop8 (y := y) (h := h) (k1 := k1) (k4 := Kc 2) (k5 := Kc 3) (k6 := Kc 4) (k7 := Kc 5) (k8 := Kc 6)) = rkArg dop853Tab x h y (kOf k1 Kc) 8 := by
  simp [stages_loop8, rkArg, rowDot, dop853Tab, kOf, num_lit, qval, z, one_q, List.zipIdx]
  stage_finish

theorem dop853_row9 {n : Nat} (Kc : Nat → Vector K n) (y k1 : Vector K n) (x h : K) :
    (x + C10 * h, stages_loop9 (y := y) (h := h) (k1 := k1) (k4 := Kc 2) (k5 := Kc 3) (k6 := Kc 4) (k7 := Kc 5) (k8 := Kc 6) (k9 := Kc 7)) = rkArg dop853Tab x h y (kOf k1 Kc) 9 := by
  simp [stages_loop9, rkArg, rowDot, dop853Tab, kOf, num_lit, qval, z, one_q, List.zipIdx]
  stage_finish

theorem dop853_row10 {n : Nat} (Kc : Nat → Vector K n) (y k1 : Vector K n) (x h : K) :
    (x + C11 * h, stages_loop10 (y := y) (h := h) (k1 := k1) (k4 := Kc 2) (k5 := Kc 3) (k6 := Kc 4) (k7 := Kc 5) (k8 := Kc 6) (k9 := Kc 7) (k10 := Kc 8)) = rkArg dop853Tab x h y (kOf k1 Kc) 10 := by
  simp [stages_loop10, rkArg, rowDot, dop853Tab, kOf, num_lit, qval, z, one_q, List.zipIdx]
  stage_finish

theorem dop853_row11 {n : Nat} (Kc : Nat → Vector K n) (y k1 : Vector K n) (x h : K) :
    (x + h, stages_loop11 (y := y) (h := h) (k1 := k1) (k4 := Kc 2) (k5 := Kc 3) (k6 := Kc 4) (k7 := Kc 5) (k8 := Kc 6) (k9 := Kc 7) (k10 := Kc 8) (k2 := Kc 9)) = rkArg dop853Tab x h y (kOf k1 Kc) 11 := by
  simp [stages_loop11, rkArg, rowDot, dop853Tab, kOf, num_lit, qval, z, one_q, List.zipIdx]
  stage_finish

/-- the eleven trial-stage calls of DOP853 are the stages 2..12 of the explicit RK scheme `dop853Tab` -/
theorem dop853_stage_eqs {n : Nat} (Kc : Nat → Vector K n) (y k1 : Vector K n) (x h : K) (last : Bool) (xend : K)
    (hl : last = true → xend = x + h) :
    (stages (f := openF Kc) (y := y) (h := h) (k1 := k1) (x := x) (last := last) (xend := xend)).calls
      = #[rkArg dop853Tab x h y (kOf k1 Kc) 1, rkArg dop853Tab x h y (kOf k1 Kc) 2, rkArg dop853Tab x h y (kOf k1 Kc) 3, rkArg dop853Tab x h y (kOf k1 Kc) 4, rkArg dop853Tab x h y (kOf k1 Kc) 5, rkArg dop853Tab x h y (kOf k1 Kc) 6, rkArg dop853Tab x h y (kOf k1 Kc) 7, rkArg dop853Tab x h y (kOf k1 Kc) 8, rkArg dop853Tab x h y (kOf k1 Kc) 9, rkArg dop853Tab x h y (kOf k1 Kc) 10, rkArg dop853Tab x h y (kOf k1 Kc) 11] := by
  have hx : (if last = true then xend else x + h) = x + h := by cases last <;> simp_all
  rw [dop853_calls_unfold, hx, dop853_row1, dop853_row2, dop853_row3, dop853_row4, dop853_row5, dop853_row6, dop853_row7, dop853_row8, dop853_row9, dop853_row10, dop853_row11]

/-- where the returned values end up: k2, k3 are reused for stages 11 and 12 -/
theorem dop853_stage_buffers {n : Nat} (Kc : Nat → Vector K n) (y k1 : Vector K n) (x h : K) (last : Bool) (xend : K) :
    let o := stages (f := openF Kc) (y := y) (h := h) (k1 := k1) (x := x) (last := last) (xend := xend)
    o.k4 = Kc 2 ∧ o.k5 = Kc 3 ∧ o.k6 = Kc 4 ∧ o.k7 = Kc 5 ∧ o.k8 = Kc 6 ∧ o.k9 = Kc 7 ∧ o.k10 = Kc 8
      ∧ o.k2 = Kc 9 ∧ o.k3 = Kc 10 ∧ o.xph = (if last then xend else x + h) := by
  refine ⟨rfl, rfl, rfl, rfl, rfl, rfl, rfl, rfl, rfl, rfl⟩

/-- the propagated state `k5 = y + h·k4`, `k4 = Σ b_l K_l` -/
theorem dop853_new_state {n : Nat} (k1 k2 k3 k4 k6 k7 k8 k9 k10 y : Vector K n) (h : K) :
    (combine (k1 := k1) (k2 := k2) (k3 := k3) (k4 := k4) (k6 := k6) (k7 := k7) (k8 := k8) (k9 := k9) (k10 := k10)
        (y := y) (h := h)).k5
      = rkNew dop853Tab h y (fun l => if l = 0 then k1 else if l = 5 then k6 else if l = 6 then k7
          else if l = 7 then k8 else if l = 8 then k9 else if l = 9 then k10 else if l = 10 then k2 else k3) := by
  simp [combine, combine_loop1, rkNew, rowDot, dop853Tab, num_lit, qval, z, List.zipIdx]
  stage_finish
end
