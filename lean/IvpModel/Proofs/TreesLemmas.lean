/-
  Completeness of the tree enumeration: every rooted tree of order ≤ p occurs in `treesUpTo p`.
  This is what turns "`decide` over the enumerated list" into a statement about *every* tree.
-/
import IvpModel.Model.Trees

namespace BTree

theorem treeTable_length (n : Nat) : (treeTable n).length = n := by
  induction n with
  | zero => simp [treeTable]
  | succ n ih => simp [treeTable, ih]

theorem treeTable_getD_succ_of_lt {n i : Nat} (h : i < n) :
    (treeTable (n + 1)).getD i [] = (treeTable n).getD i [] := by
  simp [treeTable, List.getD_eq_getElem?_getD, List.getElem?_append_left, treeTable_length, h]

theorem treeTable_getD_last (n : Nat) :
    (treeTable (n + 1)).getD n [] = if n = 0 then [leaf] else mkTrees (treeTable n) n := by
  simp [treeTable, List.getD_eq_getElem?_getD, treeTable_length]

theorem order_eq_one {t : BTree} (h : t.order = 1) : t = leaf := by
  cases t with
  | leaf => rfl
  | graft c r =>
    have := order_pos c; have := order_pos r
    simp [order] at h; omega

theorem mem_mkTrees {tbl : List (List BTree)} {n : Nat} {c r : BTree} {k : Nat}
    (hk : k < n) (hc : c ∈ tbl.getD k []) (hr : r ∈ tbl.getD (n - 1 - k) []) :
    graft c r ∈ mkTrees tbl n := by
  unfold mkTrees
  simp only [List.mem_flatMap, List.mem_range, List.mem_map]
  exact ⟨k, hk, c, hc, r, hr, rfl⟩

/-- every tree of order `m ≤ n` is in row `m-1` of `treeTable n` -/
theorem mem_treeTable : ∀ (n : Nat) (t : BTree), t.order ≤ n → t ∈ (treeTable n).getD (t.order - 1) [] := by
  intro n
  induction n with
  | zero => intro t h; have := order_pos t; omega
  | succ n ih =>
    intro t h
    by_cases hlt : t.order ≤ n
    · have hp := order_pos t
      rw [treeTable_getD_succ_of_lt (by omega)]
      exact ih t hlt
    · have heq : t.order = n + 1 := by omega
      rw [heq]
      simp only [Nat.add_sub_cancel]
      rw [treeTable_getD_last]
      by_cases hn : n = 0
      · subst hn
        simp
        exact order_eq_one heq
      · simp only [hn, if_false]
        cases t with
        | leaf => simp [order] at heq; omega
        | graft c r =>
          have hc := order_pos c; have hr := order_pos r
          simp only [order] at heq
          have hc' := ih c (by omega)
          have hr' := ih r (by omega)
          apply mem_mkTrees (k := c.order - 1) (by omega) hc'
          have : n - 1 - (c.order - 1) = r.order - 1 := by omega
          rw [this]; exact hr'

theorem mem_treesUpTo {p : Nat} {t : BTree} (h : t.order ≤ p) : t ∈ treesUpTo p := by
  have hm := mem_treeTable p t h
  unfold treesUpTo
  simp only [List.mem_flatten]
  refine ⟨_, ?_, hm⟩
  have hp := order_pos t
  have hl : t.order - 1 < (treeTable p).length := by rw [treeTable_length]; omega
  rw [List.getD_eq_getElem?_getD, List.getElem?_eq_getElem hl]
  simp

/-- lifting lemma: a Boolean check over the enumeration is a statement about all trees -/
theorem forall_of_all {p : Nat} {P : BTree → Bool} (h : (treesUpTo p).all P = true) :
    ∀ t : BTree, t.order ≤ p → P t = true := by
  intro t ht
  exact (List.all_eq_true.mp h) t (mem_treesUpTo ht)

end BTree
