import IvpModel.Proofs.NormLemmas
import IvpModel.Proofs.BdfNumLemmas
import IvpModel.Gen.Bdf
set_option linter.unusedSectionVars false
set_option linter.unusedSimpArgs false

noncomputable section
variable {K : Type} [Field K] [LinearOrder K] [IsStrictOrderedRing K] [SqrtPow K]

/-- the scale BDF divides by: the stored scale, an exactly zero one replaced by the translated `Float::EPSILON` (2⁻⁵²) -/
def bdfDenom {n : Nat} (scale : Vector K n) (i : Fin n) : K := if scale[i] = 0 then (1 : K) / 4503599627370496 else scale[i]

/-- **C01 (BDF), translated code.**  `weighted_rms_scaled` as regenerated from bdf.rs is the RMS norm of `values / scale`
    with exactly-zero scales replaced by EPSILON — nothing else is replaced (in particular not a small positive scale). -/
theorem bdf_weightedRms_spec {n : Nat} (values scale : Vector K n) :
    Gen.Bdf.weightedRmsScaled (scale := scale) (values := values)
      = SqrtPow.sqrt (errSum (fun i => values[i]) (bdfDenom scale) / (n : K)) := by
  unfold Gen.Bdf.weightedRmsScaled Gen.Bdf.weightedRmsScaled_loop1
  show Num.sqrt ((Fin.foldl n (fun acc i => acc + _) _) / _) = _
  rw [foldl_add_eq_sum]
  simp only [num_lit, errSum, bdfDenom, Num.sqrt, Num.ofNat]
  congr 2
  have h0 : ((0 : Int) : K) / ((1 : Nat) : K) = 0 := by norm_num
  rw [h0, zero_add]
  refine Finset.sum_congr rfl fun i _ => ?_
  have e : (if Num.eqb scale[i] (0 : K) = true then ((1 : Int) : K) / ((4503599627370496 : Nat) : K) else scale[i])
      = (if scale[i] = 0 then (1 : K) / 4503599627370496 else scale[i]) := by
    by_cases hz : scale[i] = 0
    · have : Num.eqb scale[i] (0 : K) = true := (num_eqb _ _).mpr hz
      simp [this, hz]
    · have : Num.eqb scale[i] (0 : K) = false := by
        cases hb : Num.eqb scale[i] (0 : K) with
        | false => rfl
        | true => exact absurd ((num_eqb _ _).mp hb) hz
      simp [hz]
  rw [e]

theorem list_range_sum_eq (f : Nat → K) (n : Nat) : ((List.range n).map f).sum = ∑ i ∈ Finset.range n, f i := by
  induction n with
  | zero => simp
  | succ m ih => rw [List.range_succ, List.map_append, List.sum_append, ih, Finset.sum_range_succ]; simp

/-- the hand-written norm of `Model/BdfNum.lean` (the one executed beside the Rust code in X-bdfnum) computes the same value
    as the translated function, on the same data -/
theorem bdf_weightedRms_model_eq_translated {n : Nat} (L : BdfNum.NLits K) (hL : BdfNum.LitOK L)
    (heps : L.eps = (1 : K) / 4503599627370496) (values scale : Vector K n) :
    BdfNum.weightedRms L values.toArray scale.toArray = Gen.Bdf.weightedRmsScaled (scale := scale) (values := values) := by
  rw [bdf_weightedRms_spec, BdfNum.weightedRms_spec L hL values.toArray scale.toArray (by simp)]
  simp only [Vector.size_toArray, errSum, bdfDenom]
  congr 2
  rw [list_range_sum_eq, ← Fin.sum_univ_eq_sum_range (fun i => (BdfNum.g values.toArray i / (if BdfNum.g scale.toArray i = 0 then L.eps else BdfNum.g scale.toArray i)) ^ 2) n]
  refine Finset.sum_congr rfl fun i _ => ?_
  have hv : BdfNum.g values.toArray i = values[i] := by simp [BdfNum.g]
  have hs : BdfNum.g scale.toArray i = scale[i] := by simp [BdfNum.g]
  rw [hv, hs, heps, sq]
/-- **C13 (BDF norm), translated code.**  Scaling values and scales by the same non-zero factor leaves the norm unchanged
    as long as no scale is exactly zero — for *every* size of the scales (a replacement of small positive scales by
    EPSILON, as in the seeded change C13e / C01e, would make this false). -/
theorem bdf_weightedRms_scale {n : Nat} (c : K) (hc : c ≠ 0) (values scale : Vector K n) (hnz : ∀ i : Fin n, scale[i] ≠ 0) :
    Gen.Bdf.weightedRmsScaled (scale := vsmul c scale) (values := vsmul c values)
      = Gen.Bdf.weightedRmsScaled (scale := scale) (values := values) := by
  rw [bdf_weightedRms_spec, bdf_weightedRms_spec]
  congr 2
  have h1 : (fun i : Fin n => (vsmul c values)[i]) = fun i => c * values[i] := by funext i; simp [vsmul]
  have h2 : bdfDenom (vsmul c scale) = fun i => c * bdfDenom scale i := by
    funext i
    have : (vsmul c scale)[i] = c * scale[i] := by simp [vsmul]
    unfold bdfDenom
    rw [this, if_neg (mul_ne_zero hc (hnz i)), if_neg (hnz i)]
  rw [h1, h2, errSum_scale c hc]
end
