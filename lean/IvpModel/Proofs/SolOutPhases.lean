/-
  Phase-level facts about the handler model: what each phase may change, what flag comes back.
-/
import IvpModel.Proofs.TevalLemmas

namespace SolOutM
noncomputable section
variable {K : Type} [Field K] [LinearOrder K] [IsStrictOrderedRing K] [SqrtPow K]

theorem dueBeforeEvent_prevEvent (fwd : Bool) (xold te : K) (ip : Interp K) (tev : Array K) :
    ∀ (f : Nat) (s : St K), (dueBeforeEvent fwd xold te ip tev f s).prevEvent = s.prevEvent := by
  intro f
  induction f with
  | zero => intro s; rfl
  | succ f ih =>
    intro s
    unfold dueBeforeEvent
    cases fwd <;> simp only [Bool.false_eq_true, if_false, if_true] <;> split_ifs <;> simp [ih]

/-- the event phase leaves `prev_event` equal to the event functions at the current point on **every** path that
    returns (first callback, no crossing, events recorded, terminal early return) -/
theorem eventPhase_prevEvent (L : Lits K) (gEv : K → Array K → Array K) (s : St K) (xold x : K) (y : Array K)
    (ip : Option (Interp K)) (hn : 0 < s.cfg.size) (s' : St K) (b : Bool)
    (h : eventPhase L gEv s xold x y ip = some (s', b)) : s'.prevEvent = gEv x y := by
  unfold eventPhase at h
  simp only [gt_iff_lt, hn, if_true] at h
  split at h
  · injection h with h; injection h with h1 _; rw [← h1]
  · split at h
    · cases h
    · split at h
      · cases h
      · injection h with h; injection h with h1 _; rw [← h1]

theorem sampleInitial_prevEvent (s : St K) (te : Array K) (x : K) (y : Array K) :
    (sampleInitial s te x y).prevEvent = s.prevEvent := rfl

theorem sampleStep_prevEvent (s : St K) (te : Array K) (fwd : Bool) (xold x : K) (ip : Option (Interp K)) (s' : St K)
    (h : sampleStep s te fwd xold x ip = some s') : s'.prevEvent = s.prevEvent := by
  unfold sampleStep at h
  cases ip with
  | some ipv => injection h with h; rw [← h]
  | none =>
    simp only at h
    split at h
    · injection h with h; rw [← h]
    · cases h

theorem outputMode2_prevEvent (s : St K) (xold x : K) (y : Array K) (ip : Option (Interp K)) :
    (outputMode2 s xold x y ip).prevEvent = s.prevEvent := by
  unfold outputMode2
  cases hf : s.firstStep with
  | none =>
    simp only
    split <;> split_ifs <;> rfl
  | some h0 =>
    cases ip with
    | none => simp only; split_ifs <;> (try rfl) <;> (split <;> split_ifs <;> rfl)
    | some ipv => simp only; split_ifs <;> (try rfl) <;> (split <;> split_ifs <;> rfl)

theorem outputPhase_prevEvent (s : St K) (xold x : K) (y : Array K) (ip : Option (Interp K)) (s' : St K)
    (h : outputPhase s xold x y ip = some s') : s'.prevEvent = s.prevEvent := by
  unfold outputPhase at h
  split at h
  · split at h
    · injection h with h; rw [← h]; rfl
    · exact sampleStep_prevEvent _ _ _ _ _ _ _ h
  · injection h with h; rw [← h]; exact outputMode2_prevEvent ..

theorem denseCollect_cfg (L : Lits K) (s : St K) (xold x : K) (ip : Option (Interp K)) :
    (denseCollect L s xold x ip).cfg = s.cfg := by
  unfold denseCollect; cases ip <;> simp only <;> (try split) <;> rfl

/-- **C09.** after every callback that returns, whatever path it took (including the terminal early return and the
    first-step-enforcement returns, which come after the event block), `prev_event` holds the event functions at the
    accepted point just reported — so the next callback compares against the previous accepted endpoint -/
theorem step_prevEvent (L : Lits K) (gEv : K → Array K → Array K) (s : St K) (xold x : K) (y : Array K)
    (ip : Option (Interp K)) (hn : 0 < s.cfg.size) (s' : St K) (f : Flag)
    (h : step L gEv s xold x y ip = some (s', f)) : s'.prevEvent = gEv x y := by
  unfold step at h
  have hn' : 0 < (denseCollect L s xold x ip).cfg.size := by rw [denseCollect_cfg]; exact hn
  split at h
  · cases h
  · rename_i s1 he
    injection h with h; injection h with h1 _
    rw [← h1]; exact eventPhase_prevEvent L gEv _ xold x y ip hn' _ _ he
  · rename_i s1 he
    split at h
    · rename_i s2 ho
      injection h with h; injection h with h1 _
      rw [← h1, outputPhase_prevEvent _ _ _ _ _ _ ho]
      exact eventPhase_prevEvent L gEv _ xold x y ip hn' s1 false he
    · cases h

/-- **C10/C12.** the handler returns `Interrupt` exactly when a terminal event fired in this callback, otherwise
    `Continue`; it never asks for anything else (no `ModifiedSolution`) -/
theorem step_flag (L : Lits K) (gEv : K → Array K → Array K) (s : St K) (xold x : K) (y : Array K)
    (ip : Option (Interp K)) (s' : St K) (f : Flag) (h : step L gEv s xold x y ip = some (s', f)) :
    (f = .interrupt ↔ ∃ s1, eventPhase L gEv (denseCollect L s xold x ip) xold x y ip = some (s1, true)) := by
  unfold step at h
  split at h
  · cases h
  · rename_i s1 he
    injection h with h; injection h with _ h2
    constructor
    · intro _; exact ⟨s1, he⟩
    · intro _; exact h2.symm
  · rename_i s1 he
    split at h
    · injection h with h; injection h with _ h2
      constructor
      · intro hf; rw [← h2] at hf; cases hf
      · rintro ⟨s2, h2'⟩; rw [he] at h2'; injection h2' with h2'; injection h2' with _ hb; cases hb
    · cases h

/-- **C10.** on `Interrupt` the final sample is the event point, and the samples and `prev_event` are final: the
    output-sampling phase is not run -/
theorem eventPhase_fired_last_sample (L : Lits K) (gEv : K → Array K → Array K) (s : St K) (xold x : K) (y : Array K)
    (ip : Option (Interp K)) (s' : St K) (h : eventPhase L gEv s xold x y ip = some (s', true)) :
    ∃ te, s'.t.back? = some te := by
  unfold eventPhase at h
  by_cases hn : 0 < s.cfg.size
  · simp only [gt_iff_lt, hn, if_true] at h
    split at h
    · injection h with h; injection h with _ hb; cases hb
    · split at h
      · cases h
      · split at h
        · cases h
        · rename_i lst log _ sorted _
          injection h with h; injection h with h1 h2
          obtain ⟨te, ye, i, _, ht⟩ := processEvs_fired _ _ _ _ sorted _ _ (Prod.ext rfl h2)
          exact ⟨te, by rw [← h1]; exact ht⟩
  · simp only [gt_iff_lt, hn, if_false] at h
    injection h with h; injection h with _ hb; cases hb

end
end SolOutM
