import IvpModel.Proofs.FieldNum
import IvpModel.Gen.Common
import Mathlib.Tactic.Linarith
set_option linter.unusedSectionVars false
set_option linter.unusedVariables false

namespace HinitBound
noncomputable section
variable {K : Type} [Field K] [LinearOrder K] [IsStrictOrderedRing K] [SqrtPow K]

theorem final_bound (A B H1 M s : K) (hA : 0 ≤ A) (hB : 0 ≤ B) (hH : 0 ≤ H1) (hs : |s| ≤ 1) :
    abs (abs (min (min (min A B) H1) (abs M)) * s) ≤ abs M := by
  have h0 : 0 ≤ min (min (min A B) H1) |M| := le_min (le_min (le_min hA hB) hH) (abs_nonneg _)
  rw [abs_mul, abs_abs, abs_of_nonneg h0]
  calc min (min (min A B) H1) |M| * |s| ≤ min (min (min A B) H1) |M| * 1 := mul_le_mul_of_nonneg_left hs h0
    _ = min (min (min A B) H1) |M| := mul_one _
    _ ≤ |M| := min_le_right _ _

theorem ite_nn {c : Prop} [Decidable c] {a b : K} (ha : 0 ≤ a) (hb : 0 ≤ b) : 0 ≤ (if c then a else b) := by
  split <;> assumption

theorem signum_abs_le (a : K) : |(Num.signum a : K)| ≤ 1 := by
  rw [num_signum]; split <;> simp

/-- **C11, automatically chosen first step.**  Whatever the right-hand side returns, the step proposed by `hinit`
    (translated from src/methods/mod.rs) is not longer than the `hmax` it is given — provided `powf` of a non-negative
    base is not negative. -/
theorem hinit_le_hmax {n : Nat} (hpow : ∀ a b : K, 0 ≤ a → 0 ≤ SqrtPow.pow a b)
    (f : Nat → K → Vector K n → Vector K n) (atol rtol y f0 : Vector K n) (hmax posneg x : K) (iord : Nat) :
    |(Gen.Common.hinit f atol rtol y f0 hmax posneg x iord).1| ≤ |hmax| := by
  unfold Gen.Common.hinit
  dsimp only
  refine final_bound _ _ _ _ _ (abs_nonneg _) (mul_nonneg ?_ (abs_nonneg _)) ?_ (signum_abs_le _)
  · rw [num_lit]; norm_num
  · refine ite_nn ?_ ?_
    · rw [num_fmax]; refine le_max_of_le_left ?_; rw [num_lit]; norm_num
    · rw [num_pow]
      refine hpow _ _ (div_nonneg (by rw [num_lit]; norm_num) ?_)
      rw [num_fmax]; exact le_max_of_le_left (abs_nonneg _)
end
end HinitBound
