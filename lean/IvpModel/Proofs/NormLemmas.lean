/-
  The translated error norms are weighted RMS norms; consequences used by C01 and C13:
  spec as a finite sum, monotonicity in the tolerances, evenness, scale invariance, invariance under duplication,
  bounds of the step-size controller.  Exact arithmetic (any ordered field); `sqrt`/`pow` enter only through the laws
  stated as hypotheses (`SqrtLaws`), which the real functions satisfy.
-/
import IvpModel.Proofs.SymLemmas
import IvpModel.Gen.Radau

noncomputable section
variable {K : Type} [Field K] [LinearOrder K] [IsStrictOrderedRing K] [SqrtPow K]

/-- the two properties of `sqrt` the acceptance test relies on -/
structure SqrtLaws (K : Type) [Field K] [LinearOrder K] [SqrtPow K] : Prop where
  le_one : ∀ a : K, 0 ≤ a → (SqrtPow.sqrt a ≤ 1 ↔ a ≤ 1)
  mono : ∀ a b : K, 0 ≤ a → a ≤ b → SqrtPow.sqrt a ≤ SqrtPow.sqrt b

/-- `Σ_i (e_i / sk_i)²` -/
def errSum {n : Nat} (e sk : Fin n → K) : K := ∑ i, (e i / sk i) * (e i / sk i)

theorem errSum_nonneg {n : Nat} (e sk : Fin n → K) : 0 ≤ errSum e sk :=
  Finset.sum_nonneg fun i _ => mul_self_nonneg _

/-- the scale of the explicit methods: `atol_i + rtol_i · max(|y_i|, |ynew_i|)` -/
def skMax {n : Nat} (atol rtol y y1 : Vector K n) (i : Fin n) : K := atol[i] + rtol[i] * max |y[i]| |y1[i]|

theorem dopri5_errnorm_spec {n : Nat} (atol rtol y y1 e : Vector K n) :
    Gen.Dopri5.errnorm (atol := atol) (rtol := rtol) (y := y) (y1 := y1) (k4 := e)
      = SqrtPow.sqrt (errSum (fun i => e[i]) (skMax atol rtol y y1) / (n : K)) := by
  unfold Gen.Dopri5.errnorm Gen.Dopri5.errnorm_loop1
  show Num.sqrt ((Fin.foldl n (fun acc i => acc + _) _) / _) = _
  rw [foldl_add_eq_sum]
  simp [num_lit, errSum, skMax, Num.sqrt, Num.fmax, Num.abs, Num.ofNat]

theorem rk23_errnorm_spec {n : Nat} (atol rtol yt y e : Vector K n) :
    Gen.Rk23.errnorm (atol := atol) (rtol := rtol) (yt := yt) (y := y) (ye := e)
      = SqrtPow.sqrt (errSum (fun i => e[i]) (skMax atol rtol yt y) / (n : K)) := by
  unfold Gen.Rk23.errnorm Gen.Rk23.errnorm_loop1
  show Num.sqrt ((Fin.foldl n (fun acc i => acc + _) _) / _) = _
  rw [foldl_add_eq_sum]
  simp [num_lit, errSum, skMax, Num.sqrt, Num.fmax, Num.abs, Num.ofNat]

theorem radau_errnorm_spec {n : Nat} (cont scal : Vector K n) :
    Gen.Radau.errnorm (cont := cont) (scal := scal)
      = SqrtPow.sqrt (errSum (fun i => cont[i]) (fun i => scal[i]) / (n : K)) := by
  unfold Gen.Radau.errnorm Gen.Radau.errnorm_loop1
  show Num.sqrt ((Fin.foldl n (fun acc i => acc + _) _) / _) = _
  rw [foldl_add_eq_sum]
  simp [num_lit, errSum, Num.sqrt, Num.ofNat]

/-- the refined estimate of a first / retried step is measured in the same norm -/
theorem radau_errnorm2_spec {n : Nat} (cont scal : Vector K n) :
    Gen.Radau.errnorm2 (cont := cont) (scal := scal)
      = SqrtPow.sqrt (errSum (fun i => cont[i]) (fun i => scal[i]) / (n : K)) := by
  unfold Gen.Radau.errnorm2 Gen.Radau.errnorm2_loop1
  show Num.sqrt ((Fin.foldl n (fun acc i => acc + _) _) / _) = _
  rw [foldl_add_eq_sum]
  simp [num_lit, errSum, Num.sqrt, Num.ofNat]

theorem radau_scal0_spec {n : Nat} (atol rtol y : Vector K n) (i : Fin n) :
    (Gen.Radau.scal0 (atol := atol) (rtol := rtol) (y := y)).scal[i] = atol[i] + rtol[i] * |y[i]| := by
  simp [Gen.Radau.scal0, Gen.Radau.scal0_loop1, Num.abs]

/-- **C13 / C01.**  Radau's tolerance transformation, per component -/
theorem radau_tolAdjust_spec {n : Nat} (atol rtol : Vector K n) (i : Fin n) :
    (Gen.Radau.tolAdjust (atol := atol) (rtol := rtol) (expm := Gen.Radau.expm)).rtol[i]
        = (1 : K) / 10 * SqrtPow.pow rtol[i] ((2 : K) / 3) ∧
    (Gen.Radau.tolAdjust (atol := atol) (rtol := rtol) (expm := Gen.Radau.expm)).atol[i]
        = (1 : K) / 10 * SqrtPow.pow rtol[i] ((2 : K) / 3) * (atol[i] / rtol[i]) := by
  simp [Gen.Radau.tolAdjust, Gen.Radau.tolAdjust_loop1, Gen.Radau.expm, num_lit, Num.pow]

/-! ### acceptance, monotonicity -/

/-- acceptance `err ≤ 1` is `Σ (e_i/sk_i)² ≤ n` -/
theorem accept_iff (L : SqrtLaws K) {n : Nat} (hn : 0 < n) (e sk : Fin n → K) :
    SqrtPow.sqrt (errSum e sk / (n : K)) ≤ 1 ↔ errSum e sk ≤ (n : K) := by
  have hpos : (0 : K) < (n : K) := by exact_mod_cast hn
  rw [L.le_one _ (div_nonneg (errSum_nonneg e sk) hpos.le), div_le_one hpos]

/-- every accepted step has `|e_i| ≤ √n · sk_i` in each component (stated squared) -/
theorem accepted_componentwise (L : SqrtLaws K) {n : Nat} (hn : 0 < n) (e sk : Fin n → K)
    (hacc : SqrtPow.sqrt (errSum e sk / (n : K)) ≤ 1) (i : Fin n) : (e i / sk i) * (e i / sk i) ≤ (n : K) := by
  have h := (accept_iff L hn e sk).mp hacc
  refine le_trans ?_ h
  exact Finset.single_le_sum (f := fun i => (e i / sk i) * (e i / sk i)) (fun j _ => mul_self_nonneg _) (Finset.mem_univ i)

/-- **C01, tolerance monotonicity.**  Looser tolerances (componentwise larger positive scales) never increase the
    error sum: a trial accepted under `sk` is accepted under `sk' ≥ sk`. -/
theorem errSum_anti {n : Nat} (e sk sk' : Fin n → K) (hpos : ∀ i, 0 < sk i) (hle : ∀ i, sk i ≤ sk' i) :
    errSum e sk' ≤ errSum e sk := by
  apply Finset.sum_le_sum
  intro i _
  have h1 : 0 < sk' i := lt_of_lt_of_le (hpos i) (hle i)
  have : |e i / sk' i| ≤ |e i / sk i| := by
    rw [abs_div, abs_div, abs_of_pos h1, abs_of_pos (hpos i)]
    exact div_le_div_of_nonneg_left (abs_nonneg _) (hpos i) (hle i)
  calc (e i / sk' i) * (e i / sk' i) = |e i / sk' i| * |e i / sk' i| := by rw [abs_mul_abs_self]
    _ ≤ |e i / sk i| * |e i / sk i| := mul_le_mul this this (abs_nonneg _) (abs_nonneg _)
    _ = (e i / sk i) * (e i / sk i) := by rw [abs_mul_abs_self]

theorem skMax_mono {n : Nat} (atol atol' rtol rtol' y y1 : Vector K n)
    (ha : ∀ i : Fin n, atol[i] ≤ atol'[i]) (hr : ∀ i : Fin n, rtol[i] ≤ rtol'[i]) (i : Fin n) :
    skMax atol rtol y y1 i ≤ skMax atol' rtol' y y1 i := by
  unfold skMax
  have : 0 ≤ max |y[i]| |y1[i]| := le_max_of_le_left (abs_nonneg _)
  nlinarith [ha i, hr i]

theorem tol_monotone_dopri5 (L : SqrtLaws K) {n : Nat} (hn : 0 < n) (atol atol' rtol rtol' y y1 e : Vector K n)
    (ha : ∀ i : Fin n, atol[i] ≤ atol'[i]) (hr : ∀ i : Fin n, rtol[i] ≤ rtol'[i]) (hpos : ∀ i, 0 < skMax atol rtol y y1 i)
    (hacc : Gen.Dopri5.errnorm (atol := atol) (rtol := rtol) (y := y) (y1 := y1) (k4 := e) ≤ 1) :
    Gen.Dopri5.errnorm (atol := atol') (rtol := rtol') (y := y) (y1 := y1) (k4 := e) ≤ 1 := by
  rw [dopri5_errnorm_spec] at hacc ⊢
  rw [accept_iff L hn] at hacc ⊢
  exact le_trans (errSum_anti _ _ _ hpos (skMax_mono atol atol' rtol rtol' y y1 ha hr)) hacc

theorem tol_monotone_rk23 (L : SqrtLaws K) {n : Nat} (hn : 0 < n) (atol atol' rtol rtol' yt y e : Vector K n)
    (ha : ∀ i : Fin n, atol[i] ≤ atol'[i]) (hr : ∀ i : Fin n, rtol[i] ≤ rtol'[i]) (hpos : ∀ i, 0 < skMax atol rtol yt y i)
    (hacc : Gen.Rk23.errnorm (atol := atol) (rtol := rtol) (yt := yt) (y := y) (ye := e) ≤ 1) :
    Gen.Rk23.errnorm (atol := atol') (rtol := rtol') (yt := yt) (y := y) (ye := e) ≤ 1 := by
  rw [rk23_errnorm_spec] at hacc ⊢
  rw [accept_iff L hn] at hacc ⊢
  exact le_trans (errSum_anti _ _ _ hpos (skMax_mono atol atol' rtol rtol' yt y ha hr)) hacc

/-! ### symmetries of the norm (C13) -/
theorem errSum_neg {n : Nat} (e sk : Fin n → K) : errSum (fun i => -e i) sk = errSum e sk := by
  unfold errSum; apply Finset.sum_congr rfl; intro i _; ring

theorem errSum_scale {n : Nat} (c : K) (hc : c ≠ 0) (e sk : Fin n → K) :
    errSum (fun i => c * e i) (fun i => c * sk i) = errSum e sk := by
  unfold errSum; apply Finset.sum_congr rfl; intro i _
  rw [mul_div_mul_left _ _ hc]

theorem skMax_scale {n : Nat} (c : K) (hc : 0 < c) (atol rtol y y1 : Vector K n) (i : Fin n) :
    skMax (vsmul c atol) rtol (vsmul c y) (vsmul c y1) i = c * skMax atol rtol y y1 i := by
  unfold skMax vsmul
  simp only [Vector.getElem_ofFn, Fin.getElem_fin, abs_mul, abs_of_pos hc]
  rw [← mul_max_of_nonneg _ _ hc.le]; ring

/-- scaling state, error and atol by `c > 0` leaves the DOPRI5 error norm unchanged -/
theorem dopri5_errnorm_scale {n : Nat} (c : K) (hc : 0 < c) (atol rtol y y1 e : Vector K n) :
    Gen.Dopri5.errnorm (atol := vsmul c atol) (rtol := rtol) (y := vsmul c y) (y1 := vsmul c y1) (k4 := vsmul c e)
      = Gen.Dopri5.errnorm (atol := atol) (rtol := rtol) (y := y) (y1 := y1) (k4 := e) := by
  rw [dopri5_errnorm_spec, dopri5_errnorm_spec]
  congr 2
  have : (fun i : Fin n => (vsmul c e)[i]) = fun i => c * e[i] := by funext i; simp [vsmul]
  rw [this, show skMax (vsmul c atol) rtol (vsmul c y) (vsmul c y1) = fun i => c * skMax atol rtol y y1 i from
    funext (skMax_scale c hc atol rtol y y1)]
  exact errSum_scale c hc.ne' _ _

/-- negating the error estimate (time reflection negates `h·k`-differences… and nothing else) leaves it unchanged -/
theorem dopri5_errnorm_even {n : Nat} (atol rtol y y1 e : Vector K n) :
    Gen.Dopri5.errnorm (atol := atol) (rtol := rtol) (y := y) (y1 := y1) (k4 := vneg e)
      = Gen.Dopri5.errnorm (atol := atol) (rtol := rtol) (y := y) (y1 := y1) (k4 := e) := by
  rw [dopri5_errnorm_spec, dopri5_errnorm_spec]
  congr 2
  have : (fun i : Fin n => (vneg e)[i]) = fun i => -e[i] := by funext i; simp [vneg]
  rw [this]; exact errSum_neg _ _

/-- **C13, duplication.**  For `m` stacked copies the mean of the squared scaled errors — the quantity under the
    square root — equals that of one copy, so the error norm and every accept/reject decision are the same
    (exact arithmetic; in binary64 the two sums differ by rounding). -/
theorem errSum_copies (m n : Nat) (hm : 0 < m) (hn : 0 < n) (e sk : Fin n → K) :
    errSum (n := m * n) (fun i => e ⟨i.val % n, Nat.mod_lt _ hn⟩) (fun i => sk ⟨i.val % n, Nat.mod_lt _ hn⟩) / ((m * n : Nat) : K)
      = errSum e sk / (n : K) := by
  unfold errSum
  rw [sum_copies m n (fun j => (e j / sk j) * (e j / sk j)) hn]
  have h1 : (m : K) ≠ 0 := by exact_mod_cast hm.ne'
  have h2 : (n : K) ≠ 0 := by exact_mod_cast hn.ne'
  push_cast
  field_simp

/-! ### the step-size controller of DOPRI5 / DOP853 stays inside its bounds (C01) -/
theorem dopri5_hnew_bounds {n : Nat} (err expo1 facold beta facc2 facc1 safety h : K) (h2 : 0 < facc2) (h12 : facc2 ≤ facc1) :
    let r := Gen.Dopri5.hnewCalc (n := n) (err := err) (expo1 := expo1) (facold := facold) (beta := beta) (facc2 := facc2)
      (facc1 := facc1) (safety_factor := safety) (h := h)
    facc2 ≤ r.fac ∧ r.fac ≤ facc1 ∧ r.hnew = h / r.fac ∧ |h| / facc1 ≤ |r.hnew| ∧ |r.hnew| ≤ |h| / facc2 := by
  intro r
  have hf : r.fac = max facc2 (min facc1 (SqrtPow.pow err expo1 / SqrtPow.pow facold beta / safety)) := rfl
  have hlo : facc2 ≤ r.fac := by rw [hf]; exact le_max_left _ _
  have hhi : r.fac ≤ facc1 := by rw [hf]; exact max_le h12 (min_le_left _ _)
  have hpos : 0 < r.fac := lt_of_lt_of_le h2 hlo
  have hh : r.hnew = h / r.fac := rfl
  refine ⟨hlo, hhi, hh, ?_, ?_⟩
  · rw [hh, abs_div, abs_of_pos hpos]
    exact div_le_div_of_nonneg_left (abs_nonneg _) hpos hhi
  · rw [hh, abs_div, abs_of_pos hpos]
    exact div_le_div_of_nonneg_left (abs_nonneg _) h2 hlo
