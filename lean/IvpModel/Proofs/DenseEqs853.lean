/- DOP853 dense output: weights and endpoint identities (see `Proofs/DenseEqs.lean`). -/
import IvpModel.Proofs.DenseEqs

noncomputable section
variable {K : Type} [Field K] [LinearOrder K] [IsStrictOrderedRing K] [SqrtPow K]
open Gen.Dop853

/-- stage values as the dense code sees them: K1, K6..K12 from the trial stages (K11, K12 live in `k2`, `k3`),
    K13 = f(x+h, y_new) (new `k4`), K14..K16 the extra stages (written to `k10`, `k2`, `k3`).
    Stages 2..5 do not enter (their weights are zero). -/
def kv853 {n : Nat} (K1 K6 K7 K8 K9 K10 K11 K12 K13 K14 K15 K16 Z : Vector K n) (l : Nat) : Vector K n :=
  if l = 0 then K1 else if l = 5 then K6 else if l = 6 then K7 else if l = 7 then K8 else if l = 8 then K9
  else if l = 9 then K10 else if l = 10 then K11 else if l = 11 then K12 else if l = 12 then K13
  else if l = 13 then K14 else if l = 14 then K15 else if l = 15 then K16 else Z

set_option maxHeartbeats 2000000 in
theorem dop853_dense_weights {n : Nat} (y K1 K6 K7 K8 K9 K10 K11 K12 K13 K14 K15 K16 Z : Vector K n)
    (xold h θ : K) (hh : h ≠ 0) :
    let k5 := (combine (k1 := K1) (k6 := K6) (k7 := K7) (k8 := K8) (k9 := K9) (k10 := K10) (k2 := K11) (k3 := K12)
                (y := y) (h := h) (k4 := Z)).k5
    let d := dense1 (y := y) (k5 := k5) (h := h) (k1 := K1) (k4 := K13) (k6 := K6) (k7 := K7) (k8 := K8) (k9 := K9)
                (k10 := K10) (k2 := K11) (k3 := K12)
    let e := dense2 (h := h) (cont4 := d.cont4) (cont5 := d.cont5) (cont6 := d.cont6) (cont7 := d.cont7)
                (k4 := K13) (k10 := K14) (k2 := K15) (k3 := K16)
    interpolate (xi := xold + θ * h) (xold := xold) (h := h) (cont0 := d.cont0) (cont1 := d.cont1) (cont2 := d.cont2)
        (cont3 := d.cont3) (cont4 := e.cont4) (cont5 := e.cont5) (cont6 := e.cont6) (cont7 := e.cont7)
      = denseVal dop853Dense 16 h θ y (kv853 K1 K6 K7 K8 K9 K10 K11 K12 K13 K14 K15 K16 Z) := by
  simp only [interpolate, interpolate_loop1, dense1, dense1_loop1, dense2, dense2_loop1, combine, combine_loop1,
    denseVal, dop853Dense, dop853Tab, kv853, theta_cancel _ _ _ hh]
  dense_finish

theorem dop853_interp_left {n : Nat} (c0 c1 c2 c3 c4 c5 c6 c7 : Vector K n) (xold h : K) :
    interpolate (xi := xold) (xold := xold) (h := h) (cont0 := c0) (cont1 := c1) (cont2 := c2) (cont3 := c3)
      (cont4 := c4) (cont5 := c5) (cont6 := c6) (cont7 := c7) = c0 := by
  simp only [interpolate, interpolate_loop1, theta_zero]
  ends_finish

/-- right end = accepted state `k5`; block 0 = state before the step -/
theorem dop853_interp_right {n : Nat} (y k5 K1 K13 K6 K7 K8 K9 K10 K11 K12 c4 c5 c6 c7 : Vector K n) (xold h : K) (hh : h ≠ 0) :
    let d := dense1 (y := y) (k5 := k5) (h := h) (k1 := K1) (k4 := K13) (k6 := K6) (k7 := K7) (k8 := K8) (k9 := K9)
                (k10 := K10) (k2 := K11) (k3 := K12)
    interpolate (xi := xold + h) (xold := xold) (h := h) (cont0 := d.cont0) (cont1 := d.cont1) (cont2 := d.cont2)
        (cont3 := d.cont3) (cont4 := c4) (cont5 := c5) (cont6 := c6) (cont7 := c7) = k5 ∧ d.cont0 = y := by
  simp only [interpolate, interpolate_loop1, dense1, dense1_loop1, theta_one _ _ hh]
  ends_finish

/-- the three extra stages are rows 14–16 of the extended tableau; `k4` holds K13 -/
theorem dop853_extra_stage_eqs {n : Nat} (Kc : Nat → Vector K n) (y K1 K6 K7 K8 K9 K10 K11 K12 K13 : Vector K n) (x h : K) :
    (extraStages (f := openF Kc) (y := y) (h := h) (k1 := K1) (k7 := K7) (k8 := K8) (k9 := K9) (k10 := K10) (k2 := K11)
        (k3 := K12) (k4 := K13) (x := x) (k6 := K6)).calls
      = #[(x + C14 * h, Vector.ofFn fun i => y[i] + h * rowDot (dop853Dense.A.getD 13 []) (kv853 K1 K6 K7 K8 K9 K10 K11 K12 K13 (Kc 0) (Kc 1) (Kc 2) K1) i),
          (x + C15 * h, Vector.ofFn fun i => y[i] + h * rowDot (dop853Dense.A.getD 14 []) (kv853 K1 K6 K7 K8 K9 K10 K11 K12 K13 (Kc 0) (Kc 1) (Kc 2) K1) i),
          (x + C16 * h, Vector.ofFn fun i => y[i] + h * rowDot (dop853Dense.A.getD 15 []) (kv853 K1 K6 K7 K8 K9 K10 K11 K12 K13 (Kc 0) (Kc 1) (Kc 2) K1) i)] := by
  simp [extraStages, extraStages_loop1, extraStages_loop2, extraStages_loop3, rowDot, dop853Dense, dop853Tab, openF, kv853,
    num_lit, qval, z, List.zipIdx]
  stage_finish
end
